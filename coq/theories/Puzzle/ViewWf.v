(* C11: the program of solve_view is well formed on every board; composition with C02 (solve_reports). *)
From Coq Require Import ZArith List Bool Arith Lia.
From Cspuz Require Import Lib.PyErr Core.Expr Core.Program Graph.GraphModel Graph.CycleLemmas Graph.Avc
     Backend.Z3 Backend.Z3Oracle Backend.Z3SolveProofs Backend.SolveLoop Backend.SolveZ3Proofs
     Puzzle.PuzzleBase Puzzle.ModelBase Puzzle.ModelLemmas Puzzle.SatAbs Puzzle.SolveCompose Puzzle.WfLemmas
     Puzzle.Rules_view Puzzle.View Puzzle.ViewProofs.
Import ListNotations.
Local Open Scope nat_scope.

(* ---------------------------------------------------------------- add_answer_key over a list of variables *)
Definition key_true (ks : list bool) (i : nat) : Prop := nth_error ks i = Some true.

Lemma set_nth_length {A} (l : list A) : forall n a, length (set_nth l n a) = length l.
Proof. induction l as [|x l IH]; intros [|n] a; simpl; auto. Qed.
Lemma set_nth_same {A} (l : list A) : forall n a, n < length l -> nth_error (set_nth l n a) n = Some a.
Proof. induction l as [|x l IH]; intros [|n] a H; simpl in *; try lia; [reflexivity|]. apply IH. lia. Qed.
Lemma set_nth_other {A} (l : list A) : forall n a i, i <> n -> nth_error (set_nth l n a) i = nth_error l i.
Proof.
  induction l as [|x l IH]; intros [|n] a [|i] H; simpl; try reflexivity; try congruence.
  apply IH. congruence.
Qed.

Definition var_id (e : expr) : option nat := match e with BVar i | IVar i _ _ => Some i | _ => None end.

Lemma add_answer_key_spec st e st' : add_answer_key st e = Ok st' ->
  vars st' = vars st /\ Program.cons st' = Program.cons st /\ length (keys st') = length (keys st) /\
  (forall i, key_true (keys st) i -> key_true (keys st') i) /\
  (forall i, var_id e = Some i -> key_true (keys st') i).
Proof.
  unfold add_answer_key. intros H.
  assert (G : forall id, var_id e = Some id ->
            match nth_error (keys st) id with
            | Some true => Err ValueError
            | Some false => Ok {| vars := vars st; keys := set_nth (keys st) id true; cons := Program.cons st |}
            | None => Err IndexError end = Ok st' ->
            vars st' = vars st /\ Program.cons st' = Program.cons st /\ length (keys st') = length (keys st) /\
            (forall i, key_true (keys st) i -> key_true (keys st') i) /\
            (forall i, var_id e = Some i -> key_true (keys st') i)).
  { intros id Hid H'. destruct (nth_error (keys st) id) as [[|]|] eqn:E; try discriminate.
    inversion H'; subst st'; simpl. split; [reflexivity|]. split; [reflexivity|].
    assert (L : id < length (keys st)) by (apply nth_error_Some; congruence).
    split; [apply set_nth_length|]. split.
    - intros i Hi. unfold key_true in *. destruct (Nat.eq_dec i id) as [->|Ne]; [congruence|].
      rewrite set_nth_other by exact Ne. exact Hi.
    - intros i Hi. rewrite Hid in Hi. inversion Hi; subst i. apply set_nth_same. exact L. }
  destruct e; try discriminate; eapply G; try reflexivity; exact H.
Qed.

Lemma foldM_add_keys l : forall st st', foldM add_answer_key st l = Ok st' ->
  vars st' = vars st /\ Program.cons st' = Program.cons st /\ length (keys st') = length (keys st) /\
  (forall i, key_true (keys st) i -> key_true (keys st') i) /\
  (forall e i, In e l -> var_id e = Some i -> key_true (keys st') i).
Proof.
  induction l as [|a l IH]; intros st st' H; simpl in H.
  - inversion H; subst. repeat split; auto. intros e i [].
  - unfold bind in H. destruct (add_answer_key st a) as [s|] eqn:E; [|discriminate].
    apply add_answer_key_spec in E. destruct E as [A1 [A2 [A3 [A4 A5]]]].
    apply IH in H. destruct H as [B1 [B2 [B3 [B4 B5]]]].
    split; [congruence|]. split; [congruence|]. split; [congruence|]. split; [auto|].
    intros e i [<-|He] Hi; [apply B4; apply A5; exact Hi|eapply B5; eauto].
Qed.

Lemma key_true_app ks more i : key_true ks i -> key_true (ks ++ more) i.
Proof.
  unfold key_true. intros H. rewrite nth_error_app1; [exact H|]. apply nth_error_Some. congruence.
Qed.

(* ---------------------------------------------------------------- the posted constraints *)
Section V.
  Variables h w : nat.
  Hypothesis Hh : 1 <= h.
  Hypothesis Hw : 1 <= w.
  Let n := h * w.
  Definition view_vars : list vdecl :=
    (repeat DBool n ++ repeat (DInt 0 (Z.of_nat n - 1)) n ++ repeat DBool n) ++ view_more h w.
  Let vs := view_vars.

  Lemma ok_vw_has y x : y < h -> x < w -> ok vs true (vw_has w (y, x)) = true.
  Proof.
    intros Hy Hx. unfold vw_has, vs, view_vars. rewrite <- !app_assoc.
    apply (ok_bvar_block [] n). simpl. split; [lia|]. apply (cidx_lt h w); assumption.
  Qed.


  Lemma ok_at (pre post : list vdecl) lo hi k i :
    vs = pre ++ repeat (DInt lo hi) n ++ post -> length pre = k -> k <= i < k + n -> ok vs false (IVar i lo hi) = true.
  Proof. intros E L Hi. rewrite E. apply ok_ivar_block. lia. Qed.

  Let P3 := repeat DBool n ++ repeat (DInt 0 (Z.of_nat n - 1)) n ++ repeat DBool n.
  Let Dn := repeat (DInt 0 (Z.of_nat (h + w))) n.
  Let Dh := repeat (DInt 0 (Z.of_nat h - 1)) n.
  Let Dw := repeat (DInt 0 (Z.of_nat w - 1)) n.

  Lemma lens3 : length P3 = 3 * n.
  Proof. unfold P3. rewrite !app_length, !repeat_length. lia. Qed.

  Lemma vs_eq : vs = P3 ++ Dn ++ Dh ++ Dh ++ Dw ++ Dw.
  Proof. reflexivity. Qed.

  Lemma cell_lt_n y x : y < h -> x < w -> cidx w (y, x) < n.
  Proof. intros Hy Hx. apply (cidx_lt h w); assumption. Qed.

  Lemma ok_vw_num y x : y < h -> x < w -> ok vs false (vw_num h w (y, x)) = true.
  Proof.
    intros Hy Hx. pose proof (cell_lt_n y x Hy Hx). unfold vw_num. fold n.
    apply (ok_at P3 (Dh ++ Dh ++ Dw ++ Dw) _ _ (3 * n)); [exact vs_eq|apply lens3|lia].
  Qed.
  Lemma ok_vw_up y x : y < h -> x < w -> ok vs false (vw_up h w (y, x)) = true.
  Proof.
    intros Hy Hx. pose proof (cell_lt_n y x Hy Hx). unfold vw_up. fold n.
    apply (ok_at (P3 ++ Dn) (Dh ++ Dw ++ Dw) _ _ (4 * n)).
    - rewrite vs_eq, <- !app_assoc. reflexivity.
    - rewrite app_length, lens3. unfold Dn. rewrite repeat_length. lia.
    - lia.
  Qed.
  Lemma ok_vw_down y x : y < h -> x < w -> ok vs false (vw_down h w (y, x)) = true.
  Proof.
    intros Hy Hx. pose proof (cell_lt_n y x Hy Hx). unfold vw_down. fold n.
    apply (ok_at (P3 ++ Dn ++ Dh) (Dw ++ Dw) _ _ (5 * n)).
    - rewrite vs_eq, <- !app_assoc. reflexivity.
    - rewrite !app_length, lens3. unfold Dn, Dh. rewrite !repeat_length. lia.
    - lia.
  Qed.
  Lemma ok_vw_left y x : y < h -> x < w -> ok vs false (vw_left h w (y, x)) = true.
  Proof.
    intros Hy Hx. pose proof (cell_lt_n y x Hy Hx). unfold vw_left. fold n.
    apply (ok_at (P3 ++ Dn ++ Dh ++ Dh) Dw _ _ (6 * n)).
    - rewrite vs_eq, <- !app_assoc. reflexivity.
    - rewrite !app_length, lens3. unfold Dn, Dh. rewrite !repeat_length. lia.
    - lia.
  Qed.
  Lemma ok_vw_right y x : y < h -> x < w -> ok vs false (vw_right h w (y, x)) = true.
  Proof.
    intros Hy Hx. pose proof (cell_lt_n y x Hy Hx). unfold vw_right. fold n.
    apply (ok_at (P3 ++ Dn ++ Dh ++ Dh ++ Dw) [] _ _ (7 * n)).
    - rewrite vs_eq, <- !app_assoc, app_nil_r. reflexivity.
    - rewrite !app_length, lens3. unfold Dn, Dh, Dw. rewrite !repeat_length. lia.
    - lia.
  Qed.

  Lemma ok_vw_zero a : ok vs false a = true -> ok vs true (vw_zero a) = true.
  Proof. intros H. unfold vw_zero. autorewrite with okdb. exact H. Qed.
  Lemma ok_vw_step a b p : ok vs false a = true -> ok vs true b = true -> ok vs false p = true ->
    ok vs true (vw_step a b p) = true.
  Proof. intros Ha Hb Hp. unfold vw_step. autorewrite with okdb. rewrite Ha, Hb, Hp. reflexivity. Qed.

  Lemma view_up_ok : forallb (ok vs true) (view_up h w) = true.
  Proof.
    unfold view_up. rewrite forallb_app, !forallb_map. apply andb_true_intro. split.
    - apply forallb_seq. intros x Hx. apply ok_vw_zero, ok_vw_up; lia.
    - apply forallb_cells. intros y x Hy Hx. apply ok_vw_step; [apply ok_vw_up|apply ok_vw_has|apply ok_vw_up]; lia.
  Qed.
  Lemma view_down_ok : forallb (ok vs true) (view_down h w) = true.
  Proof.
    unfold view_down. rewrite forallb_app, !forallb_map. apply andb_true_intro. split.
    - apply forallb_seq. intros x Hx. apply ok_vw_zero, ok_vw_down; lia.
    - apply forallb_cells. intros y x Hy Hx. apply ok_vw_step; [apply ok_vw_down|apply ok_vw_has|apply ok_vw_down]; lia.
  Qed.
  Lemma view_left_ok : forallb (ok vs true) (view_left h w) = true.
  Proof.
    unfold view_left. rewrite forallb_app, !forallb_map. apply andb_true_intro. split.
    - apply forallb_seq. intros y Hy. apply ok_vw_zero, ok_vw_left; lia.
    - apply forallb_cells. intros y x Hy Hx. apply ok_vw_step; [apply ok_vw_left|apply ok_vw_has|apply ok_vw_left]; lia.
  Qed.
  Lemma view_right_ok : forallb (ok vs true) (view_right h w) = true.
  Proof.
    unfold view_right. rewrite forallb_app, !forallb_map. apply andb_true_intro. split.
    - apply forallb_seq. intros y Hy. apply ok_vw_zero, ok_vw_right; lia.
    - apply forallb_cells. intros y x Hy Hx. apply ok_vw_step; [apply ok_vw_right|apply ok_vw_has|apply ok_vw_right]; lia.
  Qed.

  Lemma view_local_ok grid : forallb (ok vs true) (view_local h w grid) = true.
  Proof.
    unfold view_local. rewrite !forallb_app, !forallb_map, forallb_flat_map.
    repeat (apply andb_true_intro; split).
    - apply forallb_cells. intros y x Hy Hx. unfold view_sum. autorewrite with okdb.
      rewrite ok_vw_has, ok_vw_num, ok_vw_up, ok_vw_left, ok_vw_down, ok_vw_right by assumption. reflexivity.
    - apply forallb_cells. intros y x Hy Hx. unfold view_ne. autorewrite with okdb.
      rewrite !ok_vw_has, !ok_vw_num by lia. reflexivity.
    - apply forallb_cells. intros y x Hy Hx. unfold view_ne. autorewrite with okdb.
      rewrite !ok_vw_has, !ok_vw_num by lia. reflexivity.
    - apply forallb_cells. intros y x Hy Hx. unfold view_blank. autorewrite with okdb.
      rewrite !ok_vw_has, !ok_vw_num by lia. reflexivity.
    - apply forallb_cells. intros y x Hy Hx. unfold view_clue. cbn [fst snd]. cbv zeta.
      destruct (0 <=? _)%Z; [|reflexivity]. autorewrite with okdb.
      rewrite !ok_vw_has, !ok_vw_num by lia. reflexivity.
  Qed.

  Lemma view_extra_ok grid : forallb (ok vs true) (view_extra h w grid) = true.
  Proof.
    unfold view_extra. rewrite !forallb_app, view_up_ok, view_down_ok, view_left_ok, view_right_ok, view_local_ok.
    reflexivity.
  Qed.
End V.

(* ---------------------------------------------------------------- the model, statement by statement *)
Lemma int_array_ok st k lo hi st' l : int_array st k lo hi = Ok (st', l) ->
  st' = {| vars := vars st ++ repeat (DInt lo hi) k; keys := keys st ++ repeat false k; cons := Program.cons st |} /\
  l = map (fun i => IVar i lo hi) (seq (next_id st) k).
Proof.
  unfold int_array. destruct (hi <? lo)%Z; [discriminate|]. rewrite int_vars_spec. intros H. inversion H. split; reflexivity.
Qed.

Lemma view_model_shape_wf pb st : solve_view_model pb = Ok st ->
  let h := dim pb 0 in let w := dim pb 1 in
  (wf_state st /\ wf_keys st) /\
  (forall i, In i (seq (3 * (h * w)) (h * w) ++ seq 0 (h * w)) -> key_true (keys st) i).
Proof.
  unfold solve_view_model. cbv zeta. set (h := dim pb 0). set (w := dim pb 1). set (n := h * w).
  unfold bool_array. rewrite bool_vars_spec. cbn [vars keys Program.cons empty_state app]. unfold next_id at 1. cbn [vars empty_state length].
  set (st0 := {| vars := repeat DBool n; keys := repeat false n; cons := [] |}).
  destruct (post_avc st0 _ (grid_graph h w) false false) as [st1|] eqn:Hp; [|discriminate].
  destruct (int_array st1 n 0 (Z.of_nat (h + w))) as [[st2 nums]|] eqn:E2; [|discriminate].
  destruct (foldM add_answer_key st2 nums) as [st3|] eqn:E3; [|discriminate].
  destruct (foldM add_answer_key st3 _) as [st4|] eqn:E4; [|discriminate].
  destruct (int_array st4 n 0 (Z.of_nat h - 1)) as [[st5 l5]|] eqn:E5; [|discriminate].
  destruct (int_array (ensure st5 (view_up h w)) n 0 (Z.of_nat h - 1)) as [[st6 l6]|] eqn:E6; [|discriminate].
  destruct (int_array (ensure st6 (view_down h w)) n 0 (Z.of_nat w - 1)) as [[st7 l7]|] eqn:E7; [|discriminate].
  destruct (int_array (ensure st7 (view_left h w)) n 0 (Z.of_nat w - 1)) as [[st8 l8]|] eqn:E8; [|discriminate].
  destruct (Nat.ltb _ n); [discriminate|].
  intros H. inversion H; subst st; clear H.
  (* the board has cells *)
  pose proof (AvcProofs.post_avc_nonempty _ _ _ _ _ Hp) as Hn. change (nv (grid_graph h w)) with n in Hn.
  assert (Hh : 1 <= h) by (destruct h; [unfold n in Hn; simpl in Hn; lia|lia]).
  assert (Hw : 1 <= w) by (destruct w; [unfold n in Hn; rewrite Nat.mul_0_r in Hn; lia|lia]).
  (* the helper *)
  destruct (post_avc_wf _ _ _ _ _ Hp) as [[W1 K1] [V1 Ky1]].
  { reflexivity. } { unfold wf_keys; simpl. rewrite !repeat_length. reflexivity. } { simpl. apply ok_grid_vars. }
  change (nv (grid_graph h w)) with n in V1, Ky1. cbn [vars keys st0] in V1, Ky1.
  assert (L1 : length (vars st1) = 3 * n) by (rewrite V1, !app_length, !repeat_length; lia).
  assert (LK1 : length (keys st1) = 3 * n) by (rewrite Ky1, !app_length, !repeat_length; lia).
  apply int_array_ok in E2. destruct E2 as [-> ->].
  apply foldM_add_keys in E3. destruct E3 as [V3 [C3 [LK3 [_ T3]]]]. cbn [vars keys Program.cons] in V3, C3, LK3.
  apply foldM_add_keys in E4. destruct E4 as [V4 [C4 [LK4 [P4 T4]]]].
  apply int_array_ok in E5. destruct E5 as [-> _].
  apply int_array_ok in E6. destruct E6 as [-> _].
  apply int_array_ok in E7. destruct E7 as [-> _].
  apply int_array_ok in E8. destruct E8 as [-> _].
  unfold ensure. cbn [vars keys Program.cons].
  split; [split|].
  - (* wf_state *)
    unfold wf_state. cbn [vars Program.cons].
    rewrite V4, V3, C4, C3.
    assert (Ev : ((((vars st1 ++ repeat (DInt 0 (Z.of_nat (h + w))) n) ++ repeat (DInt 0 (Z.of_nat h - 1)) n) ++
                   repeat (DInt 0 (Z.of_nat h - 1)) n) ++ repeat (DInt 0 (Z.of_nat w - 1)) n) ++
                 repeat (DInt 0 (Z.of_nat w - 1)) n = view_vars h w).
    { unfold view_vars, view_more. fold n. rewrite V1, <- !app_assoc. reflexivity. }
    rewrite Ev.
    assert (Ec : ((((Program.cons st1 ++ view_up h w) ++ view_down h w) ++ view_left h w) ++ view_right h w) ++
                 view_local h w (sec pb 1) = Program.cons st1 ++ view_extra h w (sec pb 1)).
    { unfold view_extra. rewrite <- !app_assoc. reflexivity. }
    rewrite Ec. apply wf_cons_app.
    + unfold view_vars. fold n. rewrite <- V1. apply wf_cons_more. exact W1.
    + apply view_extra_ok; assumption.
  - (* wf_keys *)
    unfold wf_keys. cbn [vars keys]. rewrite V4, V3, !app_length, !repeat_length, LK4, LK3, app_length, repeat_length. lia.
  - (* the answer keys *)
    intros i Hi. repeat apply key_true_app. apply in_app_or in Hi. destruct Hi as [Hi|Hi].
    + apply P4. apply (T3 (IVar i 0 (Z.of_nat (h + w)))); [|reflexivity].
      apply in_map_iff. exists i. split; [reflexivity|]. unfold next_id. rewrite L1. exact Hi.
    + apply (T4 (BVar i)); [|reflexivity]. apply in_map. exact Hi.
Qed.

Lemma view_model_wf pb st : solve_view_model pb = Ok st -> wf_state st /\ wf_keys st.
Proof. intros H. exact (proj1 (view_model_shape_wf pb st H)). Qed.

Theorem view_solve_reports : forall oracle, oracle_sound_on oracle -> oracle_complete_on oracle ->
  forall h w grid st,
  solve_view_model [[Z.of_nat h; Z.of_nat w]; grid] = Ok st ->
  solve_reports oracle st (seq (3 * (h * w)) (h * w) ++ seq 0 (h * w)) (rules_view [[Z.of_nat h; Z.of_nat w]; grid]).
Proof.
  intros oracle Os Oc h w grid st Hst.
  apply (solve_reports_intro oracle gsem_avc); try assumption.
  - exact (view_model_wf _ _ Hst).
  - pose proof (proj2 (view_model_shape_wf _ _ Hst)) as Hk. cbv zeta in Hk. rewrite dim2_0, dim2_1 in Hk. exact Hk.
  - intros ans. exact (view_exact h w grid st ans Hst).
Qed.
