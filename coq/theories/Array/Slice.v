(* C13 — model of cspuz/array.py indexing (Array2D._getitem_impl, _parse_range,
   _range_size, 1-D __getitem__, flatten, reshape) and the nested-list
   specification it is compared with.  No proofs in this file. *)
From Coq Require Import ZArith List Bool.
From Cspuz Require Import Lib.PyErr.
Import ListNotations.
Open Scope Z_scope.
Open Scope res_scope.

Definition py_len {A} (l : list A) : Z := Z.of_nat (length l).

(* Python list indexing l[i]: negative indices wrap once, IndexError outside. *)
Definition py_index {A} (l : list A) (i : Z) : res A :=
  let n := py_len l in
  let j := if i <? 0 then i + n else i in
  if (j <? 0) || (n <=? j) then Err IndexError
  else match nth_error l (Z.to_nat j) with Some a => Ok a | None => Err IndexError end.

(* CPython slice.indices(len)  (Objects/sliceobject.c, _PySlice_GetLongIndices) *)
Definition slice_indices (len : Z) (start stop step : option Z) : res (Z * Z * Z) :=
  let st := match step with None => 1 | Some s => s end in
  if st =? 0 then Err ValueError else
  let lower := if st <? 0 then -1 else 0 in
  let upper := if st <? 0 then len - 1 else len in
  let adj (v : option Z) (dflt : Z) :=
    match v with
    | None => dflt
    | Some v => if v <? 0 then Z.max (v + len) lower else Z.min v upper
    end in
  Ok (adj start (if st <? 0 then upper else lower),
      adj stop (if st <? 0 then lower else upper), st).

(* range(s, e, st) by iteration, as the language reference defines it *)
Fixpoint range_up (fuel : nat) (s e st : Z) : list Z :=
  match fuel with
  | O => []
  | S f => if s <? e then s :: range_up f (s + st) e st else []
  end.
Fixpoint range_down (fuel : nat) (s e st : Z) : list Z :=
  match fuel with
  | O => []
  | S f => if e <? s then s :: range_down f (s + st) e st else []
  end.
Definition py_range (s e st : Z) : list Z :=
  if 0 <? st then range_up (Z.to_nat (e - s)) s e st
  else if st <? 0 then range_down (Z.to_nat (s - e)) s e st
  else [].

(* Python list slicing l[start:stop:step] *)
Definition py_slice {A} (l : list A) (start stop step : option Z) : res (list A) :=
  let* '(s, e, st) := slice_indices (py_len l) start stop step in
  mapM (py_index l) (py_range s e st).

Inductive key := KInt (i : Z) | KSlice (start stop step : option Z).

Inductive result (A : Type) :=
  | RScalar (a : A)
  | R1 (l : list A)
  | R2 (h w : Z) (l : list A).
Arguments RScalar {A} a.
Arguments R1 {A} l.
Arguments R2 {A} h w l.

(* ------------------------------------------------------------------ model *)

(* array.py::_parse_range *)
Definition parse_range (size : Z) (k : key) : res (bool * Z * Z * Z) :=
  match k with
  | KInt p0 =>
      let p := if p0 <? 0 then p0 + size else p0 in
      if (0 <=? p) && (p <? size) then Ok (true, p, p + 1, 1) else Err IndexError
  | KSlice a b c =>
      let* '(s, e, st) := slice_indices size a b c in Ok (false, s, e, st)
  end.

(* array.py::_range_size *)
Definition range_size (start stop step : Z) : res Z :=
  if step =? 0 then Err ValueError
  else if 0 <? step then
    (if stop <=? start then Ok 0 else Ok ((stop - start + step - 1) / step))
  else
    (if start <=? stop then Ok 0 else Ok ((start - stop - step - 1) / (- step))).

Fixpoint zseq (start : Z) (n : nat) : list Z :=
  match n with O => [] | S k => start :: zseq (start + 1) k end.

(* Array2D._getitem_impl for a tuple key (ky, kx) *)
Definition getitem_pair {A} (h w : Z) (data : list A) (ky kx : key) : res (result A) :=
  let* '(y_fixed, y_start, y_stop, y_step) := parse_range h ky in
  let* '(x_fixed, x_start, x_stop, x_step) := parse_range w kx in
  let* y_size := range_size y_start y_stop y_step in
  let* x_size := range_size x_start x_stop x_step in
  if y_fixed && x_fixed then
    let* a := py_index data (y_start * w + x_start) in Ok (RScalar a)
  else
    let* l := mapM (fun i =>
                let y := y_start + y_step * (i / x_size) in
                let x := x_start + x_step * (i mod x_size) in
                py_index data (y * w + x)) (zseq 0 (Z.to_nat (y_size * x_size))) in
    if negb (y_fixed || x_fixed) then Ok (R2 y_size x_size l) else Ok (R1 l).

Inductive key2 :=
  | K1 (k : key)                 (* a[k]      == a[k, :] *)
  | K2 (ky kx : key)             (* a[ky, kx] *)
  | KL (l : list (Z * Z)).       (* a[[(y, x), ...]] *)

Definition getitem2 {A} (h w : Z) (data : list A) (k : key2) : res (result A) :=
  match k with
  | K1 k => getitem_pair h w data k (KSlice None None None)
  | K2 ky kx => getitem_pair h w data ky kx
  | KL l =>
      let* r := mapM (fun '(y, x) =>
                  let* e := getitem_pair h w data (KInt y) (KInt x) in
                  match e with RScalar a => Ok a | _ => Err OtherError end) l in
      Ok (R1 r)
  end.

(* BoolArray1D / IntArray1D.__getitem__ : delegate to the Python list *)
Definition getitem1 {A} (data : list A) (k : key) : res (result A) :=
  match k with
  | KInt i => let* a := py_index data i in Ok (RScalar a)
  | KSlice a b c => let* l := py_slice data a b c in Ok (R1 l)
  end.

(* flatten: the data list as it is; reshape: same data, new shape, size check *)
Definition flatten2 {A} (h w : Z) (data : list A) : list A := data.
Definition reshape {A} (data : list A) (h w : Z) : res (result A) :=
  if py_len data =? h * w then Ok (R2 h w data) else Err ValueError.

(* ------------------------------------------------------------ specification *)
(* The array with shape (h, w) seen as the Python list of lists [rows].
   An integer index on an axis is checked against that axis (IndexError exactly
   when list indexing on a list of that length would raise); a slice selects
   the positions of range over slice.indices(len). *)

Inductive sel := Single (i : Z) | Many (l : list Z).

Definition select (len : Z) (k : key) : res sel :=
  match k with
  | KInt i =>
      if (i <? - len) || (len <=? i) then Err IndexError
      else Ok (Single (if i <? 0 then i + len else i))
  | KSlice a b c =>
      let* '(s, e, st) := slice_indices len a b c in Ok (Many (py_range s e st))
  end.

Definition cell {A} (rows : list (list A)) (y x : Z) : res A :=
  let* r := py_index rows y in py_index r x.

Definition spec_pair {A} (h w : Z) (rows : list (list A)) (ky kx : key) : res (result A) :=
  let* sy := select h ky in
  let* sx := select w kx in
  match sy, sx with
  | Single y, Single x => let* a := cell rows y x in Ok (RScalar a)
  | Single y, Many xs => let* l := mapM (cell rows y) xs in Ok (R1 l)
  | Many ys, Single x => let* l := mapM (fun y => cell rows y x) ys in Ok (R1 l)
  | Many ys, Many xs =>
      let* ll := mapM (fun y => mapM (cell rows y) xs) ys in
      Ok (R2 (py_len ys) (py_len xs) (concat ll))
  end.

Definition spec_getitem2 {A} (h w : Z) (rows : list (list A)) (k : key2) : res (result A) :=
  match k with
  | K1 k => spec_pair h w rows k (KSlice None None None)
  | K2 ky kx => spec_pair h w rows ky kx
  | KL l => let* r := mapM (fun '(y, x) =>
                               if (y <? - h) || (h <=? y) || (x <? - w) || (w <=? x) then Err IndexError
                               else cell rows y x) l in Ok (R1 r)
  end.

Definition rect {A} (h w : Z) (rows : list (list A)) : Prop :=
  py_len rows = h /\ 0 <= w /\ Forall (fun r => py_len r = w) rows.
