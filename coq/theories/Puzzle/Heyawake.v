(* C11 Tier 1 - model of cspuz/puzzle/heyawake.py::solve_heyawake(height, width, rooms, clues), all board shapes:
       is_black = solver.bool_array((height, width)); solver.add_answer_key(is_black)
       graph.active_vertices_not_adjacent(solver, is_black)      # ~(a[1:, :] & a[:-1, :]), ~(a[:, 1:] & a[:, :-1])
       graph.active_vertices_connected(solver, ~is_black)
       for i, room: if clues[i] >= 0: ensure(count_true(is_black[room]) == clues[i])
       for every cell (y, x) with a room border below it: look for the next room border further down;
           if there is one, between y2 and y2 + 1: ensure(fold_or(is_black[y:y2 + 2, x]))
       the same to the right
   The line constraints are generated here column by column / row by row (the Python generates them cell by
   cell): the posted constraints are the same as a multiset, which is what the capture tie compares.
   The calls into cspuz.graph: the grid form of active_vertices_not_adjacent posts the two shifted-slice
   conjunctions written out below (property C08 proves them equivalent to independence in the grid graph);
   active_vertices_connected is the model of property C04 (Graph/Avc.v::post_avc on the grid graph); on a board
   without cells it raises ValueError.
   The problem uses the encoding of Rules_heyawake.v ([[h; w]; room ids; one clue per room]); room i is the list of
   the cells with room id i in row-major order.  No proofs here. *)
From Coq Require Import ZArith List Bool Arith.
From Cspuz Require Import Lib.PyErr Core.Expr Core.Program Graph.GraphModel Graph.Avc
     Puzzle.PuzzleBase Puzzle.ModelBase Puzzle.Rules_norinori Puzzle.Norinori Puzzle.Akari.
Import ListNotations.
Local Open Scope nat_scope.

Definition bv (w : nat) (c : nat * nat) : expr := BVar (cidx w c).
Definition nand2 (w : nat) (a b : nat * nat) : expr := BNode NOT [BNode AND [bv w a; bv w b]].

Definition heyawake_not_adjacent (h w : nat) : list expr :=
  map (fun '(y, x) => nand2 w (S y, x) (y, x)) (cells (h - 1) w) ++
  map (fun '(y, x) => nand2 w (y, S x) (y, x)) (cells h (w - 1)).

Definition room_of (room : list Z) (w : nat) (c : nat * nat) : Z := at2 room w (fst c) (snd c).

(* the cells from the one before a room border up to the first cell behind the next border; [r] is the room
   of the last collected cell *)
Fixpoint window (room : list Z) (w : nat) (r : Z) (l : list (nat * nat)) (acc : list (nat * nat)) : option (list (nat * nat)) :=
  match l with
  | [] => None
  | c :: rest => if (room_of room w c =? r)%Z then window room w r rest (acc ++ [c]) else Some (acc ++ [c])
  end.
Fixpoint line_constraints (room : list Z) (w : nat) (l : list (nat * nat)) : list expr :=
  match l with
  | c :: rest =>
      (match rest with
       | c' :: rest' =>
           if (room_of room w c' =? room_of room w c)%Z then []
           else match window room w (room_of room w c') rest' [c; c'] with
                | Some cs => [BNode OR (map (bv w) cs)]
                | None => []
                end
       | [] => []
       end) ++ line_constraints room w rest
  | [] => []
  end.

Definition heyawake_clues (h w : nat) (room clue : list Z) : list expr :=
  flat_map (fun i => let c := getz clue i in
                     if (0 <=? c)%Z then [BNode EQ [ct_vars (map (cidx w) (region_cells h w room i)); PyInt c]] else [])
           (seq 0 (length clue)).

Definition heyawake_extra (h w : nat) (room clue : list Z) : list expr :=
  heyawake_clues h w room clue ++
  flat_map (fun x => line_constraints room w (column h x)) (seq 0 w) ++
  flat_map (fun y => line_constraints room w (row w y)) (seq 0 h).

Definition solve_heyawake_model (pb : problem) : res state :=
  let h := dim pb 0 in let w := dim pb 1 in
  match post_avc (bool_grid_state (h * w) (heyawake_not_adjacent h w))
                 (map (fun i => BNode NOT [BVar i]) (seq 0 (h * w))) (grid_graph h w) false false with
  | Ok st1 => Ok (ensure st1 (heyawake_extra h w (sec pb 1) (sec pb 2)))
  | Err e => Err e
  end.
