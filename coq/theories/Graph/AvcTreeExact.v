(* C04: the stretch-goal statement of AvcProofs.v is a theorem, and
   avc_acyclic_exact restated with the bridge (no-cycle) definition of trees. *)
From Coq Require Import ZArith List Bool Arith Lia.
From Cspuz Require Import Lib.PyErr Core.Expr Core.Program Core.Build
  Graph.GraphModel Graph.ReachProofs Graph.Avc Graph.AvcCert Graph.AvcSem Graph.AvcProofs
  Graph.AvcTree.
Import ListNotations.
Local Open Scope nat_scope.

Theorem tree_iff_no_cycle : tree_iff_no_cycle_statement.
Proof. exact tree_iff_bridges_loop_free. Qed.

(* acyclic=True: the posted constraints can be completed exactly when the
   active vertices are connected and every induced edge between two distinct
   active vertices is a bridge of the induced subgraph (no cycle; two parallel
   induced edges are a cycle) -- for every well-formed multigraph, self-loops
   allowed (they are ignored) *)
Corollary avc_acyclic_exact_bridges st acts g st' en :
  wf_graph g = true -> fresh_below (next_id st) acts -> acts_defined en acts ->
  post_avc st acts g true false = Ok st' ->
  ((exists en', agree_below (next_id st) en en' /\
                in_bounds_from en' (next_id st) (new_vars st st') = true /\
                forallb (holds gsem_avc en') (new_cons st st') = true)
   <-> (connected g (pattern en acts) /\
        (forall e a b, nth_error (edges g) e = Some (a, b) ->
                       pattern en acts a = true -> pattern en acts b = true -> a <> b ->
                       ~ reach g (pattern en acts) (fun k => negb (Nat.eqb k e)) a b))).
Proof.
  intros Hwf Hfr Hdef Hpost.
  rewrite (avc_acyclic_exact st acts g st' en Hwf Hfr Hdef Hpost).
  apply tree_iff_bridges. exact Hwf.
Qed.
