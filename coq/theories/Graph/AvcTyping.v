(* A well-typed boolean tree (Core/Expr.v::wt, the trees the public
   constructors build) evaluates to a boolean under every assignment, so the
   hypothesis [acts_defined] of the C04 theorems follows from a syntactic check
   of the is_active list. *)
From Coq Require Import ZArith List Bool Arith Lia.
From Cspuz Require Import Lib.PyErr Core.Expr Core.Program Core.Build
  Graph.GraphModel Graph.Avc Graph.AvcSem Graph.AvcProofs.
Import ListNotations.
Local Open Scope nat_scope.

Section WtEval.
  Variable gsem : op -> list (option value) -> option bool.
  Variable en : env.
  Notation ev := (eval gsem en).

  Definition evaluates (a : expr) : Prop :=
    forall want, wt want a = true ->
      if want then exists b, ev a = Some (VB b) else exists z, ev a = Some (VI z).

  Lemma evals_ints args :
    Forall evaluates args -> forallb (wt false) args = true ->
    exists zs, map ev args = map Some (map VI zs).
  Proof.
    induction args as [|a args IH]; intros HF Hw; [exists []; reflexivity|].
    inversion HF; subst. simpl in Hw. apply andb_true_iff in Hw. destruct Hw as [Ha Hr].
    destruct (H1 false Ha) as [z Hz]. destruct (IH H2 Hr) as [zs Hzs].
    exists (z :: zs). simpl. rewrite Hz, Hzs. reflexivity.
  Qed.

  Lemma evals_bools args :
    Forall evaluates args -> forallb (wt true) args = true ->
    exists bs, map ev args = map Some (map VB bs).
  Proof.
    induction args as [|a args IH]; intros HF Hw; [exists []; reflexivity|].
    inversion HF; subst. simpl in Hw. apply andb_true_iff in Hw. destruct Hw as [Ha Hr].
    destruct (H1 true Ha) as [z Hz]. destruct (IH H2 Hr) as [zs Hzs].
    exists (z :: zs). simpl. rewrite Hz, Hzs. reflexivity.
  Qed.

  Lemma eval_bnode' o args : ev (BNode o args) = eval_bop gsem o (map ev args).
  Proof. reflexivity. Qed.
  Lemma eval_inode' o args : ev (INode o args) = eval_iop o (map ev args).
  Proof. reflexivity. Qed.

  Ltac two_ints HF Hw :=
    let zs := fresh "zs" in let Hzs := fresh "Hzs" in
    apply andb_true_iff in Hw; destruct Hw as [Hlen Hw];
    destruct (evals_ints _ HF Hw) as [zs Hzs];
    rewrite eval_bnode', Hzs;
    apply Nat.eqb_eq in Hlen;
    assert (length zs = 2) by (rewrite <- Hlen, <- (map_length ev), Hzs, !map_length; reflexivity);
    destruct zs as [|? [|? [|? ?]]]; try discriminate; eexists; reflexivity.

  Ltac two_bools HF Hw :=
    let zs := fresh "bs" in let Hzs := fresh "Hbs" in
    apply andb_true_iff in Hw; destruct Hw as [Hlen Hw];
    destruct (evals_bools _ HF Hw) as [zs Hzs];
    rewrite eval_bnode', Hzs;
    apply Nat.eqb_eq in Hlen;
    assert (length zs = 2) by (rewrite <- Hlen, <- (map_length ev), Hzs, !map_length; reflexivity);
    destruct zs as [|? [|? [|? ?]]]; try discriminate; eexists; reflexivity.

  Lemma wt_evaluates a : evaluates a.
  Proof.
    induction a using expr_ind2; intros want Hw; simpl in Hw.
    - subst want. eexists; reflexivity.
    - destruct want; [discriminate|]. eexists; reflexivity.
    - discriminate.
    - subst want. eexists; reflexivity.
    - destruct want; [discriminate|]. eexists; reflexivity.
    - apply andb_true_iff in Hw. destruct Hw as [-> Hw].
      destruct o; try discriminate.
      + (* BOOL_CONSTANT *)
        destruct args as [|[] [|]]; try discriminate. eexists; reflexivity.
      + two_ints H Hw.
      + two_ints H Hw.
      + two_ints H Hw.
      + two_ints H Hw.
      + two_ints H Hw.
      + two_ints H Hw.
      + (* NOT *)
        apply andb_true_iff in Hw; destruct Hw as [Hlen Hw].
        destruct (evals_bools _ H Hw) as [bs Hbs]. rewrite eval_bnode', Hbs.
        apply Nat.eqb_eq in Hlen.
        assert (length bs = 1) by (rewrite <- Hlen, <- (map_length ev), Hbs, !map_length; reflexivity).
        destruct bs as [|? [|? ?]]; try discriminate. eexists; reflexivity.
      + (* AND *)
        destruct (evals_bools _ H Hw) as [bs Hbs]. rewrite eval_bnode', Hbs. unfold eval_bop.
        rewrite all_some_map_Some, as_bools_map_VB. eexists; reflexivity.
      + (* OR *)
        destruct (evals_bools _ H Hw) as [bs Hbs]. rewrite eval_bnode', Hbs. unfold eval_bop.
        rewrite all_some_map_Some, as_bools_map_VB. eexists; reflexivity.
      + two_bools H Hw.
      + two_bools H Hw.
      + two_bools H Hw.
      + (* ALLDIFF *)
        destruct (evals_ints _ H Hw) as [zs Hzs]. rewrite eval_bnode', Hzs. unfold eval_bop.
        rewrite all_some_map_Some, as_ints_map_VI. eexists; reflexivity.
    - apply andb_true_iff in Hw. destruct Hw as [Hwant Hw]. apply negb_true_iff in Hwant. subst want.
      destruct o; try discriminate.
      + (* INT_CONSTANT *)
        destruct args as [|[] [|]]; try discriminate. eexists; reflexivity.
      + (* NEG *)
        apply andb_true_iff in Hw; destruct Hw as [Hlen Hw].
        destruct (evals_ints _ H Hw) as [zs Hzs]. rewrite eval_inode', Hzs.
        apply Nat.eqb_eq in Hlen.
        assert (length zs = 1) by (rewrite <- Hlen, <- (map_length ev), Hzs, !map_length; reflexivity).
        destruct zs as [|? [|? ?]]; try discriminate. eexists; reflexivity.
      + (* ADD *)
        apply andb_true_iff in Hw; destruct Hw as [Hlen Hw].
        destruct (evals_ints _ H Hw) as [zs Hzs]. rewrite eval_inode', Hzs.
        destruct zs as [|z zs]; [destruct args; discriminate|].
        rewrite map_map. rewrite (eval_add_ints (z :: zs)) by discriminate. eexists; reflexivity.
      + (* SUB *)
        apply andb_true_iff in Hw; destruct Hw as [Hlen Hw].
        destruct (evals_ints _ H Hw) as [zs Hzs]. rewrite eval_inode', Hzs.
        destruct zs as [|z zs]; [destruct args; discriminate|].
        unfold eval_iop. rewrite all_some_map_Some, as_ints_map_VI. eexists; reflexivity.
      + (* IF *)
        destruct args as [|c [|t [|f [|]]]]; try discriminate.
        apply andb_true_iff in Hw. destruct Hw as [Hw Hf]. apply andb_true_iff in Hw. destruct Hw as [Hc Ht].
        inversion H as [|? ? Pc H']; subst. inversion H' as [|? ? Pt H'']; subst.
        inversion H'' as [|? ? Pf _]; subst.
        destruct (Pc true Hc) as [vc Ec]. destruct (Pt false Ht) as [vt Et]. destruct (Pf false Hf) as [vf Ef].
        simpl. rewrite Ec, Et, Ef. eexists; reflexivity.
  Qed.
End WtEval.

(* the syntactic form of the hypothesis of the C04 theorems *)
Theorem wt_acts_defined en acts :
  forallb (wt true) acts = true -> acts_defined en acts.
Proof.
  intros H a Ha. rewrite forallb_forall in H.
  exact (wt_evaluates gsem_avc en a true (H a Ha)).
Qed.
