(* C17: the decoding direction of cspuz/problem_serializer.py (and yajilin.YajilinClue) as it is
   after C17's fixes.  Definitions only, no proofs.

   Codec/Comb.v (property C15's file) and Codec/Yajilin.v (C16's) are imported unchanged; only
   the definitions the four fixes touch are restated here, with the suffix F:

     hexint_deF     HexInt.deserialize checks _is_hex on the two / three digits after '-' / '+'
                    (int(s, 16) also accepts a sign, blanks, underscores: "--5" decoded to -5)
     rooms_de_rawF  Rooms._deserialize raises ValueError on a board without cells
                    (height 0 or width 0 made the inner Grid(.., width - 1) assert)
     yajilin_deF    YajilinClue.deserialize returns None for a negative number ("6-5")
     deserialize_urlF   deserialize_problem_as_url raises ValueError (not AssertionError) on
                    text that is not a puzzle URL when allow_failure is off

   deF is Comb.v's [de] with the first two replaced; everything else ([seq_de], [grid_de],
   [rooms_of_borders], [url_match], ...) is Comb.v's own definition.  The side conditions under
   which decoding is total ([dec_ok], [productive], [single]) are defined at the end.          *)
From Coq Require Import ZArith List Ascii Bool NArith.
From Cspuz Require Import Lib.PyErr Codec.Comb Codec.Legacy Codec.Url Codec.Yajilin Codec.Puzzles.
Import ListNotations.
Local Open Scope Z_scope.

(* ------------------------------------------------------------------ HexInt.deserialize *)
Definition hexint_deF (s : str) : dres :=
  match s with
  | [] => Ok None
  | c :: t =>
      if ascii_eqb c "-"%char then
        if Nat.ltb (length s) 3 then Ok None
        else if negb (is_hex (firstn 2 t)) then Ok None
        else match from_base16 (firstn 2 t) with Err e => Err e | Ok v => Ok (Some (3%nat, [VInt v])) end
      else if ascii_eqb c "+"%char then
        if Nat.ltb (length s) 4 then Ok None
        else if negb (is_hex (firstn 3 t)) then Ok None
        else match from_base16 (firstn 3 t) with Err e => Err e | Ok v => Ok (Some (4%nat, [VInt v])) end
      else if is_hex [c] then
        match from_base16 [c] with Err e => Err e | Ok v => Ok (Some (1%nat, [VInt v])) end
      else Ok None
  end.

(* ------------------------------------------------------------------ Rooms._deserialize *)
Definition rooms_de_rawF (e : env) (allow : bool) (s : str) : dres :=
  if (height e <=? 0) || (width e <=? 0) then Err ValueError
  else rooms_de_raw e allow s.

Definition rooms_deF (e : env) (skip allow : bool) (s : str) : dres :=
  skip_value_error skip (rooms_de_rawF e allow s).

(* ValuedRooms.deserialize over the fixed Rooms *)
Definition vrooms_deF (devc : str -> dres) (e : env) (skip allow : bool) (s : str) : dres :=
  match rooms_deF e skip allow s with
  | Err e' => Err e'
  | Ok None => Ok None
  | Ok (Some (ofs, rooms)) =>
      match nth_res rooms 0 with
      | Err e' => Err e'
      | Ok rooms0 =>
          match py_items rooms0 with
          | Err e' => Err e'
          | Ok rl =>
              match seq_de devc (Z.of_nat (length rl)) (skipn ofs s) with
              | Err e' => Err e'
              | Ok None => Ok None
              | Ok (Some (ofs2, values)) =>
                  match nth_res values 0 with
                  | Err e' => Err e'
                  | Ok values0 => Ok (Some ((ofs + ofs2)%nat, [VTup [rooms0; values0]]))
                  end
              end
          end
      end
  end.

(* ------------------------------------------------------------------ Combinator.deserialize (s = data[idx:]) *)
Fixpoint deF (e : env) (c : comb) (s : str) {struct c} : dres :=
  match c with
  | FixStr t => fixstr_de t s
  | Dict before after => dict_de_at before after s
  | Spaces sp sm => spaces_de sp sm s
  | DecInt => decint_de s
  | HexInt => hexint_deF s
  | IntSpaces sp mi ms => intspaces_de sp mi ms s
  | MultiDigit b d => md_de b d s
  | OneOf choices =>
      (fix oneof (l : list comb) : dres :=
         match l with
         | [] => Ok None
         | c1 :: l' => match deF e c1 s with
                       | Err e' => Err e'
                       | Ok (Some r) => Ok (Some r)
                       | Ok None => oneof l'
                       end
         end) choices
  | Tupl elements =>
      (fix tupl (l : list comb) (s' : str) (ofs : nat) (parts : list pv) : dres :=
         match l with
         | [] => Ok (Some (ofs, [VTup parts]))
         | c1 :: l' =>
             match deF e c1 s' with
             | Err e' => Err e'
             | Ok None => Ok None
             | Ok (Some (n_read, val)) => tupl l' (skipn n_read s') (ofs + n_read)%nat (parts ++ [VList val])
             end
         end) elements s 0%nat []
  | Seq c1 n => seq_de (deF e c1) n s
  | Grid c1 hw => grid_de (deF e c1) e hw s
  | Rooms skip allow => rooms_deF e skip allow s
  | ValuedRooms vc skip allow => vrooms_deF (deF e vc) e skip allow s
  | Custom k => cu_de (cust e) k s
  end.

Definition deF_at (e : env) (c : comb) (data : str) (idx : nat) : dres := deF e c (skipn idx data).

(* ------------------------------------------------------------------ yajilin.YajilinClue.deserialize *)
Definition yajilin_finishF (dir : ascii) (num : str) (n_read : nat) : res (option (nat * list pv)) :=
  if ascii_eqb dir "0"%char then Ok (Some (n_read, [VStr s_qq]))
  else if negb (in_1234 dir) then Ok None
  else if str_eqb num ["."%char] then Ok (Some (n_read, [VStr s_qq]))
  else match py_int num 16 with
       | Err e => Err e
       | Ok n => if n <? 0 then Ok None
                 else Ok (Some (n_read, [VStr (dir_char (ord dir - 48) :: py_str_int n)]))
       end.

Definition yajilin_deF (s : str) : res (option (nat * list pv)) :=
  match s with
  | c :: ((c1 :: t1) as t) =>
      if ascii_eqb c "-"%char then
        if Nat.ltb (length s) 5 then Ok None
        else yajilin_finishF c1 (firstn 3 t1) 5
      else if in_56789 c then
        if Nat.ltb (length s) 3 then Ok None
        else yajilin_finishF (chr (ord c - 5)) (firstn 2 t) 3
      else yajilin_finishF c [c1] 2
  | _ => Ok None
  end.

Definition yajilin_customF : custom :=
  {| cu_ser := fun _ data idx => yajilin_ser data idx; cu_de := fun _ s => yajilin_deF s |}.

(* ------------------------------------------------------------------ problem / URL level *)
Definition deserialize_problemF (cu : custom) (c : comb) (s : str) (h w : Z) : res (option pv) :=
  match deF (cu_env cu h w) c s with
  | Err e => Err e
  | Ok None => Ok None
  | Ok (Some (_, [p])) => Ok (Some p)
  | Ok (Some _) => Err AssertionError
  end.

Definition deserialize_urlF (cu : custom) (c : comb) (url : str) (al : allowed)
           (allow_failure return_size : bool) : res (option pv) :=
  match url_match url with
  | None => if allow_failure then Ok None else Err ValueError
  | Some (puzzle, wd, hd, body) =>
      match py_int wd 10 with
      | Err e => Err e
      | Ok w =>
      match py_int hd 10 with
      | Err e => Err e
      | Ok h =>
          if negb (allowed_ok al puzzle) then Err ValueError else
          match deserialize_problemF cu c body h w with
          | Err e => Err e
          | Ok None => Ok None
          | Ok (Some p) => Ok (Some (if return_size then VTup [VInt h; VInt w; p] else p))
          end
      end end
  end.

(* deserialize_<p>(url) of a puzzle module, from its translated wrapper record *)
Definition run_deF (cu : custom) (dw : de_wrapper) (url : str) : res (option pv) :=
  deserialize_urlF cu (dw_comb dw) url (dw_allowed dw) (dw_allow_failure dw) (dw_return_size dw).

(* ------------------------------------------------------------------ side conditions of totality *)
(* a successful decode reads at least one character or returns at least one item
   (otherwise the while loop of Seq.deserialize never ends) *)
Fixpoint productive (c : comb) : bool :=
  match c with
  | FixStr s => match s with [] => false | _ => true end
  | OneOf l => forallb productive l
  | _ => true
  end.

(* what the constructors / the caller must guarantee for decoding to be total *)
Fixpoint dec_ok (c : comb) : bool :=
  match c with
  | Dict b a => Nat.eqb (length b) (length a)
  | OneOf l | Tupl l => forallb dec_ok l
  | Seq c1 _ => dec_ok c1 && productive c1
  | Grid c1 None => dec_ok c1 && productive c1
  | Grid c1 (Some (h, w)) => dec_ok c1 && productive c1 && (0 <=? h * w)
  | ValuedRooms c1 _ _ => dec_ok c1 && productive c1
  | _ => true
  end.

(* a successful decode returns exactly one item (deserialize_problem asserts it) *)
Fixpoint single (c : comb) : bool :=
  match c with
  | Dict _ _ | DecInt | HexInt | Tupl _ | Seq _ _ | Grid _ _ | Rooms _ _ | ValuedRooms _ _ _ => true
  | OneOf l => forallb single l
  | _ => false
  end.

(* the allowed outcomes: a result, or the one exception class a caller is told to expect *)
Definition safe {A} (r : res A) : Prop :=
  match r with Ok _ => True | Err e => e = ValueError end.

(* a Combinator subclass plugged in as [Custom k] behaves like the library ones *)
Definition custom_total (cu : custom) : Prop :=
  forall k s, safe (cu_de cu k s) /\
    forall n l, cu_de cu k s = Ok (Some (n, l)) -> (n <= length s)%nat /\ length l = 1%nat.

Definition env_nonneg (e : env) : Prop := 0 <= height e /\ 0 <= width e.
