(* C11 Tier 1 - shakashaka, part 8: list lemmas used to compare the area of a white region with its bounding
   boxes: minimum / maximum / span of a list, counting by bins, products of ranges. *)
From Coq Require Import ZArith List Bool Arith Lia.
From Cspuz Require Import Graph.GraphModel Puzzle.PuzzleBase Puzzle.Rules_shakashaka.
Import ListNotations.
Local Open Scope nat_scope.

(* ---- minimum, maximum, span *)
Lemma fold_min_spec a r : In (fold_right Nat.min a r) (a :: r) /\ forall v, In v (a :: r) -> fold_right Nat.min a r <= v.
Proof.
  induction r as [|b r [IH1 IH2]]; cbn [fold_right].
  - split; [left; reflexivity|]. intros v [<-|[]]. lia.
  - split.
    + destruct (Nat.min_spec b (fold_right Nat.min a r)) as [[_ ->]|[_ ->]].
      * right. left. reflexivity.
      * destruct IH1 as [E|I]; [left; exact E|right; right; exact I].
    + intros v [<-|[<-|I]].
      * specialize (IH2 a (or_introl eq_refl)). lia.
      * lia.
      * specialize (IH2 v (or_intror I)). lia.
Qed.
Lemma fold_max_spec a r : In (fold_right Nat.max a r) (a :: r) /\ forall v, In v (a :: r) -> v <= fold_right Nat.max a r.
Proof.
  induction r as [|b r [IH1 IH2]]; cbn [fold_right].
  - split; [left; reflexivity|]. intros v [<-|[]]. lia.
  - split.
    + destruct (Nat.max_spec b (fold_right Nat.max a r)) as [[_ ->]|[_ ->]].
      * destruct IH1 as [E|I]; [left; exact E|right; right; exact I].
      * right. left. reflexivity.
    + intros v [<-|[<-|I]].
      * specialize (IH2 a (or_introl eq_refl)). lia.
      * lia.
      * specialize (IH2 v (or_intror I)). lia.
Qed.

Definition lmin (l : list nat) : nat := match l with [] => 0 | a :: r => fold_right Nat.min a r end.
Definition lmax (l : list nat) : nat := match l with [] => 0 | a :: r => fold_right Nat.max a r end.
Lemma span_minmax l : span l = lmax l - lmin l.
Proof. destruct l; reflexivity. Qed.
Lemma lmin_spec l : l <> [] -> In (lmin l) l /\ forall v, In v l -> lmin l <= v.
Proof. destruct l as [|a r]; [contradiction|]. intros _. apply fold_min_spec. Qed.
Lemma lmax_spec l : l <> [] -> In (lmax l) l /\ forall v, In v l -> v <= lmax l.
Proof. destruct l as [|a r]; [contradiction|]. intros _. apply fold_max_spec. Qed.
Lemma lmin_eq l m : In m l -> (forall v, In v l -> m <= v) -> lmin l = m.
Proof.
  intros Hi Hl. assert (Ne : l <> []) by (destruct l; [destruct Hi|discriminate]).
  destruct (lmin_spec l Ne) as [A B]. specialize (Hl _ A). specialize (B _ Hi). lia.
Qed.
Lemma lmax_eq l m : In m l -> (forall v, In v l -> v <= m) -> lmax l = m.
Proof.
  intros Hi Hl. assert (Ne : l <> []) by (destruct l; [destruct Hi|discriminate]).
  destruct (lmax_spec l Ne) as [A B]. specialize (Hl _ A). specialize (B _ Hi). lia.
Qed.

(* ---- counting *)
Lemma NoDup_filter {A} (f : A -> bool) l : NoDup l -> NoDup (filter f l).
Proof.
  induction 1 as [|a l Hn Hd IH]; cbn [filter]; [constructor|].
  destruct (f a); [constructor; [|exact IH]|exact IH]. intros H. apply filter_In in H. tauto.
Qed.
(* a predicate true on exactly the members of K *)
Lemma count_exact {A} (P : A -> bool) (L K : list A) :
  NoDup L -> NoDup K -> incl K L -> (forall x, In x L -> (P x = true <-> In x K)) -> count P L = length K.
Proof.
  intros NL NK HKL HP. unfold count. apply Nat.le_antisymm.
  - apply NoDup_incl_length; [apply NoDup_filter; exact NL|].
    intros x Hx. apply filter_In in Hx. apply HP; tauto.
  - apply NoDup_incl_length; [exact NK|]. intros x Hx. apply filter_In. split; [apply HKL; exact Hx|].
    apply HP; [apply HKL; exact Hx|exact Hx].
Qed.

Section Bins.
  Variables (A B : Type) (eqb : B -> B -> bool).
  Hypothesis eqb_spec : forall x y, eqb x y = true <-> x = y.
  Variable f : A -> B.

  Lemma count_one (b : B) bins : NoDup bins -> In b bins -> count (fun k => eqb b k) bins = 1.
  Proof.
    unfold count. induction 1 as [|k bins Hn Hd IH]; intros Hi; [destruct Hi|]. cbn [filter].
    destruct Hi as [->|Hi].
    - replace (eqb b b) with true by (symmetry; apply eqb_spec; reflexivity). cbn [length]. f_equal.
      assert (E : filter (fun k => eqb b k) bins = []).
      { clear IH Hd. induction bins as [|c r IHr]; [reflexivity|]. cbn [filter].
        destruct (eqb b c) eqn:Ec; [apply eqb_spec in Ec; subst c; exfalso; apply Hn; left; reflexivity|].
        apply IHr. intros H. apply Hn. right. exact H. }
      rewrite E. reflexivity.
    - destruct (eqb b k) eqn:Ek; [apply eqb_spec in Ek; subst k; contradiction|]. apply IH. exact Hi.
  Qed.

  (* every element falls in one bin: the length is the sum of the bin sizes *)
  Lemma length_by_bins (L : list A) (bins : list B) :
    NoDup bins -> (forall x, In x L -> In (f x) bins) ->
    length L = list_sum (map (fun b => count (fun x => eqb (f x) b) L) bins).
  Proof.
    intros Nb. induction L as [|x L IH]; intros Hin.
    - cbn [length]. clear Nb Hin. induction bins as [|b r IHr]; [reflexivity|]. cbn [map]. change (list_sum (?a :: ?l)) with (a + list_sum l). rewrite <- IHr. reflexivity.
    - cbn [length]. rewrite IH by (intros y Hy; apply Hin; right; exact Hy).
      assert (E : forall bs, list_sum (map (fun b => count (fun y => eqb (f y) b) (x :: L)) bs) =
                             count (fun k => eqb (f x) k) bs + list_sum (map (fun b => count (fun y => eqb (f y) b) L) bs)).
      { assert (LS : forall (a : nat) l, list_sum (a :: l) = a + list_sum l) by reflexivity.
        assert (CC : forall {T} (P : T -> bool) a l, count P (a :: l) = (if P a then 1 else 0) + count P l).
        { intros T P a l. unfold count. cbn [filter]. destruct (P a); reflexivity. }
        induction bs as [|b r IHr]; [reflexivity|]. cbn [map]. rewrite !LS, IHr, !CC. destruct (eqb (f x) b); lia. }
      rewrite E, (count_one (f x) bins Nb (Hin x (or_introl eq_refl))). reflexivity.
  Qed.
  Lemma length_const_bins (L : list A) (bins : list B) k :
    NoDup bins -> (forall x, In x L -> In (f x) bins) ->
    (forall b, In b bins -> count (fun x => eqb (f x) b) L = k) -> length L = k * length bins.
  Proof.
    intros Nb Hin Hk. rewrite (length_by_bins L bins Nb Hin).
    clear Hin Nb. induction bins as [|b r IH]; [cbn; lia|]. cbn [map length]. change (list_sum (?a :: ?l)) with (a + list_sum l).
    rewrite (Hk b (or_introl eq_refl)), IH by (intros c Hc; apply Hk; right; exact Hc). lia.
  Qed.
End Bins.

(* ---- products of ranges *)
Lemma NoDup_app_intro {A} (l1 l2 : list A) :
  NoDup l1 -> NoDup l2 -> (forall x, In x l1 -> ~ In x l2) -> NoDup (l1 ++ l2).
Proof.
  intros H1 H2 Hd. induction H1 as [|a l Hn Hl IH]; [exact H2|]. cbn [app]. constructor.
  - intros H. apply in_app_iff in H. destruct H as [H|H]; [contradiction|]. apply (Hd a (or_introl eq_refl) H).
  - apply IH. intros x Hx. apply Hd. right. exact Hx.
Qed.
Lemma NoDup_list_prod {A B} (l : list A) (l' : list B) : NoDup l -> NoDup l' -> NoDup (list_prod l l').
Proof.
  intros Hl Hl'. induction Hl as [|a l Hn Hd IH]; [constructor|]. cbn [list_prod].
  apply NoDup_app_intro; [|exact IH|].
  - clear IH. induction Hl' as [|b r Hb Hr IHr]; [constructor|]. cbn [map]. constructor; [|exact IHr].
    intros H. apply in_map_iff in H. destruct H as [y [E Hy]]. inversion E; subst. contradiction.
  - intros [x y] H1 H2. apply in_map_iff in H1. destruct H1 as [y' [E _]]. inversion E; subst.
    apply in_prod_iff in H2. tauto.
Qed.

Definition zseq (lo : Z) (n : nat) : list Z := map (fun i => (lo + Z.of_nat i)%Z) (seq 0 n).
Lemma zseq_in lo n z : In z (zseq lo n) <-> (lo <= z < lo + Z.of_nat n)%Z.
Proof.
  unfold zseq. rewrite in_map_iff. split.
  - intros [i [<- Hi]]. apply in_seq in Hi. lia.
  - intros H. exists (Z.to_nat (z - lo)). split; [lia|]. apply in_seq. lia.
Qed.
Lemma zseq_length lo n : length (zseq lo n) = n.
Proof. unfold zseq. rewrite map_length, seq_length. reflexivity. Qed.
Lemma zseq_NoDup lo n : NoDup (zseq lo n).
Proof.
  unfold zseq. generalize 0. induction n as [|n IH]; intros k; cbn [seq map]; constructor.
  - intros H. apply in_map_iff in H. destruct H as [i [E Hi]]. apply in_seq in Hi. lia.
  - apply IH.
Qed.

Lemma filter_all_length {A} (f : A -> bool) l : length (filter f l) = length l -> forall x, In x l -> f x = true.
Proof.
  induction l as [|a r IH]; intros H x Hx; [destruct Hx|]. cbn [filter] in H.
  assert (Le : length (filter f r) <= length r) by (clear; induction r as [|b r IHr]; [apply le_n|cbn [filter]; destruct (f b); cbn [length]; lia]).
  destruct (f a) eqn:Ea; cbn [length] in H.
  - destruct Hx as [<-|Hx]; [exact Ea|]. apply IH; [lia|exact Hx].
  - lia.
Qed.
Lemma flat_map_const_length {A B} (f : A -> list B) l k : (forall a, In a l -> length (f a) = k) -> length (flat_map f l) = k * length l.
Proof.
  induction l as [|a r IH]; intros H; [cbn; lia|]. cbn [flat_map length]. rewrite app_length, (H a (or_introl eq_refl)), IH by (intros b Hb; apply H; right; exact Hb). lia.
Qed.
