(* Well-formedness of combinator terms ("alternatives distinguishable by their
   leading character") and the domain of values a term encodes.  Definitions only. *)
From Coq Require Import ZArith List Ascii Bool NArith.
From Cspuz Require Import Lib.PyErr Codec.Comb.
Import ListNotations.
Local Open Scope Z_scope.

Definition all_chars : list ascii := map ascii_of_nat (seq 0 256).

Definition cset := ascii -> bool.
Definition disjoint (f g : cset) : bool := forallb (fun ch => negb (f ch && g ch)) all_chars.

Definition hd_is (s : str) (ch : ascii) : bool :=
  match s with c :: _ => ascii_eqb c ch | [] => false end.

Definition b36_lt (ch : ascii) (bound : Z) : bool :=
  is_alnum_lower_c ch && match digit_val ch with Some v => v <? bound | None => false end.

(* may [de] succeed (or raise) without seeing a character of its first set / may [ser] emit ""? *)
Fixpoint nullable (c : comb) : bool :=
  match c with
  | FixStr s => match s with [] => true | _ => false end
  | Dict _ after => existsb (fun a => match a with [] => true | _ => false end) after
  | Spaces _ _ | DecInt | HexInt | IntSpaces _ _ _ | MultiDigit _ _ => false
  | OneOf l => existsb nullable l
  | Tupl l => forallb nullable l
  | Seq c1 n => (n <=? 0) || nullable c1
  | Grid c1 None => nullable c1
  | Grid c1 (Some (h, w)) => (h * w <=? 0) || nullable c1
  | Rooms _ _ | ValuedRooms _ _ _ | Custom _ => true
  end.

(* characters on which [de c] may return something else than None *)
Fixpoint first (c : comb) (ch : ascii) {struct c} : bool :=
  match c with
  | FixStr s => hd_is s ch
  | Dict _ after => existsb (fun a => hd_is a ch) after
  | Spaces _ sm => is_alnum_lower_c ch && match digit_val ch with Some v => spaces_offset sm <? v | None => false end
  | DecInt => isdigit_c ch
  | HexInt => ascii_eqb ch "-"%char || ascii_eqb ch "+"%char || is_hex_c ch
  | IntSpaces _ mi ms => b36_lt ch ((mi + 1) * (ms + 1))
  | MultiDigit b d => b36_lt ch (b ^ Z.of_nat d)
  | OneOf l => existsb (fun c1 => first c1 ch) l
  | Tupl l =>
      (fix go (l : list comb) : bool :=
         match l with
         | [] => false
         | c1 :: l' => first c1 ch || (nullable c1 && go l')
         end) l
  | Seq c1 _ => first c1 ch
  | Grid c1 _ => first c1 ch
  | Rooms _ _ => b36_lt ch 32
  | ValuedRooms vc _ _ => b36_lt ch 32 || first vc ch
  | Custom _ => true
  end.

(* characters that would extend a match of [de c] *)
Fixpoint cont (c : comb) (ch : ascii) {struct c} : bool :=
  match c with
  | DecInt => isdigit_c ch
  | OneOf l | Tupl l => existsb (fun c1 => cont c1 ch) l
  | Seq c1 _ | Grid c1 _ | ValuedRooms c1 _ _ => cont c1 ch
  | Custom _ => true
  | _ => false
  end.

Definition follow_ok (c : comb) (rest : str) : Prop :=
  match rest with [] => True | ch :: _ => cont c ch = false end.

Fixpoint heads_distinct (l : list str) : bool :=
  match l with
  | [] => true
  | a :: t =>
      match a with
      | [] => false
      | ch :: _ => negb (existsb (fun b => hd_is b ch) t) && heads_distinct t
      end
  end.

(* pairwise: every element against every later one *)
Fixpoint pairwise (r : comb -> comb -> bool) (l : list comb) : bool :=
  match l with
  | [] => true
  | c1 :: t => forallb (r c1) t && pairwise r t
  end.

Fixpoint wf (c : comb) : bool :=
  match c with
  | FixStr _ | DecInt | HexInt | Rooms _ _ => true
  | Dict before after => Nat.eqb (length before) (length after) && heads_distinct after
  | Spaces _ sm => match digit_val sm with Some _ => true | None => false end
  | IntSpaces _ mi ms => (0 <=? mi) && (0 <=? ms) && ((mi + 1) * (ms + 1) <=? 36)
  | MultiDigit b d => (1 <=? b) && (b ^ Z.of_nat d <=? 36)
  | OneOf l =>
      forallb wf l && forallb (fun c1 => negb (nullable c1)) l
      && pairwise (fun a b => disjoint (first a) (first b)) l
  | Tupl l =>
      forallb wf l && pairwise (fun a b => disjoint (cont a) (first b)) l
  | Seq c1 _ | Grid c1 _ | ValuedRooms c1 _ _ => wf c1 && disjoint (cont c1) (first c1)
  | Custom _ => false
  end.
