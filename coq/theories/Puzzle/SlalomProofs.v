(* C11 Tier 1 - slalom: the program solve_slalom_model builds has exactly the rule-obeying loops as its answer-key
   readings, for every board in the puzzle's format (Rules_slalom.slalom_wf).
     part 1  what the posted constraints mean along the loop (soundness): passed = "on the loop", loop_dir orients the
             loop consistently, gate_ord counts the gates from the start; hence every admitted loop obeys the rules
     part 2  values of loop_dir / passed / gate_ord for a rule-obeying loop (completeness)
     part 3  slalom_exact through SlalomCompose.sl_compose (C06) *)
From Coq Require Import ZArith List Bool Arith Lia.
From Cspuz Require Import Lib.PyErr Core.Expr Core.Program Graph.GraphModel Graph.Cycle
     Puzzle.PuzzleBase Puzzle.SatAbs Puzzle.ModelBase Puzzle.ModelLemmas Puzzle.CycleFrameBase Puzzle.CycleCompose
     Puzzle.CycleLattice Puzzle.Rules_slalom Puzzle.Slalom Puzzle.SlalomCompose Puzzle.SlalomWalk Puzzle.SlalomSem
     Puzzle.SlalomLemmas.
Import ListNotations.
Local Open Scope nat_scope.

(* the rules without the shape of the answer and the single-loop condition *)
Definition slalom_local_on (h w oy ox : nat) (black gs : list Z) (on : nat -> bool) : bool :=
  let G := n_gates gs in
  let g := lattice h w in
  let sg := seg h w on in
  let visited := fun c : nat * nat => on_line g on (fst c * w + snd c) in
  let in_gate := fun k c => cell_in c (gate_cells gs k) in
  let is_gate_cell := fun c => existsb (fun k => in_gate k c) (seq 0 G) in
  let ordered := fun d0 =>
     let '(y1, x1) := step_dir oy ox d0 in
     let met := filter is_gate_cell (slalom_walk h w on oy ox (h * w) y1 x1 d0) in
     forallb (fun k => let n := gate_field gs k 4 in
                (n <? 1)%Z || match nth_error met (zn n - 1) with Some c => in_gate k c | None => false end)
             (seq 0 G) in
  Nat.ltb oy h && Nat.ltb ox w && visited (oy, ox) &&
  forallb (fun c => (at2 black w (fst c) (snd c) =? 0)%Z || negb (visited c)) (cells h w) &&
  forallb (fun k =>
     Nat.eqb (count visited (gate_cells gs k)) 1 &&
     forallb (fun c => negb (visited c) ||
                (if (gate_field gs k 2 =? 0)%Z then sg (fst c) (snd c) 0 && sg (fst c) (snd c) 1
                 else sg (fst c) (snd c) 2 && sg (fst c) (snd c) 3)) (gate_cells gs k)) (seq 0 G) &&
  existsb ordered (filter (sg oy ox) [0; 1; 2; 3]).

Definition slalom_local (h w oy ox : nat) (black gs : list Z) (ans : answer) : bool :=
  slalom_local_on h w oy ox black gs (fun k => isb (getz ans k)).

Lemma rules_slalom_local h w oy ox black gs ans :
  rules_slalom [[Z.of_nat h; Z.of_nat w]; [oy; ox]; black; gs] ans =
  Nat.eqb (length ans) (n_lattice_edges h w) && forallb is01 ans &&
  single_loop_b (lattice h w) (fun k => isb (getz ans k)) &&
  slalom_local h w (zn oy) (zn ox) black gs ans.
Proof.
  unfold rules_slalom, slalom_local, slalom_local_on.
  change (sec [[Z.of_nat h; Z.of_nat w]; [oy; ox]; black; gs] 1) with [oy; ox].
  change (sec [[Z.of_nat h; Z.of_nat w]; [oy; ox]; black; gs] 2) with black.
  change (sec [[Z.of_nat h; Z.of_nat w]; [oy; ox]; black; gs] 3) with gs.
  change (getz [oy; ox] 0) with oy. change (getz [oy; ox] 1) with ox.
  destruct (sl_dims h w [[oy; ox]; black; gs]) as [-> ->].
  rewrite !andb_assoc. reflexivity.
Qed.

(* ------------------------------------------------------------------------------------------------------ *)
(* 1. soundness                                                                                            *)
Section Sound.
  Variables (fh fw G base : nat) (o : cell) (black gs : list Z) (en : env) (on : nat -> bool).
  Let h := S fh.
  Let w := S fw.
  Let N := frame_n fh fw.
  Let L := lattice h w.
  Let sg (c : cell) (d : nat) : bool := seg h w on (fst c) (snd c) d.
  Let onb' := onb fh fw.
  Let pv := sl_pv en h w base.
  Let ov := sl_ov en w base.
  Let ins (c : cell) (d : nat) := in_sem en h w (fst c) (snd c) d.
  Let outs (c : cell) (d : nat) := out_sem en h w (fst c) (snd c) d.
  Let dirs (c : cell) := sl_dirs h w (fst c) (snd c).

  Hypothesis Hon : forall k, k < N -> eb en k = on k.
  Hypothesis Hloop : single_loop_b L on = true.
  Hypothesis HG : G = n_gates gs.
  Hypothesis WF : sl_wf_facts h w o black gs.
  Hypothesis Hcnt : forall k, k < G -> count pv (gate_cells gs k) = 1.
  Hypothesis Hpo : pv o = true.
  Hypothesis Hcell : forall c, onb' c -> cell_sem en h w base (fst o) (snd o) black gs c = true.
  Hypothesis Hbnd : forall c, onb' c -> (0 <= ov c <= Z.of_nat G)%Z.

  Lemma snd_ins c d : onb' c -> In d (dirs c) -> ins c d = sg c d && xorb (sl_dr en h w (sl_edge fh fw (fst c) (snd c) d)) (sl_flag d).
  Proof.
    intros Hc Hd. unfold ins, in_sem. replace (h - 1) with fh by (unfold h; lia). replace (w - 1) with fw by (unfold w; lia).
    f_equal. unfold sl_lp. rewrite Hon by (apply sl_edge_lt_dirs; [apply Hc|apply Hc|exact Hd]).
    symmetry. apply (seg_edge_on fh fw on c d Hd).
  Qed.
  Lemma snd_outs c d : onb' c -> In d (dirs c) -> outs c d = sg c d && Bool.eqb (sl_dr en h w (sl_edge fh fw (fst c) (snd c) d)) (sl_flag d).
  Proof.
    intros Hc Hd. unfold outs, out_sem. replace (h - 1) with fh by (unfold h; lia). replace (w - 1) with fw by (unfold w; lia).
    f_equal. unfold sl_lp. rewrite Hon by (apply sl_edge_lt_dirs; [apply Hc|apply Hc|exact Hd]).
    symmetry. apply (seg_edge_on fh fw on c d Hd).
  Qed.

  Lemma snd_in_or_out c d : onb' c -> In d (dirs c) -> sg c d = true -> (ins c d = true /\ outs c d = false) \/ (ins c d = false /\ outs c d = true).
  Proof.
    intros Hc Hd Hs. rewrite snd_ins, snd_outs, Hs by assumption.
    destruct (sl_dr en h w _), (sl_flag d); simpl; auto.
  Qed.

  Lemma snd_cell c : onb' c ->
    Z.of_nat (count (ins c) (dirs c)) = (if pv c then 1 else 0)%Z /\
    Z.of_nat (count (outs c) (dirs c)) = (if pv c then 1 else 0)%Z.
  Proof.
    intros Hc. pose proof (Hcell c Hc) as H. destruct c as [y x]. unfold cell_sem in H.
    apply andb_prop in H. destruct H as [H _]. apply andb_prop in H. destruct H as [H1 H2].
    apply Z.eqb_eq in H1. apply Z.eqb_eq in H2. split; assumption.
  Qed.

  (* passed = on the loop *)
  Lemma snd_passed c : onb' c -> pv c = on_line L on (cix fw c).
  Proof.
    intros Hc. destruct (snd_cell c Hc) as [Hi Ho].
    destruct (on_line L on (cix fw c)) eqn:E.
    - apply (on_line_pos fh fw on c Hc) in E. destruct (deg4_pos_dir fh fw on c E) as [d [Hd Hs]].
      pose proof (seg_in_dirs fh fw on c d Hd Hs) as Hin.
      destruct (pv c); [reflexivity|]. exfalso.
      destruct (snd_in_or_out c d Hc Hin Hs) as [[H _]|[_ H]].
      + assert (0 < count (ins c) (dirs c)).
        { unfold count. assert (In d (filter (ins c) (dirs c))) by (apply filter_In; auto).
          destruct (filter (ins c) (dirs c)); [contradiction|simpl; lia]. }
        lia.
      + assert (0 < count (outs c) (dirs c)).
        { unfold count. assert (In d (filter (outs c) (dirs c))) by (apply filter_In; auto).
          destruct (filter (outs c) (dirs c)); [contradiction|simpl; lia]. }
        lia.
    - destruct (pv c); [|reflexivity]. exfalso.
      assert (Hp : 0 < count (ins c) (dirs c)) by lia.
      apply count_pos_in in Hp. destruct Hp as [d [Hd Hi']].
      rewrite snd_ins in Hi' by assumption. apply andb_prop in Hi'. destruct Hi' as [Hs _].
      assert (Hpos : 0 < deg4 fh fw on c) by (apply (deg4_pos fh fw on c d); [eapply sl_dirs_lt; exact Hd|exact Hs]).
      apply (on_line_pos fh fw on c Hc) in Hpos. unfold L, h, w in E. rewrite E in Hpos. discriminate.
  Qed.
  Lemma snd_o_onb : onb' o.
  Proof. destruct WF as [[H1 H2] _ _ _ _]. split; [exact H1|exact H2]. Qed.

  Lemma snd_o_pos : 0 < deg4 fh fw on o.
  Proof.
    apply (on_line_pos fh fw on o snd_o_onb). unfold h, w, L in *. rewrite <- snd_passed by exact snd_o_onb. exact Hpo.
  Qed.

  Lemma snd_deg c : onb' c -> deg4 fh fw on c = 0 \/ deg4 fh fw on c = 2.
  Proof. apply (proj1 (sl_loop_facts fh fw on o Hloop snd_o_onb snd_o_pos)). Qed.
  Lemma snd_conn c : onb' c -> 0 < deg4 fh fw on c -> reach L all_vertices_ok on (cix fw o) (cix fw c).
  Proof. apply (proj2 (sl_loop_facts fh fw on o Hloop snd_o_onb snd_o_pos)). Qed.

  Lemma snd_not_black c : onb' c -> pv c = true -> at2 black w (fst c) (snd c) = 0%Z.
  Proof.
    intros Hc Hp. pose proof (Hcell c Hc) as H. destruct c as [y x]. unfold cell_sem in H.
    apply andb_prop in H. destruct H as [_ H]. cbn [fst snd].
    destruct (at2 black w y x =? 0)%Z eqn:E; [apply Z.eqb_eq in E; exact E|].
    cbn [negb] in H. fold pv in H. rewrite Hp in H. discriminate.
  Qed.

  Lemma snd_gate_onb k c : k < G -> In c (gate_cells gs k) -> onb' c.
  Proof. intros Hk Hc. rewrite HG in Hk. destruct WF as [_ H _ _ _]. destruct (H k c Hk Hc). split; assumption. Qed.

  Lemma snd_gate_count k : k < G -> count (fun c => on_line L on (cix fw c)) (gate_cells gs k) = 1.
  Proof.
    intros Hk. rewrite <- (Hcnt k Hk). apply count_ext_in. intros c Hc. symmetry. apply snd_passed.
    apply (snd_gate_onb k c Hk Hc).
  Qed.

  (* a neighbour along a drawn segment is on the loop *)
  Lemma snd_step_on_line c d : onb' c -> d < 4 -> sg c d = true -> on_line L on (cix fw (stepc c d)) = true.
  Proof.
    intros Hc Hd Hs. apply (on_line_pos fh fw on _ (seg_onb fh fw on c d Hc Hs)).
    apply (deg4_pos fh fw on _ (opposite d) (opposite_lt _ Hd)). apply (seg_sym fh fw on c d Hc Hd Hs).
  Qed.

  (* rule 3, second half: the loop goes straight through the gate *)
  Lemma snd_straight k c : k < G -> In c (gate_cells gs k) -> on_line L on (cix fw c) = true ->
    if (gate_field gs k 2 =? 0)%Z then sg c 0 && sg c 1 = true else sg c 2 && sg c 3 = true.
  Proof.
    intros Hk Hc Hv. pose proof (snd_gate_onb k c Hk Hc) as Hoc.
    assert (H2 : deg4 fh fw on c = 2).
    { destruct (snd_deg c Hoc) as [H0|H2]; [|exact H2]. apply (on_line_pos fh fw on c Hoc) in Hv. lia. }
    (* no drawn segment towards a cell that is another cell of the gate, a black cell, or off the board *)
    assert (Hside : forall d, d < 4 -> sg c d = true ->
               ~ In (stepc c d) (gate_cells gs k) /\ at2 black w (fst (stepc c d)) (snd (stepc c d)) = 0%Z).
    { intros d Hd Hs. pose proof (snd_step_on_line c d Hoc Hd Hs) as Hv'.
      pose proof (seg_onb fh fw on c d Hoc Hs) as Hoc'. split.
      - intros Hin. assert (E : c = stepc c d).
        { apply (count_one_unique _ _ _ _ (snd_gate_count k Hk) Hc Hin Hv Hv'). }
        apply (step_neq fh fw on c d Hd Hs). symmetry. exact E.
      - apply snd_not_black; [exact Hoc'|]. rewrite snd_passed by exact Hoc'. exact Hv'. }
    rewrite HG in Hk. destruct WF as [_ _ _ _ Hends]. specialize (Hends k c Hk Hc). unfold gate_hor in Hends.
    destruct c as [y x]. unfold onb', onb in Hoc. cbn [fst snd] in *.
    destruct (gate_field gs k 2 =? 0)%Z.
    - destruct Hends as [Hl Hr].
      assert (S2 : sg (y, x) 2 = false).
      { destruct (sg (y, x) 2) eqn:E; [|reflexivity]. exfalso. destruct (Hside 2 ltac:(lia) E) as [Hn Hb].
        unfold stepc in Hn, Hb. cbn [step_dir fst snd] in Hn, Hb.
        destruct Hl as [Hl|[Hl|Hl]]; [|contradiction|contradiction].
        unfold sg, seg in E. cbn [fst snd] in E. subst x. simpl in E. discriminate. }
      assert (S3 : sg (y, x) 3 = false).
      { destruct (sg (y, x) 3) eqn:E; [|reflexivity]. exfalso. destruct (Hside 3 ltac:(lia) E) as [Hn Hb].
        unfold stepc in Hn, Hb. cbn [step_dir fst snd] in Hn, Hb.
        destruct Hr as [Hr|[Hr|Hr]]; [|contradiction|contradiction].
        unfold sg, seg in E. cbn [fst snd] in E. apply andb_prop in E. destruct E as [E _]. apply Nat.ltb_lt in E.
        unfold w in *. lia. }
      unfold deg4 in H2. fold h w in H2. change (seg h w on (fst (y, x)) (snd (y, x))) with (sg (y, x)) in H2.
      rewrite S2, S3 in H2. destruct (sg (y, x) 0), (sg (y, x) 1); simpl in H2; first [reflexivity|lia].
    - destruct Hends as [Hl Hr].
      assert (S0 : sg (y, x) 0 = false).
      { destruct (sg (y, x) 0) eqn:E; [|reflexivity]. exfalso. destruct (Hside 0 ltac:(lia) E) as [Hn Hb].
        unfold stepc in Hn, Hb. cbn [step_dir fst snd] in Hn, Hb.
        destruct Hl as [Hl|[Hl|Hl]]; [|contradiction|contradiction].
        unfold sg, seg in E. cbn [fst snd] in E. subst y. simpl in E. discriminate. }
      assert (S1 : sg (y, x) 1 = false).
      { destruct (sg (y, x) 1) eqn:E; [|reflexivity]. exfalso. destruct (Hside 1 ltac:(lia) E) as [Hn Hb].
        unfold stepc in Hn, Hb. cbn [step_dir fst snd] in Hn, Hb.
        destruct Hr as [Hr|[Hr|Hr]]; [|contradiction|contradiction].
        unfold sg, seg in E. cbn [fst snd] in E. apply andb_prop in E. destruct E as [E _]. apply Nat.ltb_lt in E.
        unfold h in *. lia. }
      unfold deg4 in H2. fold h w in H2. change (seg h w on (fst (y, x)) (snd (y, x))) with (sg (y, x)) in H2.
      rewrite S0, S1 in H2. destruct (sg (y, x) 2), (sg (y, x) 3); simpl in H2; first [reflexivity|lia].
  Qed.
  Lemma snd_out_o : exists d0, d0 < 4 /\ sg o d0 = true /\ outs o d0 = true.
  Proof.
    destruct (snd_cell o snd_o_onb) as [_ Ho]. fold pv in Hpo. rewrite Hpo in Ho.
    assert (Hp : 0 < count (outs o) (dirs o)) by lia.
    apply count_pos_in in Hp. destruct Hp as [d [Hd Hout]]. exists d.
    split; [eapply sl_dirs_lt; exact Hd|]. split; [|exact Hout].
    rewrite snd_outs in Hout by (first [exact snd_o_onb|exact Hd]). apply andb_prop in Hout. tauto.
  Qed.

  (* gate_ord along any list of cells in which each cell carries its predecessor's value, plus one on a gate *)
  Lemma ord_along (g : cell -> bool) (l : list cell) : forall prev,
    (forall i a b, nth_error (prev :: l) i = Some a -> nth_error (prev :: l) (S i) = Some b ->
                   ov b = (ov a + (if g b then 1 else 0))%Z) ->
    forall j c, nth_error (filter g l) j = Some c -> ov c = (ov prev + Z.of_nat (S j))%Z.
  Proof.
    induction l as [|b r IH]; intros prev Hrel j c Hj; [destruct j; discriminate|].
    pose proof (Hrel 0 prev b eq_refl eq_refl) as Hb.
    assert (Hrel' : forall i a b', nth_error (b :: r) i = Some a -> nth_error (b :: r) (S i) = Some b' ->
                      ov b' = (ov a + (if g b' then 1 else 0))%Z).
    { intros i a b' H1 H2. apply (Hrel (S i) a b'); assumption. }
    simpl in Hj. destruct (g b) eqn:Eg.
    - destruct j as [|j].
      + simpl in Hj. inversion Hj; subst. rewrite Hb. lia.
      + simpl in Hj. rewrite (IH b Hrel' j c Hj), Hb. lia.
    - rewrite (IH b Hrel' j c Hj), Hb. lia.
  Qed.

  Section Orient.
    Variable d0 : nat.
    Hypothesis Hd0 : d0 < 4.
    Hypothesis Hs0 : sg o d0 = true.
    Hypothesis Hout0 : outs o d0 = true.
    Let F := sl_F fh fw on o d0.
    Let cs := map fst (sl_walkd fh fw on o (h * w) (stepc o d0) d0).
    Let isg := is_gate_cell gs.
    Let met := filter isg cs.

    Lemma snd_F_all a da : In (a, da) F -> da < 4 /\ onb' a /\ sg a da = true.
    Proof. apply (sl_F_all fh fw on o d0 snd_o_onb Hd0 Hs0 snd_deg). Qed.

    (* the far end of a segment travelled away from a cell is entered through it *)
    Lemma snd_out_in p dp : onb' p -> dp < 4 -> sg p dp = true -> outs p dp = true -> ins (stepc p dp) (opposite dp) = true.
    Proof.
      intros Hp Hdp Hsp Hout.
      pose proof (seg_onb fh fw on p dp Hp Hsp) as Ha. pose proof (seg_sym fh fw on p dp Hp Hdp Hsp) as Hback.
      rewrite snd_ins by (first [exact Ha|apply (seg_in_dirs fh fw on); [apply opposite_lt; exact Hdp|exact Hback]]).
      change (sg (stepc p dp) (opposite dp) = true) in Hback. rewrite Hback. cbn [andb].
      rewrite (sl_edge_back fh fw on p dp Hdp Hsp), (sl_flag_opposite dp Hdp).
      rewrite snd_outs in Hout by (first [exact Hp|apply (seg_in_dirs fh fw on); assumption]).
      apply andb_prop in Hout. destruct Hout as [_ Hout]. apply eqb_prop in Hout. rewrite Hout.
      destruct (sl_flag dp); reflexivity.
    Qed.

    Lemma snd_pv_of_in c d : onb' c -> In d (dirs c) -> ins c d = true -> pv c = true.
    Proof.
      intros Hc Hd Hi. destruct (snd_cell c Hc) as [H _]. destruct (pv c); [reflexivity|]. exfalso.
      assert (0 < count (ins c) (dirs c)).
      { unfold count. assert (In d (filter (ins c) (dirs c))) by (apply filter_In; auto).
        destruct (filter (ins c) (dirs c)); [contradiction|simpl; lia]. }
      lia.
    Qed.

    Lemma snd_orient i : forall a da, nth_error F i = Some (a, da) -> outs a da = true.
    Proof.
      induction i as [|i IH]; intros a da Hi.
      - unfold F, sl_F in Hi. simpl in Hi. inversion Hi; subst. exact Hout0.
      - destruct (nth_error F i) as [[p dp]|] eqn:Ep.
        2:{ apply nth_error_None in Ep. assert (S i < length F) by (apply nth_error_Some; rewrite Hi; discriminate). lia. }
        pose proof (IH p dp eq_refl) as Hout.
        destruct (sl_F_chain fh fw on o d0 snd_o_onb Hd0 Hs0 snd_deg i p dp a da Ep Hi) as [Hst Hne].
        destruct (snd_F_all p dp (nth_error_In _ _ Ep)) as [Hdp [Hop Hsp]].
        destruct (snd_F_all a da (nth_error_In _ _ Hi)) as [Hda [Hoa Hsa]].
        pose proof (snd_out_in p dp Hop Hdp Hsp Hout) as Hin. rewrite Hst in Hin.
        assert (Hback : sg a (opposite dp) = true) by (rewrite <- Hst; apply (seg_sym fh fw on p dp Hop Hdp Hsp)).
        assert (Hbd : In (opposite dp) (dirs a)) by (apply (seg_in_dirs fh fw on); [apply opposite_lt; exact Hdp|exact Hback]).
        pose proof (snd_pv_of_in a (opposite dp) Hoa Hbd Hin) as Hpa.
        destruct (snd_cell a Hoa) as [_ Hoc]. rewrite Hpa in Hoc.
        assert (Hp : 0 < count (outs a) (dirs a)) by lia.
        apply count_pos_in in Hp. destruct Hp as [d [Hd Hod]].
        assert (Hsd : sg a d = true).
        { rewrite snd_outs in Hod by assumption. apply andb_prop in Hod. tauto. }
        destruct (sl_F_dirs fh fw on o d0 snd_o_onb Hd0 Hs0 snd_deg a da p dp d (nth_error_In _ _ Hi) (nth_error_In _ _ Ep) Hst
                    (sl_dirs_lt _ _ _ _ _ Hd) Hsd) as [->| ->]; [exact Hod|].
        exfalso. destruct (snd_in_or_out a (opposite dp) Hoa Hbd Hback) as [[_ H]|[H _]]; congruence.
    Qed.

    Lemma snd_F_fst i a : nth_error (o :: cs) i = Some a <-> exists da, nth_error F i = Some (a, da).
    Proof.
      assert (E : o :: cs = map fst F) by reflexivity. rewrite E, nth_error_map. split.
      - destruct (nth_error F i) as [[a' da]|]; simpl; intros H; inversion H; subst. exists da. reflexivity.
      - intros [da ->]. reflexivity.
    Qed.

    Lemma snd_ord_step i a b : nth_error (o :: cs) i = Some a -> nth_error (o :: cs) (S i) = Some b ->
      ov b = (ov a + (if isg b then 1 else 0))%Z.
    Proof.
      intros Ha Hb. apply snd_F_fst in Ha. apply snd_F_fst in Hb. destruct Ha as [da Ha], Hb as [db Hb].
      destruct (sl_F_chain fh fw on o d0 snd_o_onb Hd0 Hs0 snd_deg i a da b db Ha Hb) as [Hst Hne].
      destruct (snd_F_all a da (nth_error_In _ _ Ha)) as [Hda [Hoa Hsa]].
      destruct (snd_F_all b db (nth_error_In _ _ Hb)) as [Hdb [Hob Hsb]].
      pose proof (snd_out_in a da Hoa Hda Hsa (snd_orient i a da Ha)) as Hin. rewrite Hst in Hin.
      assert (Hback : sg b (opposite da) = true) by (rewrite <- Hst; apply (seg_sym fh fw on a da Hoa Hda Hsa)).
      assert (Hbd : In (opposite da) (dirs b)) by (apply (seg_in_dirs fh fw on); [apply opposite_lt; exact Hda|exact Hback]).
      pose proof (snd_pv_of_in b (opposite da) Hob Hbd Hin) as Hpb.
      assert (Hbo : b <> o).
      { intros ->. pose proof (sl_F_nodup fh fw on o d0 snd_o_onb Hd0 Hs0 snd_deg) as Hnd.
        assert (H0 : nth_error (map fst F) 0 = Some o) by reflexivity.
        assert (H1 : nth_error (map fst F) (S i) = Some o) by (rewrite nth_error_map, Hb; reflexivity).
        assert (0 = S i); [|discriminate].
        apply (proj1 (NoDup_nth_error (map fst F)) Hnd); [simpl; lia|congruence]. }
      assert (Hstep : step_dir (fst b) (snd b) (opposite da) = a).
      { change (stepc b (opposite da) = a). rewrite <- Hst. apply (step_back fh fw on a da Hda Hsa). }
      pose proof (Hcell b Hob) as H. pose proof (snd_not_black b Hob Hpb) as Hnb.
      destruct b as [y x]. unfold cell_sem in H. apply andb_prop in H. destruct H as [_ H].
      cbn [fst snd] in *. rewrite Hnb in H. cbn [Z.eqb negb] in H.
      replace (Nat.eqb y (fst o) && Nat.eqb x (snd o)) with false in H.
      2:{ symmetry. apply andb_false_iff. destruct o as [oy ox]. cbn [fst snd].
          destruct (Nat.eqb_spec y oy) as [->|]; [|left; reflexivity]. right. apply Nat.eqb_neq. intros ->. apply Hbo. reflexivity. }
      unfold isg. rewrite <- sl_is_gate_spec. unfold sl_is_gate.
      destruct (sl_gate_id gs (y, x)) as [n|].
      - apply andb_prop in H. destruct H as [H _]. rewrite forallb_forall in H. specialize (H _ Hbd).
        unfold ins in Hin. cbn [fst snd] in Hin. rewrite Hin in H. cbn [negb orb] in H. rewrite Hstep in H.
        apply Z.eqb_eq in H. fold ov in H. lia.
      - rewrite forallb_forall in H. specialize (H _ Hbd).
        unfold ins in Hin. cbn [fst snd] in Hin. rewrite Hin in H. cbn [negb orb] in H. rewrite Hstep in H.
        apply Z.eqb_eq in H. fold ov in H. lia.
    Qed.

    Lemma snd_ord_met j c : nth_error met j = Some c -> ov c = (ov o + Z.of_nat (S j))%Z.
    Proof. apply (ord_along isg cs o). intros i a b. apply snd_ord_step. Qed.

    Lemma snd_cs_onb c : In c cs -> onb' c.
    Proof.
      intros Hc. unfold cs in Hc. apply in_map_iff in Hc. destruct Hc as [[c' dc] [<- Hin]].
      destruct (snd_F_all c' dc (or_intror Hin)) as [_ [H _]]. exact H.
    Qed.

    (* the cell at which gate k is passed *)
    Lemma snd_gate_cell k : k < G -> exists c, In c (gate_cells gs k) /\ pv c = true /\ In c met.
    Proof.
      intros Hk. pose proof (Hcnt k Hk) as Hc.
      assert (Hp : 0 < count pv (gate_cells gs k)) by lia.
      apply count_pos_in in Hp. destruct Hp as [c [Hin Hpc]]. exists c. split; [exact Hin|]. split; [exact Hpc|].
      pose proof (snd_gate_onb k c Hk Hin) as Hoc.
      apply filter_In. split.
      - assert (Hcov : In c (map fst F)).
        { apply (sl_F_cover fh fw on o d0 snd_o_onb Hd0 Hs0 snd_deg snd_conn c Hoc).
          apply (on_line_pos fh fw on c Hoc). fold h w L. rewrite <- snd_passed by exact Hoc. exact Hpc. }
        destruct Hcov as [E|Hcov]; [|exact Hcov]. exfalso. simpl in E. subst c.
        rewrite HG in Hk. destruct WF as [_ _ Hno _ _]. exact (Hno k Hk Hin).
      - apply is_gate_cell_spec. exists k. split; [rewrite <- HG; exact Hk|]. apply cell_in_In. exact Hin.
    Qed.

    Lemma snd_met_many n : n <= G -> exists l, length l = n /\ NoDup l /\
      forall c, In c l -> In c met /\ exists k, k < n /\ In c (gate_cells gs k).
    Proof.
      induction n as [|n IH]; intros Hn.
      - exists []. split; [reflexivity|]. split; [constructor|]. intros c [].
      - destruct (IH ltac:(lia)) as [l [Hl [Hnd Hall]]].
        destruct (snd_gate_cell n ltac:(lia)) as [c [Hin [_ Hm]]].
        exists (c :: l). split; [simpl; lia|]. split.
        + constructor; [|exact Hnd]. intros Hcl. destruct (Hall c Hcl) as [_ [k [Hk Hink]]].
          destruct WF as [_ _ _ Hdis _]. assert (k = n) by (apply (Hdis k n c); try lia; assumption). lia.
        + intros c' [<-|Hc'].
          * split; [exact Hm|]. exists n. split; [lia|exact Hin].
          * destruct (Hall c' Hc') as [H1 [k [Hk H2]]]. split; [exact H1|]. exists k. split; [lia|exact H2].
    Qed.

    Lemma snd_met_length : G <= length met.
    Proof.
      destruct (snd_met_many G (le_n _)) as [l [Hl [Hnd Hall]]]. rewrite <- Hl.
      apply NoDup_incl_length; [exact Hnd|]. intros c Hc. apply (Hall c Hc).
    Qed.

    Lemma snd_ord_o : 1 <= G -> ov o = 0%Z.
    Proof.
      intros HG1. pose proof snd_met_length as Hlen.
      destruct (nth_error met (length met - 1)) as [c|] eqn:E.
      2:{ apply nth_error_None in E. lia. }
      pose proof (snd_ord_met _ c E) as Hov.
      assert (Hoc : onb' c).
      { apply snd_cs_onb. apply nth_error_In in E. apply filter_In in E. tauto. }
      pose proof (Hbnd c Hoc) as Hb. pose proof (Hbnd o snd_o_onb) as Hbo. lia.
    Qed.

    Lemma snd_ordered k : k < G ->
      let n := gate_field gs k 4 in
      ((n <? 1)%Z || match nth_error met (zn n - 1) with Some c => in_gate gs k c | None => false end) = true.
    Proof.
      intros Hk n. destruct (n <? 1)%Z eqn:En; [reflexivity|]. apply Z.ltb_ge in En. cbn [orb].
      destruct (snd_gate_cell k Hk) as [c [Hin [Hpc Hm]]].
      pose proof (snd_gate_onb k c Hk Hin) as Hoc.
      destruct (In_nth_error _ _ Hm) as [j Hj].
      pose proof (snd_ord_met j c Hj) as Hov. rewrite (snd_ord_o ltac:(lia)) in Hov.
      (* the numbered-gate constraint at c *)
      assert (Hid : sl_gate_id gs c = Some n).
      { apply sl_gate_id_some; [rewrite <- HG; exact Hk|apply cell_in_In; exact Hin|].
        intros k' Hk' Hin'. apply cell_in_In in Hin'. destruct WF as [_ _ _ Hdis _].
        apply (Hdis k' k c); try assumption. rewrite <- HG. exact Hk. }
      assert (Hco : c <> o).
      { intros ->. rewrite HG in Hk. destruct WF as [_ _ Hno _ _]. exact (Hno k Hk Hin). }
      pose proof (Hcell c Hoc) as H. pose proof (snd_not_black c Hoc Hpc) as Hnb.
      destruct c as [y x]. unfold cell_sem in H. apply andb_prop in H. destruct H as [_ H].
      cbn [fst snd] in *. rewrite Hnb in H. cbn [Z.eqb negb] in H.
      replace (Nat.eqb y (fst o) && Nat.eqb x (snd o)) with false in H.
      2:{ symmetry. apply andb_false_iff. destruct o as [oy ox]. cbn [fst snd].
          destruct (Nat.eqb_spec y oy) as [->|]; [|left; reflexivity]. right. apply Nat.eqb_neq. intros ->. apply Hco. reflexivity. }
      rewrite Hid in H. apply andb_prop in H. destruct H as [_ H].
      replace (1 <=? n)%Z with true in H by (symmetry; apply Z.leb_le; lia).
      fold pv in H. rewrite Hpc in H. cbn [negb orb] in H. apply Z.eqb_eq in H. fold ov in H.
      replace (zn n - 1) with j by (unfold zn; lia). unfold cell in *. rewrite Hj. apply cell_in_In. exact Hin.
    Qed.
  End Orient.

  Theorem slalom_sound : slalom_local_on h w (fst o) (snd o) black gs on = true.
  Proof.
    unfold slalom_local_on.
    destruct snd_out_o as [d0 [Hd0 [Hs0 Hout0]]].
    pose proof snd_o_onb as [Hoy Hox].
    apply andb_true_iff; split; [apply andb_true_iff; split; [apply andb_true_iff; split; [apply andb_true_iff; split;
      [apply andb_true_iff; split|]|]|]|].
    - apply Nat.ltb_lt. exact Hoy.
    - apply Nat.ltb_lt. exact Hox.
    - change (on_line L on (cix fw o) = true). rewrite <- snd_passed by exact snd_o_onb. exact Hpo.
    - apply forallb_forall. intros c Hc. destruct c as [y x]. apply cells_in in Hc.
      assert (Hoc : onb' (y, x)) by (split; simpl; unfold h, w in Hc; lia).
      cbn [fst snd]. destruct (at2 black w y x =? 0)%Z eqn:E; [reflexivity|]. cbn [orb]. apply negb_true_iff.
      change (on_line L on (cix fw (y, x)) = false). rewrite <- snd_passed by exact Hoc.
      destruct (pv (y, x)) eqn:Ep; [|reflexivity]. pose proof (snd_not_black (y, x) Hoc Ep) as H. cbn [fst snd] in H.
      rewrite H in E. discriminate.
    - apply forallb_forall. intros k Hk. apply in_seq in Hk. rewrite <- HG in Hk. apply andb_true_iff. split.
      + apply Nat.eqb_eq. apply (snd_gate_count k). lia.
      + apply forallb_forall. intros c Hc.
        change (negb (on_line L on (cix fw c)) ||
                (if (gate_field gs k 2 =? 0)%Z then sg c 0 && sg c 1 else sg c 2 && sg c 3) = true).
        destruct (on_line L on (cix fw c)) eqn:Ev; [|reflexivity]. cbn [negb orb].
        pose proof (snd_straight k c ltac:(lia) Hc Ev) as H. destruct (gate_field gs k 2 =? 0)%Z; exact H.
    - apply existsb_exists. exists d0. split.
      + apply filter_In. split; [|exact Hs0]. destruct d0 as [|[|[|[|d0]]]]; simpl; auto; lia.
      + destruct (step_dir (fst o) (snd o) d0) as [y1 x1] eqn:Est.
        apply forallb_forall. intros k Hk. apply in_seq in Hk. rewrite <- HG in Hk.
        pose proof (snd_ordered d0 Hd0 Hs0 Hout0 k ltac:(lia)) as H. cbv zeta in H.
        rewrite (sl_walkd_fst fh fw on o (h * w) (stepc o d0) d0) in H. unfold stepc in H. rewrite Est in H.
        exact H.
  Qed.
End Sound.
