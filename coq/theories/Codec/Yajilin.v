(* Model of cspuz/puzzle/yajilin.py class YajilinClue (a Combinator subclass), plugged into
   Codec/Comb.v as [Custom 0] through the [cust] field of the environment.  Definitions only. *)
From Coq Require Import ZArith List Ascii Bool NArith.
From Cspuz Require Import Lib.PyErr Codec.Comb Codec.Legacy.
Import ListNotations.
Local Open Scope Z_scope.
Local Open Scope res_scope.

Definition s_dotdot : str := ["."; "."]%char.
Definition s_qq : str := ["?"; "?"]%char.
Definition s_zero_dot : str := ["0"; "."]%char.

(* DIR_MAP = {"^": 1, "v": 2, "<": 3, ">": 4} *)
Definition dir_code (c : ascii) : res Z :=
  if ascii_eqb c "^"%char then Ok 1
  else if ascii_eqb c "v"%char then Ok 2
  else if ascii_eqb c "<"%char then Ok 3
  else if ascii_eqb c ">"%char then Ok 4
  else Err KeyError.

(* DIR_MAP = {1: "^", 2: "v", 3: "<", 4: ">"} *)
Definition dir_char (d : Z) : ascii :=
  if d =? 1 then "^"%char else if d =? 2 then "v"%char else if d =? 3 then "<"%char else ">"%char.

(* YajilinClue.serialize(env, data, idx) *)
Definition yajilin_ser (data : pv) (idx : nat) : res (option (nat * str)) :=
  let* l := py_items data in
  if Nat.leb (length l) idx then Ok None
  else
    let* v := nth_res l idx in
    if pv_eqb v (VStr s_dotdot) then Ok None
    else if pv_eqb v (VStr s_qq) then Ok (Some (1%nat, s_zero_dot))
    else match v with
         | VStr [] => Err IndexError                        (* value[0] *)
         | VStr (c :: t) =>
             let* dir := dir_code c in
             let* n := py_int t 10 in
             if (0 <=? n) && (n <? 16) then Ok (Some (1%nat, py_str_int dir ++ to_base16 n))
             else if (16 <=? n) && (n <? 256) then Ok (Some (1%nat, py_str_int (dir + 5) ++ to_base16 n))
             else if (256 <=? n) && (n <? 4096) then Ok (Some (1%nat, "-"%char :: py_str_int dir ++ to_base16 n))
             else Ok None
         | _ => Err TypeError                               (* value[0] / DIR_MAP[...] on a non-string *)
         end.

Definition in_1234 (c : ascii) : bool := in_range 49 52 (ord c).
Definition in_56789 (c : ascii) : bool := in_range 53 57 (ord c).

(* the common tail of YajilinClue.deserialize: direction character, number text, characters read *)
Definition yajilin_finish (dir : ascii) (num : str) (n_read : nat) : res (option (nat * list pv)) :=
  if ascii_eqb dir "0"%char then Ok (Some (n_read, [VStr s_qq]))
  else if negb (in_1234 dir) then Ok None
  else if str_eqb num ["."%char] then Ok (Some (n_read, [VStr s_qq]))
  else let* n := py_int num 16 in
       if n <? 0 then Ok None
       else Ok (Some (n_read, [VStr (dir_char (ord dir - 48) :: py_str_int n)])).

(* YajilinClue.deserialize(env, data, idx) with s = data[idx:] *)
Definition yajilin_de (s : str) : res (option (nat * list pv)) :=
  match s with
  | c :: ((c1 :: t1) as t) =>
      if ascii_eqb c "-"%char then
        if Nat.ltb (length s) 5 then Ok None
        else yajilin_finish c1 (firstn 3 t1) 5
      else if in_56789 c then
        if Nat.ltb (length s) 3 then Ok None
        else yajilin_finish (chr (ord c - 5)) (firstn 2 t) 3
      else yajilin_finish c [c1] 2
  | _ => Ok None                                            (* idx + 1 >= len(data) *)
  end.

Definition yajilin_custom : custom :=
  {| cu_ser := fun _ data idx => yajilin_ser data idx; cu_de := fun _ s => yajilin_de s |}.

Definition yajilin_env (h w : Z) : env := {| height := h; width := w; cust := yajilin_custom |}.
