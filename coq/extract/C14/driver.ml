(* C14 runner: I/O only.  request:  <ctor> <op>
   ctor:  F next h w | I next H W | X h w a b c d
   frame op:  D | G y x | CN args | VN args | AE | IT | FG | DU | DUIT | DD <frame op>
   inner op:  D | IT | DD | DU <frame op>
   args:  t y x | 2 y x | i y | ti y x x2 *)
open Model
open Zutil

let zi s = z_of_int (int_of_string s)
let err e = "E " ^ string_of_int (int_of_nat (pyerr_code e))

let show_arr a = zs [a.sh_h; a.sh_w] ^ " : " ^ zs a.adata
let show_frame f = "FR " ^ zs [f.fh; f.fw] ^ " | " ^ show_arr f.hor ^ " | " ^ show_arr f.ver
let show_inner i = "IN " ^ zs [i.ih; i.iw] ^ " | " ^ show_arr i.ihor ^ " | " ^ show_arr i.iver
let show_list = function Ok l -> "L " ^ zs l | Err e -> err e
let show_scalar = function Ok v -> "S " ^ zs [v] | Err e -> err e

let parse_args = function
  | "t" :: y :: x :: _ -> ATuple (zi y, zi x)
  | "2" :: y :: x :: _ -> ATwo (zi y, zi x)
  | "i" :: y :: _ -> AInt (zi y)
  | "ti" :: y :: x :: x2 :: _ -> ATupleInt (zi y, zi x, zi x2)
  | _ -> failwith "args"

let rec frame_op f = function
  | "D" :: _ -> show_frame f
  | "G" :: y :: x :: _ -> show_scalar (getitem f (zi y) (zi x))
  | "CN" :: rest -> show_list (cell_neighbors f (parse_args rest))
  | "VN" :: rest -> show_list (vertex_neighbors f (parse_args rest))
  | "AE" :: _ -> show_list (Ok (all_edges f))
  | "IT" :: _ -> show_list (Ok (iter f))
  | "FG" :: _ ->
      (match from_grid_frame f with
       | Err e -> err e
       | Ok (es, g) ->
           "FG " ^ string_of_int (int_of_nat g.nv) ^ " : " ^ zs es ^ " | " ^
           String.concat " " (List.map (fun (a, b) -> string_of_int (int_of_nat a) ^ " " ^ string_of_int (int_of_nat b)) g.edges))
  | "DU" :: _ -> show_inner (dual f)
  | "DUIT" :: _ -> show_list (Ok (iiter (dual f)))
  | "DD" :: rest -> frame_op (idual (dual f)) rest
  | _ -> "EXN bad frame op"

let inner_op i = function
  | "D" :: _ -> show_inner i
  | "IT" :: _ -> show_list (Ok (iiter i))
  | "DD" :: _ -> show_inner (dual (idual i))
  | "DU" :: rest -> frame_op (idual i) rest
  | _ -> "EXN bad inner op"

let iota s n = List.init (max n 0) (fun i -> z_of_int (s + i))

let handle toks = match toks with
  | "F" :: n :: h :: w :: rest ->
      (match new_frame (zi n) (zi h) (zi w) with Err e -> err e | Ok (f, _) -> frame_op f rest)
  | "I" :: n :: h :: w :: rest ->
      (match new_inner (zi n) (zi h) (zi w) with Err e -> err e | Ok (i, _) -> inner_op i rest)
  | "X" :: h :: w :: a :: b :: c :: d :: rest ->
      let ai = int_of_string a and bi = int_of_string b and ci = int_of_string c and di = int_of_string d in
      let f = { fh = zi h; fw = zi w;
                hor = { sh_h = zi a; sh_w = zi b; adata = iota 0 (ai * bi) };
                ver = { sh_h = zi c; sh_w = zi d; adata = iota (ai * bi) (ci * di) } } in
      frame_op f rest
  | _ -> "EXN bad request"

let () = main_loop handle
