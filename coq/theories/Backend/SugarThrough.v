(* C03 => C01 / C02 through the text backends: with a correct external solver
   (hypotheses answer_oracle_at / deduction_oracle_at on what _call_solver returns), solve()
   decides satisfiability and leaves a genuine model, and solve_irrefutably()
   reports exactly the facts common to all models on the registered keys. *)
From Coq Require Import ZArith List Bool String Ascii Lia.
From Cspuz Require Import Lib.PyErr Core.Expr Core.Program Backend.SugarText Backend.SugarTextProofs
  Gen.SugarOps Backend.Sugar Backend.SugarReply Backend.SugarLexProofs Backend.SugarSpec
  Backend.SugarPrintProofs Backend.SugarDescProofs Backend.SugarReplyProofs Backend.SugarMain.
Import ListNotations.
Open Scope string_scope.

Lemma name_env_b en i : name_env en ("b" ++ pn i) = Some (VB (eb en i)).
Proof.
  simpl. unfold pn. rewrite int_atom_pz.
  destruct (Z.ltb_spec (Z.of_nat i) 0); [lia|]. rewrite Nat2Z.id. reflexivity.
Qed.
Lemma name_env_i en i : name_env en ("i" ++ pn i) = Some (VI (ei en i)).
Proof.
  simpl. unfold pn. rewrite int_atom_pz.
  destruct (Z.ltb_spec (Z.of_nat i) 0); [lia|]. rewrite Nat2Z.id. reflexivity.
Qed.

Lemma typed_name_env vs en : typed_on vs (name_env en).
Proof.
  intros v _. destruct v; eexists; [apply name_env_b | apply name_env_i].
Qed.

Lemma forallb_map' {A B} (f : B -> bool) (g : A -> B) l : forallb f (map g l) = forallb (fun x => f (g x)) l.
Proof. induction l; simpl; congruence. Qed.

Lemma forallb_ext' {A} (f g : A -> bool) l : (forall x, f x = g x) -> forallb f l = forallb g l.
Proof. intros H; induction l; simpl; [reflexivity|]. rewrite H, IHl. reflexivity. Qed.

Lemma decls_in_bounds en ds : forall i,
  forallb (in_domain (name_env en)) (map (fun v => Some (sdecl_of v)) (bvars_from i ds)) = in_bounds_from en i ds.
Proof.
  induction ds as [|[|lo hi] r IH]; intros i; [reflexivity| |];
    cbn [bvars_from map forallb sdecl_of in_domain in_bounds_from].
  - change (var_name (VBool i)) with ("b" ++ pn i). rewrite name_env_b. apply IH.
  - change (var_name (VInt i lo hi)) with ("i" ++ pn i). rewrite name_env_i, IH. reflexivity.
Qed.

Section Through.
  Variable gsem : op -> list (option value) -> option bool.
  Variable solver : string -> string.       (* SugarLikeBackend._call_solver *)

  Definition wf_state (st : state) : Prop :=
    Forall (fun c => wts true c = true) (cons st) /\ List.length (keys st) = List.length (vars st).

  Lemma model_agree st jp en :
    sugar_decls (j_problem jp) = map (fun v => Some (sdecl_of v)) (bvars_of_state st) ->
    (forall en, map (sugar_sem gsem (name_env en)) (sugar_constraints (j_problem jp)) = map (eval gsem en) (cons st)) ->
    sugar_model gsem jp (name_env en) = in_bounds en st && satisfies gsem en st.
  Proof.
    intros Hd Hc. unfold sugar_model. rewrite Hd. unfold bvars_of_state. rewrite decls_in_bounds.
    unfold in_bounds. f_equal.
    rewrite <- (forallb_map' is_true (sugar_sem gsem (name_env en))), Hc, forallb_map'.
    unfold satisfies. apply forallb_ext'. intros c. unfold holds, is_true.
    destruct (eval gsem en c) as [[[|]|?]|]; reflexivity.
  Qed.
  Lemma model_iff st jp en :
    sugar_decls (j_problem jp) = map (fun v => Some (sdecl_of v)) (bvars_of_state st) ->
    (forall en, map (sugar_sem gsem (name_env en)) (sugar_constraints (j_problem jp)) = map (eval gsem en) (cons st)) ->
    sugar_model gsem jp (name_env en) = true <-> model_of gsem en st.
  Proof.
    intros Hd Hc. rewrite (model_agree st jp en Hd Hc). unfold model_of. apply andb_true_iff.
  Qed.

  (* C01 through the text backends *)
  Theorem find_answer_through_text st :
    wf_state st ->
    (forall text, description (bvars_of_state st) (cons st) None = Ok text -> answer_oracle_at gsem solver text) ->
    let vs := bvars_of_state st in
    exists text b sol,
      description vs (cons st) None = Ok text /\
      parse_answer vs (solver text) = Ok (b, sol) /\
      (b = true <-> satisfiable gsem st) /\
      (b = true -> exists en, model_of gsem en st /\ sol = map (fun v => name_env en (var_name v)) vs) /\
      (b = false -> sol = no_sol vs).
  Proof.
    intros [Hcs _] Hor vs.
    destruct (description_total gsem vs (cons st) None Hcs) as [text Hd]; [discriminate|].
    destruct (description_faithful gsem vs (cons st) None text Hcs Hd) as [jp [Hl [Hdecl [Hi [Hb [Hk Hsem]]]]]].
    simpl in Hk.
    destruct (Hor text Hd jp Hl Hk) as [[en [Hm Hr]] | [Hno Hr]].
    - destruct (answer_reply_reflected_vars vs jp (name_env en) (bvars_of_state_nodup st) Hi Hb (typed_name_env vs en))
        as [reply [Hf Hp]].
      unfold java_reply in Hr. rewrite Hk in Hr.
      change (format_answer jp (Some (name_env en)) = Some (solver text)) in Hr.
      rewrite Hf in Hr. injection Hr as Hr.
      exists text, true, (map (fun v => name_env en (var_name v)) vs). rewrite <- Hr.
      apply (model_iff st jp en Hdecl Hsem) in Hm.
      repeat split; auto.
      + intros _. exists en; assumption.
      + intros _. exists en; auto.
      + discriminate.
    - destruct (unsat_replies_vars vs jp []) as [[r [Hf Hp]] _].
      unfold java_reply in Hr. rewrite Hk in Hr.
      change (format_answer jp None = Some (solver text)) in Hr.
      rewrite Hf in Hr. injection Hr as Hr.
      exists text, false, (no_sol vs). rewrite <- Hr. repeat split; auto; try discriminate.
      intros [en Hm]. apply (model_iff st jp en Hdecl Hsem) in Hm. rewrite Hno in Hm. discriminate.
  Qed.

  (* C02 through the native deduction mode of the text backends *)
  Theorem solve_through_text st :
    wf_state st ->
    (forall text, description (bvars_of_state st) (cons st) (Some (keys st)) = Ok text ->
                  deduction_oracle_at gsem solver text) ->
    let vs := bvars_of_state st in
    exists text b sol,
      description vs (cons st) (Some (keys st)) = Ok text /\
      parse_deduction vs (solver text) = Ok (b, sol) /\
      (b = true <-> satisfiable gsem st) /\
      (b = false -> sol = no_sol vs) /\
      (b = true ->
         exists facts, sol = map facts (combine vs (keys st)) /\
           forall v k, In (v, k) (combine vs (keys st)) ->
             (k = false -> facts (v, k) = None) /\
             (k = true -> forall x, facts (v, k) = Some x <->
                                    forall en, model_of gsem en st -> name_env en (var_name v) = Some x)).
  Proof.
    intros [Hcs Hlen] Hor vs.
    assert (Hlen' : List.length (keys st) = List.length vs).
    { unfold vs, bvars_of_state. rewrite bvars_from_length. assumption. }
    destruct (description_total gsem vs (cons st) (Some (keys st)) Hcs) as [text Hd].
    { intros ks [= <-]. lia. }
    destruct (description_faithful gsem vs (cons st) (Some (keys st)) text Hcs Hd)
      as [jp [Hl [Hdecl [Hi [Hb [Hk Hsem]]]]]].
    simpl in Hk.
    destruct (Hor text Hd jp _ Hl Hk) as [[en [nr [Hm [Hnr Hr]]]] | [Hno Hr]].
    - destruct (SugarMain.deduction_reply_reflected gsem vs (cons st) (keys st) text
                  (bvars_of_state_nodup st) Hcs Hlen' Hd) as [jp' [Hl' Hrefl]].
      rewrite Hl in Hl'. injection Hl' as <-.
      destruct (Hrefl (name_env en) nr (typed_name_env vs en)) as [reply [Hf Hp]].
      rewrite Hf in Hr. injection Hr as Hr.
      set (facts := fun p : bvar * bool =>
                      if snd p && nr (var_name (fst p)) then name_env en (var_name (fst p)) else None).
      exists text, true, (map facts (combine vs (keys st))). rewrite <- Hr.
      pose proof (proj1 (model_iff st jp en Hdecl Hsem) Hm) as Hmod.
      repeat split; auto; try discriminate.
      + intros _. exists en; assumption.
      + intros _. exists facts. split; [reflexivity|]. intros v k Hin. split.
        * intros ->. reflexivity.
        * intros -> x. unfold facts. simpl.
          assert (Hkey : In (var_name v) (key_list (names_of_keys vs (keys st)))).
          { pose proof (mem_keys vs (keys st) (NoDup_names vs (bvars_of_state_nodup st)) Hlen') as Hmk.
            rewrite Forall_forall in Hmk. specialize (Hmk _ Hin). simpl in Hmk.
            apply mem_str_true in Hmk. destruct (names_of_keys vs (keys st)); [contradiction|exact Hmk]. }
          specialize (Hnr _ Hkey).
          destruct (nr (var_name v)) eqn:En.
          -- pose proof (proj1 Hnr eq_refl) as Hall. split.
             ++ intros Hx en' Hm'. rewrite <- Hx. apply Hall. apply (model_iff st jp en' Hdecl Hsem). assumption.
             ++ intros Hx. apply Hx. assumption.
          -- split; [discriminate|]. intros Hx. exfalso.
             assert (false = true); [|discriminate].
             apply Hnr. intros en' Hm'. rewrite (Hx en Hmod).
             apply Hx. apply (model_iff st jp en' Hdecl Hsem). assumption.
    - destruct (unsat_replies_vars vs jp (key_list (names_of_keys vs (keys st)))) as [_ [r [Hf Hp]]].
      unfold java_reply in Hr. rewrite Hk in Hr. rewrite Hf in Hr. injection Hr as Hr.
      exists text, false, (no_sol vs). rewrite <- Hr. repeat split; auto; try discriminate.
      intros [en Hm]. apply (model_iff st jp en Hdecl Hsem) in Hm. rewrite Hno in Hm. discriminate.
  Qed.
End Through.

(* ---- the oracle hypotheses are satisfiable ---- *)
Definition ex_state : state :=
  {| vars := [DBool; DInt 0 2]; keys := [true; false];
     cons := [BNode OR [BVar 0; BNode EQ [IVar 1 0 2; PyInt 1]]; BVar 0] |}.
Definition ex_env : env := {| eb := fun _ => true; ei := fun _ => 1%Z |}.

Example answer_oracle_satisfiable :
  wf_state ex_state /\
  forall text, description (bvars_of_state ex_state) (cons ex_state) None = Ok text ->
    answer_oracle_at no_graph (fun _ => "s SATISFIABLE" ++ s_nl ++ "a i1" ++ s_tab ++ "1" ++ s_nl ++
                                       "a b0" ++ s_tab ++ "true" ++ s_nl ++ "a" ++ s_nl) text.
Proof.
  split; [split; [repeat constructor | reflexivity]|].
  intros text Hd. vm_compute in Hd. injection Hd as <-.
  intros jp Hl Hk. vm_compute in Hl. injection Hl as <-.
  left. exists ex_env. split; vm_compute; reflexivity.
Qed.

Example deduction_oracle_satisfiable :
  forall text, description (bvars_of_state ex_state) (cons ex_state) (Some (keys ex_state)) = Ok text ->
    deduction_oracle_at no_graph (fun _ => "sat" ++ s_nl ++ "b0 true" ++ s_nl) text.
Proof.
  intros text Hd. vm_compute in Hd. injection Hd as <-.
  intros jp keys Hl Hk. vm_compute in Hl. injection Hl as <-. vm_compute in Hk. injection Hk as <-.
  left. exists ex_env, (fun _ => true). split; [vm_compute; reflexivity|]. split; [|vm_compute; reflexivity].
  intros n [<-|[]]. split; [|reflexivity]. intros _ en' Hm.
  unfold sugar_model in Hm. apply andb_true_iff in Hm as [_ Hm].
  destruct en' as [b i]. vm_compute in Hm. vm_compute.
  destruct (b 0%nat); [reflexivity|]. destruct (i 1%nat) as [|[?|?|]|?]; discriminate.
Qed.
