"""C11 plug-in: shakashaka (solve_shakashaka(height, width, problem)); None white, -1 black, 0..4 numbered black."""
import c11lib as L

NAME = "shakashaka"
MODULE = "cspuz.puzzle.shakashaka"
FUNC = "solve_shakashaka"


def call(mod, pb):
    return mod.solve_shakashaka(pb["h"], pb["w"], [[None if v == -2 else v for v in row] for row in pb["grid"]])


def ncand(pb):
    return 5 ** sum(1 for row in pb["grid"] for v in row if v == -2)


def encode(pb):
    return [[pb["h"], pb["w"]], L.flat(pb["grid"])]


VALUES = [-2, -1, 0, 1, 2, 3, 4]


def families(tier, rng):
    th = tier == "thorough"
    for (h, w) in [(1, 1), (1, 2), (2, 1), (1, 3), (3, 1)] + ([(2, 2)] if th else []):
        for g in L.all_grids(h, w, VALUES):
            yield {"h": h, "w": w, "grid": g}
    if not th:
        for g in L.sample(rng, L.all_grids(2, 2, VALUES), 150):
            yield {"h": 2, "w": 2, "grid": g}
    for (h, w) in [(2, 3), (3, 2), (3, 3), (2, 4), (4, 2), (3, 4), (4, 4)]:
        for _ in range(150 if th else 20):
            pb = {"h": h, "w": w, "grid": L.random_grid(rng, h, w, VALUES, 0.7 if h * w <= 6 else 0.55)}
            if ncand(pb) <= (300000 if th else 70000):
                yield pb


def tier2(tier, rng):
    th = tier == "thorough"
    for (h, w) in [(1, 1), (1, 2), (2, 1)]:
        for g in L.all_grids(h, w, VALUES):
            yield {"h": h, "w": w, "grid": g}
    for g in L.sample(rng, L.all_grids(2, 2, VALUES), 40 if th else 5):
        yield {"h": 2, "w": 2, "grid": g}
