Require Extraction.
Require Import ExtrOcamlBasic.
From Coq Require Import ZArith List.
(* fully qualified names, each followed by a blank: harness/vlib.py::build_runner reads the dependencies from here *)
Require Import Cspuz.Lib.PyErr Cspuz.Core.Expr Cspuz.Core.Program Cspuz.Core.Build Cspuz.Array.Slice Cspuz.Array.Elementwise Cspuz.Array.Helpers .
Definition eval0 := eval no_graph.
Extraction "model.ml" Z.add Nat.add pyerr_code empty_state bool_var eval0
  elementwise py_binop py_unop call_method fn_cond fn_then
  h_count_true h_fold_or h_fold_and h_alldifferent conv2d four_neighbor_indices four_neighbors
  expected_table mname_code mclass_code.
