"""C11 plug-in: fillomino (solve_fillomino(height, width, problem)); 0 = empty, n >= 1 given."""
import c11lib as L

NAME = "fillomino"
MODULE = "cspuz.puzzle.fillomino"
FUNC = "solve_fillomino"


def call(mod, pb):
    return mod.solve_fillomino(pb["h"], pb["w"], pb["grid"])


def ncand(pb):
    return (pb['h'] * pb['w']) ** (pb['h'] * pb['w'])


def encode(pb):
    return [[pb["h"], pb["w"]], L.flat(pb["grid"])]


def families(tier, rng):
    th = tier == "thorough"
    for (h, w) in [(1, 1), (1, 2), (2, 1), (1, 3), (3, 1)] + ([(2, 2)] if th else []):
        for g in L.all_grids(h, w, list(range(0, h * w + 1))):
            yield {"h": h, "w": w, "grid": g}
    if not th:
        for g in L.sample(rng, L.all_grids(2, 2, [0, 1, 2, 3, 4]), 120):
            yield {"h": 2, "w": 2, "grid": g}
    for (h, w) in [(2, 3), (3, 2), (1, 4), (4, 1), (1, 5)]:
        for _ in range(150 if th else 15):
            yield {"h": h, "w": w, "grid": L.random_grid(rng, h, w, list(range(0, h * w + 1)), 0.6)}


def tier2(tier, rng):
    th = tier == "thorough"
    for (h, w) in [(1, 1), (1, 2), (2, 1)]:
        for g in L.all_grids(h, w, list(range(0, h * w + 1))):
            yield {"h": h, "w": w, "grid": g}


def big(tier, rng):
    """long single-row / single-column boards cut into blocks with two-digit sizes (neighbouring blocks differ)"""
    th = tier == "thorough"
    for n in (L.LONG if th else L.sample(rng, L.LONG, 3) + [23]):
        a = rng.randint(10, min(13, n - 1))
        rest = n - a
        sizes = [a, rest] if rest != a else [a, 1, rest - 1]
        if len(sizes) == 3 and (sizes[2] == 1 or sizes[2] == 0):
            continue
        row, ans = [], []
        for s_ in sizes:
            blk = [0] * s_
            blk[rng.randrange(s_)] = s_
            row += blk
            ans += [s_] * s_
        yield {"h": 1, "w": n, "grid": [row], "planted": [ans]}
        yield {"h": n, "w": 1, "grid": [[v] for v in row], "planted": [ans]}
