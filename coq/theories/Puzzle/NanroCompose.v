(* C11 Tier 1 - composition with property C04 for a solver that calls graph.active_vertices_connected (auxiliary-variable
   encoding, model Graph/Avc.v::post_avc, any graph) in the MIDDLE of its program: variables and constraints exist
   before the call (state st0, n0 variables), FURTHER variables [more] are declared and constraints [extra] posted after
   it (cspuz/puzzle/nanro.py).  The ranks have the ids n0 .. n0+n-1, the root flags n0+n .. n0+2n-1, [more] starts at
   n0+2n.
     avc_mid_model    : an assignment is a model of the final state exactly when it is a model of st0, the ranks are in
                        range, the certificate checker of C04 accepts, the later variables are in their domains and the
                        later constraints hold
     avc_mid_sound    : ... and then the activity pattern is connected
     avc_mid_complete : a connected pattern has an in-range certificate (the discovery order of the flood fill)
   Uses C04's closed theorems avc_eval / cert_sound / cert_complete. *)
From Coq Require Import ZArith List Bool Arith Lia.
From Cspuz Require Import Lib.PyErr Core.Expr Core.Program Graph.GraphModel Graph.ReachProofs
     Graph.Avc Graph.AvcCert Graph.AvcSem Graph.AvcProofs.
Import ListNotations.
Local Open Scope nat_scope.

Section Mid.
  Variables (g : graph) (n0 : nat).
  Variables (st0 st1 st : state) (acts : list expr) (more : list vdecl) (extra : list expr).
  Hypothesis Hn0 : next_id st0 = n0.
  Hypothesis Hp : post_avc st0 acts g false false = Ok st1.
  Hypothesis Hvars : vars st = vars st1 ++ more.
  Hypothesis Hcons : Program.cons st = Program.cons st1 ++ extra.
  Hypothesis Hdef : forall en, acts_defined en acts.
  Hypothesis Hwf : wf_graph g = true.

  Definition mid_ranks_ok (en : env) : Prop :=
    forall j, j < nv g -> (0 <= ei en (n0 + j) <= Z.of_nat (nv g) - 1)%Z.
  Definition mid_cert_ok (en : env) : Prop :=
    cert_avc g false (pattern en acts) (fun j => ei en (n0 + j)) (fun j => eb en (n0 + nv g + j)) = true.

  Lemma avc_mid_nonempty : 1 <= nv g.
  Proof. exact (post_avc_nonempty _ _ _ _ _ Hp). Qed.

  Lemma avc_mid_next : next_id st1 = n0 + nv g + nv g.
  Proof.
    destruct (AvcSem.avc_eval _ _ _ _ _ Hp) as [Hv _]. unfold next_id in *.
    rewrite Hv, !app_length, !repeat_length, Hn0. lia.
  Qed.

  Lemma avc_mid_model en :
    model_of gsem_avc en st <->
    (model_of gsem_avc en st0 /\ mid_ranks_ok en /\ mid_cert_ok en /\
     in_bounds_from en (n0 + nv g + nv g) more = true /\ forallb (holds gsem_avc en) extra = true).
  Proof.
    destruct (AvcSem.avc_eval _ _ _ _ _ Hp) as [Hv [_ [cs [Hc Hev]]]].
    rewrite Hn0 in Hev.
    unfold model_of, in_bounds, satisfies. rewrite Hvars, Hcons, Hv, Hc.
    rewrite !AvcSem.in_bounds_from_app, !forallb_app, AvcSem.in_bounds_from_bools.
    rewrite !app_length, !repeat_length. cbn [Nat.add]. fold (next_id st0). rewrite Hn0.
    rewrite (Hev en (Hdef en)). rewrite !andb_true_iff, AvcSem.in_bounds_from_ints.
    replace (n0 + (nv g + nv g)) with (n0 + nv g + nv g) by lia.
    unfold mid_ranks_ok, mid_cert_ok. tauto.
  Qed.

  Lemma avc_mid_sound en : mid_ranks_ok en -> mid_cert_ok en -> connected_b g (pattern en acts) = true.
  Proof.
    intros Hr Hce. apply (connected_b_spec _ _ Hwf).
    apply (cert_sound g false (pattern en acts) (fun j => ei en (n0 + j)) (fun j => eb en (n0 + nv g + j)) Hwf); [|exact Hce].
    intros j Hj. apply Hr. exact Hj.
  Qed.

  Lemma avc_mid_complete act :
    connected_b g act = true ->
    ranks_in_range g (avc_rank g act) /\ cert_avc g false act (avc_rank g act) (avc_root g act) = true.
  Proof.
    intros Hcn. apply (connected_b_spec _ _ Hwf) in Hcn.
    exact (cert_complete g false act Hwf avc_mid_nonempty Hcn).
  Qed.
End Mid.
