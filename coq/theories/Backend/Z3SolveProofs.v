(* C01, part 3: Solver.find_answer through the z3 backend decides
   satisfiability and leaves a model in the sol fields, for any SMT solver that
   is sound and complete on the queries made; the same after every prefix of an
   incremental session. *)
From Coq Require Import ZArith List Bool Lia.
From Cspuz Require Import Lib.PyErr Core.Expr Core.Program Backend.Z3Call Gen.Z3Table Backend.Z3
  Backend.Z3Oracle Backend.ExprFacts Backend.Z3Proofs Backend.Z3ConstsProofs.
Import ListNotations.
Open Scope Z_scope.

(* every posted constraint is a well-typed boolean tree over the declared variables *)
Definition wf_cons (vs : list vdecl) (cs : list expr) : Prop :=
  forallb (fun e => wt true e && refs_ok vs e) cs = true.
Definition wf_state (st : state) : Prop := wf_cons (vars st) (cons st).

Definition val_typed (d : vdecl) (v : value) : Prop :=
  match d, v with DBool, VB _ => True | DInt _ _, VI _ => True | _, _ => False end.
Definition sol_typed (vs : list vdecl) (s : list value) : Prop := Forall2 val_typed vs s.

(* what the two oracle hypotheses say *)
Definition oracle_sound_on (oracle : list zterm -> option zmodel) : Prop :=
  forall ts m, oracle ts = Some m ->
    forallb (ztrue (complete m)) ts = true /\
    (forall i, existsb (int_occurs i) ts = true -> zi m i <> None).
Definition oracle_complete_on (oracle : list zterm -> option zmodel) : Prop :=
  forall ts, boundedb ts = true -> oracle ts = None -> forall en, forallb (ztrue en) ts = false.

(* ---- the asserted bounds -------------------------------------------------- *)
Lemma bounds_sem en : forall vs k, forallb (ztrue en) (bound_terms_from k vs) = in_bounds_from en k vs.
Proof.
  induction vs as [|d vs IH]; intros k; simpl; [reflexivity|].
  destruct d as [|lo hi]; simpl; [apply IH|].
  unfold ztrue at 1 2; simpl. rewrite IH.
  destruct (lo <=? ei en k), (ei en k <=? hi); reflexivity.
Qed.

Lemma int_occurs_bounds rest : forall vs k j lo hi, nth_error vs j = Some (DInt lo hi) ->
  existsb (int_occurs (k + j)) (bound_terms_from k vs ++ rest) = true.
Proof.
  induction vs as [|d vs IH]; intros k j lo hi N; [destruct j; discriminate|].
  destruct j as [|j]; simpl in N.
  - inversion N; subst; simpl. rewrite Nat.add_0_r, Nat.eqb_refl; reflexivity.
  - replace (k + S j)%nat with (S k + j)%nat by lia. specialize (IH (S k) j lo hi N).
    destruct d as [|lo0 hi0]; cbn [bound_terms_from app existsb]; rewrite IH, ?orb_true_r; reflexivity.
Qed.

(* ---- the converted constraints -------------------------------------------- *)
Lemma top_cast_ok r : lit_kind true r -> exists t, top_cast r = Ok t /\ forall en, zeval en t = zres_eval en r.
Proof. destruct r; simpl; intros K; try discriminate; try contradiction; eexists; split; reflexivity. Qed.

Lemma holds_ztrue en e r t : denotes e r -> (forall en, zeval en t = zres_eval en r) ->
  ztrue en t = holds no_graph en e.
Proof. intros D H; unfold ztrue, holds; rewrite H, (D en); reflexivity. Qed.

Lemma conv_constraints vs : forall cs, wf_cons vs cs ->
  exists rs ts, mapM (conv vs) cs = Ok rs /\ mapM top_cast rs = Ok ts /\
    (forall en, forallb (ztrue en) ts = forallb (holds no_graph en) cs) /\
    forallb (zconsts_ok vs) ts = true /\ length rs = length cs.
Proof.
  induction cs as [|c cs IH]; intros W.
  - exists [], []; repeat split; reflexivity.
  - unfold wf_cons in W; simpl in W. apply andb_prop in W; destruct W as [Wc W].
    apply andb_prop in Wc; destruct Wc as [Wt Rc].
    destruct (IH W) as [rs [ts [E1 [E2 [Hs [Hk L]]]]]].
    destruct (conv_sem vs c true Wt Rc) as [r [Er [Kr Dr]]].
    destruct (top_cast_ok r Kr) as [t [Et Ht]].
    exists (r :: rs), (t :: ts); simpl; rewrite Er; simpl; rewrite E1; simpl; rewrite Et; simpl; rewrite E2; simpl.
    repeat split; try reflexivity.
    + intros en; rewrite Hs, (holds_ztrue en c r t Dr Ht); reflexivity.
    + rewrite Hk, andb_true_r. pose proof (conv_okc vs c r Er) as Ok1.
      destruct r; simpl in Et; inversion Et; subst; simpl in *; auto.
    + rewrite L; reflexivity.
Qed.

Lemma queries_are_bounded_lemma vs cs rs ts : wf_cons vs cs ->
  mapM (conv vs) cs = Ok rs -> mapM top_cast rs = Ok ts -> boundedb (bound_terms vs ++ ts) = true.
Proof.
  intros W E1 E2. apply queries_bounded.
  destruct (conv_constraints vs cs W) as [rs' [ts' [E1' [E2' [_ [K _]]]]]].
  rewrite E1 in E1'; injection E1' as <-. rewrite E2 in E2'; injection E2' as <-. exact K.
Qed.

(* ---- reading the model back ----------------------------------------------- *)
Lemma readback_ok m : forall vs k,
  (forall j lo hi, nth_error vs j = Some (DInt lo hi) -> zi m (k + j) <> None) ->
  exists s, readback_from m k vs = Ok s /\ sol_typed vs s /\
    forall j d, nth_error vs j = Some d -> nth_error s j = Some (val_of (complete m) d (k + j)).
Proof.
  induction vs as [|d vs IH]; intros k H.
  - exists []; repeat split; [constructor|intros j d Hj; destruct j; discriminate].
  - destruct (IH (S k)) as [s [E [T V]]].
    { intros j lo hi Hj. replace (S k + j)%nat with (k + S j)%nat by lia. eapply H; exact Hj. }
    destruct d as [|lo hi].
    + eexists; simpl; rewrite E; simpl; split; [reflexivity|split].
      * constructor; [exact I|exact T].
      * intros [|j] d Hj; simpl in Hj.
        -- inversion Hj; subst; simpl. rewrite Nat.add_0_r. reflexivity.
        -- simpl. replace (k + S j)%nat with (S k + j)%nat by lia. apply V; exact Hj.
    + pose proof (H O lo hi eq_refl) as H0. rewrite Nat.add_0_r in H0.
      simpl. destruct (zi m k) as [z|] eqn:Z; [|contradiction].
      eexists; rewrite E; simpl; split; [reflexivity|split].
      * constructor; [exact I|exact T].
      * intros [|j] d Hj; simpl in Hj.
        -- inversion Hj; subst; simpl. rewrite Nat.add_0_r, Z. reflexivity.
        -- simpl. replace (k + S j)%nat with (S k + j)%nat by lia. apply V; exact Hj.
Qed.

Lemma sol_agrees en vs s :
  (forall j d, nth_error vs j = Some d -> nth_error s j = Some (val_of en d j)) ->
  agree_on vs (env_of_sol s) en.
Proof.
  intros V i d N. pose proof (V i d N) as Hs.
  destruct d; simpl in *; rewrite Hs; reflexivity.
Qed.

Lemma satisfies_agree vs cs e1 e2 : wf_cons vs cs -> agree_on vs e1 e2 ->
  forallb (holds no_graph e1) cs = forallb (holds no_graph e2) cs.
Proof.
  intros W A. induction cs as [|c cs IH]; simpl; [reflexivity|].
  unfold wf_cons in W; simpl in W. apply andb_prop in W; destruct W as [Wc W].
  apply andb_prop in Wc; destruct Wc as [_ Rc].
  rewrite (holds_agree vs c e1 e2 Rc A), (IH W); reflexivity.
Qed.

Section Correct.
  Variable oracle : list zterm -> option zmodel.
  Hypothesis oracle_sound : oracle_sound_on oracle.
  Hypothesis oracle_complete : oracle_complete_on oracle.

  (* Z3Backend.solve on a backend holding the conversion of [cs] *)
  Lemma z3_solve_correct vs cs rs :
    wf_cons vs cs -> mapM (conv vs) cs = Ok rs ->
    exists r, z3_solve oracle vs rs = Ok r /\
      match r with
      | Some s => in_bounds_from (env_of_sol s) O vs = true /\
                  forallb (holds no_graph (env_of_sol s)) cs = true /\ sol_typed vs s
      | None => forall en, in_bounds_from en O vs = true -> forallb (holds no_graph en) cs = false
      end.
  Proof.
    intros W E.
    destruct (conv_constraints vs cs W) as [rs' [ts [E1 [E2 [Hs [Hk _]]]]]].
    rewrite E in E1; injection E1 as <-.
    unfold z3_solve; rewrite E2; simpl.
    destruct (oracle (bound_terms vs ++ ts)) as [m|] eqn:Eo.
    - destruct (oracle_sound _ m Eo) as [Ht Hi].
      rewrite forallb_app in Ht; apply andb_prop in Ht; destruct Ht as [Hb Hc].
      unfold bound_terms in Hb; rewrite bounds_sem in Hb. rewrite Hs in Hc.
      destruct (readback_ok m vs O) as [s [Er [T V]]].
      { intros j lo hi Hj. apply Hi. exact (int_occurs_bounds ts vs O j lo hi Hj). }
      unfold readback; rewrite Er; simpl. eexists; split; [reflexivity|]. cbv beta iota.
      pose proof (sol_agrees (complete m) vs s V) as A.
      rewrite (in_bounds_agree vs _ _ A), (satisfies_agree vs cs _ _ W A). auto.
    - eexists; split; [reflexivity|]. cbv beta iota. intros en Hb.
      pose proof (oracle_complete _ (queries_bounded vs ts Hk) Eo en) as Hf.
      rewrite forallb_app in Hf. unfold bound_terms in Hf; rewrite bounds_sem, Hb in Hf; simpl in Hf.
      rewrite Hs in Hf; exact Hf.
  Qed.

  Theorem find_answer_correct st : wf_state st ->
    exists r, find_answer oracle st = Ok r /\
      (r <> None <-> satisfiable no_graph st) /\
      (forall s, r = Some s -> model_of no_graph (env_of_sol s) st /\ sol_typed (vars st) s).
  Proof.
    intros W. destruct (conv_constraints (vars st) (cons st) W) as [rs [ts [E1 _]]].
    destruct (z3_solve_correct (vars st) (cons st) rs W E1) as [r [Er Hr]].
    exists r. unfold find_answer, z3_add_list; rewrite E1; simpl. split; [exact Er|].
    destruct r as [s|].
    - destruct Hr as [Hb [Hc T]]. split.
      + split; [intros _; exists (env_of_sol s); split; assumption|intros _; discriminate].
      + intros s' H; injection H as <-. split; [split; assumption|exact T].
    - split.
      + split; [intros H; contradiction|].
        intros [en [Hb Hc]]. unfold in_bounds in Hb. unfold satisfies in Hc. rewrite (Hr en Hb) in Hc; discriminate.
      + intros s H; discriminate.
  Qed.
End Correct.

(* ---- incremental sessions ------------------------------------------------- *)
(* the program after a step (find_answer does not change it) *)
Definition st_after (st : state) (o : sop) : state :=
  match o with
  | SBool => fst (bool_var st)
  | SInt lo hi => fst (int_var st lo hi)
  | SEnsure l => fst (ensure_list st l)
  | SFind => st
  end.

(* every ensure posts well-typed boolean trees over the variables declared so far *)
Definition wf_sop (st : state) (o : sop) : Prop :=
  match o with SEnsure l => wf_cons (vars st) l | _ => True end.
Fixpoint wf_ops (st : state) (ops : list sop) : Prop :=
  match ops with [] => True | o :: r => wf_sop st o /\ wf_ops (st_after st o) r end.

(* what the property demands of one step's outcome, given the session after it *)
Definition outcome_ok (s : sess) (out : option (res bool)) : Prop :=
  match out with
  | None => True
  | Some (Ok true) =>
      satisfiable no_graph (s_st s) /\
      exists v, s_sol s = map Some v /\ model_of no_graph (env_of_sol v) (s_st s) /\ sol_typed (vars (s_st s)) v
  | Some (Ok false) => ~ satisfiable no_graph (s_st s)
  | Some (Err _) => False
  end.

Lemma refs_ok_app vs more : forall e, refs_ok vs e = true -> refs_ok (vs ++ more) e = true.
Proof.
  induction e as [c|z| |i|i lo hi|o args IH|o args IH] using expr_nested_ind; simpl; intros R; try reflexivity.
  - destruct (nth_error vs i) eqn:N; try discriminate.
    rewrite nth_error_app1 by (apply nth_error_Some; congruence). rewrite N; exact R.
  - destruct (nth_error vs i) eqn:N; try discriminate.
    rewrite nth_error_app1 by (apply nth_error_Some; congruence). rewrite N; exact R.
  - rewrite forallb_forall in *; rewrite Forall_forall in IH; intros a Ia; apply IH; auto.
  - rewrite forallb_forall in *; rewrite Forall_forall in IH; intros a Ia; apply IH; auto.
Qed.

Lemma wf_cons_more vs more cs : wf_cons vs cs -> wf_cons (vs ++ more) cs.
Proof.
  unfold wf_cons; rewrite !forallb_forall; intros H e Ie.
  specialize (H e Ie). apply andb_prop in H; destruct H as [W R].
  rewrite W, (refs_ok_app vs more e R); reflexivity.
Qed.

Lemma wf_cons_app vs a b : wf_cons vs a -> wf_cons vs b -> wf_cons vs (a ++ b).
Proof. unfold wf_cons; intros Ha Hb; rewrite forallb_app, Ha, Hb; reflexivity. Qed.

Lemma ensure_list_wf : forall l st, wf_cons (vars st) l ->
  ensure_list st l = ({| vars := vars st; keys := keys st; cons := cons st ++ l |}, None).
Proof.
  induction l as [|x l IH]; intros st W; simpl.
  - rewrite app_nil_r; destruct st; reflexivity.
  - unfold wf_cons in W; simpl in W; apply andb_prop in W; destruct W as [Wx W].
    apply andb_prop in Wx; destruct Wx as [Wt _].
    assert (C : is_constraint_like x = true) by (destruct x; simpl in *; try discriminate; reflexivity).
    rewrite C. rewrite IH by exact W. simpl. rewrite <- app_assoc. reflexivity.
Qed.

Lemma st_after_wf st o : wf_state st -> wf_sop st o -> wf_state (st_after st o).
Proof.
  intros W Wo; destruct o; simpl in *.
  - unfold wf_state; simpl. apply wf_cons_more; exact W.
  - unfold wf_state; simpl. apply wf_cons_more; exact W.
  - rewrite ensure_list_wf by exact Wo. unfold wf_state; simpl. apply wf_cons_app; assumption.
  - exact W.
Qed.

Section Sessions.
  Variable oracle : list zterm -> option zmodel.
  Hypothesis oracle_sound : oracle_sound_on oracle.
  Hypothesis oracle_complete : oracle_complete_on oracle.

  Lemma step_state s o : wf_sop (s_st s) o -> s_st (fst (step oracle s o)) = st_after (s_st s) o.
  Proof.
    intros Wo; destruct o; simpl in *; try reflexivity.
    - rewrite ensure_list_wf by exact Wo; reflexivity.
    - destruct (find_answer oracle (s_st s)) as [[v|]|]; reflexivity.
  Qed.

  Lemma step_correct s o : wf_state (s_st s) -> wf_sop (s_st s) o ->
    outcome_ok (fst (step oracle s o)) (snd (step oracle s o)).
  Proof.
    intros W Wo; destruct o; simpl in *; try exact I.
    - rewrite ensure_list_wf by exact Wo; simpl; exact I.
    - destruct (find_answer_correct oracle oracle_sound oracle_complete (s_st s) W) as [r [E [Hs Hm]]].
      rewrite E. destruct r as [v|]; simpl.
      + split; [apply Hs; discriminate|]. exists v; split; [reflexivity|]. apply Hm; reflexivity.
      + intros Hsat. apply Hs in Hsat. apply Hsat; reflexivity.
  Qed.

  Theorem session_correct : forall ops s, wf_state (s_st s) -> wf_ops (s_st s) ops ->
    Forall (fun so => outcome_ok (fst so) (snd so)) (trace oracle s ops).
  Proof.
    induction ops as [|o ops IH]; intros s W Wo; simpl; [constructor|].
    destruct Wo as [Wo Wr].
    pose proof (step_correct s o W Wo) as Hc. pose proof (step_state s o Wo) as Hst.
    destruct (step oracle s o) as [s' out] eqn:E; simpl in *.
    constructor; [exact Hc|].
    apply IH; rewrite Hst; [apply st_after_wf; assumption|exact Wr].
  Qed.
End Sessions.
