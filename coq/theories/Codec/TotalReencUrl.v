(* C17: re-encodability for every declared size and at URL level.
   - a Grid over the board of a size with h * w = 0 decodes (from any text) to h empty rows, which
     serialize to the empty text, which decodes to the same rows: the grid codecs for ALL declared sizes;
   - the Rooms decoders return nothing on such a size;
   - whatever deserialize_<p>(url) returns, serialize_problem_as_url with the returned sizes writes a
     URL that deserialize_<p> reads back as the same value (all nine modules). *)
From Coq Require Import ZArith List Ascii Bool NArith Lia.
From Cspuz Require Import Lib.PyErr Codec.Comb Codec.CombWf Codec.CombBasics Codec.CombLeaf Codec.CombRoundTrip
  Codec.Legacy Codec.Url Codec.UrlProofs Codec.Yajilin Codec.Puzzles Codec.SerChars Codec.PuzzleProofs
  Codec.TotalModel Codec.TotalLeaf Codec.TotalRooms Codec.Total Codec.TotalDims
  Codec.TotalReencModel Codec.TotalReencLeaf Codec.TotalReenc Codec.TotalReencRooms Codec.TotalReencCodecs Codec.TotalReencYajilin Gen.Codecs.
Import ListNotations.
Local Open Scope Z_scope.

(* ------------------------------------------------------------------ boards without cells *)
Lemma grid_rows_nil W : forall H, grid_rows [] H W = map VList (repeat [] H).
Proof. induction H as [|H IH]; simpl; auto. rewrite firstn_nil, skipn_nil, IH. reflexivity. Qed.

Definition empty_rows (h : Z) : pv := VList (map VList (repeat [] (Z.to_nat h))).

Lemma grid_zero_de e c1 s : height e * width e = 0 ->
  de e (Grid c1 None) s = Ok (Some (0%nat, [empty_rows (height e)])).
Proof.
  intros Hz. simpl. unfold grid_de. cbn [grid_dims]. rewrite Hz.
  unfold seq_de. rewrite seq_de_loop_done by (simpl; lia).
  unfold py_take. simpl firstn. simpl length. simpl Z.of_nat. rewrite Z.eqb_refl.
  rewrite grid_rows_nil. reflexivity.
Qed.

Lemma grid_zero_ser e c1 : height e * width e = 0 ->
  ser e (Grid c1 None) (VList [empty_rows (height e)]) 0 = Ok (Some (1%nat, [])).
Proof.
  intros Hz. simpl. unfold grid_ser, empty_rows. cbn [py_items length Nat.eqb nth_res nth_error grid_dims].
  pose proof (grid_flatten_rows (repeat [] (Z.to_nat (height e))) []) as Hfl.
  cbn [app length] in Hfl. rewrite repeat_length, concat_repeat_nil in Hfl. rewrite Hfl.
  rewrite Hz. reflexivity.
Qed.

(* Grid codecs: any declared size *)
Theorem grid_reencodable_any_size cu c1 h w s p : 0 <= h -> 0 <= w ->
  wf (Grid c1 None) = true -> tupl_single (Grid c1 None) = true -> dec_ok (Grid c1 None) = true ->
  reenc_ok (Grid c1 None) = true ->
  deserialize_problem_cu cu (Grid c1 None) s h w = Ok (Some p) ->
  exists t, serialize_problem_cu cu (Grid c1 None) p h w = Ok t /\
            deserialize_problem_cu cu (Grid c1 None) t h w = Ok (Some p).
Proof.
  intros Hh Hw Hwf Hts Hok Hre Hd.
  destruct (Z.eq_dec (h * w) 0) as [Hz|Hnz].
  - pose proof (grid_zero_de (cu_env cu h w) c1 s Hz) as D1.
    pose proof (grid_zero_de (cu_env cu h w) c1 [] Hz) as D2.
    pose proof (grid_zero_ser (cu_env cu h w) c1 Hz) as S1.
    cbn [height width cu_env] in D1, D2, S1.
    unfold deserialize_problem_cu in Hd. rewrite D1 in Hd. inversion Hd; subst p.
    exists []. unfold serialize_problem_cu, deserialize_problem_cu. rewrite S1, D2. auto.
  - apply (de_reencodable_cu_lemma cu (Grid c1 None) h w s p); auto; nia.
Qed.

(* the Rooms decoders return a value only on boards with cells *)
Lemma rooms_value_pos e skip allow s n l : de e (Rooms skip allow) s = Ok (Some (n, l)) ->
  1 <= height e /\ 1 <= width e.
Proof.
  simpl. unfold rooms_de. intros H. apply TotalRooms.skip_value_error_some in H. revert H.
  unfold rooms_de_raw. cbv zeta.
  destruct (Z.leb_spec (height e) 0); simpl orb; [discriminate|].
  destruct (Z.leb_spec (width e) 0); simpl orb; [discriminate|]. intros _. lia.
Qed.

Lemma vrooms_value_pos e vc skip allow s n l : de e (ValuedRooms vc skip allow) s = Ok (Some (n, l)) ->
  1 <= height e /\ 1 <= width e.
Proof.
  simpl. unfold vrooms_de. change (rooms_de e skip allow s) with (de e (Rooms skip allow) s).
  destruct (de e (Rooms skip allow) s) as [[[ofs rooms]|]|] eqn:E; try discriminate.
  intros _. eapply rooms_value_pos; eauto.
Qed.

Theorem rooms_reencodable_any_size cu c h w s p :
  (exists skip allow, c = Rooms skip allow) \/ (exists vc skip allow, c = ValuedRooms vc skip allow) ->
  wf c = true -> tupl_single c = true -> dec_ok c = true -> reenc_ok c = true ->
  deserialize_problem_cu cu c s h w = Ok (Some p) ->
  exists t, serialize_problem_cu cu c p h w = Ok t /\ deserialize_problem_cu cu c t h w = Ok (Some p).
Proof.
  intros Hc Hwf Hts Hok Hre Hd.
  assert (Hpos : 1 <= h /\ 1 <= w).
  { unfold deserialize_problem_cu in Hd.
    destruct (de (cu_env cu h w) c s) as [[[n l]|]|] eqn:E; try discriminate.
    destruct Hc as [(skip & allow & ->)|(vc & skip & allow & ->)].
    - apply rooms_value_pos in E. exact E.
    - apply vrooms_value_pos in E. exact E. }
  destruct Hpos. apply (de_reencodable_cu_lemma cu c h w s p); auto.
  destruct Hc as [(skip & allow & ->)|(vc & skip & allow & ->)]; reflexivity.
Qed.

(* ------------------------------------------------------------------ URL level *)
Section UrlLevel.
  Variables (cu : custom) (sw : ser_wrapper) (dw : de_wrapper).
  Hypothesis Hcons : wrappers_consistent sw dw.
  Hypothesis Hnl : nl_free (sw_comb sw) = true.
  Hypothesis Hcu : forall h w, cust_good (cu_env cu h w).
  Hypothesis Hbody : forall h w s p, 0 <= h -> 0 <= w ->
    deserialize_problem_cu cu (sw_comb sw) s h w = Ok (Some p) ->
    exists t, serialize_problem_cu cu (sw_comb sw) p h w = Ok t /\
              deserialize_problem_cu cu (sw_comb sw) t h w = Ok (Some p).

  Theorem url_reencodable_gen url v : run_de cu dw url = Ok (Some v) ->
    exists h w p body, 0 <= h /\ 0 <= w /\ v = sized dw h w p /\
      run_ser_sized cu sw h w p = Ok (make_url default_prefix (sw_puzzle sw) h w body) /\
      run_de cu dw (make_url default_prefix (sw_puzzle sw) h w body) = Ok (Some v).
  Proof.
    pose proof Hcons as (Hc & _).
    unfold run_de at 1. unfold deserialize_url_cu.
    destruct (url_match url) as [[[[name wd] hd] body0]|] eqn:E.
    2:{ destruct (dw_allow_failure dw); discriminate. }
    destruct (url_match_sizes url name wd hd body0 E) as (w & h & Pw & Ph & Nw & Nh).
    rewrite Pw, Ph. cbn [bind].
    destruct (negb (allowed_ok (dw_allowed dw) name)); [discriminate|].
    rewrite <- Hc.
    destruct (deserialize_problem_cu cu (sw_comb sw) body0 h w) as [[p|]|] eqn:Ed; cbn [bind]; try discriminate.
    intros Hv.
    assert (Hp : p <> VNone /\ v = sized dw h w p).
    { unfold sized. destruct p; inversion Hv; split; auto; discriminate. }
    destruct Hp as [Hnn ->].
    destruct (Hbody h w body0 p Nh Nw Ed) as (t & Hser & Hde).
    destruct (url_level_roundtrip_nl cu sw dw h w p p t Hcons Nh Nw (Hcu h w) Hnl Hser Hde Hnn) as [H1 H2].
    exists h, w, p, t. auto.
  Qed.
End UrlLevel.

Definition url_reencodable (cu : custom) (sw : ser_wrapper) (dw : de_wrapper) : Prop :=
  forall url v, run_de cu dw url = Ok (Some v) ->
    exists h w p body, 0 <= h /\ 0 <= w /\ v = sized dw h w p /\
      run_ser_sized cu sw h w p = Ok (make_url default_prefix (sw_puzzle sw) h w body) /\
      run_de cu dw (make_url default_prefix (sw_puzzle sw) h w body) = Ok (Some v).

Lemma wrappers_ok :
  wrappers_consistent serialize_nurikabe_w deserialize_nurikabe_w /\
  wrappers_consistent serialize_masyu_w deserialize_masyu_w /\
  wrappers_consistent serialize_slitherlink_w deserialize_slitherlink_w /\
  wrappers_consistent serialize_sudoku_w deserialize_sudoku_w /\
  wrappers_consistent serialize_nurimisaki_w deserialize_nurimisaki_w /\
  wrappers_consistent serialize_yajilin_w deserialize_yajilin_w /\
  wrappers_consistent serialize_heyawake_w deserialize_heyawake_w /\
  wrappers_consistent serialize_lits_w deserialize_lits_w /\
  wrappers_consistent serialize_norinori_w deserialize_norinori_w.
Proof.
  repeat split; try reflexivity; try discriminate; vm_compute; repeat constructor.
Qed.

Lemma side_conditions_inv c : side_conditions c = true ->
  wf c = true /\ tupl_single c = true /\ dec_ok c = true /\ single c = true /\ reenc_ok c = true.
Proof.
  unfold side_conditions. generalize (wf c), (tupl_single c), (dec_ok c), (single c), (reenc_ok c).
  intros [] [] [] [] []; simpl; intros H; try discriminate; auto.
Qed.

Lemma grid_url c1 sw dw : sw_comb sw = Grid c1 None -> wrappers_consistent sw dw ->
  side_conditions (Grid c1 None) = true -> nl_free (Grid c1 None) = true -> url_reencodable no_custom sw dw.
Proof.
  intros Hc Hcons Hsc Hnl url v. apply side_conditions_inv in Hsc as (S1 & S2 & S3 & S4 & S5).
  apply url_reencodable_gen; auto.
  - rewrite Hc. exact Hnl.
  - intros h w. apply no_custom_cu_good.
  - intros h w s p Hh Hw. rewrite Hc. apply grid_reencodable_any_size; auto.
Qed.

Lemma rooms_url c sw dw : sw_comb sw = c ->
  (exists skip allow, c = Rooms skip allow) \/ (exists vc skip allow, c = ValuedRooms vc skip allow) ->
  wrappers_consistent sw dw -> side_conditions c = true -> nl_free c = true -> url_reencodable no_custom sw dw.
Proof.
  intros Hc Hshape Hcons Hsc Hnl url v. apply side_conditions_inv in Hsc as (S1 & S2 & S3 & S4 & S5).
  apply url_reencodable_gen; auto.
  - rewrite Hc. exact Hnl.
  - intros h w. apply no_custom_cu_good.
  - intros h w s p Hh Hw. rewrite Hc. apply rooms_reencodable_any_size; auto.
Qed.

(* every deserialize_<p>: what it returns is written again by serialize_problem_as_url (with the returned
   sizes) as a URL that deserialize_<p> reads back as the same value *)
Theorem codecs_url_reencodable_lemma :
  url_reencodable no_custom serialize_nurikabe_w deserialize_nurikabe_w /\
  url_reencodable no_custom serialize_masyu_w deserialize_masyu_w /\
  url_reencodable no_custom serialize_slitherlink_w deserialize_slitherlink_w /\
  url_reencodable no_custom serialize_sudoku_w deserialize_sudoku_w /\
  url_reencodable no_custom serialize_nurimisaki_w deserialize_nurimisaki_w /\
  url_reencodable yajilin_custom serialize_yajilin_w deserialize_yajilin_w /\
  url_reencodable no_custom serialize_heyawake_w deserialize_heyawake_w /\
  url_reencodable no_custom serialize_lits_w deserialize_lits_w /\
  url_reencodable no_custom serialize_norinori_w deserialize_norinori_w.
Proof.
  pose proof wrappers_ok as (W1 & W2 & W3 & W4 & W5 & W6 & W7 & W8 & W9).
  split; [eapply grid_url; [reflexivity|exact W1|vm_compute; reflexivity|vm_compute; reflexivity]|].
  split; [eapply grid_url; [reflexivity|exact W2|vm_compute; reflexivity|vm_compute; reflexivity]|].
  split; [eapply grid_url; [reflexivity|exact W3|vm_compute; reflexivity|vm_compute; reflexivity]|].
  split; [eapply grid_url; [reflexivity|exact W4|vm_compute; reflexivity|vm_compute; reflexivity]|].
  split; [eapply grid_url; [reflexivity|exact W5|vm_compute; reflexivity|vm_compute; reflexivity]|].
  split.
  { intros url v.
    apply (url_reencodable_gen yajilin_custom serialize_yajilin_w deserialize_yajilin_w W6 eq_refl
             (fun h w => yajilin_cu_good h w)).
    intros h w s p Hh Hw. apply yajilin_reencodable_lemma; auto. }
  split; [eapply rooms_url; [reflexivity|right; do 3 eexists; reflexivity|exact W7|vm_compute; reflexivity|vm_compute; reflexivity]|].
  split; [eapply rooms_url; [reflexivity|left; do 2 eexists; reflexivity|exact W8|vm_compute; reflexivity|vm_compute; reflexivity]|].
  eapply rooms_url; [reflexivity|left; do 2 eexists; reflexivity|exact W9|vm_compute; reflexivity|vm_compute; reflexivity].
Qed.
