"""C07 - division_connected_variable_groups (with / without borders) admits exactly
the valid partitions.

tie (P): the program really posted by cspuz.graph.division_connected_variable_groups /
division_connected_variable_groups_with_borders (public wrappers, hence also the private
helpers) is compared, declaration by declaration and tree by tree in posting order, with
the program of the extracted Coq model (Graph/VarGroups.v), together with the returned
array (ids, 1-D / 2-D shape) or the raised exception class.

search: satisfiability (z3, own translation of the posted trees) of the really posted
non-primitive program with "ids equal <=> same block" fixed for every set partition /
with the is_border pattern fixed for every subset, against an independent Python oracle;
the primitive route is evaluated with the operator's meaning (= the specification) by
the extracted model.
"""
import itertools

import exprio
import graphcap
import graphforms
import vlib

PROPS = "Props/C07.v"
RULE = ("P-correspondence: a case is (function, graph or grid shape or inner frame, group_size form, "
        "is_border form, use_graph_primitive, config default); the captured Solver state after the real call "
        "(variable declarations, answer-key flags, constraint trees in posting order), the returned array and "
        "the exception class must equal the model's (Graph/VarGroups.v, extracted).  Graphs: every multigraph with "
        "<= 4 vertices and <= 4 edges, loop graphs <= 3 vertices, random multigraphs <= 9 vertices, grids with "
        "h*w <= 12 incl. 1xN / Nx1 / empty shapes, inner frames h*w <= 12.  group_size forms: None, int constants "
        "(0, 1, 2, n, n+1, -1), IntVar, IntExpr, lists / tuples / IntArray1D / rows / IntArray2D with None holes, "
        "ints, variables, expressions; malformed: wrong lengths, bool items, BoolExpr items, wrong container kinds.  "
        "is_border forms: BoolArray1D, lists of v / ~v / v&w / v|~w / comparisons / True / False, malformed items "
        "(int, None, IntVar), wrong lengths, frames.  spec-vs-oracle: the executable Coq specifications "
        "realisable_b / border_exact_b (proved equivalent to the relational ones) against the plain-Python oracles.  "
        "Non-trivial = distinct (kind, input) pair.  "
        "Search: for every graph in scope and every set partition of its vertices (resp. every subset of "
        "border edges) the really posted non-primitive program with the pattern fixed is decided by z3 and compared "
        "with a plain-Python oracle (blocks connected, sizes as specified, every border edge separates); the node "
        "posted by the primitive route is evaluated with the operator's defined meaning by the extracted model.  "
        "Hardened input classes (tie and search): graph forms (edges stored (larger, smaller), shuffled order, cycles stored "
        "head-to-tail, parallel bundles, self-loops) and structured instances with 6-10 vertices (long paths / cycles, two "
        "disjoint cycles, K5/K6/K33, wheels, prisms, Petersen, 7-vertex graphs with n+3..n+6 edges; graphforms.py) with "
        "targeted partitions / border patterns (connected-block partitions, one vertex moved, one flag flipped); group_size "
        "fully specified as mixed lists / tuples of ints and IntVars (block sizes of a connected partition, per-block and "
        "shared variables), ints outside the small-int cache; is_border as Python True/False mixed with expressions, as "
        "tuple / BoolArray1D; one-shot iterables (generator, iter, map, reversed, also nested as rows) for group_size / "
        "is_border -- refused with TypeError or the program of the materialised value; histories: several calls on one "
        "Solver with the same Graph object and the same group_size / is_border containers, the Graph extended by the caller "
        "in between, arguments unchanged after every call.")
TRUSTED = [
    "z3 as a decision procedure for the search only (never discharges an obligation)",
    "harness-side translation of cspuz expression trees to z3 terms (pC07.to_z3) and the recording of the posted program through the public Solver class (exprio.show_state)",
    "the meaning of Op.GRAPH_DIVISION is defined as the specification (VarGroups.gdiv_sem = border_exact_b on the decoded operands; theorem vargroups_primitive_exact); the external solver implementing it is trusted",
    "graph-theoretic definitions in Graph/VarGroups.v (realisable, border_exact, same_cut, is_cut_block) and Graph/GraphModel.v (reach, connected); their executable versions are proved equivalent (vargroups_specs_reflect) and cross-checked on every run against a plain-Python oracle (kinds spec-vs-oracle:*)",
    "ordinary meaning of the expression operators (Core/Expr.v eval)",
]
ASSUMPTIONS = [
    "graphs are well formed (edge endpoints < num_vertices; Graph.add_edge raises otherwise) and num_vertices >= 1 for the theorems (num_vertices = 0 raises ValueError, checked by the tie); parallel edges and self loops are allowed",
    "the caller's variables occurring in group_size / is_border are not otherwise constrained: the theorems quantify over an arbitrary assignment of the ids below next_id and ask for an extension to the ids the call declares",
    "group_size items are None, Python ints, IntVar or IntExpr trees that evaluate to integers; is_border items are BoolVar / BoolExpr trees or Python bools (other objects: only the raised error / degenerate constraint is modelled and tied, e.g. a Python bool as a size posts the constant False)",
    "a partition is given as a label per vertex; 'realised by the ids' = for all u, v < n: ids[u] == ids[v] iff same label",
]

ERR = {1: "IndexError", 2: "KeyError", 3: "AssertionError", 4: "TypeError", 5: "ValueError",
       6: "RecursionError", 7: "NotImplementedError", 8: "Other"}


# ---------------------------------------------------------------- tokens

def graph_tok(g):
    if g is None:
        return "G-"
    n, es = g
    return "G %d %d%s" % (n, len(es), "".join(" %d %d" % e for e in es))


def gs_tok(gs):
    from cspuz.array import Array1D, Array2D
    if gs is None:
        return "N"
    if isinstance(gs, Array2D):
        return "A2 %d %d %s" % (gs.shape[0], gs.shape[1], exprio.show_list(gs.data))
    if isinstance(gs, Array1D):
        return "A1 " + exprio.show_list(gs.data)
    if isinstance(gs, (list, tuple)):
        if len(gs) > 0 and all(isinstance(r, (list, tuple)) for r in gs):
            return "R %d %s" % (len(gs), " ".join(exprio.show_list(r) for r in gs))
        return "L " + exprio.show_list(gs)
    return "SC " + exprio.show(gs)


def bd_tok(bd):
    from cspuz.grid_frame import BoolInnerGridFrame
    if isinstance(bd, BoolInnerGridFrame):
        return "BF %d %d %s %s" % (bd.height, bd.width, exprio.show_list(bd.horizontal.data),
                                   exprio.show_list(bd.vertical.data))
    return "BL " + exprio.show_list(list(bd))


def parse_reply(r):
    t = r.split(" ", 2)
    if t[0] == "E":
        return ("err", ERR[int(t[1])])
    if t[0] == "OK":
        return ("ok", r[3:])
    raise RuntimeError("bad model reply " + r[:200])


def mk_graph(g):
    return None if g is None else graphcap.mk_graph(g[0], g[1])


# ---------------------------------------------------------------- running one case on the implementation

class Pool:
    """the caller's variables, created before the call (ids below next_id)"""

    def __init__(self, s):
        self.s = s
        self.iv = [s.int_var(1, 3), s.int_var(0, 5), s.int_var(2, 2)]
        self.bv = list(s.bool_array(4))


def run_vg(g, shape, mk_gs, wrap=None):
    """-> (request line, impl outcome); wrap: the argument really passed is wrap(gs) (a one-shot iterable / another
    container yielding the same items) while the request describes gs itself"""
    from cspuz import Solver, graph as cg
    from cspuz.array import IntArray2D
    s = Solver()
    pool = Pool(s)
    gs = mk_gs(pool)
    st0 = exprio.show_state(s)
    req = "VG %s %s %s %s" % (graph_tok(g), "S-" if shape is None else "S %d %d" % shape, gs_tok(gs), st0)
    if wrap is not None:
        gs = wrap(gs)

    def call():
        kw = {}
        if g is not None:
            kw["graph"] = mk_graph(g)
        if shape is not None:
            kw["shape"] = shape
        r = cg.division_connected_variable_groups(s, group_size=gs, **kw)
        if isinstance(r, IntArray2D):
            return "G %d %d %s %s" % (r.shape[0], r.shape[1], exprio.show_list(r.data), exprio.show_state(s))
        assert type(r).__name__ == "IntArray1D", type(r).__name__
        return "F %s %s" % (exprio.show_list(r.data), exprio.show_state(s))
    return req, vlib.guarded(call)


def run_wb(g, mk_gs, mk_bd, ugp, cfg, wrap_gs=None, wrap_bd=None):
    from cspuz import Solver, graph as cg
    from cspuz.configuration import config
    s = Solver()
    pool = Pool(s)
    gs = mk_gs(pool)
    bd = mk_bd(pool)
    st0 = exprio.show_state(s)
    req = "WB %s %s %s %s %s %s" % (graph_tok(g), gs_tok(gs), bd_tok(bd),
                                    "N" if ugp is None else ("T" if ugp else "F"), "T" if cfg else "F", st0)
    if wrap_gs is not None:
        gs = wrap_gs(gs)
    if wrap_bd is not None:
        bd = wrap_bd(bd)

    def call():
        old = config.use_graph_division_primitive
        config.use_graph_division_primitive = cfg
        try:
            kw = {}
            if g is not None:
                kw["graph"] = mk_graph(g)
            if ugp is not None:
                kw["use_graph_primitive"] = ugp
            r = cg.division_connected_variable_groups_with_borders(s, group_size=gs, is_border=bd, **kw)
            assert r is None
        finally:
            config.use_graph_division_primitive = old
        return exprio.show_state(s)
    return req, vlib.guarded(call)


def graph_snapshot(g):
    return (g.num_vertices, list(g.edges), [list(l) for l in g.incident_edges])


def run_history(g, mk_gs, mk_bd, plan, rng):
    """a sequence of calls on the same Solver with the same Graph object and the same group_size / is_border containers.
    plan: list of steps 'vg' | 'wbF' | 'wbT' | 'extend' (the caller adds an edge to the Graph; the is_border container is
    rebuilt for the new edge count).  Each call's request starts from the state the previous call left.
    -> [(kind, label, request or None, expected (if no request), impl outcome)]"""
    from cspuz import Solver, graph as cg
    s = Solver()
    pool = Pool(s)
    n, edges = g[0], list(g[1])
    G = graphcap.mk_graph(n, edges)
    gs = mk_gs(pool)
    bd = None
    out = []

    def items(x):
        return list(x) if isinstance(x, (list, tuple)) else (list(x.data) if hasattr(x, "data") else None)
    for step in plan:
        if step == "extend":
            if n >= 1:
                a, b = rng.randrange(n), rng.randrange(n)
                G.add_edge(a, b)
                edges.append((a, b))
                bd = None
            continue
        if step != "vg" and bd is None:
            bd = mk_bd(pool, len(edges))
        st0 = exprio.show_state(s)
        snap = (items(gs), items(bd) if bd is not None else None, graph_snapshot(G))
        if step == "vg":
            req = "VG %s S- %s %s" % (graph_tok((n, edges)), gs_tok(gs), st0)

            def call():
                r = cg.division_connected_variable_groups(s, graph=G, group_size=gs)
                assert type(r).__name__ == "IntArray1D", type(r).__name__
                return "F %s %s" % (exprio.show_list(r.data), exprio.show_state(s))
        else:
            ugp = step == "wbT"
            req = "WB %s %s %s %s F %s" % (graph_tok((n, edges)), gs_tok(gs), bd_tok(bd), "T" if ugp else "F", st0)

            def call():
                r = cg.division_connected_variable_groups_with_borders(s, graph=G, group_size=gs, is_border=bd, use_graph_primitive=ugp)
                assert r is None
                return exprio.show_state(s)
        io = vlib.guarded(call)
        out.append(("history", (step, tuple(plan), n, tuple(edges)), req, None, io))
        now = (items(gs), items(bd) if bd is not None else None, graph_snapshot(G))
        same = (now[2] == snap[2] == graph_snapshot(graphcap.mk_graph(n, edges))
                and all((a is None and b is None) or (a is not None and b is not None and len(a) == len(b) and all(x is y for x, y in zip(a, b)))
                        for a, b in zip(now[:2], snap[:2])))
        out.append(("args-unchanged", (step, tuple(plan), n, tuple(edges)), None, "unchanged",
                    "unchanged" if same else "group_size / is_border / Graph modified by the call"))
        if io[0] != "ok":
            break
    return out


# ---------------------------------------------------------------- argument forms

def size_item(pool, rng, n, kind):
    if kind == "none":
        return None
    if kind == "int":
        return rng.randint(1, max(1, n))
    if kind == "var":
        return rng.choice(pool.iv)
    if kind == "expr":
        return rng.choice([pool.iv[0] + 1, pool.iv[1] - pool.iv[0], pool.bv[0].cond(2, pool.iv[2]), -pool.iv[1]])
    raise ValueError(kind)


def vg_size_forms(n, rng):
    """(name, maker(pool)) for a graph with n >= 1 vertices; valid forms first"""
    from cspuz.array import IntArray1D, IntArray2D

    def items(kinds):
        def mk(pool):
            return [size_item(pool, rng, n, rng.choice(kinds)) for _ in range(n)]
        return mk
    forms = [
        ("none", lambda p: None),
        ("int1", lambda p: 1), ("int2", lambda p: 2), ("intn", lambda p: n),
        ("int0", lambda p: 0), ("intbig", lambda p: n + 1), ("intneg", lambda p: -1),
        ("ivar", lambda p: p.iv[0]), ("ivar1", lambda p: p.iv[1]),
        ("iexpr", lambda p: p.iv[0] + 1), ("iexpr2", lambda p: p.bv[1].cond(p.iv[0], 2)),
        ("list-int", items(["int"])),
        ("list-holes", items(["none", "int"])),
        ("list-holes2", items(["none", "none", "int"])),
        ("list-mixed", items(["none", "int", "var", "expr"])),
        ("list-vars", items(["var", "none"])),
        ("list-allnone", lambda p: [None] * n),
        ("tuple-holes", lambda p: tuple(items(["none", "int"])(p))),
        ("arr1", lambda p: p.s.int_array(n, 1, n)),
        ("arr1-expr", lambda p: p.s.int_array(n, 0, n) + 1),
        ("arr1-holes", lambda p: IntArray1D(items(["none", "var", "expr"])(p))),
        # fully specified mixed lists (no None): ints and variables / ints, variables and expressions; tuples of them
        ("list-full-intvar", items(["int", "var"])),
        ("list-full-mixed", items(["int", "var", "expr"])),
        ("tuple-full-intvar", lambda p: tuple(items(["int", "var"])(p))),
        ("tuple-mixed", lambda p: tuple(items(["none", "int", "var", "expr"])(p))),
        # integers outside CPython's small-int cache, created at run time
        ("int-large", lambda p: int(str(300 + n))),
        ("list-large", lambda p: [rng.choice([None, int(str(257 + i)), int("-%d" % (6 + i))]) for i in range(n)]),
    ]
    bad = [
        ("short", lambda p: items(["none", "int"])(p)[:-1]),
        ("long", lambda p: items(["none", "int"])(p) + [3]),
        ("long-arr", lambda p: p.s.int_array(n + 2, 1, 2)),
        ("empty", lambda p: []),
        ("bad-elem", lambda p: (lambda l: l[:rng.randrange(n)] + [p.bv[0]] + l)(items(["none", "int"])(p))[:n]),
        ("bad-elem-expr", lambda p: [~p.bv[0]] * n),
        ("elem-true", lambda p: (lambda l: l[:rng.randrange(n)] + [True] + l)(items(["none", "int"])(p))[:n]),
        ("bad-scalar", lambda p: p.bv[0]),
        ("bad-scalar-expr", lambda p: p.bv[0] & p.bv[1]),
        ("scalar-true", lambda p: True), ("scalar-false", lambda p: False),
        ("rows", lambda p: [[1]] * n),
        ("arr2", lambda p: p.s.int_array((n, 1), 1, n)),
        ("arr2-h0", lambda p: IntArray2D([], (0, 2))),
    ]
    return forms, bad


def wb_size_forms(n, rng):
    from cspuz.array import IntArray1D

    def items(kinds):
        def mk(pool):
            return [size_item(pool, rng, n, rng.choice(kinds)) for _ in range(n)]
        return mk
    forms = [
        ("none", lambda p: None),
        ("list-allnone", lambda p: [None] * n),
        ("list-int", items(["int"])),
        ("list-holes", items(["none", "int"])),
        ("list-mixed", items(["none", "int", "var", "expr"])),
        ("list-vars", items(["var", "none"])),
        ("same-var", lambda p: [p.iv[1]] * n),
        ("tuple-holes", lambda p: tuple(items(["none", "int"])(p))),
        ("arr1", lambda p: p.s.int_array(n, 1, n)),
        ("arr1-holes", lambda p: IntArray1D(items(["none", "var", "expr"])(p))),
        ("list-full-intvar", items(["int", "var"])),
        ("tuple-full-mixed", lambda p: tuple(items(["int", "var", "expr"])(p))),
        ("list-large", lambda p: [rng.choice([None, int(str(257 + i)), int("-%d" % (6 + i))]) for i in range(n)]),
    ]
    bad = [
        ("scalar-int", lambda p: 2), ("scalar-var", lambda p: p.iv[0]), ("scalar-bool", lambda p: p.bv[0]),
        ("short", lambda p: items(["none", "int"])(p)[:-1]),
        ("long", lambda p: items(["none", "int"])(p) + [None]),
        ("arr2", lambda p: p.s.int_array((n, 1), 1, n)),
        ("bad-elem", lambda p: (lambda l: l[:rng.randrange(n)] + [p.bv[0]] + l)(items(["none", "int"])(p))[:n]),
        ("elem-true", lambda p: (lambda l: l[:rng.randrange(n)] + [True] + l)(items(["none", "int"])(p))[:n]),
        ("rows-n", lambda p: [[1]] * n),
        ("rows-other", lambda p: [[1]] * (n + 1)),
    ]
    return forms, bad


def border_item(pool, rng, kind):
    b = pool.bv
    if kind == "var":
        return rng.choice(b)
    if kind == "not":
        return ~rng.choice(b)
    if kind == "and":
        return rng.choice(b) & rng.choice(b)
    if kind == "or":
        return rng.choice(b) | ~rng.choice(b)
    if kind == "cmp":
        return pool.iv[0] < pool.iv[1]
    if kind == "true":
        return True
    if kind == "false":
        return False
    raise ValueError(kind)


def wb_border_forms(m, rng):
    from cspuz.array import BoolArray1D
    from cspuz.grid_frame import BoolInnerGridFrame

    def items(kinds):
        def mk(pool):
            return [border_item(pool, rng, rng.choice(kinds)) for _ in range(m)]
        return mk
    forms = [
        ("arr", lambda p: p.s.bool_array(m)),
        ("list-vars", items(["var"])),
        ("list-not", items(["var", "not"])),
        ("list-mixed", items(["var", "not", "and", "or", "cmp", "true", "false"])),
        ("all-true", lambda p: [True] * m), ("all-false", lambda p: [False] * m),
        ("arr-expr", lambda p: ~p.s.bool_array(m)),
        ("arr-mixed", lambda p: BoolArray1D(items(["var", "not", "and"])(p))),
        ("tuple-vars", lambda p: tuple(items(["var", "not"])(p))),
        ("tuple-mixed", lambda p: tuple(items(["var", "not", "and", "or", "cmp", "true", "false"])(p))),
        ("arr-consts", lambda p: BoolArray1D(items(["true", "false", "var"])(p))),
    ]
    bad = [
        ("short", lambda p: items(["var"])(p)[:-1] if m else [p.bv[0]]),
        ("long", lambda p: items(["var"])(p) + [p.bv[0]]),
        ("frame", lambda p: BoolInnerGridFrame(p.s, 2, 2)),
    ]
    if m:
        for nm, x in (("elem-int", lambda p: 1), ("elem-none", lambda p: None), ("elem-ivar", lambda p: p.iv[0])):
            bad.append((nm, (lambda x: lambda p: (lambda l: l[:rng.randrange(m)] + [x(p)] + l)(items(["var", "not"])(p))[:m])(x)))
    return forms, bad


UGP = [(True, False), (False, True), (None, True), (None, False), (True, True), (False, False)]


# ---------------------------------------------------------------- correspondence

def gen_cases(ctx):
    """yields (kind, label, runner thunk)"""
    rng = ctx.rng
    thorough = ctx.thorough
    small = list(graphcap.all_multigraphs(4, 4)) if not thorough else list(graphcap.all_multigraphs(4, 5))
    loops = [g for g in graphcap.all_multigraphs(3, 3, loops=True) if any(a == b for a, b in g[1])]
    rand = [graphcap.random_multigraph(rng, 9, loops=(i % 4 == 0)) for i in range(60 if not thorough else 400)]
    full = [(1, []), (2, [(0, 1)]), (3, [(0, 1), (1, 2)]), (3, [(0, 1), (0, 1), (1, 2)]), (4, [(0, 1), (1, 2), (2, 3), (0, 3)])]

    # --- division_connected_variable_groups, graph form
    for gi, g in enumerate(small + loops + rand):
        n = g[0]
        forms, bad = vg_size_forms(n, rng)
        pick = forms + (bad if (n <= 3 or gi % 3 == 0) else rng.sample(bad, 3))
        for nm, mk in pick:
            yield "vg-graph", (g, nm), (lambda g=g, mk=mk: run_vg(g, None, mk))
    for nm, mk in [("none", lambda p: None), ("int", lambda p: 1), ("list", lambda p: []), ("bad", lambda p: p.bv[0])]:
        yield "vg-graph", ((0, []), nm), (lambda mk=mk: run_vg((0, []), None, mk))
    # graph and shape together
    yield "vg-both", "graph+shape", lambda: run_vg((2, [(0, 1)]), (1, 2), lambda p: None)
    yield "vg-both", "graph+shape+rows", lambda: run_vg((2, [(0, 1)]), (1, 2), lambda p: [[1, 1]])

    # --- division_connected_variable_groups, grid form
    from cspuz.array import IntArray1D, IntArray2D
    shapes = list(graphcap.grid_shapes(12 if not thorough else 16)) + [(0, 0), (0, 3), (2, 0)]
    for (h, w) in shapes:
        n = h * w

        def rows(kinds, h=h, w=w, n=n):
            def mk(p):
                return [[size_item(p, rng, max(n, 1), rng.choice(kinds)) for _ in range(w)] for _ in range(h)]
            return mk
        shaped = [
            ("none", lambda p: None), ("int", lambda p: rng.randint(1, 3)), ("ivar", lambda p: p.iv[0]),
            ("iexpr", lambda p: p.iv[1] + 1), ("true", lambda p: True),
            ("rows-holes", rows(["none", "int"])), ("rows-mixed", rows(["none", "int", "var", "expr"])),
            ("rows-allnone", rows(["none"])),
            ("tuple-rows", lambda p, rows=rows: tuple(tuple(r) for r in rows(["none", "int"])(p))),
            ("arr2", lambda p, h=h, w=w: p.s.int_array((h, w), 1, 4)),
            ("arr2-expr", lambda p, h=h, w=w: p.s.int_array((h, w), 0, 3) + 1),
            ("arr2-holes", lambda p, h=h, w=w, rows=rows: IntArray2D([x for r in rows(["none", "var"])(p) for x in r], (h, w))),
        ]
        for nm, mk in shaped:
            yield "vg-grid-shape", ((h, w), nm), (lambda h=h, w=w, mk=mk: run_vg(None, (h, w), mk))
            if nm not in ("none", "int", "ivar", "iexpr", "true"):
                yield "vg-grid-infer", ((h, w), nm), (lambda mk=mk: run_vg(None, None, mk))
        # malformed / mismatching
        bad = [
            ("bad-scalar", lambda p: p.bv[0]), ("list1d", lambda p: [1, None, 2]), ("list1d-empty", lambda p: []),
            ("arr1", lambda p: p.s.int_array(3, 1, 2)), ("arr1-empty", lambda p: IntArray1D([])),
            ("rows-short", lambda p, w=w: [[1] * w]), ("rows-long", lambda p, h=h, w=w: [[None] * w] * (h + 1)),
            ("jagged", lambda p: [[1, 2], [3]]), ("jagged2", lambda p: [[], [1]]),
            ("arr2-other", lambda p, h=h, w=w: p.s.int_array((w + 1, h + 1), 1, 2)),
            ("rows-with-none-row", lambda p: [[1], None]), ("rows-with-int-row", lambda p: [[1], 2]),
            ("rows-bad-elem", lambda p, h=h, w=w: [[p.bv[0]] * w] * h),
        ]
        for nm, mk in bad:
            if nm in ("rows-with-none-row", "rows-with-int-row"):
                # mixed list: not representable as rows in the model's argument type; only the shape-given branch is compared
                continue
            yield "vg-grid-shape-bad", ((h, w), nm), (lambda h=h, w=w, mk=mk: run_vg(None, (h, w), mk))
            if (h, w) in ((2, 2), (1, 3)):
                yield "vg-grid-infer-bad", ((h, w), nm), (lambda mk=mk: run_vg(None, None, mk))
    for nm, mk in [("none", lambda p: None), ("int", lambda p: 3), ("ivar", lambda p: p.iv[0])]:
        yield "vg-grid-infer-bad", ("noshape", nm), (lambda mk=mk: run_vg(None, None, mk))

    # --- with borders, graph form
    for gi, g in enumerate(small + loops + rand):
        n, m = g[0], len(g[1])
        sf, sb = wb_size_forms(n, rng)
        bf, bb = wb_border_forms(m, rng)
        if g in full:
            combos = [(a, b, u) for a in sf + sb for b in bf + bb for u in UGP[:4]]
        else:
            combos = []
            for a in sf + (sb if n <= 3 or gi % 4 == 0 else rng.sample(sb, 2)):
                for b in rng.sample(bf, 2) + rng.sample(bb, 1 if gi % 2 else 0):
                    combos.append((a, b, rng.choice(UGP)))
            for b in bf + bb:
                combos.append((rng.choice(sf), b, rng.choice(UGP)))
        for (an, a), (bn, b), (ugp, cfg) in combos:
            if an == "rows-n" and (ugp if ugp is not None else cfg):
                continue  # a node with list operands is posted: outside the expression syntax of the tie
            yield "wb-graph", (g, an, bn, ugp, cfg), (lambda g=g, a=a, b=b, ugp=ugp, cfg=cfg: run_wb(g, a, b, ugp, cfg))
    for (ugp, cfg) in UGP[:4]:
        yield "wb-graph", ((0, []), "none", "empty", ugp, cfg), (lambda ugp=ugp, cfg=cfg: run_wb((0, []), lambda p: None, lambda p: [], ugp, cfg))
        yield "wb-graph", ((0, []), "rows0", "empty", ugp, cfg), (lambda ugp=ugp, cfg=cfg: run_wb((0, []), lambda p: [], lambda p: [], ugp, cfg))

    # --- graph forms: edges stored (larger, smaller) / shuffled, cycles stored head-to-tail, bundles, self-loops, and
    #     structured instances beyond the exhaustive scope (both functions, a few argument forms each)
    formed = [(n, graphforms.shuffled(rng, es)) for (n, es) in rng.sample(small, 120 if thorough else 50) if es]
    formed += [(n, es) for (k, n, es) in graphforms.structured(rng, loops=True)]
    formed += [(n, graphforms.shuffled(rng, es)) for (k, n, es) in graphforms.structured(rng, loops=True)][::2]
    for g in formed:
        n, m = g[0], len(g[1])
        forms, _ = vg_size_forms(n, rng)
        for nm, mk in [forms[0]] + rng.sample(forms[1:], 3):
            yield "vg-graph-forms", (g, nm), (lambda g=g, mk=mk: run_vg(g, None, mk))
        sf, _ = wb_size_forms(n, rng)
        bf, _ = wb_border_forms(m, rng)
        for _ in range(3):
            (an, a), (bn, b), (ugp, cfg) = rng.choice(sf), rng.choice(bf), rng.choice(UGP)
            yield "wb-graph-forms", (g, an, bn, ugp, cfg), (lambda g=g, a=a, b=b, ugp=ugp, cfg=cfg: run_wb(g, a, b, ugp, cfg))

    # --- one-shot iterables (generator, iter, map, reversed, zip) and nested ones: the documented arguments are sequences,
    #     so a call may refuse them (TypeError) -- it must never post something else than for the materialised value
    def shot(kind):
        return lambda x: graphforms.oneshot(kind, x)
    for g in rng.sample(small, 60 if thorough else 25) + rand[:10]:
        n, m = g[0], len(g[1])
        forms, _ = vg_size_forms(n, rng)
        lists = [f for f in forms if f[0].startswith(("list-", "tuple-"))]
        nm, mk = rng.choice(lists)
        k = rng.choice(graphforms.ONESHOT)
        yield "oneshot:vg-graph", (g, nm, k), (lambda g=g, mk=mk, k=k: run_vg(g, None, mk, wrap=shot(k)))
        sf, _ = wb_size_forms(n, rng)
        bf, _ = wb_border_forms(m, rng)
        (an, a) = rng.choice([f for f in sf if f[0].startswith(("list-", "tuple-", "same-"))])
        (bn, b) = rng.choice([f for f in bf if f[0].startswith(("list-", "tuple-", "all-"))])
        k = rng.choice(graphforms.ONESHOT)
        (ugp, cfg) = rng.choice(UGP)
        which = rng.choice(["gs", "bd", "both"])
        yield "oneshot:wb-graph", (g, an, bn, ugp, cfg, k, which), (
            lambda g=g, a=a, b=b, ugp=ugp, cfg=cfg, k=k, which=which:
            run_wb(g, a, b, ugp, cfg, wrap_gs=shot(k) if which != "bd" else None, wrap_bd=shot(k) if which != "gs" else None))
    for (h, w) in [(1, 1), (1, 3), (2, 2), (3, 2), (2, 4), (0, 2), (3, 0)]:
        n = h * w

        def rows(p, h=h, w=w, n=n):
            return [[size_item(p, rng, max(n, 1), rng.choice(["none", "int", "var", "expr"])) for _ in range(w)] for _ in range(h)]
        for k in graphforms.ONESHOT:
            # the rows given by a one-shot iterable; every row a one-shot iterable; both -- with and without shape=
            for nm, wr in (("outer", shot(k)), ("inner", lambda x, k=k: [graphforms.oneshot(k, r) for r in x]),
                           ("inner-tuple", lambda x, k=k: tuple(graphforms.oneshot(k, r) for r in x)),
                           ("both", lambda x, k=k: graphforms.oneshot(k, [graphforms.oneshot(k, r) for r in x]))):
                yield "oneshot:vg-grid-shape", ((h, w), k, nm), (lambda h=h, w=w, rows=rows, wr=wr: run_vg(None, (h, w), rows, wrap=wr))
                if k in ("gen", "iter"):
                    yield "oneshot:vg-grid-infer", ((h, w), k, nm), (lambda rows=rows, wr=wr: run_vg(None, None, rows, wrap=wr))

    # --- with borders, inner-frame form
    from cspuz.grid_frame import BoolInnerGridFrame
    for (h, w) in graphcap.grid_shapes(12 if not thorough else 16):
        def frame(p, h=h, w=w):
            return BoolInnerGridFrame(p.s, h, w)

        def frame_custom(p, h=h, w=w):
            return BoolInnerGridFrame(p.s, h, w, horizontal=~p.s.bool_array((h - 1, w)),
                                      vertical=p.s.bool_array((h, w - 1)) & p.s.bool_array((h, w - 1)))
        sizes = [
            ("arr2", lambda p, h=h, w=w: p.s.int_array((h, w), 1, h * w)),
            ("arr2-expr", lambda p, h=h, w=w: p.s.int_array((h, w), 0, 3) + 1),
            ("arr2-holes", lambda p, h=h, w=w: IntArray2D([size_item(p, rng, h * w, rng.choice(["none", "int", "var"])) for _ in range(h * w)], (h, w))),
            ("arr2-transposed", lambda p, h=h, w=w: p.s.int_array((w, h), 1, 2)),
            ("arr2-other", lambda p, h=h, w=w: p.s.int_array((h, w + 1), 1, 2)),
            ("none", lambda p: None), ("rows", lambda p, h=h, w=w: [[1] * w] * h), ("int", lambda p: 2),
        ]
        for sn, sm in sizes:
            for fn, fm in (("frame", frame), ("frame-custom", frame_custom), ("list", lambda p: [p.bv[0]])):
                for (ugp, cfg) in (UGP[:4] if sn.startswith("arr2") and fn != "list" else [rng.choice(UGP)]):
                    yield "wb-frame", ((h, w), sn, fn, ugp, cfg), (lambda sm=sm, fm=fm, ugp=ugp, cfg=cfg: run_wb(None, sm, fm, ugp, cfg))


def gen_histories(ctx):
    """call sequences on one Solver / Graph object / argument containers (see run_history)"""
    rng = ctx.rng
    small = [g for g in graphcap.all_multigraphs(4, 4) if g[0] >= 2]
    graphs = rng.sample(small, 80 if ctx.thorough else 30)
    graphs = [(n, graphforms.shuffled(rng, es) if i % 2 else es) for i, (n, es) in enumerate(graphs)]
    graphs += [graphcap.random_multigraph(rng, 7, loops=(i % 3 == 0)) for i in range(40 if ctx.thorough else 15)]
    graphs += [(n, es) for (k, n, es) in graphforms.structured(rng, loops=True)][::3]
    plans = [["vg", "vg"], ["vg", "wbF"], ["wbF", "vg"], ["wbT", "wbF"], ["wbF", "wbF"], ["vg", "extend", "vg"],
             ["vg", "extend", "wbF"], ["wbF", "extend", "wbF"], ["wbT", "extend", "wbT"], ["wbF", "extend", "vg", "extend", "wbT"]]
    for i, g in enumerate(graphs):
        n = g[0]
        if n < 1:
            continue
        sf, _ = wb_size_forms(n, rng)
        (an, a) = rng.choice([f for f in sf if f[0] != "none"])

        def mk_bd(pool, m):
            bf, _ = wb_border_forms(m, rng)
            return rng.choice(bf)[1](pool)
        plan = plans[i % len(plans)]
        ctx.count("history:" + "-".join(plan))
        yield run_history(g, a, mk_bd, plan, rng)


def spec_validation(ctx, m):
    """the executable Coq specifications (realisable_b, border_exact_b) against the plain-Python oracles"""
    rng = ctx.rng
    graphs = list(graphcap.all_multigraphs(4, 4)) + [graphcap.random_multigraph(rng, 6, loops=(i % 3 == 0)) for i in range(40 if not ctx.thorough else 300)]
    reqs, meta = [], []
    for (n, edges) in graphs:
        specs = [[None] * n, [rng.choice([None, None, rng.randint(1, n)]) for _ in range(n)],
                 [rng.randint(1, max(1, n - 1)) for _ in range(n)], [rng.choice([1, 2])] * n]
        parts = list(set_partitions(n))
        if len(parts) > 60:
            parts = rng.sample(parts, 60)
        for spec in specs:
            for labels in parts:
                reqs.append("SP %s %s %s" % (graph_tok((n, edges)), " ".join(map(str, labels)), sizes_tok(spec)))
                meta.append(("spec-vs-oracle:realisable_b", (n, edges, labels, spec), oracle_partition(n, edges, labels, spec, {})))
            if len(edges) <= 7:
                for pat in graphcap.patterns(len(edges)):
                    reqs.append("SB %s %s %s" % (graph_tok((n, edges)), " ".join("1" if b else "0" for b in pat), sizes_tok(spec)))
                    meta.append(("spec-vs-oracle:border_exact_b", (n, edges, pat, spec), oracle_borders(n, edges, pat, spec, {})))
    outs = m.batch(reqs)
    for (kind, inp, want), o in zip(meta, outs):
        ctx.corr(kind, repr(inp), o, "1" if want else "0")


def correspond(ctx):
    m = ctx.model("C07")
    spec_validation(ctx, m)
    reqs, meta, side = [], [], []
    for kind, label, thunk in gen_cases(ctx):
        req, out = thunk()
        reqs.append(req)
        meta.append((kind, label, out))
    for hist in gen_histories(ctx):
        for (kind, label, req, want, out) in hist:
            if req is None:
                side.append((kind, label, want, out))
            else:
                reqs.append(req)
                meta.append((kind, label, out))
    replies = m.batch(reqs)
    for (kind, label, out), rep in zip(meta, replies):
        mo = parse_reply(rep)
        if kind.startswith("oneshot:") and out == ("err", "TypeError"):
            ctx.count("oneshot:refused(TypeError)")
            out = mo                 # refusing a one-shot iterable is allowed; anything else must equal the materialised form
        ctx.count("outcome:" + (out[1] if out[0] == "err" else "ok"))
        ctx.corr(kind, repr(label), mo, out)
    for (kind, label, want, out) in side:
        ctx.corr(kind, repr(label), want, out)


# ---------------------------------------------------------------- search: z3 on the posted program

def to_z3(e, zv):
    import z3
    from cspuz.expr import BoolVar, IntVar
    if e is True or e is False:
        return z3.BoolVal(e)
    if isinstance(e, int):
        return z3.IntVal(e)
    if isinstance(e, (BoolVar, IntVar)):
        return zv[e.id]
    o = e.op.name
    a = [to_z3(x, zv) for x in e.operands]
    if o in ("BOOL_CONSTANT", "INT_CONSTANT"):
        return a[0]
    if o == "NEG":
        return -a[0]
    if o == "ADD":
        return z3.Sum(a) if len(a) > 1 else a[0]
    if o == "SUB":
        r = a[0]
        for x in a[1:]:
            r = r - x
        return r
    if o in ("EQ", "IFF"):
        return a[0] == a[1]
    if o in ("NE", "XOR"):
        return a[0] != a[1]
    if o == "LE":
        return a[0] <= a[1]
    if o == "LT":
        return a[0] < a[1]
    if o == "GE":
        return a[0] >= a[1]
    if o == "GT":
        return a[0] > a[1]
    if o == "NOT":
        return z3.Not(a[0])
    if o == "AND":
        return z3.And(a)
    if o == "OR":
        return z3.Or(a)
    if o == "IMP":
        return z3.Implies(a[0], a[1])
    if o == "IF":
        return z3.If(a[0], a[1], a[2])
    if o == "ALLDIFF":
        return z3.Distinct(a)
    raise ValueError("operator without an offline meaning: " + o)


class Z3Prog:
    def __init__(self, solver):
        import z3
        from cspuz.expr import BoolVar
        self.z3 = z3
        self.zv = {}
        self.zs = z3.Solver()
        for v in solver.variables:
            if isinstance(v, BoolVar):
                self.zv[v.id] = z3.Bool("b%d" % v.id)
            else:
                x = z3.Int("i%d" % v.id)
                self.zv[v.id] = x
                self.zs.add(v.lo <= x, x <= v.hi)
        for c in solver.constraints:
            self.zs.add(to_z3(c, self.zv))

    def check(self, extra):
        self.zs.push()
        for c in extra:
            self.zs.add(c)
        r = self.zs.check() == self.z3.sat
        self.zs.pop()
        return r


def set_partitions(n):
    """restricted growth strings of length n"""
    def go(i, cur, mx):
        if i == n:
            yield tuple(cur)
            return
        for l in range(mx + 2):
            cur.append(l)
            yield from go(i + 1, cur, max(mx, l))
            cur.pop()
    if n == 0:
        yield ()
        return
    yield from go(1, [0], 0)


# sizes specification for the oracle: per vertex None | int | ("v", key) ; domains {key: (lo, hi)}

def sizes_ok(block_size_of, sizes, domains):
    """block_size_of[v] = size of v's block"""
    need = {}
    for v, s in enumerate(sizes):
        if s is None:
            continue
        if isinstance(s, tuple):
            need.setdefault(s[1], set()).add(block_size_of[v])
        elif block_size_of[v] != s:
            return False
    for key, vals in need.items():
        if len(vals) != 1:
            return False
        lo, hi = domains[key]
        if not (lo <= next(iter(vals)) <= hi):
            return False
    return True


def oracle_partition(n, edges, labels, sizes, domains):
    bs = [sum(1 for w in range(n) if labels[w] == labels[v]) for v in range(n)]
    for l in set(labels):
        act = [labels[v] == l for v in range(n)]
        if not graphcap.is_connected(n, edges, act):
            return False
    return sizes_ok(bs, sizes, domains)


def cut_components(n, edges, bd):
    parent = list(range(n))

    def find(x):
        while parent[x] != x:
            x = parent[x]
        return x
    for k, (a, b) in enumerate(edges):
        if not bd[k]:
            ra, rb = find(a), find(b)
            if ra != rb:
                parent[ra] = rb
    return [find(v) for v in range(n)]


def oracle_borders(n, edges, bd, sizes, domains):
    lab = cut_components(n, edges, bd)
    for k, (a, b) in enumerate(edges):
        if bd[k] and lab[a] == lab[b]:
            return False
    bs = [lab.count(lab[v]) for v in range(n)]
    return sizes_ok(bs, sizes, domains)


def rgs(labels):
    """canonical form of a partition given by labels (restricted growth string)"""
    seen = {}
    return tuple(seen.setdefault(l, len(seen)) for l in labels)


def connected_partition(rng, n, edges, keep=None):
    """a random partition of the vertices into connected blocks (random spanning forest with some tree edges cut)"""
    keep = rng.choice([0.3, 0.6, 0.85]) if keep is None else keep
    parent = list(range(n))

    def find(x):
        while parent[x] != x:
            x = parent[x]
        return x
    order = list(range(len(edges)))
    rng.shuffle(order)
    for k in order:
        a, b = edges[k]
        ra, rb = find(a), find(b)
        if ra != rb and rng.random() < keep:
            parent[ra] = rb
    return rgs([find(v) for v in range(n)])


def targeted_partitions(rng, n, edges, count):
    """partitions around the boundary of the property: connected-block partitions, the same with one vertex moved to
    another / a new block (often disconnecting a block or changing two sizes), one block, all singletons"""
    out = {rgs([0] * n), rgs(range(n))}
    for _ in range(count * 3):
        if len(out) >= count + 2:
            break
        lab = list(connected_partition(rng, n, edges))
        if rng.random() < 0.45 and n >= 2:
            v = rng.randrange(n)
            lab[v] = rng.choice([l for l in range(max(lab) + 2) if l != lab[v]])
        out.add(rgs(lab))
    return sorted(out)


def search_size_forms(n, rng, scalar_ok=True, edges=None):
    """(name, python argument maker(solver) -> (arg, sizes spec, domains))"""
    out = [("none", lambda s: (None, [None] * n, {}))]
    if edges is not None:
        # fully specified lists (no None): the block sizes of a connected partition, given as ints, or as a mix of ints and
        # IntVars (one variable per block / one shared variable), sometimes with one entry off by one
        def full_ints(s):
            lab = connected_partition(rng, n, edges)
            l = [lab.count(x) for x in lab]
            if rng.random() < 0.3:
                k = rng.randrange(n)
                l[k] = max(1, l[k] + rng.choice([-1, 1]))
            full_ints.partition = lab           # callers that sample partitions add this one
            return list(l), l, {}
        out.append(("list-full-ints", full_ints))

        def full_intvar(s):
            lab = connected_partition(rng, n, edges)
            sizes = [lab.count(x) for x in lab]
            shared = s.int_var(1, n)
            per_block = {}
            dom = {shared.id: (1, n)}
            arg, spec = [], []
            for v in range(n):
                c = rng.random()
                if c < 0.45:
                    arg.append(sizes[v]), spec.append(sizes[v])
                elif c < 0.8:
                    if lab[v] not in per_block:
                        lo = rng.randint(1, sizes[v])
                        x = s.int_var(lo, rng.randint(sizes[v], n))
                        per_block[lab[v]] = x
                        dom[x.id] = (x.lo, x.hi)
                    x = per_block[lab[v]]
                    arg.append(x), spec.append(("v", x.id))
                else:
                    arg.append(shared), spec.append(("v", shared.id))
            if rng.random() < 0.5:
                arg = tuple(arg)
            full_intvar.partition = lab
            return arg, spec, dom
        out.append(("list-full-intvar", full_intvar))
    if scalar_ok:
        for k in sorted({1, 2, 3, n}):
            out.append(("const%d" % k, lambda s, k=k: (k, [k] * n, {})))

        def scalar_var(s):
            lo = rng.randint(1, 2)
            hi = rng.randint(lo, max(lo, n))
            x = s.int_var(lo, hi)
            return x, [("v", x.id)] * n, {x.id: (lo, hi)}
        out.append(("scalar-var", scalar_var))

    def holes(s):
        l = [rng.choice([None, None, rng.randint(1, n)]) for _ in range(n)]
        return list(l), l, {}
    out.append(("list-holes-a", holes))
    out.append(("list-holes-b", holes))

    def allint(s):
        l = [rng.randint(1, max(1, n - 1)) for _ in range(n)]
        return list(l), l, {}
    out.append(("list-int", allint))

    def withvars(s):
        xs = [s.int_var(1, n), s.int_var(2, max(2, n - 1))]
        dom = {x.id: (x.lo, x.hi) for x in xs}
        arg, spec = [], []
        for _ in range(n):
            c = rng.choice(["none", "int", "v0", "v1", "v0"])
            if c == "none":
                arg.append(None), spec.append(None)
            elif c == "int":
                k = rng.randint(1, n)
                arg.append(k), spec.append(k)
            else:
                x = xs[int(c[1])]
                arg.append(x), spec.append(("v", x.id))
        return arg, spec, dom
    out.append(("list-vars", withvars))
    return out


def sizes_tok(spec):
    return " ".join("-" if (s is None or isinstance(s, tuple)) else str(s) for s in spec)


def posted(ctx, what, detail, thunk):
    """run the implementation on an input that is inside the property's quantifier; an exception there is
    itself a failing input (the call cannot be satisfied although valid patterns exist)"""
    r = vlib.guarded(thunk)
    if r[0] == "ok":
        return True, r[1]
    d = dict(detail)
    d["raised"] = r[1]
    ctx.prop_case("raises", repr(sorted(d.items(), key=lambda kv: kv[0])))
    ctx.violation("raises:%s:%s" % (what, r[1]), "a call with arguments inside the property's quantifier raises " + r[1], d)
    return False, None


def flag_value(e, asg):
    """value of a caller-side expression (is_border item / size) under asg: variable id -> value (plain Python)"""
    from cspuz.expr import BoolVar, IntVar
    if isinstance(e, (bool, int)):
        return e
    if isinstance(e, (BoolVar, IntVar)):
        return asg[e.id]
    a = [flag_value(x, asg) for x in e.operands]
    o = e.op.name
    f = {"NOT": lambda: not a[0], "AND": lambda: all(a), "OR": lambda: any(a), "IFF": lambda: a[0] == a[1],
         "XOR": lambda: a[0] != a[1], "IMP": lambda: (not a[0]) or a[1], "BOOL_CONSTANT": lambda: a[0],
         "INT_CONSTANT": lambda: a[0], "EQ": lambda: a[0] == a[1], "NE": lambda: a[0] != a[1], "LT": lambda: a[0] < a[1],
         "LE": lambda: a[0] <= a[1], "GT": lambda: a[0] > a[1], "GE": lambda: a[0] >= a[1], "ADD": lambda: sum(a),
         "SUB": lambda: a[0] - sum(a[1:]), "NEG": lambda: -a[0], "IF": lambda: a[1] if a[0] else a[2]}
    return f[o]()


def search_border_expressions(ctx):
    from cspuz import Solver, graph as cg
    from cspuz.array import BoolArray1D, IntArray1D
    from cspuz.expr import BoolVar
    rng = ctx.rng
    small = [g for g in graphcap.all_multigraphs(4, 4) if 1 <= len(g[1])]
    graphs = rng.sample(small, 90 if ctx.thorough else (50 if ctx.deep else 30))
    graphs = [(n, graphforms.shuffled(rng, es) if i % 2 else es) for i, (n, es) in enumerate(graphs)]
    graphs += [graphcap.random_multigraph(rng, 6, loops=(i % 4 == 0)) for i in range(40 if ctx.thorough else 14)]
    graphs += [(n, es) for (k, n, es) in graphforms.structured(rng, loops=True) if len(es) <= 12][::(2 if ctx.thorough else 5)]
    for (n, edges) in graphs:
        m = len(edges)
        if m == 0:
            continue
        s = Solver()
        pool = Pool(s)
        callers = list(s.variables)
        # a target pattern (the cut of a connected partition, maybe one flag flipped) spelled with constants and expressions
        lab = connected_partition(rng, n, edges)
        target = [lab[a] != lab[b] for (a, b) in edges]
        if rng.random() < 0.4:
            j = rng.randrange(m)
            target[j] = not target[j]
        style = rng.choice(["consts", "mostly-consts", "exprs"])
        bd = []
        for b in target:
            if style == "consts" or (style == "mostly-consts" and rng.random() < 0.7):
                bd.append(bool(b))
            else:
                bd.append(border_item(pool, rng, rng.choice(["var", "not", "and", "or", "cmp", "true", "false"])))
        sizes = [lab.count(x) for x in lab]
        spec = [rng.choice([None, None, sizes[v], sizes[v], rng.randint(1, n)]) for v in range(n)]
        cont_b, cont_s = rng.choice(["list", "tuple", "array"]), rng.choice(["list", "tuple", "array", "none"])
        bd_arg = {"list": bd, "tuple": tuple(bd), "array": BoolArray1D(list(bd))}[cont_b]
        if cont_s == "none":
            spec = [None] * n
        gs_arg = {"list": list(spec), "tuple": tuple(spec), "array": IntArray1D(list(spec)), "none": None}[cont_s]
        det = {"function": "division_connected_variable_groups_with_borders", "n": n, "edges": edges,
               "group_size": [repr(x) for x in spec], "group_size_container": cont_s, "is_border_container": cont_b,
               "is_border_trees": exprio.show_list(bd), "caller_declarations": exprio.show_state(s).split(" K ")[0]}
        ok, _ = posted(ctx, "wb-expr:%d:%s" % (n, edges), dict(det, use_graph_primitive=False),
                       lambda: cg.division_connected_variable_groups_with_borders(
                           s, graph=graphcap.mk_graph(n, edges), group_size=gs_arg, is_border=bd_arg, use_graph_primitive=False))
        if not ok:
            continue
        zp = Z3Prog(s)
        seen = set()
        for _ in range(1 if style == "consts" else 6):
            val = [rng.random() < 0.5 if isinstance(v, BoolVar) else rng.randint(v.lo, v.hi) for v in callers]
            if tuple(val) in seen:
                continue
            seen.add(tuple(val))
            asg = {v.id: x for v, x in zip(callers, val)}
            pat = [bool(flag_value(b, asg)) for b in bd]
            want = oracle_borders(n, edges, pat, spec, {})
            fixed = [(zp.zv[v.id] if x else zp.z3.Not(zp.zv[v.id])) if isinstance(v, BoolVar) else (zp.zv[v.id] == x) for v, x in zip(callers, val)]
            got = zp.check(fixed)
            ctx.prop_case("borders-expr", (n, tuple(edges), exprio.show_list(bd), tuple(map(repr, spec)), tuple(val)))
            ctx.count("borders-expr:" + style)
            if got != want:
                ctx.violation("borders-expr:%d:%s:%s:%s:%s" % (n, edges, exprio.show_list(bd).replace(" ", ""), [repr(x) for x in spec], val),
                              "satisfiability for is_border given as expressions / constants (caller variables fixed) differs from the specification",
                              dict(det, caller_values=[int(x) if not isinstance(x, bool) else x for x in val],
                                   is_border=[int(b) for b in pat], expected_sat=want, posted_program_sat=got))


def search_histories(ctx):
    """two calls on the same Solver with the same Graph object and the same group_size container; the Graph may be extended
    by the caller in between.  The joint program must admit exactly the pairs (pattern for call 1, pattern for call 2) that
    are each valid for the graph as it was at that call; the arguments must be unchanged afterwards."""
    from cspuz import Solver, graph as cg
    rng = ctx.rng
    small = [g for g in graphcap.all_multigraphs(4, 4) if g[0] >= 2 and len(g[1]) >= 1]
    graphs = rng.sample(small, 60 if ctx.thorough else (36 if ctx.deep else 20))
    graphs = [(n, graphforms.shuffled(rng, es) if i % 2 else es) for i, (n, es) in enumerate(graphs)]
    graphs += [graphcap.random_multigraph(rng, 5, loops=(i % 4 == 0)) for i in range(30 if ctx.thorough else 10)]
    for gi, (n, edges) in enumerate(graphs):
        if n < 2 or len(edges) > 7:
            continue
        plan = [("vg", "vg"), ("vg", "wb"), ("wb", "vg"), ("wb", "wb")][gi % 4]
        extend = gi % 3 != 0
        s = Solver()
        G = graphcap.mk_graph(n, edges)
        lab0 = connected_partition(rng, n, edges)
        spec = [rng.choice([None, None, lab0.count(x), rng.randint(1, n)]) for x in lab0]
        gs = list(spec)
        det = {"function": "history", "plan": list(plan), "extend": extend, "n": n, "edges": edges, "group_size": [repr(x) for x in spec]}
        steps = []          # (kind, edges at the time, ids or border variables)
        cur = list(edges)

        def do(kind):
            if kind == "vg":
                ids = cg.division_connected_variable_groups(s, graph=G, group_size=gs)
                steps.append(("vg", list(cur), list(ids)))
            else:
                bd = s.bool_array(len(cur))
                cg.division_connected_variable_groups_with_borders(s, graph=G, group_size=gs, is_border=bd, use_graph_primitive=False)
                steps.append(("wb", list(cur), list(bd)))
        ok, _ = posted(ctx, "history:%d:%s:%s:1" % (n, edges, plan), det, lambda: do(plan[0]))
        if not ok:
            continue
        if extend:
            a = rng.randrange(n)
            b = (a + 1 + rng.randrange(n - 1)) % n
            G.add_edge(a, b)
            cur.append((a, b))
            det["added_edge"] = [a, b]
        ok, _ = posted(ctx, "history:%d:%s:%s:2" % (n, edges, plan), det, lambda: do(plan[1]))
        if not ok:
            continue
        if not (len(gs) == len(spec) and all(x is y for x, y in zip(gs, spec))
                and graph_snapshot(G) == graph_snapshot(graphcap.mk_graph(n, cur))):
            ctx.violation("history-args:%d:%s:%s" % (n, edges, plan), "group_size list or Graph modified by the calls", det)
        zp = Z3Prog(s)
        for _ in range(12 if ctx.thorough else 8):
            extra, want, shown = [], True, []
            for (kind, es, vs) in steps:
                if kind == "vg":
                    lab = rng.choice(targeted_partitions(rng, n, es, 4))
                    z = [zp.zv[v.id] for v in vs]
                    extra += [(z[u] == z[v]) if lab[u] == lab[v] else (z[u] != z[v]) for u in range(n) for v in range(u + 1, n)]
                    want = want and oracle_partition(n, es, lab, spec, {})
                    shown.append(["partition", list(lab)])
                else:
                    lab = connected_partition(rng, n, es)
                    pat = [lab[a] != lab[b] for (a, b) in es]
                    if es and rng.random() < 0.4:
                        j = rng.randrange(len(es))
                        pat[j] = not pat[j]
                    extra += [zp.zv[v.id] if b else zp.z3.Not(zp.zv[v.id]) for v, b in zip(vs, pat)]
                    want = want and oracle_borders(n, es, pat, spec, {})
                    shown.append(["is_border", [int(b) for b in pat]])
            got = zp.check(extra)
            ctx.prop_case("history", (n, tuple(cur), plan, extend, tuple(map(repr, spec)), repr(shown)))
            ctx.count("history:%s-%s%s" % (plan[0], plan[1], "+extend" if extend else ""))
            if got != want:
                ctx.violation("history:%d:%s:%s:%s:%s" % (n, cur, plan, [repr(x) for x in spec], shown),
                              "two calls on the same Solver / Graph object: the joint program is %s although the patterns are %s" % (
                                  "satisfiable" if got else "unsatisfiable", "both valid" if want else "not both valid"),
                              dict(det, patterns=shown, expected_sat=want, posted_program_sat=got))


def search_oneshot(ctx):
    """group_size / is_border handed over as one-shot iterables: the call refuses them (TypeError) or posts exactly what it
    posts for the materialised value"""
    from cspuz import Solver, graph as cg
    rng = ctx.rng
    graphs = rng.sample([g for g in graphcap.all_multigraphs(4, 4) if len(g[1]) >= 1], 24 if not ctx.thorough else 80)
    shapes = [(1, 2), (2, 2), (2, 3), (3, 1)]

    def run(f):
        s = Solver()
        r = vlib.guarded(f, s)
        return ("ok", exprio.show_state(s)) if r[0] == "ok" else r
    cases = []
    for (n, edges) in graphs:
        spec = [rng.choice([None, rng.randint(1, n)]) for _ in range(n)]
        k = rng.choice(graphforms.ONESHOT)
        cases.append((("vg-graph", n, edges, spec, k),
                      lambda s, n=n, edges=edges, spec=spec, w=None: cg.division_connected_variable_groups(s, graph=graphcap.mk_graph(n, edges), group_size=list(spec)),
                      lambda s, n=n, edges=edges, spec=spec, k=k: cg.division_connected_variable_groups(s, graph=graphcap.mk_graph(n, edges), group_size=graphforms.oneshot(k, spec))))
        which = rng.choice(["group_size", "is_border"])
        cases.append((("wb-graph", n, edges, spec, k, which),
                      lambda s, n=n, edges=edges, spec=spec: cg.division_connected_variable_groups_with_borders(
                          s, graph=graphcap.mk_graph(n, edges), group_size=list(spec), is_border=list(s.bool_array(len(edges))), use_graph_primitive=False),
                      lambda s, n=n, edges=edges, spec=spec, k=k, which=which: cg.division_connected_variable_groups_with_borders(
                          s, graph=graphcap.mk_graph(n, edges),
                          group_size=graphforms.oneshot(k, spec) if which == "group_size" else list(spec),
                          is_border=graphforms.oneshot(k, list(s.bool_array(len(edges)))) if which == "is_border" else list(s.bool_array(len(edges))),
                          use_graph_primitive=False)))
    for (h, w) in shapes:
        for k in graphforms.ONESHOT:
            spec = [[rng.choice([None, rng.randint(1, h * w)]) for _ in range(w)] for _ in range(h)]
            for nest in ("outer", "inner", "both"):
                def wrapped(spec=spec, k=k, nest=nest):
                    rows = [graphforms.oneshot(k, r) for r in spec] if nest != "outer" else [list(r) for r in spec]
                    return graphforms.oneshot(k, rows) if nest != "inner" else rows
                cases.append((("vg-grid", h, w, spec, k, nest),
                              lambda s, h=h, w=w, spec=spec: cg.division_connected_variable_groups(s, shape=(h, w), group_size=[list(r) for r in spec]),
                              lambda s, h=h, w=w, wrapped=wrapped: cg.division_connected_variable_groups(s, shape=(h, w), group_size=wrapped())))
    for (label, f_list, f_one) in cases:
        r1, r2 = run(f_list), run(f_one)
        ctx.prop_case("oneshot", repr(label))
        ctx.count("oneshot:%s:%s" % (label[0], r2[1] if r2[0] == "err" else "accepted"))
        if r2 != r1 and r2 != ("err", "TypeError"):
            ctx.violation("oneshot:%s" % (repr(label),),
                          "a one-shot iterable argument is neither refused (TypeError) nor treated like the sequence it yields",
                          {"function": "oneshot", "case": repr(label), "materialised_form": r1[1][:300], "oneshot_form": r2[1][:300]})


def search(ctx):
    from cspuz import Solver, graph as cg
    rng = ctx.rng
    thorough = ctx.thorough
    deep = getattr(ctx, "deep", False) and not thorough   # a proof / tie broke: search a wider scope, stop at the first few findings

    def enough():
        return len(ctx.violations) >= 6
    model = None
    try:
        model = ctx.model("C07")
    except Exception as ex:  # the model may be broken: the oracle comparison still runs
        ctx.note("extracted model unavailable in search: %r" % (ex,))

    small = list(graphcap.all_multigraphs(4, 4))
    five = [g for g in graphcap.all_multigraphs(5, 5) if g[0] == 5]
    if thorough:
        part_graphs = small + five + [graphcap.random_multigraph(rng, 6) for _ in range(60)]
    else:
        part_graphs = small + rng.sample(five, 150 if deep else 60) + [graphcap.random_multigraph(rng, 5, loops=(i % 4 == 0)) for i in range(20)]

    # graph forms: edges stored (larger, smaller) / in shuffled order, cycles stored head-to-tail, parallel bundles, loops
    formed = [(n, graphforms.shuffled(rng, es)) for (n, es) in rng.sample([g for g in small if len(g[1]) >= 2], 120 if thorough else (60 if deep else 36))]
    formed += [(n, es) for (k, n, es) in graphforms.structured(rng, loops=True) if n <= 5]
    part_graphs = part_graphs + formed

    # ---- (a) partitions, graph form
    for gi, (n, edges) in enumerate(part_graphs):
        if enough():
            break
        forms = search_size_forms(n, rng, edges=edges)
        if not thorough:
            forms = [forms[0]] + rng.sample(forms[1:], 3 if n <= 4 else 2)
        parts = list(set_partitions(n))
        if len(parts) > 60 and not thorough:
            parts = rng.sample(parts, 60)
        for nm, mk in forms:
            s = Solver()
            arg, spec, dom = mk(s)
            ok, ids = posted(ctx, "vg-graph:%d:%s:%s" % (n, edges, nm),
                             {"function": "division_connected_variable_groups", "n": n, "edges": edges, "form": nm,
                              "group_size": [repr(x) for x in spec]},
                             lambda: cg.division_connected_variable_groups(s, graph=graphcap.mk_graph(n, edges), group_size=arg))
            if not ok:
                continue
            zp = Z3Prog(s)
            zid = [zp.zv[v.id] for v in ids]
            for labels in parts:
                extra = [(zid[u] == zid[v]) if labels[u] == labels[v] else (zid[u] != zid[v])
                         for u in range(n) for v in range(u + 1, n)]
                got = zp.check(extra)
                want = oracle_partition(n, edges, labels, spec, dom)
                ctx.prop_case("partition", (n, tuple(edges), nm, tuple(map(repr, spec)), labels))
                if got != want:
                    ctx.violation("partition:%d:%s:%s:%s" % (n, edges, [repr(x) for x in spec], list(labels)),
                                  "realisability of a partition by the returned group ids differs from the specification",
                                  {"function": "division_connected_variable_groups", "n": n, "edges": edges, "form": nm,
                                   "group_size": [repr(x) for x in spec], "domains": {str(k): v for k, v in dom.items()},
                                   "partition": list(labels), "expected_realisable": want, "posted_program_sat": got})

    # ---- (a') structured instances beyond the exhaustive scope (6-8 vertices: long paths / cycles, two disjoint cycles,
    #      K5, K33, wheels, prisms, dense 7-vertex graphs) with targeted partitions and the size forms above
    struct = [(k, n, es) for (k, n, es) in graphforms.structured(rng) if 6 <= n <= 8]
    if not (thorough or deep):
        struct = [t for t in struct if t[0] in ("P8", "C8", "C3+C3-headtail") or rng.random() < 0.4]
    for (k, n, edges) in struct:
        if enough():
            break
        if rng.random() < 0.5:
            edges = graphforms.shuffled(rng, edges)
        forms = search_size_forms(n, rng, edges=edges)
        whole = [f for f in forms if f[0] in ("const%d" % n, "scalar-var")]     # one block of everything is admitted
        forms = [forms[0], rng.choice(whole)] + rng.sample([f for f in forms[1:] if f[0] != "const%d" % n], 4 if thorough else 2)
        parts0 = targeted_partitions(rng, n, edges, 30 if thorough else 12)
        for nm, mk in forms:
            s = Solver()
            arg, spec, dom = mk(s)
            parts = parts0 + ([mk.partition] if getattr(mk, "partition", None) is not None and mk.partition not in parts0 else [])
            ok, ids = posted(ctx, "vg-graph:%d:%s:%s" % (n, edges, nm),
                             {"function": "division_connected_variable_groups", "n": n, "edges": edges, "form": nm,
                              "group_size": [repr(x) for x in spec]},
                             lambda: cg.division_connected_variable_groups(s, graph=graphcap.mk_graph(n, edges), group_size=arg))
            if not ok:
                continue
            zp = Z3Prog(s)
            zid = [zp.zv[v.id] for v in ids]
            ctx.count("search:structured:" + k)
            for labels in parts:
                extra = [(zid[u] == zid[v]) if labels[u] == labels[v] else (zid[u] != zid[v])
                         for u in range(n) for v in range(u + 1, n)]
                got = zp.check(extra)
                want = oracle_partition(n, edges, labels, spec, dom)
                ctx.prop_case("partition-structured", (n, tuple(edges), nm, tuple(map(repr, spec)), labels))
                if got != want:
                    ctx.violation("partition:%d:%s:%s:%s" % (n, edges, [repr(x) for x in spec], list(labels)),
                                  "realisability of a partition by the returned group ids differs from the specification",
                                  {"function": "division_connected_variable_groups", "n": n, "edges": edges, "form": nm,
                                   "group_size": [repr(x) for x in spec], "domains": {str(k_): v for k_, v in dom.items()},
                                   "partition": list(labels), "expected_realisable": want, "posted_program_sat": got})

    # ---- (b) partitions, grid form (ids come back as a 2-D array)
    for (h, w) in ([(1, 1), (1, 3), (2, 2), (3, 1), (1, 4), (2, 3)] if not thorough else list(graphcap.grid_shapes(6))):
        n = h * w
        edges = graphcap.grid_edges(h, w)
        for nm in ("none", "rows", "const"):
            s = Solver()
            if nm == "none":
                arg, spec = None, [None] * n
            elif nm == "const":
                k = rng.randint(1, 3)
                arg, spec = k, [k] * n
            else:
                spec = [rng.choice([None, None, rng.randint(1, n)]) for _ in range(n)]
                arg = [spec[y * w:(y + 1) * w] for y in range(h)]
            with_shape = nm != "rows" or rng.random() < 0.5
            ok, ids2 = posted(ctx, "vg-grid:%dx%d:%s" % (h, w, nm),
                              {"function": "division_connected_variable_groups", "shape": [h, w], "form": nm,
                               "shape_given": with_shape, "group_size": [repr(x) for x in spec]},
                              lambda: (cg.division_connected_variable_groups(s, shape=(h, w), group_size=arg) if with_shape
                                       else cg.division_connected_variable_groups(s, group_size=arg)))
            if not ok:
                continue
            ok, zid = posted(ctx, "vg-grid-result:%dx%d:%s" % (h, w, nm),
                             {"function": "division_connected_variable_groups", "shape": [h, w], "form": nm, "what": "result[y, x]"},
                             lambda: [ids2[y, x].id for y in range(h) for x in range(w)])
            if not ok:
                continue
            zp = Z3Prog(s)
            zid = [zp.zv[i] for i in zid]
            parts = list(set_partitions(n))
            if len(parts) > 80 and not thorough:
                parts = rng.sample(parts, 80)
            for labels in parts:
                extra = [(zid[u] == zid[v]) if labels[u] == labels[v] else (zid[u] != zid[v])
                         for u in range(n) for v in range(u + 1, n)]
                got = zp.check(extra)
                want = oracle_partition(n, edges, labels, spec, {})
                ctx.prop_case("partition-grid", (h, w, nm, tuple(map(repr, spec)), labels))
                if got != want:
                    ctx.violation("partition-grid:%dx%d:%s:%s" % (h, w, [repr(x) for x in spec], list(labels)),
                                  "realisability of a partition of the grid cells differs from the specification",
                                  {"function": "division_connected_variable_groups", "shape": [h, w],
                                   "group_size": [repr(x) for x in spec], "partition": list(labels),
                                   "expected_realisable": want, "posted_program_sat": got})

    # ---- (c) borders, graph form: every subset of border edges
    bgraphs = [g for g in small if len(g[1]) <= 4]
    if thorough:
        bgraphs += [g for g in five if len(g[1]) <= 5] + [graphcap.random_multigraph(rng, 6) for _ in range(80)]
    else:
        bgraphs += rng.sample(five, 60 if deep else 25) + [graphcap.random_multigraph(rng, 5, loops=(i % 4 == 0)) for i in range(25)]
    bgraphs += [(n, graphforms.shuffled(rng, es)) for (n, es) in rng.sample([g for g in small if 2 <= len(g[1]) <= 4], 80 if thorough else (40 if deep else 24))]
    bgraphs += [(n, es) for (k, n, es) in graphforms.structured(rng, loops=True) if n <= 5]
    bgraphs = [g for g in bgraphs if len(g[1]) <= 7]
    gd_reqs, gd_meta = [], []
    for gi, (n, edges) in enumerate(bgraphs):
        if len(ctx.violations) >= 12:
            break
        m = len(edges)
        forms = search_size_forms(n, rng, scalar_ok=False, edges=edges)
        if not thorough:
            forms = [forms[0]] + rng.sample(forms[1:], 2 if n <= 4 else 1)
        for nm, mk in forms:
            s = Solver()
            bd = s.bool_array(m)
            arg, spec, dom = mk(s)
            det = {"function": "division_connected_variable_groups_with_borders", "n": n, "edges": edges, "form": nm,
                   "group_size": [repr(x) for x in spec]}
            ok, _ = posted(ctx, "wb-graph:%d:%s:%s" % (n, edges, nm), dict(det, use_graph_primitive=False),
                           lambda: cg.division_connected_variable_groups_with_borders(
                               s, graph=graphcap.mk_graph(n, edges), group_size=arg, is_border=bd, use_graph_primitive=False))
            if not ok:
                continue
            zp = Z3Prog(s)
            zb = [zp.zv[v.id] for v in bd]
            prim = None
            if not dom:
                s2 = Solver()
                bd2 = s2.bool_array(m)
                ok, _ = posted(ctx, "wb-graph-prim:%d:%s:%s" % (n, edges, nm), dict(det, use_graph_primitive=True),
                               lambda: cg.division_connected_variable_groups_with_borders(
                                   s2, graph=graphcap.mk_graph(n, edges), group_size=arg, is_border=bd2, use_graph_primitive=True))
                if not ok:
                    continue
                prim = exprio.show(s2.constraints[0]) if len(s2.constraints) == 1 else None
                if prim is None:
                    ctx.violation("primitive-shape:%d:%s" % (n, edges), "the primitive route does not post exactly one constraint",
                                  {"n": n, "edges": edges, "constraints": len(s2.constraints)})
            for pat in graphcap.patterns(m):
                got = zp.check([zb[k] if pat[k] else zp.z3.Not(zb[k]) for k in range(m)])
                want = oracle_borders(n, edges, pat, spec, dom)
                ctx.prop_case("borders", (n, tuple(edges), nm, tuple(map(repr, spec)), pat))
                if got != want:
                    ctx.violation("borders:%d:%s:%s:%s" % (n, edges, [repr(x) for x in spec], [int(b) for b in pat]),
                                  "satisfiability for a fixed is_border pattern differs from the specification",
                                  {"function": "division_connected_variable_groups_with_borders", "n": n, "edges": edges,
                                   "group_size": [repr(x) for x in spec], "domains": {str(k): v for k, v in dom.items()},
                                   "is_border": [int(b) for b in pat], "expected_sat": want, "posted_program_sat": got})
                if not dom:
                    if prim is not None:
                        gd_reqs.append("GD %s %s" % (prim, " ".join("1" if b else "0" for b in pat)))
                        gd_meta.append((n, edges, pat, spec, want))

    # ---- (c') borders on structured instances (6-8 vertices) with targeted patterns: the cut of a connected partition
    #      (always exact), the same with one flag flipped (an extra border inside a block / a missing border)
    for (k, n, edges) in [t for t in graphforms.structured(rng) if 6 <= t[1] <= 8 and len(t[2]) <= 14][::(1 if thorough else (2 if deep else 3))]:
        if len(ctx.violations) >= 12:
            break
        if rng.random() < 0.5:
            edges = graphforms.shuffled(rng, edges)
        m = len(edges)
        forms = search_size_forms(n, rng, scalar_ok=False, edges=edges)
        forms = [forms[0]] + rng.sample(forms[1:], 3 if thorough else 1)
        pats = {tuple([False] * m), tuple([True] * m)}
        for _ in range(24 if thorough else 10):
            lab = connected_partition(rng, n, edges)
            pat = [lab[a] != lab[b] for (a, b) in edges]
            if rng.random() < 0.5:
                j = rng.randrange(m)
                pat[j] = not pat[j]
            pats.add(tuple(pat))
        for nm, mk in forms:
            s = Solver()
            bd = s.bool_array(m)
            arg, spec, dom = mk(s)
            det = {"function": "division_connected_variable_groups_with_borders", "n": n, "edges": edges, "form": nm,
                   "group_size": [repr(x) for x in spec]}
            ok, _ = posted(ctx, "wb-graph:%d:%s:%s" % (n, edges, nm), dict(det, use_graph_primitive=False),
                           lambda: cg.division_connected_variable_groups_with_borders(
                               s, graph=graphcap.mk_graph(n, edges), group_size=arg, is_border=bd, use_graph_primitive=False))
            if not ok:
                continue
            zp = Z3Prog(s)
            zb = [zp.zv[v.id] for v in bd]
            for pat in sorted(pats):
                got = zp.check([zb[j] if pat[j] else zp.z3.Not(zb[j]) for j in range(m)])
                want = oracle_borders(n, edges, pat, spec, dom)
                ctx.prop_case("borders-structured", (n, tuple(edges), nm, tuple(map(repr, spec)), pat))
                if got != want:
                    ctx.violation("borders:%d:%s:%s:%s" % (n, edges, [repr(x) for x in spec], [int(b) for b in pat]),
                                  "satisfiability for a fixed is_border pattern differs from the specification",
                                  {"function": "division_connected_variable_groups_with_borders", "n": n, "edges": edges,
                                   "group_size": [repr(x) for x in spec], "domains": {str(k_): v for k_, v in dom.items()},
                                   "is_border": [int(b) for b in pat], "expected_sat": want, "posted_program_sat": got})

    # ---- (c'') is_border given as expressions / Python True, False over the caller's variables, in every container kind;
    #      group_size as list / tuple / IntArray1D: the caller's variables are fixed, the pattern is the value of the flags
    if not enough():
        search_border_expressions(ctx)
    # ---- (h) histories and (o) one-shot iterables
    if not enough():
        search_histories(ctx)
    if not enough():
        search_oneshot(ctx)

    # ---- (d) borders, inner-frame form: the frame variable -> cell pair map is written independently here
    from cspuz.grid_frame import BoolInnerGridFrame
    for (h, w) in ([(1, 1), (1, 2), (1, 4), (3, 1), (2, 2), (2, 3)] if not thorough else [(a, b) for (a, b) in graphcap.grid_shapes(8) if (a - 1) * b + a * (b - 1) <= 10]):
        n = h * w
        for rep in range(2):
            s = Solver()
            spec = [rng.choice([None, None, rng.randint(1, n)]) for _ in range(n)] if rep else [None] * n
            from cspuz.array import IntArray2D
            size = s.int_array((h, w), 1, n)
            fr = BoolInnerGridFrame(s, h, w)
            ok, _ = posted(ctx, "wb-frame:%dx%d" % (h, w),
                           {"function": "division_connected_variable_groups_with_borders", "shape": [h, w],
                            "group_size": "IntArray2D of fresh variables", "is_border": "BoolInnerGridFrame", "use_graph_primitive": False},
                           lambda: cg.division_connected_variable_groups_with_borders(s, group_size=size, is_border=fr, use_graph_primitive=False))
            if not ok:
                continue
            for v in range(n):
                if spec[v] is not None:
                    s.ensure(size[v // w, v % w] == spec[v])
            # independent reading of the frame: horizontal[y, x] lies between (y, x) and (y+1, x); vertical[y, x] between (y, x) and (y, x+1)
            evars, edges = [], []
            for y in range(h - 1):
                for x in range(w):
                    evars.append(fr.horizontal[y, x]), edges.append((y * w + x, (y + 1) * w + x))
            for y in range(h):
                for x in range(w - 1):
                    evars.append(fr.vertical[y, x]), edges.append((y * w + x, y * w + x + 1))
            m = len(edges)
            zp = Z3Prog(s)
            zb = [zp.zv[v.id] for v in evars]
            # the same frame through the primitive route: sizes as constants / None so that the node can be evaluated
            s2 = Solver()
            fr2 = BoolInnerGridFrame(s2, h, w)   # variable ids 0..m-1: horizontal rows, then vertical rows
            ok, _ = posted(ctx, "wb-frame-prim:%dx%d" % (h, w),
                           {"function": "division_connected_variable_groups_with_borders", "shape": [h, w],
                            "group_size": [repr(x) for x in spec], "is_border": "BoolInnerGridFrame", "use_graph_primitive": True},
                           lambda: cg.division_connected_variable_groups_with_borders(
                               s2, group_size=IntArray2D(list(spec), (h, w)), is_border=fr2, use_graph_primitive=True))
            prim = exprio.show(s2.constraints[0]) if ok and len(s2.constraints) == 1 else None
            for pat in graphcap.patterns(m):
                if prim is not None:
                    gd_reqs.append("GD %s %s" % (prim, " ".join("1" if b else "0" for b in pat)))
                    gd_meta.append((("frame", h, w), edges, pat, spec, oracle_borders(n, edges, pat, spec, {})))
                got = zp.check([zb[k] if pat[k] else zp.z3.Not(zb[k]) for k in range(m)])
                want = oracle_borders(n, edges, pat, spec, {})
                ctx.prop_case("borders-frame", (h, w, tuple(map(repr, spec)), pat))
                if got != want:
                    ctx.violation("borders-frame:%dx%d:%s:%s" % (h, w, [repr(x) for x in spec], [int(b) for b in pat]),
                                  "satisfiability for a fixed inner-frame border pattern differs from the specification",
                                  {"function": "division_connected_variable_groups_with_borders", "shape": [h, w],
                                   "group_size": [repr(x) for x in spec], "frame_edges(cell pairs, horizontal rows then vertical rows)": edges,
                                   "is_border": [int(b) for b in pat], "expected_sat": want, "posted_program_sat": got})

    # ---- (e) the primitive route, operator meaning = specification (extracted evaluator)
    if model is not None and gd_reqs:
        outs = model.batch(gd_reqs)
        for (n, edges, pat, spec, want), o in zip(gd_meta, outs):
            ctx.prop_case("borders-primitive", (repr(n), tuple(edges), tuple(map(repr, spec)), pat))
            if (o == "1") != want:
                ctx.violation("borders-primitive:%d:%s:%s:%s" % (n, edges, [repr(x) for x in spec], [int(b) for b in pat]),
                              "the GRAPH_DIVISION node posted by the primitive route, read with the operator's defined meaning, differs from the specification",
                              {"n": n, "edges": edges, "group_size": [repr(x) for x in spec], "is_border": [int(b) for b in pat],
                               "expected": want, "operator_on_posted_operands": o})


def replay(ctx, rp):
    """re-run the failing input recorded in a replay file on the current /repo"""
    from cspuz import Solver, graph as cg
    print(rp)
    d = rp.get("violation", {}).get("detail", {})
    if not d or "function" not in d:
        return 0

    def parse_sizes(s, l):
        out, spec, dom = [], [], {}
        made = {}
        for r in l:
            if r == "None":
                out.append(None), spec.append(None)
            elif r.startswith("("):
                key = r.strip("()").split(",")[1].strip()
                lo, hi = d["domains"][key]
                if key not in made:
                    made[key] = s.int_var(lo, hi)
                    dom[made[key].id] = (lo, hi)
                out.append(made[key]), spec.append(("v", made[key].id))
            else:
                out.append(int(r)), spec.append(int(r))
        return out, spec, dom
    s = Solver()
    if "is_border_trees" in d and "caller_values" in d:
        # is_border given as expressions / constants over the caller's variables (search_border_expressions)
        from cspuz.array import BoolArray1D, IntArray1D
        from cspuz.expr import BoolVar
        Pool(s)
        callers = list(s.variables)
        n, edges = d["n"], [tuple(e) for e in d["edges"]]
        toks = d["is_border_trees"].strip()[1:-1].split()
        bd, depth, cur = [], 0, []
        for t in toks:
            cur.append(t)
            depth += (t == "(") - (t == ")")
            if depth == 0:
                bd.append(exprio.parse(" ".join(cur), s.variables))
                cur = []
        spec = [None if r == "None" else int(r) for r in d["group_size"]]
        bd_arg = {"list": bd, "tuple": tuple(bd), "array": BoolArray1D(list(bd))}[d["is_border_container"]]
        gs_arg = {"list": list(spec), "tuple": tuple(spec), "array": IntArray1D(list(spec)), "none": None}[d["group_size_container"]]
        r = vlib.guarded(lambda: cg.division_connected_variable_groups_with_borders(
            s, graph=graphcap.mk_graph(n, edges), group_size=gs_arg, is_border=bd_arg, use_graph_primitive=False))
        if r[0] == "err":
            print("call raises", r[1])
            return 1
        zp = Z3Prog(s)
        val = d["caller_values"]
        asg = {v.id: x for v, x in zip(callers, val)}
        pat = [bool(flag_value(b, asg)) for b in bd]
        got = zp.check([(zp.zv[v.id] if x else zp.z3.Not(zp.zv[v.id])) if isinstance(v, BoolVar) else (zp.zv[v.id] == x) for v, x in zip(callers, val)])
        want = oracle_borders(n, edges, pat, spec, {})
        print("posted program sat:", got, " specification:", want, " is_border values:", [int(b) for b in pat])
        return 1 if got != want else 0
    if d.get("function") == "history" and "patterns" in d:
        n, edges = d["n"], [tuple(e) for e in d["edges"]]
        spec = [None if r == "None" else int(r) for r in d["group_size"]]
        gs = list(spec)
        G = graphcap.mk_graph(n, edges)
        cur, steps = list(edges), []
        for i, kind in enumerate(d["plan"]):
            if i == 1 and d.get("added_edge"):
                G.add_edge(*d["added_edge"])
                cur.append(tuple(d["added_edge"]))
            if kind == "vg":
                steps.append(("vg", list(cur), list(cg.division_connected_variable_groups(s, graph=G, group_size=gs))))
            else:
                bd = s.bool_array(len(cur))
                cg.division_connected_variable_groups_with_borders(s, graph=G, group_size=gs, is_border=bd, use_graph_primitive=False)
                steps.append(("wb", list(cur), list(bd)))
        zp = Z3Prog(s)
        extra, want = [], True
        for (kind, es, vs), (what, pat) in zip(steps, d["patterns"]):
            if kind == "vg":
                z = [zp.zv[v.id] for v in vs]
                extra += [(z[u] == z[v]) if pat[u] == pat[v] else (z[u] != z[v]) for u in range(n) for v in range(u + 1, n)]
                want = want and oracle_partition(n, es, pat, spec, {})
            else:
                extra += [zp.zv[v.id] if b else zp.z3.Not(zp.zv[v.id]) for v, b in zip(vs, pat)]
                want = want and oracle_borders(n, es, pat, spec, {})
        got = zp.check(extra)
        print("joint program sat:", got, " specification:", want)
        return 1 if got != want else 0
    if d.get("function") in ("history", "oneshot"):
        print("re-run ./check C07 for this input class (call sequence / one-shot iterable); the input is printed above")
        return 0
    if "raised" in d:
        from cspuz.array import IntArray2D
        from cspuz.grid_frame import BoolInnerGridFrame
        f = d["function"]

        def call():
            if f == "division_connected_variable_groups" and "shape" in d:
                if d.get("what"):
                    r = cg.division_connected_variable_groups(s, shape=tuple(d["shape"]))
                    return [r[y, x] for y in range(d["shape"][0]) for x in range(d["shape"][1])]
                h, w = d["shape"]
                arg, _, _ = parse_sizes(s, d["group_size"])
                a = None if d["form"] == "none" else (arg[0] if d["form"] == "const" else [arg[y * w:(y + 1) * w] for y in range(h)])
                return cg.division_connected_variable_groups(s, shape=(h, w), group_size=a) if d.get("shape_given", True) \
                    else cg.division_connected_variable_groups(s, group_size=a)
            if f == "division_connected_variable_groups":
                arg, _, _ = parse_sizes(s, d["group_size"])
                a = None if d["form"] == "none" else (arg[0] if d["form"].startswith(("const", "scalar")) else arg)
                return cg.division_connected_variable_groups(s, graph=graphcap.mk_graph(d["n"], [tuple(e) for e in d["edges"]]), group_size=a)
            if "shape" in d:
                h, w = d["shape"]
                size = s.int_array((h, w), 1, h * w) if isinstance(d["group_size"], str) else IntArray2D(parse_sizes(s, d["group_size"])[0], (h, w))
                return cg.division_connected_variable_groups_with_borders(
                    s, group_size=size, is_border=BoolInnerGridFrame(s, h, w), use_graph_primitive=d["use_graph_primitive"])
            edges = [tuple(e) for e in d["edges"]]
            arg, _, _ = parse_sizes(s, d["group_size"])
            return cg.division_connected_variable_groups_with_borders(
                s, graph=graphcap.mk_graph(d["n"], edges), group_size=(None if d["form"] == "none" else arg),
                is_border=s.bool_array(len(edges)), use_graph_primitive=d["use_graph_primitive"])
        r = vlib.guarded(call)
        print("call outcome:", r[0], r[1] if r[0] == "err" else "")
        return 1 if r[0] == "err" else 0
    if "partition" in d:
        if "shape" in d:
            h, w = d["shape"]
            n, edges = h * w, graphcap.grid_edges(h, w)
            arg, spec, dom = parse_sizes(s, d["group_size"])
            ids2 = cg.division_connected_variable_groups(s, shape=(h, w), group_size=[arg[y * w:(y + 1) * w] for y in range(h)])
            ids = [ids2[y, x] for y in range(h) for x in range(w)]
        else:
            n, edges = d["n"], [tuple(e) for e in d["edges"]]
            arg, spec, dom = parse_sizes(s, d["group_size"])
            if d.get("form", "").startswith(("const", "scalar")):
                arg = arg[0]
            elif d.get("form") == "none":
                arg = None
            ids = list(cg.division_connected_variable_groups(s, graph=graphcap.mk_graph(n, edges), group_size=arg))
        zp = Z3Prog(s)
        lab = d["partition"]
        zid = [zp.zv[v.id] for v in ids]
        got = zp.check([(zid[u] == zid[v]) if lab[u] == lab[v] else (zid[u] != zid[v]) for u in range(n) for v in range(u + 1, n)])
        want = oracle_partition(n, edges, lab, spec, dom)
    elif "is_border" in d and "n" in d:
        n, edges = d["n"], [tuple(e) for e in d["edges"]]
        bd = s.bool_array(len(edges))
        arg, spec, dom = parse_sizes(s, d["group_size"])
        cg.division_connected_variable_groups_with_borders(s, graph=graphcap.mk_graph(n, edges), group_size=arg, is_border=bd, use_graph_primitive=False)
        zp = Z3Prog(s)
        pat = d["is_border"]
        got = zp.check([zp.zv[bd[k].id] if pat[k] else zp.z3.Not(zp.zv[bd[k].id]) for k in range(len(edges))])
        want = oracle_borders(n, edges, pat, spec, dom)
    elif "is_border" in d and "shape" in d:
        from cspuz.grid_frame import BoolInnerGridFrame
        h, w = d["shape"]
        n = h * w
        _, spec, dom = parse_sizes(s, d["group_size"])
        size = s.int_array((h, w), 1, n)
        fr = BoolInnerGridFrame(s, h, w)
        cg.division_connected_variable_groups_with_borders(s, group_size=size, is_border=fr, use_graph_primitive=False)
        for v in range(n):
            if spec[v] is not None:
                s.ensure(size[v // w, v % w] == spec[v])
        evars, edges = [], []
        for y in range(h - 1):
            for x in range(w):
                evars.append(fr.horizontal[y, x]), edges.append((y * w + x, (y + 1) * w + x))
        for y in range(h):
            for x in range(w - 1):
                evars.append(fr.vertical[y, x]), edges.append((y * w + x, y * w + x + 1))
        zp = Z3Prog(s)
        pat = d["is_border"]
        got = zp.check([zp.zv[evars[k].id] if pat[k] else zp.z3.Not(zp.zv[evars[k].id]) for k in range(len(edges))])
        want = oracle_borders(n, edges, pat, spec, dom)
    elif "operator_on_posted_operands" in d:
        n, edges = d["n"], [tuple(e) for e in d["edges"]]
        if not isinstance(n, int):
            print("frame form of the primitive route: re-run ./check C07")
            return 0
        arg, spec, dom = parse_sizes(s, d["group_size"])
        bd = s.bool_array(len(edges))
        cg.division_connected_variable_groups_with_borders(s, graph=graphcap.mk_graph(n, edges), group_size=arg, is_border=bd, use_graph_primitive=True)
        pat = d["is_border"]
        o = ctx.model("C07").call("GD %s %s" % (exprio.show(s.constraints[0]), " ".join(str(int(b)) for b in pat)))
        got, want = (o == "1"), oracle_borders(n, edges, pat, spec, dom)
    else:
        return 0
    print("posted program sat:", got, " specification:", want)
    return 1 if got != want else 0
