(* C11 rule specification - Aquarium.
   Published rules (puzz.link / pzprjs, "Aquarium"):
     1. Fill some cells with water.
     2. The water level within a region (tank) is the same across its whole width:
        the cells of a region that lie in the same row are either all filled or
        all empty.
     3. Water settles at the bottom: if a cell of a region is filled, every cell
        of that region in a lower row is filled too.
     4. A number outside the grid is the number of filled cells in its row or column.

   problem = [[h; w]; region; rows; cols]
             region: h*w region ids row-major; rows: h clues; cols: w clues (negative = no clue)
   answer  = h*w cells row-major, 1 = water *)
From Coq Require Import ZArith List Bool Arith.
From Cspuz Require Import Puzzle.PuzzleBase.
Import ListNotations.

Definition rules_aquarium (pb : problem) (ans : answer) : bool :=
  let h := dim pb 0 in let w := dim pb 1 in
  let region := sec pb 1 in let rows := sec pb 2 in let cols := sec pb 3 in
  let water := fun y x => isb (at2 ans w y x) in
  let cs := cells h w in
  Nat.eqb (length ans) (h * w) && forallb is01 ans &&
  forallb (fun '(y1, x1) => forallb (fun '(y2, x2) =>
      negb (at2 region w y1 x1 =? at2 region w y2 x2)%Z ||
      ((* same row of the same tank: same state *)
       (negb (Nat.eqb y1 y2) || Bool.eqb (water y1 x1) (water y2 x2)) &&
       (* water above implies water below *)
       (negb (Nat.ltb y1 y2) || negb (water y1 x1) || water y2 x2))) cs) cs &&
  forallb (fun y => let c := getz rows y in
             (c <? 0)%Z || (zcount (fun x => water y x) (seq 0 w) =? c)%Z) (seq 0 h) &&
  forallb (fun x => let c := getz cols x in
             (c <? 0)%Z || (zcount (fun y => water y x) (seq 0 h) =? c)%Z) (seq 0 w).

Definition answers_aquarium (pb : problem) : list answer :=
  all_answers (bool_doms (dim pb 0 * dim pb 1)).
