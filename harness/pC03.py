"""C03 — Sugar-family backends: emitted CSP text and parsed replies are faithful."""
import ast
import os
import sys
import warnings

import exprio
import vlib

PROPS = "Props/C03.v"
RULE = ("correspondence: for generated programs (all 20 operators incl. both native graph operators with their "
        "operand layout, Python literals, None, empty / singleton n-ary forms, *_CONSTANT nodes, ill-typed nodes) "
        "and each of the five backend names, the real Solver.find_answer / Solver.solve / backend-class API is run "
        "with a fake entry point (fake pycsugar / enigma_csp / cspuz_core modules, fake subprocess in _subproc) that "
        "records the text and answers with a reply produced by the Coq transcription of CspuzSugarInterface.run() "
        "from the text it was handed; the text is compared byte-for-byte with the extracted model's description, "
        "the entry point with the model's, (return value, sol vector | error enum) with the extracted reply "
        "parsers, also on a malformed reply stream; CPython's int/strip/split/in are compared with their Coq "
        "transcriptions.  search: the emitted text is read by the reference Sugar parser and its declarations, "
        "answer keys and the meaning of every constraint under random assignments are compared with the Solver's "
        "variables, keys and eval of the posted trees; parsed replies are compared with the assignment / fact set "
        "that produced them.  A case is non-trivial when it is a distinct (kind, program, backend, reply) tuple.")
TRUSTED = [
    "reading of the Sugar CSP syntax (atoms, parentheses, operator names and arities, (int N LO HI)/(bool N)) and of "
    "CspuzSugarInterface.java loadProblem()/run() as transcribed in Backend/SugarReply.v (the Java file is read, never executed: no JVM offline)",
    "meaning of the two native graph operators is a parameter (gsem) of the theorems; the search instantiates it with "
    "Backend/SugarGraphSem.v (connectivity of active vertices / valid division with sizes)",
    "CPython str.split/strip/in/int/list-setitem semantics as transcribed in Backend/SugarText.v; validated against the interpreter on every run (kinds pystr-*)",
    "Coq stdlib DecimalString/DecimalZ as the meaning of decimal numerals",
    "extraction of the C03 runner additionally uses the standard ExtrOcamlString (ascii -> char, string -> char list); used for the tie and search only",
    "fail-closed ast translator of OP_TO_OPNAME (harness/pC03.py::translate) -> coq/theories/Gen/SugarOps.v",
]
ASSUMPTIONS = [
    "the external solver is correct and answers in the protocol of CspuzSugarInterface.run() (oracle hypothesis; line separator is \\n)",
    "operands of expression nodes are Expr objects, Python bool/int or None; variable ids are non-negative ints; replies are ASCII",
    "well-typed trees = what cspuz's own constructors build (Op.SUB has two or more operands: a one-operand SUB would print as Sugar's negation)",
    "timeouts / process handling of _subproc.run_subprocess are out of scope (only the text handed over and the decoded reply are observed)",
]

ERR = {1: "IndexError", 2: "KeyError", 3: "AssertionError", 4: "TypeError", 5: "ValueError",
       6: "RecursionError", 7: "NotImplementedError", 8: "Other"}
BACKENDS = ["sugar", "sugar_extended", "csugar", "enigma_csp", "cspuz_core"]
SUGAR_LIKE = os.path.join(vlib.REPO, "cspuz", "backend", "sugar_like.py")

OP_COQ = {
    "VAR": "VAR", "BOOL_CONSTANT": "BOOL_CONSTANT", "INT_CONSTANT": "INT_CONSTANT", "NEG": "NEG", "ADD": "ADD",
    "SUB": "SUB", "EQ": "EQ", "NE": "NE", "LE": "LE", "LT": "LT", "GE": "GE", "GT": "GT", "NOT": "NOT",
    "AND": "AND", "OR": "OR", "IFF": "IFF", "XOR": "XOR", "IMP": "IMP", "IF": "IF", "ALLDIFF": "ALLDIFF",
    "GRAPH_ACTIVE_VERTICES_CONNECTED": "G_AVC", "GRAPH_DIVISION": "G_DIV",
}


# ------------------------------------------------------------------ translator (T)

def translate(ctx):
    """OP_TO_OPNAME of sugar_like.py -> Gen/SugarOps.v; anything unexpected is an error."""
    src = open(SUGAR_LIKE).read()
    tree = ast.parse(src)
    tables = [n for n in tree.body if isinstance(n, ast.Assign)
              and any(isinstance(t, ast.Name) and t.id == "OP_TO_OPNAME" for t in n.targets)]
    if len(tables) != 1 or len(tables[0].targets) != 1:
        raise ValueError("expected exactly one module-level assignment OP_TO_OPNAME = {...}")
    d = tables[0].value
    if not isinstance(d, ast.Dict):
        raise ValueError("OP_TO_OPNAME is not a dict literal")
    # every other use must be the read OP_TO_OPNAME[...] (no update / item assignment / rebinding)
    for node in ast.walk(tree):
        if isinstance(node, ast.Name) and node.id == "OP_TO_OPNAME" and node is not tables[0].targets[0]:
            if not isinstance(node.ctx, ast.Load):
                raise ValueError("OP_TO_OPNAME is re-bound or deleted")
    for node in ast.walk(tree):
        if isinstance(node, ast.Subscript) and isinstance(node.value, ast.Name) and node.value.id == "OP_TO_OPNAME":
            if not isinstance(node.ctx, ast.Load):
                raise ValueError("OP_TO_OPNAME is modified by item assignment")
        if isinstance(node, ast.Attribute) and isinstance(node.value, ast.Name) and node.value.id == "OP_TO_OPNAME":
            raise ValueError("unexpected attribute use of OP_TO_OPNAME (.%s)" % node.attr)
    rows, seen = [], set()
    for k, v in zip(d.keys, d.values):
        if not (isinstance(k, ast.Attribute) and isinstance(k.value, ast.Name) and k.value.id == "Op"):
            raise ValueError("key is not Op.<NAME>: %s" % ast.dump(k) if k is not None else "**splat")
        if k.attr not in OP_COQ:
            raise ValueError("unknown operator Op.%s" % k.attr)
        if k.attr in seen:
            raise ValueError("operator Op.%s listed twice" % k.attr)
        seen.add(k.attr)
        if not (isinstance(v, ast.Constant) and isinstance(v.value, str)):
            raise ValueError("value of Op.%s is not a string literal" % k.attr)
        s = v.value
        if not all(32 <= ord(c) < 127 and c not in '"\\' for c in s):
            raise ValueError("operator name %r has characters outside the translatable range" % s)
        rows.append('  (%s, "%s")' % (OP_COQ[k.attr], s))
    # the Op enum itself must be the one Core/Expr.v mirrors
    import cspuz.expr as ce
    if [m.name for m in ce.Op] != list(OP_COQ):
        raise ValueError("cspuz.expr.Op changed: %s" % [m.name for m in ce.Op])
    text = ("(* GENERATED by harness/pC03.py::translate from /repo/cspuz/backend/sugar_like.py (OP_TO_OPNAME). Do not edit. *)\n"
            "From Coq Require Import List String.\nFrom Cspuz Require Import Core.Expr.\nImport ListNotations.\n"
            "Open Scope string_scope.\n\nDefinition opname_table : list (op * string) := [\n"
            + ";\n".join(rows) + "\n].\n")
    vlib.write_if_changed(os.path.join(vlib.GEN, "SugarOps.v"), text)


# ------------------------------------------------------------------ fakes (always restored)

_MISSING = object()
MODS = ("pycsugar", "enigma_csp", "cspuz_core")


class _FakeCompleted:
    def __init__(self, out):
        self.stdout = out
        self.returncode = 0


class _FakeSubprocess:
    """stands in for the `subprocess` module inside cspuz.backend._subproc"""
    PIPE = -1
    import subprocess as _real
    TimeoutExpired = _real.TimeoutExpired

    def __init__(self, owner):
        self.owner = owner

    def run(self, args, input=None, stdout=None, **kw):
        reply = self.owner.on_call("run_subprocess", list(args), input.decode("ascii"))
        return _FakeCompleted(reply.encode("utf-8"))

    def Popen(self, args, **kw):
        owner = self.owner

        class P:
            pid = 0

            def communicate(self, data, timeout=None):
                return owner.on_call("run_subprocess", list(args), data.decode("ascii")).encode("utf-8"), b""
        return P()


class _FakeModule:
    def __init__(self, name, owner):
        self.__name__ = name
        self.owner = owner

    def solver(self, text):
        return self.owner.on_call(self.__name__ + ".solver", None, text)


class Fakes:
    """context manager: installs the fake entry points, records every call, restores everything."""

    def __init__(self, responder):
        self.responder = responder
        self.calls = []

    def on_call(self, entry, args, text):
        self.calls.append((entry, args, text))
        return self.responder(len(self.calls) - 1, text)

    def __enter__(self):
        import cspuz.backend._subproc as sp
        self.sp = sp
        self.saved_subprocess = sp.subprocess
        self.saved_mods = {k: sys.modules.get(k, _MISSING) for k in MODS}
        sp.subprocess = _FakeSubprocess(self)
        for k in MODS:
            sys.modules[k] = _FakeModule(k, self)
        return self

    def __exit__(self, *a):
        self.sp.subprocess = self.saved_subprocess
        for k, v in self.saved_mods.items():
            if v is _MISSING:
                sys.modules.pop(k, None)
            else:
                sys.modules[k] = v
        return False


# ------------------------------------------------------------------ generators

def hexs(s):
    return s.encode("latin-1").hex() if s else "-"


def unhex(h):
    return "" if h == "-" else bytes.fromhex(h).decode("latin-1")


class Gen:
    """grammar-based generator of cspuz trees over a given variable vocabulary."""

    def __init__(self, rng, bvars, ivars):
        self.rng, self.bvars, self.ivars = rng, bvars, ivars

    def int_lit(self):
        r = self.rng
        return r.choice([0, 1, -1, 2, 3, 5, -7, 10, 42, -100, 10 ** 9, -(10 ** 12), r.randint(-20, 20)])

    def gint(self, d):
        from cspuz.expr import IntExpr, Op
        r = self.rng
        c = r.random()
        if d <= 0 or c < 0.3:
            k = r.random()
            if k < 0.4 and self.ivars:
                return r.choice(self.ivars)
            if k < 0.85:
                return self.int_lit()
            return IntExpr(Op.INT_CONSTANT, [self.int_lit()])
        o = r.choice(["NEG", "ADD", "ADD", "SUB", "IF", "IF"])
        if o == "NEG":
            return IntExpr(Op.NEG, [self.gint(d - 1)])
        if o == "ADD":
            return IntExpr(Op.ADD, [self.gint(d - 1) for _ in range(r.choice([1, 2, 2, 3, 4]))])
        if o == "SUB":
            return IntExpr(Op.SUB, [self.gint(d - 1) for _ in range(r.choice([2, 2, 2, 3]))])
        return IntExpr(Op.IF, [self.gbool(d - 1), self.gint(d - 1), self.gint(d - 1)])

    def graph(self):
        r = self.rng
        n = r.choice([0, 1, 2, 3, 3, 4, 5])
        m = 0 if n == 0 else r.choice([0, 1, 2, 3, 4, 6])
        edges = []
        for _ in range(m):
            u = r.randrange(n)
            v = r.randrange(n)
            edges.append((u, v))
        return n, edges

    def gbool(self, d, graph_ok=True):
        from cspuz.expr import BoolExpr, Op
        r = self.rng
        c = r.random()
        if d <= 0 or c < 0.25:
            k = r.random()
            if k < 0.55 and self.bvars:
                return r.choice(self.bvars)
            if k < 0.85:
                return r.random() < 0.5
            return BoolExpr(Op.BOOL_CONSTANT, [r.random() < 0.5])
        o = r.choice(["EQ", "NE", "LE", "LT", "GE", "GT", "NOT", "AND", "AND", "OR", "OR", "IFF", "XOR", "IMP",
                      "ALLDIFF", "AVC", "DIV"])
        if o in ("EQ", "NE", "LE", "LT", "GE", "GT"):
            return BoolExpr(Op[o], [self.gint(d - 1), self.gint(d - 1)])
        if o == "NOT":
            return BoolExpr(Op.NOT, [self.gbool(d - 1)])
        if o in ("AND", "OR"):
            return BoolExpr(Op[o], [self.gbool(d - 1) for _ in range(r.choice([0, 1, 2, 2, 3, 4]))])
        if o in ("IFF", "XOR", "IMP"):
            return BoolExpr(Op[o], [self.gbool(d - 1), self.gbool(d - 1)])
        if o == "ALLDIFF":
            return BoolExpr(Op.ALLDIFF, [self.gint(d - 1) for _ in range(r.choice([0, 1, 2, 3, 4]))])
        n, edges = self.graph()
        flat = sum([[x, y] for x, y in edges], [])
        dd = min(d - 1, 1)
        if o == "AVC":
            return BoolExpr(Op.GRAPH_ACTIVE_VERTICES_CONNECTED,
                            [n, len(edges)] + [self.gbool(dd) for _ in range(n)] + flat)
        sizes = [None if r.random() < 0.4 else self.gint(dd) for _ in range(n)]
        return BoolExpr(Op.GRAPH_DIVISION, [n, len(edges)] + sizes + flat + [self.gbool(dd) for _ in edges])

    def malformed(self):
        """trees the public constructors do not build: error points and odd prints of _convert_expr"""
        from cspuz.expr import BoolExpr, IntExpr, Op
        r = self.rng
        k = r.randrange(12)
        if k == 0:
            return BoolExpr(Op.VAR, [])
        if k == 1:
            return IntExpr(Op.VAR, [self.gint(0)])
        if k == 2:
            return BoolExpr(Op.BOOL_CONSTANT, [])
        if k == 3:
            return IntExpr(Op.INT_CONSTANT, [])
        if k == 4:
            return BoolExpr(Op.BOOL_CONSTANT, [self.gbool(1) if r.random() < 0.5 else r.choice([0, 3, None])])
        if k == 5:
            return IntExpr(Op.INT_CONSTANT, [r.choice([True, False, None])])
        if k == 6:
            return IntExpr(Op.SUB, [self.gint(1)])
        if k == 7:
            return BoolExpr(Op.NOT, [self.gbool(1), self.gint(1)])
        if k == 8:
            return BoolExpr(Op.EQ, [self.gbool(1), None])
        if k == 9:
            return BoolExpr(Op.AND, [self.gbool(1), BoolExpr(Op.VAR, [])])
        if k == 10:
            return IntExpr(Op.ADD, [])
        return BoolExpr(Op.IF, [self.gint(1)])


def gen_domain(rng):
    k = rng.random()
    if k < 0.5:
        lo = rng.randint(-3, 3)
        return lo, lo + rng.randint(0, 4)
    if k < 0.65:
        v = rng.randint(-50, 50)
        return v, v
    if k < 0.8:
        return -rng.randint(1, 10 ** 6), rng.randint(0, 10 ** 6)
    return rng.randint(-9, 0), rng.randint(0, 9)


def gen_program(rng, malformed=False):
    """a Solver with declared variables, posted constraints and registered answer keys"""
    from cspuz import Solver
    s = Solver()
    nv = rng.choice([0, 1, 2, 3, 4, 5, 6, 8, 12])
    bvars, ivars = [], []
    for _ in range(nv):
        if rng.random() < 0.5:
            bvars.append(s.bool_var())
        else:
            lo, hi = gen_domain(rng)
            ivars.append(s.int_var(lo, hi))
    g = Gen(rng, bvars, ivars)
    nc = rng.choice([0, 1, 1, 2, 3, 5])
    cs = []
    for _ in range(nc):
        cs.append(g.gbool(rng.choice([0, 1, 2, 3, 4])))
    if malformed:
        bad = g.malformed()
        from cspuz.expr import BoolExpr, Op
        if not isinstance(bad, BoolExpr) or rng.random() < 0.5:
            bad = BoolExpr(Op.OR, [g.gbool(1), BoolExpr(Op.NOT, [bad]) if rng.random() < 0.5 else bad])
        cs.insert(rng.randrange(len(cs) + 1), bad)
    for c in cs:
        s.constraints.append(c)  # what Solver.ensure appends (bool / BoolExpr), without its flattening
    mode = rng.random()
    for v in s.variables:
        if mode < 0.15:
            continue
        if mode > 0.85 or rng.random() < 0.5:
            s.add_answer_key(v)
    return s


def vars_tok(variables):
    return "[" + "".join(" " + exprio.show(v) for v in variables) + " ]"


def name_of(v):
    from cspuz.expr import BoolVar
    return ("b%d" if isinstance(v, BoolVar) else "i%d") % v.id


def val_tok(x):
    return "T" if x is True else "F" if x is False else "#%d" % x


def gen_assignment(rng, variables, wild=False):
    """name -> value, mostly inside the declared domain"""
    from cspuz.expr import BoolVar
    a = {}
    for v in variables:
        if isinstance(v, BoolVar):
            a[name_of(v)] = rng.random() < 0.5
        elif wild and rng.random() < 0.3:
            a[name_of(v)] = rng.choice([10 ** 15, -(10 ** 15), v.hi + 1, v.lo - 1, 0])
        else:
            a[name_of(v)] = rng.randint(max(v.lo, -10 ** 6), min(v.hi, 10 ** 6))
    return a


def pairs_tok(a):
    return "[" + "".join(" %s=%s" % (k, val_tok(v)) for k, v in a.items()) + " ]"


def parse_model_res(r):
    t = r.split()
    if t[0] == "E":
        return ("err", ERR[int(t[1])])
    if t[0] == "OK":
        return ("ok", t[1:])
    raise RuntimeError("bad model reply " + r)


def sol_tok(x):
    if x is None:
        return "N"
    if x is True:
        return "T"
    if x is False:
        return "F"
    if type(x) is int:
        return "#%d" % x
    return "?" + repr(x)


def _split_line(l):
    """(prefix, name, separator, value) of a reply line of either format"""
    if l.startswith("a ") and "\t" in l:
        name, _, val = l[2:].partition("\t")
        return "a ", name, "\t", val
    name, _, val = l.partition(" ")
    return "", name, " ", val


def mutate_reply(rng, reply, nvars):
    """malformed stream: one edit of a well-formed reply"""
    lines = reply.split("\n")
    k = rng.randrange(15)
    body = [i for i in range(1, len(lines)) if len(lines[i]) > 2]
    pick = rng.choice(body) if body else None
    if pick is not None:
        pre, name, sep, val = _split_line(lines[pick])
    if k == 0:  # missing terminator / truncated
        return "\n".join(lines[:rng.randint(1, max(1, len(lines) - 1))])
    if k == 1:  # blank line in the middle
        lines.insert(rng.randint(0, len(lines)), rng.choice(["", " ", "a", "a ", "\t"]))
        return "\n".join(lines)
    if k == 2 and pick is not None:  # unknown variable
        new = rng.choice(["%d" % (nvars + rng.randint(0, 3)), "-1", "-%d" % nvars, "-%d" % (nvars + 1), "999999",
                          "-0", "+0", "0_0", "00", "", "x", " 1"])
        lines[pick] = pre + name[:1] + new + sep + val
        return "\n".join(lines)
    if k == 3 and pick is not None:  # non-integer value
        lines[pick] = pre + name + sep + rng.choice(
            ["x", "", "1.5", "True", "TRUE", "0x1f", "--3", "1_000", "1__0", " 7", "7 ", "+4", "1e3", "_1", "null",
             "truefalse", "-", "+"])
        return "\n".join(lines)
    if k == 4 and pick is not None:  # separator trouble
        l = lines[pick]
        lines[pick] = rng.choice([l.replace("\t", " "), l.replace("\t", "\t\t"), l.replace(" ", "  "), l + "\t1",
                                  l + " 1", l.replace("\t", ""), " " + l, l + " ", l + "\r", l.replace(" ", "\t")])
        return "\n".join(lines)
    if k == 5:  # first line variants
        lines[0] = rng.choice(["", "s", "UNSATISFIABLE", "s UNSATISFIABLE", "xxUNSATISFIABLExx", "s unsatisfiable",
                               "unsat", "UNSAT", "sat", "s SATISFIABLE", "not unsat!", "s UNKNOWN"])
        return "\n".join(lines)
    if k == 6:  # CRLF
        return reply.replace("\n", "\r\n")
    if k == 7:  # empty reply
        return rng.choice(["", "\n", "\n\n", "a"])
    if k == 8 and pick is not None:  # short / odd lines
        lines[pick] = rng.choice(["a \t1", "a b\t1", "b 1", "i 1", " 1", "a  \t", "a x\ty\tz", "b1", "a b1", "b1 1 1"])
        return "\n".join(lines)
    if k == 9 and pick is not None:  # duplicate / conflicting line
        lines.insert(pick, pre + name + sep + rng.choice([val, "7", "false"]))
        return "\n".join(lines)
    if k == 10 and pick is not None:  # type confusion (int value for a bool name and vice versa)
        lines[pick] = pre + name + sep + ("5" if val in ("true", "false") else "true")
        return "\n".join(lines)
    if k == 11:  # lines after the terminator
        return reply + rng.choice(["a b0\ttrue\n", "b0 true\n", "garbage\n", "x\n"])
    if k == 12 and pick is not None:  # short line acts as terminator
        lines.insert(pick, rng.choice(["a", "", "ab", "  "]))
        return "\n".join(lines)
    if k == 13 and pick is not None:
        lines[pick] = lines[pick].upper()
        return "\n".join(lines)
    if k == 14 and pick is not None:  # whitespace the two strips treat differently
        lines[pick] = (pre + name + sep + rng.choice(["\x1c", "\x0b", "\x0c", ""]) + val
                       + rng.choice(["\x1c", "\x1f", "\x0b", " ", ""]))
        return "\n".join(lines)
    return reply


# ------------------------------------------------------------------ one run through the real code

def observe_sol(variables):
    return [sol_tok(v.sol) for v in variables]


def stale_sols(variables):
    """leave recognisable garbage in the sol fields, so that 'every sol is reset' is observed"""
    from cspuz.expr import BoolVar
    for v in variables:
        v.sol = (v.id % 2 == 0) if isinstance(v, BoolVar) else 777 + v.id


def run_solver_flow(ctx, m, solver, backend, deduction, responder):
    """Solver.find_answer / Solver.solve with fakes installed.  Returns (outcome, calls, posted):
    outcome = ("ok", [ret, sols...]) | ("err", name); calls = recorded (entry, args, text);
    posted = trees handed to add_constraint after the initial list (the refuting clauses of the
    non-native route), one list per _call_solver call."""
    import cspuz.backend.sugar_like as sl
    posted_before_call = []
    extra = []
    orig_add = sl.SugarLikeBackend.add_constraint
    first = [True]

    def spy_add(self, constraint):
        if first[0]:
            first[0] = False
        else:
            extra.append(constraint)
        return orig_add(self, constraint)

    def resp(i, text):
        posted_before_call.append(list(extra))
        return responder(i, text)

    stale_sols(solver.variables)
    with Fakes(resp) as fk:
        sl.SugarLikeBackend.add_constraint = spy_add
        try:
            with warnings.catch_warnings():
                warnings.simplefilter("ignore")
                if deduction:
                    out = vlib.guarded(lambda: solver.solve(backend=backend))
                else:
                    out = vlib.guarded(lambda: solver.find_answer(backend=backend))
        finally:
            sl.SugarLikeBackend.add_constraint = orig_add
    if out[0] == "ok":
        out = ("ok", ["1" if out[1] is True else "0" if out[1] is False else repr(out[1])] + observe_sol(solver.variables))
    return out, fk.calls, posted_before_call


def model_desc(m, backend, mode, variables, keys, constraints):
    req = "DESC %s %s VARS %s K [%s ] C %s" % (
        backend, mode, vars_tok(variables), "".join(" 1" if k else " 0" for k in keys), exprio.show_list(constraints))
    r = parse_model_res(m.call(req))
    if r[0] == "ok":
        return ("ok", unhex(r[1][0]))
    return r


def java_reply(m, text, sat, refuted=()):
    """the reply CspuzSugarInterface.run() prints for this text (Coq transcription)."""
    if sat is None:
        r = m.call("JR %s U" % hexs(text))
    else:
        r = m.call("JR %s S %s R [%s ]" % (hexs(text), pairs_tok(sat), "".join(" " + n for n in refuted)))
    t = r.split()
    if t[0] != "OK":
        return None
    return unhex(t[1])


def kind_info(m, backend):
    t = m.call("KIND " + backend).split()
    return t[0] == "true", t[1] == "true", t[2]


def expected_entry(backend):
    from cspuz.configuration import config
    return [config.backend_path or "sugar", "/dev/stdin"]


# ------------------------------------------------------------------ correspondence (C)

def correspond(ctx):
    m = ctx.model("C03")
    rng = ctx.rng
    ctx._c03 = []  # material for search
    n_prog = 4000 if ctx.thorough else 600
    n_mal = 1000 if ctx.thorough else 150
    kinds = {b: kind_info(m, b) for b in BACKENDS}
    from cspuz.configuration import config

    for pi in range(n_prog + n_mal):
        malformed = pi >= n_prog
        solver = gen_program(rng, malformed=malformed)
        variables, keys, cons = solver.variables, solver.is_answer_key, solver.constraints
        ptag = exprio.show_state(solver)
        backends = BACKENDS if (pi % 3 == 0 or ctx.thorough) else [BACKENDS[pi % 5], BACKENDS[(pi * 7 + 2) % 5]]
        for backend in backends:
            native, subproc, entry = kinds[backend]
            for deduction in (False, True):
                ctx.count("flow:%s:%s" % (backend, "solve" if deduction else "find_answer"))
                asg = gen_assignment(rng, variables, wild=rng.random() < 0.2)
                sat = rng.random() < 0.85
                refuted = [name_of(v) for v in variables if rng.random() < 0.3]
                bad_reply = (not malformed) and rng.random() < 0.25 and (native or not deduction)
                replies = []
                saved_timeout = config.solver_timeout
                if subproc and rng.random() < 0.1:
                    config.solver_timeout = 5.0

                def responder(i, text):
                    if deduction and not native:
                        # refinement loop of Solver.solve: sat, (sat,) unsat
                        plan = [asg, gen_assignment(rng, variables), None]
                        cur = plan[min(i, 2)] if sat else None  # the third answer is always unsat: the loop ends
                        rep = java_reply(m, text, cur)
                    else:
                        rep = java_reply(m, text, asg if sat else None, refuted)
                    if rep is None:
                        rep = "s UNSATISFIABLE\n"
                        ctx.note("java side could not read the text of %s" % ptag[:200])
                    if bad_reply:
                        rep = mutate_reply(rng, rep, len(variables))
                    replies.append(rep)
                    return rep

                try:
                    out, calls, posted = run_solver_flow(ctx, m, solver, backend, deduction, responder)
                finally:
                    config.solver_timeout = saved_timeout
                tag = (ptag, backend, deduction)
                # 1. text + entry point of every call
                mode_native = deduction and native
                texts_ok = True
                for ci, (ent, args, text) in enumerate(calls):
                    extra = posted[ci] if ci < len(posted) else []
                    flat = []
                    for x in extra:
                        flat += x if isinstance(x, list) else [x]
                    md = model_desc(m, backend, "D" if mode_native else "A", variables, keys, cons + flat)
                    texts_ok &= ctx.corr("text", (tag, ci), md, ("ok", text))
                    ctx.corr("entry", (backend, ci), (entry, expected_entry(backend) if subproc else None), (ent, args))
                if not calls:
                    # the conversion failed before any call: same error from the model
                    md = model_desc(m, backend, "D" if deduction else "A", variables, keys, cons)
                    if md[0] == "err" and md[1] == "NotImplementedError":
                        md = model_desc(m, backend, "A", variables, keys, cons)
                    ctx.corr("text-error", tag, md, out)
                    continue
                # 2. the reply parser
                if deduction and not native:
                    # sol fields are then set by Solver.solve's loop (C02); compare each call's parse
                    # through the backend-class flow below instead
                    ctx.corr("loop-calls", tag, len(calls) >= 1, True)
                else:
                    req = "%s %s %s" % ("PD" if deduction else "PA", vars_tok(variables), hexs(replies[0]))
                    mo = parse_model_res(m.call(req))
                    ctx.corr("reply-bad" if bad_reply else "reply", (tag, replies[0]), mo, out)
                    if not bad_reply and not malformed and texts_ok:
                        ctx._c03.append(dict(solver=solver, backend=backend, deduction=deduction, text=calls[0][2],
                                             asg=asg if sat else None, refuted=refuted, out=out, tag=ptag))
        if not malformed and pi % 2 == 0:
            direct_api(ctx, m, rng, solver)

    pystr_validation(ctx, m, rng)


def direct_api(ctx, m, rng, solver):
    """SugarLikeBackend subclasses used directly: arbitrary variable lists (ids, order), add_constraint
    with a list and with single trees, key lists of any length, replies well-formed and malformed."""
    from cspuz.expr import BoolVar, IntVar
    from cspuz.solver import _get_backend_by_name
    backend = rng.choice(BACKENDS)
    cls = _get_backend_by_name(backend)
    # re-number: random distinct ids in random order, sometimes a duplicate
    ids = rng.sample(range(0, 3 * len(solver.variables) + 4), len(solver.variables))
    if len(ids) >= 2 and rng.random() < 0.05:
        ids[1] = ids[0]
    ren = {}
    variables = []
    for v, i in zip(solver.variables, ids):
        nv = BoolVar(i) if isinstance(v, BoolVar) else IntVar(i, v.lo, v.hi)
        ren[id(v)] = nv
        variables.append(nv)

    def rn(e):
        from cspuz.expr import Expr
        if id(e) in ren:
            return ren[id(e)]
        if isinstance(e, Expr):
            return type(e)(e.op, [rn(x) for x in e.operands])
        return e
    cons = [rn(c) for c in solver.constraints]
    klen = rng.choice([len(variables)] * 6 + [max(0, len(variables) - 1), len(variables) + 2, 0])
    keys = [rng.random() < 0.5 for _ in range(klen)]
    deduction = rng.random() < 0.5
    asg = gen_assignment(rng, variables, wild=rng.random() < 0.2)
    sat = rng.random() < 0.85
    refuted = [name_of(v) for v in variables if rng.random() < 0.3]
    bad = rng.random() < 0.5
    replies = []

    def responder(i, text):
        rep = java_reply(m, text, asg if sat else None, refuted) or "s UNSATISFIABLE\n"
        if bad:
            rep = mutate_reply(rng, rep, max([v.id for v in variables] + [0]) + 1)
        replies.append(rep)
        return rep

    split = rng.randint(0, len(cons))

    def go():
        b = cls(variables)
        b.add_constraint(cons[:split])
        for c in cons[split:]:
            b.add_constraint(c)
        return b.solve_irrefutably(keys) if deduction else b.solve()
    stale_sols(variables)
    with Fakes(responder) as fk:
        with warnings.catch_warnings():
            warnings.simplefilter("ignore")
            out = vlib.guarded(go)
    if out[0] == "ok":
        out = ("ok", ["1" if out[1] is True else "0" if out[1] is False else repr(out[1])] + observe_sol(variables))
    tag = (vars_tok(variables), exprio.show_list(cons), tuple(keys), backend, deduction)
    md = model_desc(m, backend, "D" if deduction else "A", variables, keys, cons)
    if not fk.calls:
        ctx.corr("direct-text-error", tag, md, out)
        return
    ctx.corr("direct-text", tag, md, ("ok", fk.calls[0][2]))
    req = "%s %s %s" % ("PD" if deduction else "PA", vars_tok(variables), hexs(replies[0]))
    ctx.corr("direct-reply-bad" if bad else "direct-reply", (tag, replies[0]), parse_model_res(m.call(req)), out)


def pystr_validation(ctx, m, rng):
    """CPython's int / strip / split / in against their Coq transcriptions (Backend/SugarText.v)."""
    alpha = " \t\n\x0b\x0c\r\x1c\x1f+-_0123456789ab"
    n = 4000 if ctx.thorough else 700
    reqs, exp, kinds = [], [], []
    fixed = ["", " ", "-", "+", "_", "5", "-5", "+5", " 5 ", "5_6", "5__6", "_5", "5_", "007", "0_0", "--5", "+-5", "5-",
             "\x1c5", "5\x1c", "\t5\n", "- 5", "12345678901234567", "-0", "+0"]
    for i in range(n):
        s = fixed[i] if i < len(fixed) else "".join(rng.choice(alpha) for _ in range(rng.randint(0, 6)))
        reqs.append("INT " + hexs(s))
        exp.append(vlib.guarded(lambda: [str(int(s))]))
        kinds.append(("pystr-int", s))
        reqs.append("STRIP " + hexs(s))
        exp.append(("ok", [hexs(s.strip())]))
        kinds.append(("pystr-strip", s))
        c = rng.choice("\t \n")
        reqs.append("SPLIT %d %s" % (ord(c), hexs(s)))
        exp.append(("ok", ["["] + [hexs(x) for x in s.split(c)] + ["]"]))
        kinds.append(("pystr-split", (c, s)))
    for i in range(n // 4):
        s = "".join(rng.choice("unsatUNSATISFIABLE s") for _ in range(rng.randint(0, 16)))
        if rng.random() < 0.3:
            s = s[:rng.randint(0, len(s))] + rng.choice(["unsat", "UNSATISFIABLE"]) + s[rng.randint(0, len(s)):]
        nd = rng.choice(["unsat", "UNSATISFIABLE"])
        reqs.append("IN %s %s" % (hexs(nd), hexs(s)))
        exp.append(("raw", "true" if nd in s else "false"))
        kinds.append(("pystr-in", (nd, s)))
    for z in [0, 1, -1, 9, 10, -10, 99, 100, 12345, -(10 ** 15), 10 ** 15] + [rng.randint(-10 ** 9, 10 ** 9) for _ in range(60)]:
        reqs.append("PZ %d" % z)
        exp.append(("ok", [hexs(str(z))]))
        kinds.append(("pystr-str", z))
    outs = m.batch(reqs)
    for o, e, (k, inp) in zip(outs, exp, kinds):
        mo = ("raw", o) if e[0] == "raw" else parse_model_res(o)
        ctx.corr(k, inp, mo, e)


# ------------------------------------------------------------------ search (property vs implementation)

def expected_decl(v):
    from cspuz.expr import BoolVar
    if isinstance(v, BoolVar):
        return "b:" + hexs("b%d" % v.id)
    return "i:%s:%d:%d" % (hexs("i%d" % v.id), v.lo, v.hi)


def check_text_property(ctx, m, rng, solver, text, deduction, where):
    """the emitted text, read by the reference parser, declares exactly the variables, names exactly the
    keys and denotes exactly the posted constraints."""
    from cspuz.expr import BoolVar
    variables, keys, cons = solver.variables, solver.is_answer_key, solver.constraints
    ptag = exprio.show_state(solver)
    r = m.call("JL " + hexs(text)).split()
    ctx.prop_case("text-read", (ptag, deduction))
    if r[0] != "OK":
        ctx.violation("unreadable:" + where, "the emitted description is not a sequence of S-expressions",
                      {"program": ptag, "text": text})
        return

    def take(i):
        assert r[i] == "["
        j = r.index("]", i)
        return r[i + 1:j], j + 1
    i = r.index("I") + 1
    ints, i = take(i)
    bools, i = take(i + 1)
    if r[i + 1] == "NULL":
        jkeys, i = None, i + 2
    else:
        jkeys, i = take(i + 1)
    decls, i = take(i + 1)
    nc = int(r[i + 1])
    want_decls = [expected_decl(v) for v in variables]
    if decls != want_decls:
        ctx.violation("decls:" + where, "declarations in the text differ from the Solver's variables",
                      {"program": ptag, "text": text, "declared": decls, "expected": want_decls})
    want_keys = [hexs(name_of(v)) for v, k in zip(variables, keys) if k] if deduction else None
    got_keys = None if jkeys is None else [k for k in jkeys if k != "-"]
    if got_keys != want_keys:
        ctx.violation("keys:" + where, "answer keys named in the text differ from the registered ones",
                      {"program": ptag, "text": text, "named": got_keys, "expected": want_keys})
    if nc != len(cons):
        ctx.violation("count:" + where, "number of constraints in the text differs from the number posted",
                      {"program": ptag, "text": text, "in_text": nc, "posted": len(cons)})
        return
    for _ in range(4 if not ctx.thorough else 8):
        asg = gen_assignment(rng, variables, wild=True)
        sem = m.call("SEMD %s %s" % (hexs(text), pairs_tok(asg))).split()
        ev = m.call("EVAL %s %s" % (pairs_tok(asg), exprio.show_list(cons))).split()
        ctx.prop_case("denote", (ptag, tuple(asg.items())))
        if sem != ev:
            bad = [k for k in range(len(cons)) if k + 1 < len(sem) and k + 1 < len(ev) and sem[k + 1] != ev[k + 1]]
            k = bad[0] if bad else 0
            c = cons[k]
            root = getattr(getattr(c, "op", None), "name", type(c).__name__)
            ctx.violation("denote:%s:%s" % (where, root),
                          "a posted constraint and its emitted text mean different things under an assignment",
                          {"constraint": exprio.show(c), "text_line": text.split("\n")[len(variables) + k],
                           "assignment": {a: b for a, b in asg.items()},
                           "meaning_of_text": sem[k + 1] if k + 1 < len(sem) else sem,
                           "meaning_of_tree": ev[k + 1] if k + 1 < len(ev) else ev})
            return


def check_reply_property(ctx, rec):
    """python_parse(format(env)) == env, with the right types, on the right variables."""
    from cspuz.expr import BoolVar
    solver, out, asg, refuted, deduction = rec["solver"], rec["out"], rec["asg"], rec["refuted"], rec["deduction"]
    variables, keys = solver.variables, solver.is_answer_key
    ctx.prop_case("reply-reflected", (rec["tag"], rec["backend"], deduction, repr(asg), tuple(refuted)))
    where = "%s:%s" % (rec["backend"], "solve" if deduction else "find_answer")
    if asg is None:
        want = ("ok", ["0"] + ["N"] * len(variables))
    elif deduction:
        want = ("ok", ["1"] + [val_tok(asg[name_of(v)]) if (k and name_of(v) not in refuted) else "N"
                               for v, k in zip(variables, keys)])
    else:
        want = ("ok", ["1"] + [val_tok(asg[name_of(v)]) for v in variables])
    if out != want:
        ctx.violation("reply:" + where, "a well-formed reply is not reflected into the sol fields",
                      {"program": rec["tag"], "assignment": asg, "refuted": refuted, "expected": want, "observed": out})


def search(ctx):
    m = ctx.model("C03")
    rng = ctx.rng
    recs = getattr(ctx, "_c03", [])
    seen = set()
    for rec in recs:
        check_reply_property(ctx, rec)
        key = (rec["tag"], rec["deduction"])
        if key in seen:
            continue
        seen.add(key)
        where = "%s:%s" % (rec["backend"], "solve" if rec["deduction"] else "find_answer")
        check_text_property(ctx, m, rng, rec["solver"], rec["text"], rec["deduction"], where)
    extra = 0
    if ctx.deep or not recs:
        extra = 1500 if ctx.thorough else 500
    for _ in range(extra):
        # correspondence could not deliver material (or something broke): drive the real code directly
        solver = gen_program(rng)
        backend = rng.choice(BACKENDS)
        native = backend != "sugar"
        deduction = native and rng.random() < 0.5
        asg = gen_assignment(rng, solver.variables)
        refuted = [name_of(v) for v in solver.variables if rng.random() < 0.3]
        sat = rng.random() < 0.85

        def responder(i, text):
            return java_reply(m, text, asg if sat else None, refuted) or "s UNSATISFIABLE\n"
        out, calls, _ = run_solver_flow(ctx, m, solver, backend, deduction, responder)
        if not calls:
            ctx.violation("noconv:%s" % backend, "a well-typed program could not be converted", {"program": exprio.show_state(solver), "outcome": out})
            continue
        rec = dict(solver=solver, backend=backend, deduction=deduction, text=calls[0][2], asg=asg if sat else None,
                   refuted=refuted, out=out, tag=exprio.show_state(solver))
        check_reply_property(ctx, rec)
        check_text_property(ctx, m, rng, solver, calls[0][2], deduction,
                            "%s:%s" % (backend, "solve" if deduction else "find_answer"))


def solver_of_state(text):
    """rebuild a Solver from the exprio state syntax  V [ decls ] K [ flags ] C [ exprs ]"""
    from cspuz import Solver
    t = text.split()
    i = t.index("V") + 2
    s = Solver()
    while t[i] != "]":
        if t[i] == "b":
            s.bool_var()
        else:
            _, lo, hi = t[i].split(":")
            s.int_var(int(lo), int(hi))
        i += 1
    i = t.index("K", i) + 2
    flags = []
    while t[i] != "]":
        flags.append(t[i] == "1")
        i += 1
    s.is_answer_key = flags
    i = t.index("C", i) + 2
    depth, cur = 0, []
    while i < len(t) - 1 or depth:
        tok = t[i]
        if tok == "]" and depth == 0:
            break
        cur.append(tok)
        if tok == "(":
            depth += 1
        elif tok == ")":
            depth -= 1
        if depth == 0:
            s.constraints.append(exprio.parse(" ".join(cur), s.variables))
            cur = []
        i += 1
    return s


def replay(ctx, rp):
    print(rp)
    viol = rp.get("violation", {})
    v = viol.get("detail", {})
    m = ctx.model("C03")
    try:
        if "constraint" in v:
            import cspuz.backend.sugar_like as sl
            e = exprio.parse(v["constraint"])
            text = sl._convert_expr(e)
            asg = v["assignment"]
            sem = m.call("SEMT %s %s" % (hexs(text), pairs_tok(asg)))
            ev = m.call("EVAL %s %s" % (pairs_tok(asg), exprio.show_list([e])))
            print("text:", text, " meaning of text:", sem, " meaning of tree:", ev)
            return 1 if sem.split()[1:] != ev.split()[1:] else 0
        if "program" in v:
            parts = viol.get("key", "").split(":")
            backend = parts[1] if len(parts) > 2 and parts[1] in BACKENDS else "cspuz_core"
            deduction = len(parts) > 2 and parts[2] == "solve"
            solver = solver_of_state(v["program"])
            asg = v.get("assignment") or gen_assignment(ctx.rng, solver.variables)
            refuted = v.get("refuted", [])
            sat = "assignment" not in v or v.get("assignment") is not None

            def responder(i, text):
                return java_reply(m, text, asg if sat else None, refuted) or "s UNSATISFIABLE\n"
            out, calls, _ = run_solver_flow(ctx, m, solver, backend, deduction and backend != "sugar", responder)
            print("outcome:", out)
            if calls:
                print("text handed to the solver:\n" + calls[0][2])
                rec = dict(solver=solver, backend=backend, deduction=deduction, text=calls[0][2],
                           asg=asg if sat else None, refuted=refuted, out=out, tag=v["program"])
                check_reply_property(ctx, rec)
                check_text_property(ctx, m, ctx.rng, solver, calls[0][2], deduction, "replay")
            for x in ctx.violations:
                print("VIOLATION reproduced:", x["what"], x["detail"])
            return 1 if ctx.violations or not calls else 0
    finally:
        m.close()
    return 1 if v else 0
