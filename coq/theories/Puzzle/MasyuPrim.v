(* C11 Tier 1, native-operator route - cspuz/puzzle/masyu.py::solve_masyu when cspuz.config.use_graph_primitive
   is on (the default with the csugar / enigma_csp / cspuz_core backends):
   graph.active_edges_single_cycle(solver, grid_frame) declares the array is_passed, posts one degree
   constraint per lattice point and ONE native node Op.GRAPH_ACTIVE_VERTICES_CONNECTED over the line graph of
   the frame graph (model Graph/Cycle.v::active_edges_single_cycle with prim = true, property C06; the native
   node means Cycle.gsem_c06).  No rank / root variables are declared; everything else solve_masyu posts is
   unchanged (Masyu.v::masyu_constraints; the circle constraints only mention the frame variables, whose ids do
   not move).
   Error points: as Masyu.v::solve_masyu_model, except for boards with height <= 0 AND width <= 0 (the frame of
   height - 1 x width - 1 cells then has two negative dimensions): the auxiliary-variable route raises ValueError
   there (int_array(0, 0, -1) inside the graph call for height = 0 or width = 0) while the native route runs
   through (CyclePrimCompose.frame_cycle_prim_z; the loops over the cells are empty).  For height = width = 0 the
   program is the single native node over the empty graph, it has the empty reading as its only one, and the
   rules accept exactly the empty answer on the board without cells: the theorem covers this case too.  Exactly
   one of height, width <= 0: ValueError from Array2D.__init__, as before.
   Theorem masyu_exact_prim: same statement as MasyuProofs.masyu_exact, for the evaluator gsem_c06; the graph
   side is CyclePrimCompose.cycle_frame_prim_compose. *)
From Coq Require Import ZArith List Bool Arith Lia.
From Cspuz Require Import Lib.PyErr Core.Expr Core.Program Graph.GraphModel Graph.Cycle
     Puzzle.PuzzleBase Puzzle.SatAbs Puzzle.ModelBase Puzzle.ModelLemmas Puzzle.WfLemmas
     Puzzle.CycleFrameBase Puzzle.CycleCompose Puzzle.CyclePrimCompose
     Puzzle.Rules_masyu Puzzle.Masyu Puzzle.MasyuProofs Puzzle.MasyuWf.
Import ListNotations.
Local Open Scope nat_scope.

Definition solve_masyu_model_prim (pb : problem) : res state :=
  let h := dim pb 0 in let w := dim pb 1 in
  match frame_cycle_prim_z (getz (sec pb 0) 0 - 1) (getz (sec pb 0) 1 - 1) with
  | Ok (st1, _) =>
      if Nat.ltb (length (sec pb 1)) (h * w) then Err IndexError
      else Ok (ensure st1 (masyu_constraints h w (sec pb 1)))
  | Err e => Err e
  end.

(* the circle constraints contain no native node: MasyuProofs.masyu_clues_core for gsem_c06 *)
Lemma masyu_clues_core_prim h w circ en :
  masyu_local (S h) (S w) circ (map (fun i => PuzzleBase.b2z (eb en i)) (seq 0 (frame_n h w))) =
  forallb (holds gsem_c06 en) (masyu_constraints (S h) (S w) circ).
Proof.
  rewrite (holds_c06_no_graph _ en _ (masyu_constraints_ok h w circ)). apply masyu_clues_core.
Qed.

Theorem masyu_exact_prim h w circ st ans :
  solve_masyu_model_prim [[Z.of_nat h; Z.of_nat w]; circ] = Ok st ->
  ((exists en, model_of gsem_c06 en st /\ reads st en (seq 0 (n_lattice_edges h w)) = ans)
   <-> rules_masyu [[Z.of_nat h; Z.of_nat w]; circ] ans = true).
Proof.
  unfold solve_masyu_model_prim, rules_masyu.
  change (sec [[Z.of_nat h; Z.of_nat w]; circ] 1) with circ.
  change (sec [[Z.of_nat h; Z.of_nat w]; circ] 0) with [Z.of_nat h; Z.of_nat w].
  change (getz [Z.of_nat h; Z.of_nat w] 0) with (Z.of_nat h).
  change (getz [Z.of_nat h; Z.of_nat w] 1) with (Z.of_nat w).
  destruct (masyu_dims h w [circ]) as [-> ->].
  destruct h as [|h]; [destruct w as [|w]|destruct w as [|w]].
  2:{ rewrite frame_cycle_prim_z_one_neg by lia. intros H; discriminate H. }
  2:{ rewrite frame_cycle_prim_z_one_neg by lia. intros H; discriminate H. }
  { (* the board without cells *)
    change (Z.of_nat 0 - 1)%Z with (-1)%Z. rewrite frame_cycle_prim_z_empty. cbn [Nat.mul Nat.ltb Nat.leb]. intros Hst. inversion Hst; subst st. clear Hst.
    change (n_lattice_edges 0 0) with 0.
    rewrite (empty_avc_models (masyu_constraints 0 0 circ) ans eq_refl).
    destruct ans as [|a r]; [split; reflexivity|]. split; intros H; discriminate H. }
  replace (Z.of_nat (S h) - 1)%Z with (Z.of_nat h) by lia. replace (Z.of_nat (S w) - 1)%Z with (Z.of_nat w) by lia.
  rewrite frame_cycle_prim_z_nat.
  destruct (frame_cycle_prim h w) as [[st1 res]|e] eqn:Hcall; [|discriminate].
  destruct (Nat.ltb (length circ) (S h * S w)); [discriminate|].
  intros Hst. inversion Hst; subst st. clear Hst.
  destruct (cycle_frame_prim_compose h w (masyu_constraints (S h) (S w) circ) (masyu_local (S h) (S w) circ)
              st1 res ans Hcall (fun en _ => masyu_clues_core_prim h w circ en)) as [_ EX].
  rewrite masyu_n_lattice_frame, EX. reflexivity.
Qed.

(* the model accepts every board with at least one row and one column and enough circle entries (the premise of
   masyu_exact_prim is satisfiable) *)
Lemma masyu_model_prim_total h w circ :
  S h * S w <= length circ -> exists st, solve_masyu_model_prim [[Z.of_nat (S h); Z.of_nat (S w)]; circ] = Ok st.
Proof.
  intros Hl. unfold solve_masyu_model_prim.
  change (sec [[Z.of_nat (S h); Z.of_nat (S w)]; circ] 1) with circ.
  change (sec [[Z.of_nat (S h); Z.of_nat (S w)]; circ] 0) with [Z.of_nat (S h); Z.of_nat (S w)].
  change (getz [Z.of_nat (S h); Z.of_nat (S w)] 0) with (Z.of_nat (S h)).
  change (getz [Z.of_nat (S h); Z.of_nat (S w)] 1) with (Z.of_nat (S w)).
  destruct (masyu_dims (S h) (S w) [circ]) as [-> ->].
  replace (Z.of_nat (S h) - 1)%Z with (Z.of_nat h) by lia. replace (Z.of_nat (S w) - 1)%Z with (Z.of_nat w) by lia.
  rewrite frame_cycle_prim_z_nat.
  destruct (frame_cycle_prim_ok h w) as [st1 [Hc _]]. rewrite Hc.
  replace (Nat.ltb (length circ) (S h * S w)) with false by (symmetry; apply Nat.ltb_ge; exact Hl).
  eexists. reflexivity.
Qed.

Example masyu_model_prim_ok : exists st, solve_masyu_model_prim [[2; 2]; [2; 0; 0; 0]]%Z = Ok st.
Proof. apply (masyu_model_prim_total 1 1 [2; 0; 0; 0]%Z). simpl. lia. Qed.
