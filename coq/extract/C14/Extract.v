(* deps (scanned by harness/vlib.py::build_runner): Cspuz.Lib.PyErr Cspuz.Array.Slice Cspuz.Graph.GraphModel Cspuz.Array.Frame *)
Require Extraction.
Require Import ExtrOcamlBasic.
From Coq Require Import ZArith List.
From Cspuz Require Import Lib.PyErr Array.Slice Graph.GraphModel Array.Frame.
Extraction "model.ml" Z.add Nat.add pyerr_code bool_array new_frame new_inner getitem all_edges iter
  cell_neighbors vertex_neighbors dual idual iiter from_grid_frame.
