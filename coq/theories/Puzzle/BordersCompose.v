(* C11 Tier 1 - composition with property C07: a solver that declares an int answer grid `size` (lo..hi, all
   answer keys), a fresh BoolInnerGridFrame `border`, calls
       graph.division_connected_variable_groups_with_borders(solver, group_size=size, is_border=border)
   (inner-frame form, auxiliary-variable encoding, model Graph/VarGroups.v) and then posts further constraints
   over the size and the border variables.  The border variables and the variables of the connectivity
   encoding are existential.  Uses C07's closed theorems vargroups_borders_exact / vargroups_frame_layout
   (Props/C07.v; here through their proved forms in Graph/VarGroupsBorders.v, Graph/VarGroupsFrame.v).
   Contents:
     1. the inner frame of a board: border items, their variable offsets, the inferred graph has the edges of
        the board (grid_adj), edge k <-> offset k;
     2. blocks: when a border lies exactly between cells of different value, the blocks of the border
        partition are the orthogonally connected groups of equal value (border_exact_groups);
     3. borders_grid_compose. *)
From Coq Require Import ZArith List Bool Arith Lia.
From Cspuz Require Import Lib.PyErr Core.Expr Core.Program Core.Build Graph.GraphModel Graph.ReachProofs
     Graph.AvcProofs
     Graph.VarGroups Graph.VarGroupsSound Graph.VarGroupsEval Graph.VarGroupsMain Graph.VarGroupsExact
     Graph.VarGroupsLib Graph.VarGroupsSized Graph.VarGroupsSizedExact Graph.VarGroupsCut
     Graph.VarGroupsBorders Graph.VarGroupsFrame
     Puzzle.PuzzleBase Puzzle.SatAbs Puzzle.ModelBase Puzzle.ModelLemmas.
Import ListNotations.
Local Open Scope nat_scope.

(* ------------------------------------------------------------------------ *)
(* 0. small list facts                                                        *)

Lemma flat_map_ext_in' {A B} (f g : A -> list B) l :
  (forall a, In a l -> f a = g a) -> flat_map f l = flat_map g l.
Proof.
  induction l as [|a r IH]; intros H; simpl; [reflexivity|].
  rewrite (H a (or_introl eq_refl)), IH; [reflexivity|]. intros x Hx. apply H. right; exact Hx.
Qed.

Lemma map_flat_map {A B C} (f : B -> C) (g : A -> list B) l :
  map f (flat_map g l) = flat_map (fun a => map f (g a)) l.
Proof. induction l as [|a r IH]; simpl; [reflexivity|]. rewrite map_app, IH. reflexivity. Qed.

Lemma nth_error_combine_in {A B} (d : B) : forall (l1 : list A) (l2 : list B) k a,
  length l1 = length l2 -> nth_error l1 k = Some a -> In (a, nth k l2 d) (combine l1 l2).
Proof.
  induction l1 as [|x l1 IH]; intros l2 k a Hl Hk; [destruct k; discriminate|].
  destruct l2 as [|y l2]; [discriminate|]. destruct k as [|k]; simpl in *.
  - inversion Hk; subst. left; reflexivity.
  - right. apply IH; [lia|exact Hk].
Qed.

Lemma in_bounds_from_ints en lo hi k : forall i,
  in_bounds_from en i (repeat (DInt lo hi) k) = true <-> (forall v, v < k -> (lo <= ei en (i + v) <= hi)%Z).
Proof.
  induction k as [|k IH]; intros i; simpl.
  - split; [intros _ v Hv; lia|reflexivity].
  - rewrite !andb_true_iff, IH, Z.leb_le, Z.leb_le. split.
    + intros [[H1 H2] H3] v Hv. destruct v as [|v]; [rewrite Nat.add_0_r; lia|].
      replace (i + S v) with (S i + v) by lia. apply H3. lia.
    + intros H. split; [specialize (H 0 ltac:(lia)); rewrite Nat.add_0_r in H; lia|].
      intros v Hv. replace (S i + v) with (i + S v) by lia. apply H. lia.
Qed.

(* ------------------------------------------------------------------------ *)
(* 1. the inner frame of an h x w board whose variables are declared right after the h*w cell variables       *)

Definition mk_frame (h w : nat) : inner_frame :=
  {| fh := h; fw := w; fhor := bvars (h * w) ((h - 1) * w); fver := bvars (h * w + (h - 1) * w) (h * (w - 1)) |}.

(* number of border variables *)
Definition n_borders (h w : nat) : nat := (h - 1) * w + h * (w - 1).

(* offset (among the frame's variables) of the border item of every edge, in edge order *)
Definition frame_offsets (h w : nat) : list nat :=
  flat_map (fun '(y, x) =>
      (if Nat.eqb (S y) h then [] else [y * w + x]) ++
      (if Nat.eqb (S x) w then [] else [(h - 1) * w + y * (w - 1) + x]))
    (cells h w).

Lemma hor_off_lt h w y x : y < h -> x < w -> S y <> h -> y * w + x < (h - 1) * w.
Proof.
  intros Hy Hx Hn. assert (H : S y * w <= (h - 1) * w) by (apply Nat.mul_le_mono_r; lia). simpl in H. lia.
Qed.
Lemma ver_off_lt h w y x : y < h -> x < w -> S x <> w -> y * (w - 1) + x < h * (w - 1).
Proof.
  intros Hy Hx Hn. assert (H : S y * (w - 1) <= h * (w - 1)) by (apply Nat.mul_le_mono_r; lia). simpl in H. lia.
Qed.

Lemma frame_cells_mk h w : frame_cells (mk_frame h w) = cells h w.
Proof. reflexivity. Qed.

Lemma frame_borders_offsets h w :
  frame_borders (mk_frame h w) = map (fun j => BVar (h * w + j)) (frame_offsets h w).
Proof.
  unfold frame_borders, frame_offsets. rewrite frame_cells_mk, map_flat_map.
  apply flat_map_ext_in'. intros [y x] Hc. apply cells_in in Hc. destruct Hc as [Hy Hx].
  cbn [fh fw fhor fver mk_frame]. rewrite map_app. f_equal.
  - destruct (Nat.eqb_spec (S y) h) as [E|N]; [reflexivity|]. cbn [map].
    rewrite at_bvars by (apply hor_off_lt; assumption). reflexivity.
  - destruct (Nat.eqb_spec (S x) w) as [E|N]; [reflexivity|]. cbn [map].
    rewrite at_bvars by (apply ver_off_lt; assumption). f_equal. f_equal. lia.
Qed.

Lemma frame_offsets_lt h w j : In j (frame_offsets h w) -> j < n_borders h w.
Proof.
  unfold frame_offsets, n_borders. rewrite in_flat_map. intros [[y x] [Hc H]]. apply cells_in in Hc.
  destruct Hc as [Hy Hx]. apply in_app_iff in H. destruct H as [H|H].
  - destruct (Nat.eqb_spec (S y) h) as [E|N]; [destruct H|]. destruct H as [H|[]]. subst j.
    pose proof (hor_off_lt h w y x Hy Hx N). lia.
  - destruct (Nat.eqb_spec (S x) w) as [E|N]; [destruct H|]. destruct H as [H|[]]. subst j.
    pose proof (ver_off_lt h w y x Hy Hx N). lia.
Qed.

Lemma frame_edges_eq h w :
  edges (frame_graph (mk_frame h w)) =
  flat_map (fun '(y, x) =>
      (if Nat.eqb (S y) h then [] else [(y * w + x, S y * w + x)]) ++
      (if Nat.eqb (S x) w then [] else [(y * w + x, y * w + S x)]))
    (cells h w).
Proof. reflexivity. Qed.

Lemma frame_nv h w : nv (frame_graph (mk_frame h w)) = h * w.
Proof. reflexivity. Qed.

(* the inferred graph has exactly the edges of the board *)
Lemma frame_edges_spec h w a b : In (a, b) (edges (frame_graph (mk_frame h w))) <-> grid_adj h w a b.
Proof.
  rewrite frame_edges_eq, in_flat_map. unfold grid_adj. split.
  - intros [[y x] [Hc H]]. apply cells_in in Hc. destruct Hc as [Hy Hx]. apply in_app_iff in H. destruct H as [H|H].
    + destruct (Nat.eqb_spec (S y) h) as [E|N]; [destruct H|]. destruct H as [H|[]]. inversion H; subst.
      exists y, x. split; [exact Hy|]. split; [exact Hx|]. split; [reflexivity|]. right. split; [lia|reflexivity].
    + destruct (Nat.eqb_spec (S x) w) as [E|N]; [destruct H|]. destruct H as [H|[]]. inversion H; subst.
      exists y, x. split; [exact Hy|]. split; [exact Hx|]. split; [reflexivity|]. left. split; [lia|reflexivity].
  - intros [y [x [Hy [Hx [Ha Hb]]]]]. exists (y, x). split; [apply cells_in; split; assumption|].
    apply in_app_iff. destruct Hb as [[H1 H2]|[H1 H2]]; subst.
    + right. destruct (Nat.eqb_spec (S x) w) as [E|N]; [lia|]. left; reflexivity.
    + left. destruct (Nat.eqb_spec (S y) h) as [E|N]; [lia|]. left; reflexivity.
Qed.

Lemma frame_wf h w : wf_graph (frame_graph (mk_frame h w)) = true.
Proof.
  unfold wf_graph. apply forallb_forall. intros [a b] Hin.
  apply frame_edges_spec in Hin. destruct Hin as [y [x [Hy [Hx [Ha Hb]]]]]. rewrite frame_nv.
  apply andb_true_iff. split; apply Nat.ltb_lt.
  - subst a. apply grid_cell_lt; assumption.
  - destruct Hb as [[H1 H2]|[H1 H2]]; subst b; apply grid_cell_lt; assumption.
Qed.

Lemma frame_offsets_length h w : length (frame_offsets h w) = length (edges (frame_graph (mk_frame h w))).
Proof.
  rewrite frame_edges_eq. unfold frame_offsets. induction (cells h w) as [|[y x] r IH]; [reflexivity|].
  cbn [flat_map]. rewrite !app_length, IH.
  destruct (Nat.eqb (S y) h), (Nat.eqb (S x) w); reflexivity.
Qed.

(* edge k joins the two cells its border item lies between *)
Lemma frame_edge_offset h w k u v :
  nth_error (edges (frame_graph (mk_frame h w))) k = Some (u, v) ->
  exists y x, y < h /\ x < w /\ u = y * w + x /\
    ((S y < h /\ v = S y * w + x /\ nth k (frame_offsets h w) 0 = y * w + x) \/
     (S x < w /\ v = y * w + S x /\ nth k (frame_offsets h w) 0 = (h - 1) * w + y * (w - 1) + x)).
Proof.
  intros Hk.
  pose proof (nth_error_combine_in 0 _ (frame_offsets h w) k (u, v) (eq_sym (frame_offsets_length h w)) Hk) as Hin.
  rewrite frame_edges_eq in Hin. unfold frame_offsets in Hin. rewrite combine_flat_map in Hin.
  2:{ intros [y x]. destruct (Nat.eqb (S y) h), (Nat.eqb (S x) w); reflexivity. }
  apply in_flat_map in Hin. destruct Hin as [[y x] [Hc H]]. apply cells_in in Hc. destruct Hc as [Hy Hx].
  exists y, x. split; [exact Hy|]. split; [exact Hx|].
  destruct (Nat.eqb_spec (S y) h) as [E1|N1], (Nat.eqb_spec (S x) w) as [E2|N2]; cbn [app combine] in H.
  - destruct H.
  - destruct H as [H|[]]. inversion H; subst. split; [reflexivity|]. right. split; [lia|]. split; [reflexivity|]. symmetry; assumption.
  - destruct H as [H|[]]. inversion H; subst. split; [reflexivity|]. left. split; [lia|]. split; [reflexivity|]. symmetry; assumption.
  - destruct H as [H|[H|[]]]; inversion H; subst; (split; [reflexivity|]).
    + left. split; [lia|]. split; [reflexivity|]. symmetry; assumption.
    + right. split; [lia|]. split; [reflexivity|]. symmetry; assumption.
Qed.

(* ------------------------------------------------------------------------ *)
(* 2. blocks of the border partition = orthogonally connected groups of equal value                          *)

Section Blocks.
  Variables (h w : nat) (val : nat -> Z) (pat : nat -> bool).
  Let g := frame_graph (mk_frame h w).
  (* a border lies exactly between cells of different value *)
  Hypothesis Hpat : forall k u v, nth_error (edges g) k = Some (u, v) -> pat k = negb (val u =? val v)%Z.

  Lemma same_cut_val u v : same_cut g pat u v -> val u = val v.
  Proof.
    unfold same_cut. induction 1 as [v _|u v t Huv IH Hn _]; [reflexivity|].
    rewrite IH. apply nbrs_spec in Hn. destruct Hn as [k [Hk [He|He]]];
      unfold cut in Hk; apply negb_true_iff in Hk; rewrite (Hpat _ _ _ He) in Hk;
      apply negb_false_iff in Hk; apply Z.eqb_eq in Hk; congruence.
  Qed.

  Lemma same_cut_group u v :
    same_cut g pat u v -> reach (grid_graph h w) (fun x => (val x =? val u)%Z) all_edges_ok u v.
  Proof.
    intros R. pose proof R as R0. unfold same_cut in R.
    induction R as [v _|u v t Huv IH Hn _].
    - apply reach_refl. apply Z.eqb_refl.
    - assert (Ruv : same_cut g pat u v) by exact Huv.
      eapply reach_step; [apply IH; exact Ruv| |].
      + apply grid_nbrs. apply nbrs_spec in Hn.
        destruct Hn as [k [_ [He|He]]]; apply nth_error_In in He; apply frame_edges_spec in He; tauto.
      + apply Z.eqb_eq. symmetry. apply same_cut_val. exact R0.
  Qed.

  Lemma group_same_cut (vok : nat -> bool) c u v :
    (forall x, vok x = true -> val x = c) ->
    reach (grid_graph h w) vok all_edges_ok u v -> same_cut g pat u v.
  Proof.
    intros Hc R. unfold same_cut. induction R as [v _|u v t Huv IH Hn Ht].
    - apply reach_refl. reflexivity.
    - pose proof (Hc _ (reach_vok_end _ _ _ _ _ Huv)) as Ev. pose proof (Hc _ Ht) as Et.
      assert (Hk : exists k, nth_error (edges g) k = Some (v, t) \/ nth_error (edges g) k = Some (t, v)).
      { apply grid_nbrs in Hn. destruct Hn as [Hn|Hn]; apply frame_edges_spec in Hn; apply In_nth_error in Hn;
          destruct Hn as [k Hk]; exists k; [left|right]; exact Hk. }
      destruct Hk as [k Hk].
      eapply reach_step; [exact IH| |reflexivity].
      apply nbrs_spec. exists k. split; [|exact Hk].
      unfold cut. apply negb_true_iff.
      destruct Hk as [Hk|Hk]; rewrite (Hpat _ _ _ Hk); apply negb_false_iff; apply Z.eqb_eq; congruence.
  Qed.

  Lemma same_cut_iff_group u v :
    same_cut g pat u v <-> reach (grid_graph h w) (fun x => (val x =? val u)%Z) all_edges_ok u v.
  Proof.
    split; [apply same_cut_group|]. apply (group_same_cut _ (val u)). intros x Hx. apply Z.eqb_eq. exact Hx.
  Qed.

  Lemma group_is_cut_block v : v < h * w -> is_cut_block g pat v (same_group h w val v).
  Proof.
    intros Hv. split; [apply component_nodup|]. intros x.
    unfold same_group, group_of, board.
    rewrite (component_spec (grid_graph h w) _ all_edges_ok v x (grid_wf h w) Hv), <- same_cut_iff_group.
    split; [|tauto]. intros R. split; [|exact R].
    apply same_cut_iff_group in R. apply (reach_lt _ _ _ _ _ (grid_wf h w) Hv R).
  Qed.

  Theorem border_exact_groups :
    border_exact g pat (fun v => Some (val v)) <->
    (forall v, v < h * w -> Z.of_nat (length (same_group h w val v)) = val v).
  Proof.
    split.
    - intros [H1 _] v Hv. apply (H1 v (val v) _ Hv eq_refl (group_is_cut_block v Hv)).
    - intros H. split.
      + intros v s l Hv Hs [Hnd Hl]. inversion Hs; subst s. change (nv g) with (h * w) in Hv.
        rewrite <- (H v Hv). unfold VarGroups.zn. f_equal.
        apply same_elements_length; [exact Hnd|apply component_nodup|].
        intros x. rewrite Hl. destruct (group_is_cut_block v Hv) as [_ Hb]. symmetry. apply Hb.
      + intros k u v Hk Hp R. apply same_cut_val in R. rewrite (Hpat _ _ _ Hk) in Hp.
        apply negb_true_iff in Hp. apply Z.eqb_neq in Hp. contradiction.
  Qed.
End Blocks.

(* ------------------------------------------------------------------------ *)
(* 3. composition                                                            *)

Lemma borders_state_shape st g sizes bd :
  exists newv newc,
    vars (borders_state st g sizes bd) = vars st ++ newv /\
    Program.cons (borders_state st g sizes bd) = Program.cons st ++ newc.
Proof.
  unfold borders_state, sized_state, main_state.
  eexists. eexists. split; cbn [vars Program.cons ensure add_decls]; rewrite <- ?app_assoc; reflexivity.
Qed.

Section Compose.
  Variable gsem : op -> list (option value) -> option bool.
  Variables (h w : nat) (lo hi : Z).
  Variables (st0 : state) (size : list expr) (st1 : state) (hor : list expr) (st2 : state) (ver : list expr).
  Variable st3 : state.
  Hypothesis Hn : 1 <= h * w.
  Hypothesis Hdecl : int_array empty_state (h * w) lo hi = Ok (st0, size).
  Hypothesis Hhor :
    bool_array {| vars := vars st0; keys := repeat true (h * w); Program.cons := Program.cons st0 |} ((h - 1) * w) = (st1, hor).
  Hypothesis Hver : bool_array st1 (h * (w - 1)) = (st2, ver).
  Hypothesis Hcall :
    division_connected_variable_groups_with_borders st2 (GArr2 h w size)
      (BFrame {| fh := h; fw := w; fhor := hor; fver := ver |}) None None false = Ok st3.
  Variable extra : list expr.
  Variable local : (nat -> Z) -> (nat -> bool) -> bool.
  Hypothesis Hloc : forall en,
    forallb (holds gsem en) extra = local (ei en) (fun j => eb en (h * w + j)).
  Hypothesis Hlocal_ext : forall d d' b b',
    (forall v, v < h * w -> d v = d' v) -> (forall j, j < n_borders h w -> b j = b' j) -> local d b = local d' b'.

  Let n := h * w.
  Let g := frame_graph (mk_frame h w).
  Let bd := frame_borders (mk_frame h w).
  Let offs := frame_offsets h w.

  Lemma bc_decl : st0 = add_decls empty_state (repeat (DInt lo hi) n) /\ size = ivars 0 n lo hi.
  Proof.
    unfold n. clear - Hdecl.
    unfold int_array in Hdecl. destruct (hi <? lo)%Z; [discriminate|].
    rewrite int_vars_spec in Hdecl. inversion Hdecl; subst. split; reflexivity.
  Qed.

  Lemma bc_hor : st1 = add_decls {| vars := vars st0; keys := repeat true n; Program.cons := Program.cons st0 |}
                                 (repeat DBool ((h - 1) * w)) /\ hor = bvars n ((h - 1) * w).
  Proof.
    pose proof bc_decl as [E0 _]. unfold n in *. clear - Hhor E0.
    unfold bool_array in Hhor. rewrite bool_vars_spec in Hhor. inversion Hhor; subst. split; [reflexivity|].
    f_equal. unfold next_id; cbn [vars add_decls empty_state]. apply repeat_length.
  Qed.

  Lemma bc_ver : st2 = add_decls st1 (repeat DBool (h * (w - 1))) /\ ver = bvars (n + (h - 1) * w) (h * (w - 1)).
  Proof.
    pose proof bc_decl as [E0 _]. pose proof bc_hor as [E1 _]. unfold n in *. clear - Hver E0 E1.
    unfold bool_array in Hver. rewrite bool_vars_spec in Hver. inversion Hver; subst. split; [reflexivity|].
    f_equal. unfold next_id; cbn [vars add_decls empty_state app]. rewrite app_length, !repeat_length. reflexivity.
  Qed.

  Lemma bc_vars2 : vars st2 = repeat (DInt lo hi) n ++ repeat DBool ((h - 1) * w) ++ repeat DBool (h * (w - 1)).
  Proof.
    rewrite (proj1 bc_ver), (proj1 bc_hor), (proj1 bc_decl).
    cbn [vars add_decls empty_state]. rewrite <- app_assoc. reflexivity.
  Qed.

  Lemma bc_cons2 : Program.cons st2 = [].
  Proof.
    rewrite (proj1 bc_ver), (proj1 bc_hor), (proj1 bc_decl). reflexivity.
  Qed.

  Lemma bc_next2 : next_id st2 = n + n_borders h w.
  Proof. unfold next_id. rewrite bc_vars2, !app_length, !repeat_length. unfold n_borders. reflexivity. Qed.

  Lemma bc_frame : {| fh := h; fw := w; fhor := hor; fver := ver |} = mk_frame h w.
  Proof. rewrite (proj2 bc_hor), (proj2 bc_ver). reflexivity. Qed.

  Lemma bc_size_len : length size = nv g.
  Proof. rewrite (proj2 bc_decl). unfold ivars. rewrite map_length, seq_length. reflexivity. Qed.

  Lemma bc_bd_len : length bd = length (edges g).
  Proof. exact (proj1 (proj2 (frame_layout_spec (mk_frame h w)))). Qed.

  Lemma bc_size_valid : forallb valid_size size = true.
  Proof.
    rewrite (proj2 bc_decl). unfold ivars. rewrite forallb_map. apply forallb_forall. intros; reflexivity.
  Qed.

  Lemma bc_st3 : st3 = borders_state st2 g size bd.
  Proof.
    pose proof Hcall as H. rewrite bc_frame in H. rewrite with_borders_frame_form in H.
    fold g bd in H. rewrite post_with_borders_nonprim in H.
    - inversion H; reflexivity.
    - exact Hn.
    - exact bc_size_len.
    - exact bc_bd_len.
    - exact bc_size_valid.
  Qed.

  (* the size items / the border items evaluated in an assignment *)
  Lemma bc_sizes_eval en sval :
    (forall v, v < n -> sval v = Some (ei en v)) -> sizes_eval gsem (next_id st2) en size sval.
  Proof.
    intros Hs i Hi. rewrite bc_size_len in Hi. change (nv g) with n in Hi.
    change (nth i size PyNone) with (at_ size i). rewrite (proj2 bc_decl).
    rewrite at_ivars by exact Hi. cbn [Nat.add].
    split; [reflexivity|]. split; [rewrite bc_next2; cbn [max_id]; lia|].
    exists (ei en i). split; [reflexivity|]. apply Hs. exact Hi.
  Qed.

  Lemma bc_bd_nth e : e < length bd -> nth e bd PyNone = BVar (n + nth e offs 0).
  Proof.
    intros He. unfold bd in *. rewrite frame_borders_offsets in *. rewrite map_length in He.
    rewrite (nth_indep _ PyNone (BVar (h * w + 0))) by (rewrite map_length; exact He).
    rewrite (map_nth (fun j => BVar (h * w + j))). reflexivity.
  Qed.

  Lemma bc_offs_len : length offs = length bd.
  Proof. unfold bd. rewrite frame_borders_offsets, map_length. reflexivity. Qed.

  Lemma bc_borders_eval en pat :
    (forall e, e < length offs -> pat e = eb en (n + nth e offs 0)) -> borders_eval gsem (next_id st2) en bd pat.
  Proof.
    intros Hp e He. rewrite (bc_bd_nth e He). pose proof He as He'. rewrite <- bc_offs_len in He'.
    split; [reflexivity|]. split.
    - rewrite bc_next2. cbn [max_id].
      assert (nth e offs 0 < n_borders h w).
      { apply frame_offsets_lt. apply nth_In. exact He'. }
      lia.
    - cbn [eval]. rewrite Hp by exact He'. reflexivity.
  Qed.

  Definition borders_final_state : state := ensure st3 extra.

  Lemma bc_split en :
    model_of gsem en borders_final_state <->
    (in_bounds_from en 0 (vars st2) = true /\ extends_sat gsem st2 st3 en en /\
     forallb (holds gsem en) extra = true).
  Proof.
    destruct (borders_state_shape st2 g size bd) as [newv [newc [Hv Hc]]]. rewrite <- bc_st3 in Hv, Hc.
    rewrite bc_cons2 in Hc. cbn [app] in Hc.
    unfold model_of, in_bounds, satisfies, extends_sat, new_in_bounds, new_cons, borders_final_state.
    cbn [vars Program.cons ensure]. rewrite Hv, Hc, in_bounds_from_app, forallb_app.
    unfold next_id. rewrite skipn_app_len, bc_cons2. cbn [length skipn Nat.add].
    rewrite !andb_true_iff. split.
    - intros [[H1 H2] [H3 H4]]. split; [exact H1|]. split; [|exact H4].
      split; [apply agree_below_refl|]. split; assumption.
    - intros [H1 [[_ [H2 H3]] H4]]. split; split; assumption.
  Qed.

  Lemma bc_bounds2 en :
    in_bounds_from en 0 (vars st2) = true <-> (forall v, v < n -> (lo <= ei en v <= hi)%Z).
  Proof.
    rewrite bc_vars2, !in_bounds_from_app, !in_bounds_from_repeat_bool, !andb_true_r.
    apply (in_bounds_from_ints en lo hi n 0).
  Qed.

  Lemma bc_reads en : reads borders_final_state en (seq 0 n) = map (ei en) (seq 0 n).
  Proof.
    destruct (borders_state_shape st2 g size bd) as [newv [newc [Hv _]]]. rewrite <- bc_st3 in Hv.
    unfold reads. apply map_ext_in. intros i Hi. apply in_seq in Hi.
    unfold read_var, borders_final_state. cbn [vars ensure]. rewrite Hv, bc_vars2.
    rewrite <- app_assoc, nth_error_app1 by (rewrite repeat_length; lia).
    rewrite (nth_error_nth' _ (DInt lo hi)) by (rewrite repeat_length; lia). rewrite nth_repeat. reflexivity.
  Qed.

  Theorem borders_grid_compose ans :
    (exists en, model_of gsem en borders_final_state /\ reads borders_final_state en (seq 0 n) = ans)
    <-> (length ans = n /\ (forall v, v < n -> (lo <= getz ans v <= hi)%Z) /\
         exists b : nat -> bool,
           border_exact g (fun k => b (nth k offs 0)) (fun v => Some (getz ans v)) /\
           local (getz ans) b = true).
  Proof.
    pose proof (vargroups_borders_exact_proved gsem st2 g size bd st3) as EX.
    assert (Hpost : post_with_borders st2 g size bd false = Ok st3).
    { rewrite post_with_borders_nonprim; [rewrite bc_st3; reflexivity|exact Hn|exact bc_size_len|exact bc_bd_len|exact bc_size_valid]. }
    split.
    - intros [en [Hm Hr]]. rewrite bc_reads in Hr. subst ans.
      apply bc_split in Hm. destruct Hm as [Hb [Hext Hex]].
      assert (Hg : forall v, v < n -> getz (map (ei en) (seq 0 n)) v = ei en v)
        by (intros v Hv; apply getz_map_seq; exact Hv).
      split; [rewrite map_length, seq_length; reflexivity|].
      split; [intros v Hv; rewrite Hg by exact Hv; apply (proj1 (bc_bounds2 en) Hb v Hv)|].
      exists (fun j => eb en (n + j)). split.
      + apply (EX en _ _ (frame_wf h w) Hn bc_size_len bc_bd_len).
        * apply bc_sizes_eval. intros v Hv. rewrite Hg by exact Hv. reflexivity.
        * apply bc_borders_eval. intros e _. reflexivity.
        * exact Hpost.
        * exists en. exact Hext.
      + rewrite Hloc in Hex. rewrite <- Hex. apply Hlocal_ext; [exact Hg|reflexivity].
    - intros [Hl [Hrange [b [Hbe Hlc]]]].
      set (en0 := {| eb := fun i => b (i - n); ei := fun i => getz ans i |}).
      assert (Hb0 : forall j, eb en0 (n + j) = b j).
      { intros j. unfold en0; cbn [eb]. f_equal. lia. }
      apply (EX en0 _ _ (frame_wf h w) Hn bc_size_len bc_bd_len) in Hbe.
      + destruct Hbe as [en' [Hag [Hnb Hnc]]]. rewrite bc_next2 in Hag.
        assert (Hei : forall v, v < n -> ei en' v = getz ans v).
        { intros v Hv. destruct (Hag v ltac:(lia)) as [_ E]. rewrite <- E. reflexivity. }
        assert (Heb : forall j, j < n_borders h w -> eb en' (n + j) = b j).
        { intros j Hj. destruct (Hag (n + j) ltac:(lia)) as [E _]. rewrite <- E. apply Hb0. }
        exists en'. split.
        * apply bc_split. split; [|split].
          -- apply bc_bounds2. intros v Hv. rewrite Hei by exact Hv. apply Hrange. exact Hv.
          -- split; [apply agree_below_refl|]. split; assumption.
          -- rewrite Hloc. rewrite <- Hlc. apply Hlocal_ext; assumption.
        * rewrite bc_reads. transitivity (map (getz ans) (seq 0 (length ans))); [|apply map_getz_seq].
          rewrite Hl. apply map_ext_in. intros v Hv. apply in_seq in Hv. apply Hei. lia.
      + apply bc_sizes_eval. intros v Hv. reflexivity.
      + apply bc_borders_eval. intros e _. symmetry. apply Hb0.
      + exact Hpost.
  Qed.
End Compose.
