(* C06 -- the primitive forms: _active_edges_single_cycle(use_graph_primitive=True)
   and _active_edges_single_path: degree constraints + the native connectivity
   operator on the line graph, whose meaning is DEFINED as gsem_c06 (Cycle.v). *)
From Coq Require Import ZArith List Bool Arith Lia.
From Cspuz Require Import Lib.PyErr Core.Expr Core.Program Core.Build
  Graph.GraphModel Graph.ReachProofs Graph.Cycle Graph.CycleLemmas Graph.CycleCert
  Graph.CycleProofs Graph.CycleMain Graph.LineGraph.
Import ListNotations.
Open Scope nat_scope.

(* ------------------------------------------------------------------------ *)
(* decoding the operand layout of the native operator                        *)

Lemma take_bools_flags (f : nat -> bool) s n rest :
  take_bools n (map (fun k => Some (VB (f k))) (seq s n) ++ rest) = Some (map f (seq s n), rest).
Proof.
  revert s. induction n as [|n IH]; intros s; simpl; [reflexivity|]. rewrite IH. reflexivity.
Qed.

Lemma take_pairs_edges es :
  take_pairs (length es)
    (flat_map (fun e : nat * nat => [Some (VI (Z.of_nat (fst e))); Some (VI (Z.of_nat (snd e)))]) es)
  = Some es.
Proof.
  induction es as [|[a b] es IH]; simpl; [reflexivity|].
  replace (0 <=? Z.of_nat a)%Z with true by (symmetry; apply Z.leb_le; lia).
  replace (0 <=? Z.of_nat b)%Z with true by (symmetry; apply Z.leb_le; lia).
  simpl. rewrite IH, !Nat2Z.id. reflexivity.
Qed.

Lemma map_eval_flat_edges gsem en es :
  map (eval gsem en) (flat_edges es) =
  flat_map (fun e : nat * nat => [Some (VI (Z.of_nat (fst e))); Some (VI (Z.of_nat (snd e)))]) es.
Proof. induction es as [|[a b] es IH]; simpl; [reflexivity|]. rewrite IH. reflexivity. Qed.

Lemma map_eval_flags gsem en acts (A : nat -> bool) :
  (forall k, k < length acts -> eval gsem en (nth k acts PyNone) = Some (VB (A k))) ->
  map (eval gsem en) acts = map (fun k => Some (VB (A k))) (seq 0 (length acts)).
Proof.
  assert (H : forall s, (forall k, k < length acts -> eval gsem en (nth k acts PyNone) = Some (VB (A (s + k)))) ->
                        map (eval gsem en) acts = map (fun k => Some (VB (A k))) (seq s (length acts))).
  { induction acts as [|x acts IH]; intros s H; simpl; [reflexivity|].
    assert (H0 : eval gsem en x = Some (VB (A s))).
    { specialize (H 0). simpl in H. rewrite Nat.add_0_r in H. apply H. lia. }
    rewrite H0. f_equal.
    apply IH. intros k Hk. replace (S s + k) with (s + S k) by lia. apply (H (S k)). simpl; lia. }
  intros HA. apply (H 0). exact HA.
Qed.

Lemma nth_map_seq (A : nat -> bool) n v :
  (forall k, n <= k -> A k = false) -> nth v (map A (seq 0 n)) false = A v.
Proof.
  intros Hout. destruct (Nat.lt_ge_cases v n) as [H|H].
  - rewrite (nth_indep _ false (A 0)) by (rewrite map_length, seq_length; exact H).
    rewrite map_nth, seq_nth by exact H. reflexivity.
  - rewrite nth_overflow by (rewrite map_length, seq_length; exact H). symmetry. apply Hout. exact H.
Qed.

Lemma connected_b_ext g a b : (forall v, a v = b v) -> connected_b g a = connected_b g b.
Proof.
  intros H. unfold connected_b. rewrite (filter_ext a b H).
  destruct (filter b (seq 0 (nv g))) as [|s l]; [reflexivity|].
  assert (Hc : component g a all_edges_ok s = component g b all_edges_ok s).
  { unfold component. rewrite H.
    assert (Hg : forall fuel seen, grow fuel g a all_edges_ok seen = grow fuel g b all_edges_ok seen).
    { assert (Hadd : forall cand seen, add_new a cand seen = add_new b cand seen).
      { induction cand as [|c r IHc]; intros seen; simpl; [reflexivity|]. rewrite H, !IHc. reflexivity. }
      assert (Hsw : forall seen, sweep g a all_edges_ok seen = sweep g b all_edges_ok seen).
      { intros seen. unfold sweep. generalize seen at 2 4. generalize seen.
        induction seen0 as [|v r IHs]; intros acc; simpl; [reflexivity|]. rewrite Hadd. apply IHs. }
      induction fuel as [|f IHf]; intros seen; simpl; [reflexivity|]. rewrite Hsw, IHf. reflexivity. }
    rewrite Hg. reflexivity. }
  rewrite Hc. reflexivity.
Qed.

Lemma holds_avc en acts g (A : nat -> bool) :
  wf_graph g = true -> length acts = nv g ->
  (forall k, k < length acts -> eval gsem_c06 en (nth k acts PyNone) = Some (VB (A k))) ->
  (forall k, length acts <= k -> A k = false) ->
  holds gsem_c06 en (avc_node acts g) = connected_b g A.
Proof.
  intros Hwf Hlen HA Hout. apply holds_of_eval. unfold avc_node. rewrite eval_BNode.
  unfold eval_bop. rewrite !map_app. cbn [map eval].
  rewrite (map_eval_flags gsem_c06 en acts A HA), map_eval_flat_edges.
  cbn [app gsem_c06].
  replace (0 <=? Z.of_nat (nv g))%Z with true by (symmetry; apply Z.leb_le; lia).
  replace (0 <=? Z.of_nat (length (edges g)))%Z with true by (symmetry; apply Z.leb_le; lia).
  cbn [andb]. rewrite !Nat2Z.id. rewrite <- Hlen at 1.
  rewrite take_bools_flags, take_pairs_edges.
  replace {| nv := nv g; edges := edges g |} with g by (destruct g; reflexivity).
  rewrite Hwf. simpl. f_equal. f_equal. apply connected_b_ext.
  intros v. apply nth_map_seq. exact Hout.
Qed.

 Lemma Zeqb_nat d k : (Z.of_nat d =? Z.of_nat k)%Z = (d =? k).
Proof. destruct (Nat.eqb_spec d k); [apply Z.eqb_eq|apply Z.eqb_neq]; lia. Qed.

(* ------------------------------------------------------------------------ *)
(* specification lemmas                                                      *)

Lemma no_active_edge_connected g A : no_active g A -> edge_connected g A.
Proof.
  intros Hno u v _ _ Hu _. rewrite (no_active_degree g A u Hno) in Hu. lia.
Qed.

Lemma single_cycle_alt g A :
  single_cycle g A <->
  (forall v, v < nv g -> degree g A v = 0 \/ degree g A v = 2) /\ edge_connected g A.
Proof.
  split.
  - intros [Hno|H]; [|exact H]. split.
    + intros v _. left. apply no_active_degree. exact Hno.
    + apply no_active_edge_connected. exact Hno.
  - intros H. right. exact H.
Qed.

Lemma all_degree_zero_no_active g A :
  wf_graph g = true -> (forall v, v < nv g -> degree g A v = 0) -> no_active g A.
Proof.
  intros Hwf H k Hk. destruct (A k) eqn:Ha; [|reflexivity]. exfalso.
  destruct (nth_error (edges g) k) as [[a b]|] eqn:E; [|apply nth_error_None in E; lia].
  destruct (wf_graph_edge g k a b Hwf E) as [Hav _].
  assert (Hd : 0 < degree g A a).
  { apply (degree_pos_intro g A a b k); [apply incident_spec; left; exact E|exact Ha]. }
  rewrite (H a Hav) in Hd. lia.
Qed.

(* ------------------------------------------------------------------------ *)
(* the posted programs, explicitly                                           *)

Section PrimShape.
  Variable acts : list expr.
  Variable g : graph.
  Variable base : nat.
  Hypothesis Hwf : wf_graph g = true.
  Hypothesis Hlen : length acts = length (edges g).
  Hypothesis Hcl : forall e, In e acts -> is_constraint_like e = true.

  Let Hle : length (edges g) <= length acts.
  Proof. lia. Qed.

  Definition avc := avc_node acts (line_graph g).
  Definition prim_cons : list expr := map (c_deg acts g base) (seq 0 (nv g)) ++ [avc].

  Lemma post_avc_ok s : post_avc_primitive s acts (line_graph g) = Ok (ensure s [avc]).
  Proof.
    unfold post_avc_primitive. simpl. rewrite Hlen, Nat.eqb_refl. reflexivity.
  Qed.

  Lemma post_cycle_prim_shape st :
    next_id st = base ->
    exists st', post_cycle st acts g true = Ok (st', passedL g base) /\
                vars st' = vars st ++ repeat DBool (nv g) /\
                cons st' = cons st ++ prim_cons.
  Proof.
    intros Hb. unfold post_cycle, bool_array. rewrite bool_vars_spec, Hb.
    fold (passedL g base).
    rewrite (for_each_ok _ (fun i s => ensure s [c_deg acts g base i])).
    2:{ intros i s Hi. apply in_seq in Hi. apply (cycle_step_prim_ok acts g base Hle Hcl). lia. }
    cbn [bind]. rewrite post_avc_ok. cbn [bind]. eexists. split; [reflexivity|].
    match goal with |- context [fold_left ?f ?l ?s] =>
      destruct (fold_ensure1 (c_deg acts g base) l s) as [H1 [H2 H3]] end.
    cbn [ensure vars cons]. rewrite H1, H3. cbn [vars cons].
    unfold prim_cons. rewrite <- !app_assoc. split; reflexivity.
  Qed.

  (* path *)
  Definition dg (i : nat) : expr := ct (items acts g i).
  Definition p1 (i : nat) : expr :=
    b_imp (pv base i) (b_or (i_eq (dg i) (PyInt 1)) (i_eq (dg i) (PyInt 2))).
  Definition p2 (i : nat) : expr := b_imp (b_not (pv base i)) (i_eq (dg i) (PyInt 0)).
  Definition ep (i : nat) : expr := i_eq (dg i) (PyInt 1).
  Definition fo : expr :=
    match seq base (nv g) with
    | [] => BNode BOOL_CONSTANT [PyBool false]
    | l => BNode OR (map BVar l)
    end.
  Definition c_end : expr :=
    i_eq (ct (map ep (seq 0 (nv g)))) (i_cond fo (PyInt 2) (PyInt 0)).
  Definition path_cons : list expr :=
    flat_map (fun i => [p1 i; p2 i]) (seq 0 (nv g)) ++ [c_end] ++ [avc].

  Lemma path_step_ok i s endp :
    i < nv g ->
    path_step acts (passedL g base) g i (s, endp) =
    Ok (ensure (ensure s [p1 i]) [p2 i], endp ++ [ep i]).
  Proof.
    intros Hi. unfold path_step. rewrite (degree_expr_ok acts g Hle Hcl). simpl.
    rewrite (py_nth_some (passedL g base) i (pv base i)) by (apply nth_error_map_seq; exact Hi).
    reflexivity.
  Qed.

  Lemma fold_path (l : list nat) s endp :
    let r := fold_left (fun (se : state * list expr) i =>
                          (ensure (ensure (fst se) [p1 i]) [p2 i], snd se ++ [ep i])) l (s, endp) in
    vars (fst r) = vars s /\ keys (fst r) = keys s /\
    cons (fst r) = cons s ++ flat_map (fun i => [p1 i; p2 i]) l /\
    snd r = endp ++ map ep l.
  Proof.
    revert s endp. induction l as [|x l IH]; intros s endp; simpl.
    - rewrite !app_nil_r. auto.
    - destruct (IH (ensure (ensure s [p1 x]) [p2 x]) (endp ++ [ep x])) as [H1 [H2 [H3 H4]]].
      rewrite H1, H2, H3, H4. simpl. rewrite <- !app_assoc. auto.
  Qed.

  Lemma fold_or_passed : fold_or (passedL g base) = Ok fo.
  Proof.
    unfold fold_or, passedL, fo. rewrite fold_or_go_vars. simpl app.
    destruct (seq base (nv g)); reflexivity.
  Qed.

  Lemma post_path_shape st :
    next_id st = base ->
    exists st', post_path st acts g true = Ok (st', passedL g base) /\
                vars st' = vars st ++ repeat DBool (nv g) /\
                cons st' = cons st ++ path_cons.
  Proof.
    intros Hb. unfold post_path, bool_array. rewrite bool_vars_spec, Hb.
    fold (passedL g base).
    rewrite (for_each_ok _ (fun i (se : state * list expr) =>
               (ensure (ensure (fst se) [p1 i]) [p2 i], snd se ++ [ep i]))).
    2:{ intros i [s endp] Hi. apply in_seq in Hi. simpl fst. simpl snd. apply path_step_ok. lia. }
    cbn [bind].
    match goal with |- context [fold_left ?f ?l (?s, ?e)] =>
      destruct (fold_path l s e) as [H1 [H2 [H3 H4]]];
      destruct (fold_left f l (s, e)) as [s2 endp] eqn:Hfold end.
    cbn [fst snd] in H1, H2, H3, H4. simpl app in H4. subst endp.
    rewrite (count_true_ok (map ep (seq 0 (nv g)))).
    2:{ intros x Hx. apply in_map_iff in Hx. destruct Hx as [? [<- _]]. reflexivity. }
    cbn [bind]. rewrite fold_or_passed. cbn [bind]. rewrite post_avc_ok. cbn [bind].
    eexists. split; [reflexivity|].
    cbn [ensure vars cons]. rewrite H1, H3. cbn [vars cons].
    unfold path_cons, c_end. rewrite <- !app_assoc. split; reflexivity.
  Qed.

  (* ---------------------------------------------------------------------- *)
  (* evaluation                                                              *)

  Section EvalPrim.
    Variable en' : env.
    Variable A : nat -> bool.
    Hypothesis HA : forall k, k < length (edges g) -> eval gsem_c06 en' (flag acts k) = Some (VB (A k)).
    Hypothesis Hout : forall k, length acts <= k -> A k = false.

    Lemma holds_avc_lg : holds gsem_c06 en' avc = true <-> edge_connected g A.
    Proof.
      unfold avc. rewrite (holds_avc en' acts (line_graph g) A (line_graph_wf g)).
      - rewrite (connected_b_spec (line_graph g) A (line_graph_wf g)).
        apply line_graph_connected. exact Hwf.
      - simpl. exact Hlen.
      - intros k Hk. apply HA. lia.
      - exact Hout.
    Qed.

    Lemma prim_cons_holds :
      forallb (holds gsem_c06 en') prim_cons = true <->
      (forall i, i < nv g -> degree g A i = if eP base en' i then 2 else 0) /\ edge_connected g A.
    Proof.
      unfold prim_cons. rewrite forallb_app, andb_true_iff. simpl. rewrite andb_true_r, holds_avc_lg.
      rewrite forallb_forall. split; intros [H1 H2]; (split; [|exact H2]).
      - intros i Hi. specialize (H1 (c_deg acts g base i)).
        rewrite (holds_c_deg acts g base Hle Hcl gsem_c06 en' A HA) in H1.
        assert (Hin : In (c_deg acts g base i) (map (c_deg acts g base) (seq 0 (nv g)))).
        { apply in_map. apply in_seq. lia. }
        specialize (H1 Hin). apply Z.eqb_eq in H1. destruct (eP base en' i); lia.
      - intros x Hx. apply in_map_iff in Hx. destruct Hx as [i [<- Hi]]. apply in_seq in Hi.
        rewrite (holds_c_deg acts g base Hle Hcl gsem_c06 en' A HA). apply Z.eqb_eq.
        rewrite (H1 i) by lia. destruct (eP base en' i); reflexivity.
    Qed.

    Lemma eval_dg i : eval gsem_c06 en' (dg i) = Some (VI (Z.of_nat (degree g A i))).
    Proof. apply (eval_deg acts g Hle Hcl gsem_c06 en' A HA). Qed.

    Lemma holds_p1 i :
      holds gsem_c06 en' (p1 i) =
      implb (eP base en' i) ((degree g A i =? 1) || (degree g A i =? 2)).
    Proof.
      apply holds_of_eval. unfold p1.
      replace ((degree g A i =? 1) || (degree g A i =? 2))
        with ((Z.of_nat (degree g A i) =? 1)%Z || (Z.of_nat (degree g A i) =? 2)%Z).
      - apply eval_b_imp; [reflexivity|]. apply eval_b_or; (apply eval_i_eq; [apply eval_dg|reflexivity]).
      - change 1%Z with (Z.of_nat 1). change 2%Z with (Z.of_nat 2). rewrite !Zeqb_nat. reflexivity.
    Qed.

    Lemma holds_p2 i :
      holds gsem_c06 en' (p2 i) = implb (negb (eP base en' i)) (degree g A i =? 0).
    Proof.
      apply holds_of_eval. unfold p2.
      replace (degree g A i =? 0) with (Z.of_nat (degree g A i) =? 0)%Z.
      - apply eval_b_imp; [apply eval_b_not; reflexivity|].
        apply eval_i_eq; [apply eval_dg|reflexivity].
      - change 0%Z with (Z.of_nat 0). apply Zeqb_nat.
    Qed.

    Lemma eval_ep i : eval gsem_c06 en' (ep i) = Some (VB (degree g A i =? 1)).
    Proof.
      unfold ep. replace (degree g A i =? 1) with (Z.of_nat (degree g A i) =? 1)%Z.
      - apply eval_i_eq; [apply eval_dg|reflexivity].
      - change 1%Z with (Z.of_nat 1). apply Zeqb_nat.
    Qed.

    Lemma eval_fo : eval gsem_c06 en' fo = Some (VB (existsb (eP base en') (seq 0 (nv g)))).
    Proof.
      assert (He : existsb (eP base en') (seq 0 (nv g)) = existsb (eb en') (seq base (nv g))).
      { rewrite (seq_add_map base). generalize (seq 0 (nv g)). intros l.
        induction l as [|x l IH]; simpl; [reflexivity|]. rewrite IH. reflexivity. }
      rewrite He. unfold fo. destruct (seq base (nv g)) as [|i r] eqn:Hs.
      - reflexivity.
      - apply (eval_OR_vars gsem_c06 en' (i :: r)).
    Qed.

    Lemma holds_c_end :
      holds gsem_c06 en' c_end =
      (Z.of_nat (num_deg1 g A) =? (if existsb (eP base en') (seq 0 (nv g)) then 2 else 0))%Z.
    Proof.
      apply holds_of_eval. unfold c_end. apply eval_i_eq.
      - assert (Hb : forall x, In x (map ep (seq 0 (nv g))) -> boolish gsem_c06 en' x).
        { intros x Hx. apply in_map_iff in Hx. destruct Hx as [i [<- _]].
          split; [reflexivity|]. eexists. apply eval_ep. }
        destruct (count_true_eval gsem_c06 en' _ Hb) as [_ H]. rewrite H.
        f_equal. f_equal. f_equal. rewrite filter_map_length. unfold num_deg1.
        apply filter_length_ext. intros i _. apply holds_of_eval. apply eval_ep.
      - apply (eval_i_cond gsem_c06 en' fo 2 0). apply eval_fo.
    Qed.

    Lemma path_cons_holds :
      forallb (holds gsem_c06 en') path_cons = true <->
      (forall i, i < nv g ->
         implb (eP base en' i) ((degree g A i =? 1) || (degree g A i =? 2)) = true /\
         implb (negb (eP base en' i)) (degree g A i =? 0) = true) /\
      num_deg1 g A = (if existsb (eP base en') (seq 0 (nv g)) then 2 else 0) /\
      edge_connected g A.
    Proof.
      unfold path_cons. rewrite !forallb_app, !andb_true_iff, forallb_pairs. simpl.
      rewrite !andb_true_r, holds_avc_lg, holds_c_end, Z.eqb_eq.
      split; intros [H1 [H2 H3]]; (split; [|split; [|exact H3]]).
      - intros i Hi. destruct (H1 i) as [Ha Hb]; [apply in_seq; lia|].
        rewrite holds_p1 in Ha. rewrite holds_p2 in Hb. split; assumption.
      - destruct (existsb (eP base en') (seq 0 (nv g))); lia.
      - intros i Hi. apply in_seq in Hi. rewrite holds_p1, holds_p2. apply H1. lia.
      - rewrite H2. destruct (existsb (eP base en') (seq 0 (nv g))); reflexivity.
    Qed.
  End EvalPrim.
End PrimShape.

(* ------------------------------------------------------------------------ *)
(* theorems                                                                  *)

Definition env_of_passed (en : env) (base : nat) (P : nat -> bool) : env :=
  {| eb := fun id => if id <? base then eb en id else P (id - base); ei := ei en |}.

Lemma env_of_passed_agree en base P : agree_below base en (env_of_passed en base P).
Proof. intros i Hi. simpl. apply Nat.ltb_lt in Hi. rewrite Hi. split; reflexivity. Qed.

Lemma env_of_passed_eP en base P i : eP base (env_of_passed en base P) i = P i.
Proof.
  unfold eP, env_of_passed. cbn [eb].
  replace (base + i <? base) with false by (symmetry; apply Nat.ltb_ge; lia).
  f_equal. lia.
Qed.

Lemma in_bounds_bools_ext en en' st st' n :
  agree_below (next_id st) en en' -> in_bounds en st = true ->
  vars st' = vars st ++ repeat DBool n -> in_bounds en' st' = true.
Proof.
  intros Hag Hib Hv. unfold in_bounds. rewrite Hv, in_bounds_from_app, andb_true_iff. split.
  - rewrite <- Hib. unfold in_bounds. symmetry. apply in_bounds_from_agree.
    intros k Hk. destruct (Hag k) as [_ H]; [unfold next_id; lia|exact H].
  - apply in_bounds_from_bools.
Qed.

Lemma pattern_out gsem en acts k : length acts <= k -> pattern gsem en acts k = false.
Proof. intros H. unfold pattern. apply nth_error_None in H. rewrite H. reflexivity. Qed.

Section PrimMain.
  Variables (st : state) (acts : list expr) (g : graph) (en : env) (st' : state) (passed : list expr).
  Hypothesis Hwf : wf_graph g = true.
  Hypothesis Hlen : length acts = length (edges g).
  Hypothesis Hf : flags_ok gsem_c06 st en acts.

  Let A := pattern gsem_c06 en acts.
  Let base := next_id st.

  Lemma prim_HA en' :
    agree_below base en en' ->
    forall k, k < length (edges g) -> eval gsem_c06 en' (flag acts k) = Some (VB (A k)).
  Proof. intros Hag k Hk. apply (pattern_flag gsem_c06 st en en' acts k Hf Hag). lia. Qed.

  Theorem cycle_primitive :
    in_bounds en st = true ->
    post_cycle st acts g true = Ok (st', passed) ->
    ((exists en', extends_sat gsem_c06 st st' en en') <-> single_cycle g A).
  Proof.
    intros Hib Hpost. pose proof (flags_cl gsem_c06 st en acts Hf) as Hcl.
    destruct (post_cycle_prim_shape acts g base Hlen Hcl st eq_refl) as [st'' [Hp [Hv Hc]]].
    rewrite Hp in Hpost. inversion Hpost; subst st'' passed. clear Hpost.
    assert (Hnc : new_cons st st' = prim_cons acts g base).
    { unfold new_cons. rewrite Hc. apply skipn_app_exact. }
    rewrite single_cycle_alt. split.
    - intros [en' [Hag [Hb Hs]]]. rewrite Hnc in Hs.
      apply (prim_cons_holds acts g base Hwf Hlen Hcl en' A (prim_HA en' Hag) (pattern_out _ _ _)) in Hs.
      destruct Hs as [H1 H2]. split; [|exact H2].
      intros v Hv'. rewrite (H1 v Hv'). destruct (eP base en' v); auto.
    - intros [Hd Hconn]. set (en' := env_of_passed en base (visited g A)).
      pose proof (env_of_passed_agree en base (visited g A)) as Hag.
      exists en'. split; [exact Hag|]. split.
      + apply (in_bounds_bools_ext en en' st st' (nv g) Hag Hib Hv).
      + rewrite Hnc.
        apply (prim_cons_holds acts g base Hwf Hlen Hcl en' A (prim_HA en' Hag) (pattern_out _ _ _)).
        split; [|exact Hconn]. intros i Hi. unfold en'. rewrite env_of_passed_eP.
        unfold visited. destruct (Hd i Hi) as [H|H]; rewrite H; reflexivity.
  Qed.

  Theorem cycle_primitive_passed en' :
    post_cycle st acts g true = Ok (st', passed) ->
    extends_sat gsem_c06 st st' en en' ->
    length passed = nv g /\
    forall i, i < nv g ->
      exists p, nth_error passed i = Some p /\ holds gsem_c06 en' p = visited g A i.
  Proof.
    intros Hpost [Hag [Hb Hs]]. pose proof (flags_cl gsem_c06 st en acts Hf) as Hcl.
    destruct (post_cycle_prim_shape acts g base Hlen Hcl st eq_refl) as [st'' [Hp [Hv Hc]]].
    rewrite Hp in Hpost. inversion Hpost; subst st'' passed. clear Hpost.
    assert (Hnc : new_cons st st' = prim_cons acts g base).
    { unfold new_cons. rewrite Hc. apply skipn_app_exact. }
    rewrite Hnc in Hs.
    apply (prim_cons_holds acts g base Hwf Hlen Hcl en' A (prim_HA en' Hag) (pattern_out _ _ _)) in Hs.
    destruct Hs as [H1 _].
    split; [unfold passedL; rewrite map_length, seq_length; reflexivity|].
    intros i Hi. exists (pv base i). split; [unfold passedL; apply nth_error_map_seq; exact Hi|].
    rewrite (holds_of_eval gsem_c06 en' (pv base i) (eP base en' i) eq_refl).
    unfold visited. rewrite (H1 i Hi). destruct (eP base en' i); reflexivity.
  Qed.

  Lemma path_forced en' :
    (forall i, i < nv g ->
       implb (eP base en' i) ((degree g A i =? 1) || (degree g A i =? 2)) = true /\
       implb (negb (eP base en' i)) (degree g A i =? 0) = true) ->
    forall i, i < nv g -> eP base en' i = visited g A i /\ degree g A i <= 2.
  Proof.
    intros H i Hi. destruct (H i Hi) as [H1 H2]. unfold visited.
    destruct (eP base en' i); simpl in H1, H2.
    - apply orb_true_iff in H1. destruct H1 as [H1|H1]; apply Nat.eqb_eq in H1; rewrite H1; split; auto.
    - apply Nat.eqb_eq in H2. rewrite H2. split; auto.
  Qed.

  Theorem path_primitive :
    in_bounds en st = true ->
    post_path st acts g true = Ok (st', passed) ->
    ((exists en', extends_sat gsem_c06 st st' en en') <-> single_path g A).
  Proof.
    intros Hib Hpost. pose proof (flags_cl gsem_c06 st en acts Hf) as Hcl.
    destruct (post_path_shape acts g base Hlen Hcl st eq_refl) as [st'' [Hp [Hv Hc]]].
    rewrite Hp in Hpost. inversion Hpost; subst st'' passed. clear Hpost.
    assert (Hnc : new_cons st st' = path_cons acts g base).
    { unfold new_cons. rewrite Hc. apply skipn_app_exact. }
    split.
    - intros [en' [Hag [Hb Hs]]]. rewrite Hnc in Hs.
      apply (path_cons_holds acts g base Hwf Hlen Hcl en' A (prim_HA en' Hag) (pattern_out _ _ _)) in Hs.
      destruct Hs as [H1 [H2 H3]]. pose proof (path_forced en' H1) as Hfo.
      destruct (existsb (eP base en') (seq 0 (nv g))) eqn:Hex.
      + right. split; [|split; assumption]. intros v Hv'. apply Hfo; exact Hv'.
      + left. apply (all_degree_zero_no_active g A Hwf). intros v Hv'.
        destruct (Hfo v Hv') as [Hvis _].
        assert (Hpf : eP base en' v = false).
        { destruct (eP base en' v) eqn:E; [|reflexivity].
          assert (existsb (eP base en') (seq 0 (nv g)) = true).
          { apply existsb_exists. exists v. split; [apply in_seq; lia|exact E]. }
          congruence. }
        rewrite Hpf in Hvis. unfold visited in Hvis. symmetry in Hvis.
        apply Nat.ltb_ge in Hvis. lia.
    - intros Hsp. set (en' := env_of_passed en base (visited g A)).
      pose proof (env_of_passed_agree en base (visited g A)) as Hag.
      exists en'. split; [exact Hag|]. split.
      + apply (in_bounds_bools_ext en en' st st' (nv g) Hag Hib Hv).
      + rewrite Hnc.
        apply (path_cons_holds acts g base Hwf Hlen Hcl en' A (prim_HA en' Hag) (pattern_out _ _ _)).
        assert (HeP : forall i, eP base en' i = visited g A i)
          by (intros i; unfold en'; apply env_of_passed_eP).
        destruct Hsp as [Hno|[Hd [Hconn Hnum]]].
        * assert (Hz : forall v, degree g A v = 0) by (intros v; apply no_active_degree; exact Hno).
          split; [|split].
          -- intros i _. rewrite HeP. unfold visited. rewrite Hz. split; reflexivity.
          -- replace (existsb (eP base en') (seq 0 (nv g))) with false.
             ++ unfold num_deg1. rewrite (filter_length_ext _ (fun _ => false)).
                ** induction (seq 0 (nv g)); [reflexivity|assumption].
                ** intros v _. rewrite Hz. reflexivity.
             ++ symmetry. apply not_true_is_false. intros Hex. apply existsb_exists in Hex.
                destruct Hex as [v [_ Hv']]. rewrite HeP in Hv'. unfold visited in Hv'.
                rewrite Hz in Hv'. discriminate.
          -- apply no_active_edge_connected. exact Hno.
        * split; [|split; [|exact Hconn]].
          -- intros i Hi. rewrite HeP. unfold visited. specialize (Hd i Hi).
             destruct (degree g A i) as [|[|[|d]]]; try lia; split; reflexivity.
          -- rewrite Hnum.
             replace (existsb (eP base en') (seq 0 (nv g))) with true; [reflexivity|].
             symmetry. apply existsb_exists. unfold num_deg1 in Hnum.
             destruct (filter (fun v => degree g A v =? 1) (seq 0 (nv g))) as [|v l] eqn:Hfl;
               [discriminate|].
             assert (Hin : In v (filter (fun v => degree g A v =? 1) (seq 0 (nv g))))
               by (rewrite Hfl; left; reflexivity).
             apply filter_In in Hin. destruct Hin as [Hin Hd1]. apply Nat.eqb_eq in Hd1.
             exists v. split; [exact Hin|]. rewrite HeP. unfold visited. rewrite Hd1. reflexivity.
  Qed.

  Theorem path_primitive_passed en' :
    post_path st acts g true = Ok (st', passed) ->
    extends_sat gsem_c06 st st' en en' ->
    length passed = nv g /\
    forall i, i < nv g ->
      exists p, nth_error passed i = Some p /\ holds gsem_c06 en' p = visited g A i.
  Proof.
    intros Hpost [Hag [Hb Hs]]. pose proof (flags_cl gsem_c06 st en acts Hf) as Hcl.
    destruct (post_path_shape acts g base Hlen Hcl st eq_refl) as [st'' [Hp [Hv Hc]]].
    rewrite Hp in Hpost. inversion Hpost; subst st'' passed. clear Hpost.
    assert (Hnc : new_cons st st' = path_cons acts g base).
    { unfold new_cons. rewrite Hc. apply skipn_app_exact. }
    rewrite Hnc in Hs.
    apply (path_cons_holds acts g base Hwf Hlen Hcl en' A (prim_HA en' Hag) (pattern_out _ _ _)) in Hs.
    destruct Hs as [H1 _]. pose proof (path_forced en' H1) as Hfo.
    split; [unfold passedL; rewrite map_length, seq_length; reflexivity|].
    intros i Hi. exists (pv base i). split; [unfold passedL; apply nth_error_map_seq; exact Hi|].
    rewrite (holds_of_eval gsem_c06 en' (pv base i) (eP base en' i) eq_refl).
    apply Hfo. exact Hi.
  Qed.
End PrimMain.
