From Coq Require Import ZArith List Bool.
From Cspuz Require Import Lib.PyErr Core.Expr Core.Program Graph.GraphModel Graph.VarGroups
  Graph.VarGroupsPrim Graph.VarGroupsExact Graph.VarGroupsSized Graph.VarGroupsSizedExact
  Graph.VarGroupsBorders Graph.VarGroupsReflect Graph.VarGroupsFrame Graph.VarGroupsExamples.
Import ListNotations.

(* division_connected_variable_groups, group_size = None: a partition [blk] of the
   vertices is realised by the returned ids in some extension of the caller's
   assignment that satisfies everything the call declared and posted, iff every
   block induces a connected subgraph.  All multigraphs (parallel edges, self
   loops), any assignment [en] of the caller's variables, any meaning [gsem] of
   the native operators. *)
Theorem vargroups_exact_nosize :
  forall gsem st g st' ids blk en,
    wf_graph g = true -> 1 <= nv g ->
    post_vargroups st g G1None = Ok (st', ids) ->
    ((exists en', extends_sat gsem st st' en en' /\ ids_realise (nv g) (ids_val gsem en' ids) blk)
     <-> realisable g blk (fun _ => None)).
Proof. exact vargroups_exact_nosize_proved. Qed.
Print Assumptions vargroups_exact_nosize.

(* group_size a per-vertex sequence (list / IntArray1D; the flattened rows or
   IntArray2D of the grid form): None holes, ints, IntVars, integer expressions
   over the caller's variables, evaluated to [sval] in the caller's assignment *)
Theorem vargroups_exact_sized :
  forall gsem st g sizes st' ids blk en sval,
    wf_graph g = true -> 1 <= nv g -> length sizes = nv g ->
    sizes_eval gsem (next_id st) en sizes sval ->
    post_vargroups st g (G1Seq sizes) = Ok (st', ids) ->
    ((exists en', extends_sat gsem st st' en en' /\ ids_realise (nv g) (ids_val gsem en' ids) blk)
     <-> realisable g blk sval).
Proof. exact vargroups_exact_sized_proved. Qed.
Print Assumptions vargroups_exact_sized.

(* group_size one int-like object (an int constant, an IntVar, an integer
   expression over the caller's variables) whose value in the caller's assignment is z *)
Theorem vargroups_exact_scalar :
  forall gsem st g e z st' ids blk en,
    wf_graph g = true -> 1 <= nv g ->
    valid_scalar e = true -> max_id e <= next_id st -> eval gsem en e = Some (VI z) ->
    post_vargroups st g (G1Scalar e) = Ok (st', ids) ->
    ((exists en', extends_sat gsem st st' en en' /\ ids_realise (nv g) (ids_val gsem en' ids) blk)
     <-> realisable g blk (fun _ => Some z)).
Proof. exact vargroups_exact_scalar_proved. Qed.
Print Assumptions vargroups_exact_scalar.

(* _with_borders, non-primitive route: for the is_border pattern [pat] (the values
   of the caller's is_border items) the constraints are satisfiable iff the
   components of the graph minus the border edges meet the size condition and
   every border edge joins two different components *)
Theorem vargroups_borders_exact :
  forall gsem st g sizes bd st' en sval pat,
    wf_graph g = true -> 1 <= nv g -> length sizes = nv g -> length bd = length (edges g) ->
    sizes_eval gsem (next_id st) en sizes sval ->
    borders_eval gsem (next_id st) en bd pat ->
    post_with_borders st g sizes bd false = Ok st' ->
    ((exists en', extends_sat gsem st st' en en') <-> border_exact g pat sval).
Proof. exact vargroups_borders_exact_proved. Qed.
Print Assumptions vargroups_borders_exact.

(* group_size = None: the public wrapper passes [None] * num_vertices *)
Theorem vargroups_borders_nosize :
  forall gsem st g bd st' en pat,
    wf_graph g = true -> 1 <= nv g -> length bd = length (edges g) ->
    borders_eval gsem (next_id st) en bd pat ->
    post_with_borders st g (repeat PyNone (nv g)) bd false = Ok st' ->
    ((exists en', extends_sat gsem st st' en en') <-> border_exact g pat (fun _ => None)).
Proof. exact vargroups_borders_nosize_proved. Qed.
Print Assumptions vargroups_borders_nosize.

(* primitive route: one GRAPH_DIVISION node whose operand list decodes to the
   same graph, sizes and border items *)
Theorem vargroups_with_borders_primitive :
  forall st g sizes bd,
    length sizes = nv g -> length bd = length (edges g) ->
    post_with_borders st g sizes bd true = Ok (ensure st [BNode G_DIV (gdiv_operands g sizes bd)]) /\
    decode_gdiv (gdiv_operands g sizes bd) = Some (g, sizes, bd).
Proof. intros; split; [apply post_with_borders_primitive|apply decode_gdiv_operands]; assumption. Qed.
Print Assumptions vargroups_with_borders_primitive.

(* ... and that node, read with the operator's defined meaning (graph_sem =
   border_exact_b on the decoded operands), holds exactly when the specification does *)
Theorem vargroups_primitive_exact :
  forall g sizes bd en sval pat,
    wf_graph g = true -> length sizes = nv g -> length bd = length (edges g) ->
    (forall i, i < length sizes ->
       match nth i sizes PyNone with
       | PyNone => sval i = None
       | e => exists z, eval graph_sem en e = Some (VI z) /\ sval i = Some z
       end) ->
    (forall e, e < length bd -> eval graph_sem en (nth e bd PyNone) = Some (VB (pat e))) ->
    (holds graph_sem en (BNode G_DIV (gdiv_operands g sizes bd)) = true <-> border_exact g pat sval).
Proof. intros. eapply gdiv_node_holds; eauto. Qed.
Print Assumptions vargroups_primitive_exact.

(* the executable specifications used by the harness reflect the relational ones *)
Theorem vargroups_specs_reflect :
  forall g, wf_graph g = true ->
    (forall blk sizes, realisable_b g blk sizes = true <-> realisable g blk sizes) /\
    (forall bd sizes, border_exact_b g bd sizes = true <-> border_exact g bd sizes).
Proof. intros g H. split; intros; [apply realisable_b_spec|apply border_exact_b_spec]; exact H. Qed.
Print Assumptions vargroups_specs_reflect.

(* inner-frame form: edge k of the inferred graph joins the two cells the k-th
   border item lies between (horizontal[y, x] between (y, x) and (y+1, x),
   vertical[y, x] between (y, x) and (y, x+1)), and the wrapper is the private
   helper on that graph *)
Theorem vargroups_frame_layout :
  forall f,
    combine (edges (frame_graph f)) (frame_borders f) = frame_layout f /\
    length (frame_borders f) = length (edges (frame_graph f)) /\
    nv (frame_graph f) = fh f * fw f.
Proof. exact frame_layout_spec. Qed.
Print Assumptions vargroups_frame_layout.
