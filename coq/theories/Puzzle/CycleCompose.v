(* C11 Tier 1 - composition with property C06 for the loop puzzles: a solver that declares a BoolGridFrame of
   an h x w cell board as the answer key, calls graph.active_edges_single_cycle on it (auxiliary-variable
   encoding, model Graph/Cycle.v::active_edges_single_cycle on the frame, see CycleFrameBase.v), obtains the
   array is_passed and then posts further constraints over the frame variables and the is_passed entries.

   Main theorem: cycle_frame_compose.  It uses C06's closed theorems cycle_frame / cycle_frame_exact (and the
   shape lemma post_cycle_enc_shape behind cycle_total) and restates the graph side in the vocabulary of the
   rule specifications: PuzzleBase.lattice (h+1) (w+1) with the edge numbering of the flattened frame,
   single_loop_b and on_line.  The frame graph of _from_grid_frame lists the same segments in another order
   (per lattice point: the vertical segment below it, then the horizontal one to its right); part 1-3 below show
   that this reordering changes neither the degrees nor the single-cycle property. *)
From Coq Require Import ZArith List Bool Arith Lia Permutation.
From Cspuz Require Import Lib.PyErr Core.Expr Core.Program Graph.GraphModel Graph.ReachProofs
     Graph.Cycle Graph.CycleLemmas Graph.CycleCert Graph.CycleProofs Graph.CycleMain Graph.CycleFrame Graph.CycleSpec
     Puzzle.PuzzleBase Puzzle.SatAbs Puzzle.ModelBase Puzzle.ModelLemmas Puzzle.CreekProofs
     Puzzle.CycleFrameBase.
Import ListNotations.
Local Open Scope nat_scope.

Notation b2z := PuzzleBase.b2z.

(* ------------------------------------------------------------------------------------------------------ *)
(* 1. a graph with a chosen edge subset as a list of tagged edges; degrees, reachability and the single-  *)
(*    cycle property only depend on that list up to permutation                                            *)

Definition tagged (A : nat -> bool) (k0 : nat) (es : list (nat * nat)) : list (bool * (nat * nat)) :=
  combine (map A (seq k0 (length es))) es.

Definition tdeg1 (v : nat) (t : bool * (nat * nat)) : nat :=
  if fst t then (if fst (snd t) =? v then 1 else 0) + (if snd (snd t) =? v then 1 else 0) else 0.
Fixpoint tdeg (v : nat) (T : list (bool * (nat * nat))) : nat :=
  match T with [] => 0 | t :: r => tdeg1 v t + tdeg v r end.

Lemma tagged_cons A k0 a es : tagged A k0 (a :: es) = (A k0, a) :: tagged A (S k0) es.
Proof. reflexivity. Qed.

Lemma in_tagged A es : forall k0 t ab,
  In (t, ab) (tagged A k0 es) <-> exists j, nth_error es j = Some ab /\ t = A (k0 + j).
Proof.
  induction es as [|a r IH]; intros k0 t ab.
  - simpl. split; [intros []|]. intros [j [H _]]. destruct j; discriminate.
  - rewrite tagged_cons. simpl. rewrite IH. split.
    + intros [H|[j [H1 H2]]].
      * inversion H; subst. exists 0. split; [reflexivity|]. f_equal. lia.
      * exists (S j). split; [exact H1|]. rewrite H2. f_equal. lia.
    + intros [[|j] [H1 H2]].
      * simpl in H1. inversion H1; subst. left. f_equal. f_equal. lia.
      * right. exists j. split; [exact H1|]. rewrite H2. f_equal. lia.
Qed.

Lemma degree_tagged A v es : forall k0,
  length (filter (fun '(_, k) => A k) (incident_from v k0 es)) = tdeg v (tagged A k0 es).
Proof.
  induction es as [|[a b] r IH]; intros k0; [reflexivity|].
  rewrite tagged_cons. cbn [incident_from tdeg]. rewrite !filter_app, !app_length, IH.
  unfold tdeg1. cbn [fst snd].
  destruct (a =? v), (b =? v), (A k0) eqn:E; simpl; rewrite ?E; simpl; lia.
Qed.

Lemma degree_as_tdeg g A v : degree g A v = tdeg v (tagged A 0 (edges g)).
Proof. unfold degree, incident. apply degree_tagged. Qed.

Lemma tdeg_perm v T1 T2 : Permutation T1 T2 -> tdeg v T1 = tdeg v T2.
Proof. induction 1; simpl; lia. Qed.

Lemma active_edge_tagged g A a b :
  (exists k, A k = true /\ nth_error (edges g) k = Some (a, b)) <-> In (true, (a, b)) (tagged A 0 (edges g)).
Proof.
  rewrite in_tagged. split.
  - intros [k [H1 H2]]. exists k. split; [exact H2|]. simpl. symmetry. exact H1.
  - intros [k [H1 H2]]. exists k. simpl in H2. split; [symmetry; exact H2|exact H1].
Qed.

Section Perm.
  Variables (g1 g2 : graph) (A1 A2 : nat -> bool).
  Hypothesis Hnv : nv g1 = nv g2.
  Hypothesis Hperm : Permutation (tagged A1 0 (edges g1)) (tagged A2 0 (edges g2)).

  Lemma perm_degree v : degree g1 A1 v = degree g2 A2 v.
  Proof. rewrite !degree_as_tdeg. apply tdeg_perm. exact Hperm. Qed.

  Lemma perm_active a b :
    (exists k, A1 k = true /\ nth_error (edges g1) k = Some (a, b)) <->
    (exists k, A2 k = true /\ nth_error (edges g2) k = Some (a, b)).
  Proof.
    rewrite !active_edge_tagged. split; apply Permutation_in; [exact Hperm|apply Permutation_sym; exact Hperm].
  Qed.

  Lemma perm_nbrs v w : In w (nbrs g1 A1 v) <-> In w (nbrs g2 A2 v).
  Proof.
    rewrite !nbrs_spec. split.
    - intros [k [Hk [H|H]]].
      + destruct (proj1 (perm_active v w) (ex_intro _ k (conj Hk H))) as [k' [H1 H2]]. exists k'. tauto.
      + destruct (proj1 (perm_active w v) (ex_intro _ k (conj Hk H))) as [k' [H1 H2]]. exists k'. tauto.
    - intros [k [Hk [H|H]]].
      + destruct (proj2 (perm_active v w) (ex_intro _ k (conj Hk H))) as [k' [H1 H2]]. exists k'. tauto.
      + destruct (proj2 (perm_active w v) (ex_intro _ k (conj Hk H))) as [k' [H1 H2]]. exists k'. tauto.
  Qed.

  Lemma perm_reach vok u v : reach g1 vok A1 u v <-> reach g2 vok A2 u v.
  Proof.
    split; intros H; induction H.
    - apply reach_refl; assumption.
    - eapply reach_step; [eassumption| |assumption]. apply perm_nbrs. assumption.
    - apply reach_refl; assumption.
    - eapply reach_step; [eassumption| |assumption]. apply perm_nbrs. assumption.
  Qed.

  Lemma perm_no_active : no_active g1 A1 <-> no_active g2 A2.
  Proof.
    assert (E : forall g A, no_active g A <-> ~ exists ab, In (true, ab) (tagged A 0 (edges g))).
    { intros g A. split.
      - intros H [ab Hin]. apply in_tagged in Hin. destruct Hin as [j [Hj Ht]]. simpl in Ht.
        rewrite H in Ht; [discriminate|]. apply nth_error_Some. rewrite Hj. discriminate.
      - intros H k Hk. destruct (A k) eqn:E; [|reflexivity]. exfalso. apply H.
        destruct (nth_error (edges g) k) as [ab|] eqn:En; [|apply nth_error_None in En; lia].
        exists ab. apply in_tagged. exists k. split; [exact En|]. simpl. symmetry. exact E. }
    rewrite !E. split; intros H [ab Hin]; apply H; exists ab.
    - apply (Permutation_in _ (Permutation_sym Hperm)). exact Hin.
    - apply (Permutation_in _ Hperm). exact Hin.
  Qed.

  Theorem perm_single_cycle : single_cycle g1 A1 <-> single_cycle g2 A2.
  Proof.
    unfold single_cycle, edge_connected. rewrite perm_no_active, Hnv.
    split; (intros [H|[Hd Hc]]; [left; exact H|right]); split.
    - intros v Hv. rewrite <- perm_degree. apply Hd. exact Hv.
    - intros u v Hu Hv Du Dv. apply perm_reach. apply Hc; try assumption; rewrite perm_degree; assumption.
    - intros v Hv. rewrite perm_degree. apply Hd. exact Hv.
    - intros u v Hu Hv Du Dv. apply perm_reach. apply Hc; try assumption; rewrite <- perm_degree; assumption.
  Qed.
End Perm.

(* ------------------------------------------------------------------------------------------------------ *)
(* 2. the vocabulary of the rule files (single_loop_b, on_line) is C06's (single_cycle_b, visited)        *)

Lemma on_line_visited g A v : on_line g A v = visited g A v.
Proof. unfold on_line, visited. destruct (degree g A v); reflexivity. Qed.

Lemma single_loop_b_cycle_b g A : single_loop_b g A = single_cycle_b g A.
Proof.
  assert (HE : single_loop_b g A =
               forallb (fun v => (degree g A v =? 0) || (degree g A v =? 2)) (seq 0 (nv g)) && edge_connected_b g A).
  { unfold single_loop_b, edge_connected_b. f_equal.
    rewrite (filter_ext _ (visited g A)) by (intros v; apply on_line_visited). reflexivity. }
  rewrite HE. clear HE. unfold single_cycle_b.
  destruct (no_active_b g A) eqn:Hn; [|reflexivity]. simpl.
  assert (Hna : no_active g A).
  { intros k Hk. unfold no_active_b in Hn. rewrite forallb_forall in Hn.
    specialize (Hn k). rewrite in_seq in Hn. apply negb_true_iff. apply Hn. lia. }
  replace (forallb (fun v => (degree g A v =? 0) || (degree g A v =? 2)) (seq 0 (nv g))) with true.
  2:{ symmetry. apply forallb_forall. intros v _. rewrite (no_active_degree g A v Hna). reflexivity. }
  simpl. unfold edge_connected_b.
  replace (filter (visited g A) (seq 0 (nv g))) with (@nil nat); [reflexivity|].
  symmetry. generalize (seq 0 (nv g)). induction l as [|a l IH]; simpl; [reflexivity|].
  unfold visited at 1. rewrite (no_active_degree g A a Hna). simpl. exact IH.
Qed.

Lemma single_loop_b_spec g A : wf_graph g = true -> (single_loop_b g A = true <-> single_cycle g A).
Proof. intros Hwf. rewrite single_loop_b_cycle_b. apply CycleSpec.single_cycle_b_spec. exact Hwf. Qed.

(* ------------------------------------------------------------------------------------------------------ *)
(* 3. the graph of _from_grid_frame on the fresh frame is PuzzleBase.lattice up to the order of the edges  *)

Lemma combine_app_eq {A B} (l1 l2 : list A) (r1 r2 : list B) :
  length l1 = length r1 -> combine (l1 ++ l2) (r1 ++ r2) = combine l1 r1 ++ combine l2 r2.
Proof.
  revert r1. induction l1 as [|a l1 IH]; intros [|b r1] H; simpl in *; try discriminate; [reflexivity|].
  f_equal. apply IH. lia.
Qed.

Lemma combine_seq_map {B} (g : nat -> B) m : forall a,
  combine (seq a m) (map g (seq 0 m)) = map (fun x => (a + x, g x)) (seq 0 m).
Proof.
  induction m as [|m IH]; intros a; [reflexivity|].
  rewrite !seq_S, !map_app, combine_app_eq by (rewrite map_length, !seq_length; reflexivity).
  rewrite IH. reflexivity.
Qed.

Lemma length_rows {B} (f : nat -> nat -> B) m n :
  length (flat_map (fun y => map (f y) (seq 0 m)) (seq 0 n)) = n * m.
Proof.
  induction n as [|n IH]; [reflexivity|].
  rewrite seq_S, flat_map_app, app_length, IH. simpl. rewrite app_nil_r, map_length, seq_length. lia.
Qed.

Lemma combine_seq_rows {B} (f : nat -> nat -> B) m n s :
  combine (seq s (n * m)) (flat_map (fun y => map (f y) (seq 0 m)) (seq 0 n)) =
  flat_map (fun y => map (fun x => (s + y * m + x, f y x)) (seq 0 m)) (seq 0 n).
Proof.
  induction n as [|n IH]; [reflexivity|].
  rewrite seq_S, !flat_map_app. replace (S n * m) with (n * m + m) by lia.
  rewrite seq_app, combine_app_eq by (rewrite seq_length, length_rows; reflexivity).
  rewrite IH. f_equal. simpl. rewrite !app_nil_r. apply combine_seq_map.
Qed.

Lemma flat_map_ext_In {A B} (f g : A -> list B) l :
  (forall a, In a l -> f a = g a) -> flat_map f l = flat_map g l.
Proof.
  induction l as [|a l IH]; intros H; simpl; [reflexivity|].
  rewrite (H a (or_introl eq_refl)), IH by (intros; apply H; right; assumption). reflexivity.
Qed.
Lemma flat_map_flat_map {A B C} (f : B -> list C) (g : A -> list B) l :
  flat_map f (flat_map g l) = flat_map (fun a => flat_map f (g a)) l.
Proof. induction l; simpl; [reflexivity|]. rewrite flat_map_app, IHl. reflexivity. Qed.
Lemma flat_map_of_map {A B C} (f : B -> list C) (g : A -> B) l :
  flat_map f (map g l) = flat_map (fun a => f (g a)) l.
Proof. induction l; simpl; [reflexivity|]. rewrite IHl. reflexivity. Qed.
Lemma flat_map_single {A B} (f : A -> B) l : flat_map (fun a => [f a]) l = map f l.
Proof. induction l; simpl; [reflexivity|]. rewrite IHl. reflexivity. Qed.
Lemma flat_map_nil {A B} (l : list A) : flat_map (fun _ => @nil B) l = [].
Proof. induction l; simpl; auto. Qed.
Lemma map_of_flat_map {A B C} (g : B -> C) (f : A -> list B) l :
  map g (flat_map f l) = flat_map (fun a => map g (f a)) l.
Proof. induction l; simpl; [reflexivity|]. rewrite map_app, IHl. reflexivity. Qed.
Lemma list_prod_flat_map {A B} (l1 : list A) (l2 : list B) :
  list_prod l1 l2 = flat_map (fun a => map (pair a) l2) l1.
Proof. induction l1; simpl; [reflexivity|]. rewrite IHl1. reflexivity. Qed.
Lemma perm_flat_map_app {A B} (f g : A -> list B) l :
  Permutation (flat_map (fun a => f a ++ g a) l) (flat_map f l ++ flat_map g l).
Proof.
  induction l as [|a l IH]; simpl; [constructor|].
  rewrite <- !app_assoc. apply Permutation_app_head.
  eapply Permutation_trans; [apply Permutation_app_head; exact IH|].
  rewrite !app_assoc. apply Permutation_app_tail. apply Permutation_app_comm.
Qed.

Lemma tagged_as_map A es k0 :
  tagged A k0 es = map (fun q => (A (fst q), snd q)) (combine (seq k0 (length es)) es).
Proof.
  unfold tagged. revert k0. induction es as [|a r IH]; intros k0; [reflexivity|].
  simpl. f_equal. apply IH.
Qed.

Lemma tagged_shift A k0 es : tagged A (S k0) es = tagged (fun k => A (S k)) k0 es.
Proof. unfold tagged. rewrite <- seq_shift, map_map. reflexivity. Qed.

Lemma tagged_pattern gsem en (L : list (expr * (nat * nat))) :
  tagged (pattern gsem en (map fst L)) 0 (map snd L) = map (fun p => (holds gsem en (fst p), snd p)) L.
Proof.
  induction L as [|a L IH]; [reflexivity|].
  cbn [map]. rewrite tagged_cons, tagged_shift. f_equal. exact IH.
Qed.

Section FrameLattice.
  Variables h w : nat.
  Let hor := frame_hor h w.
  Let ver := frame_ver h w.

  Lemma frame_hor_length : length hor = S h * w.
  Proof. unfold hor, frame_hor. rewrite map_length, seq_length. reflexivity. Qed.
  Lemma frame_ver_length : length ver = h * S w.
  Proof. unfold ver, frame_ver. rewrite map_length, seq_length. reflexivity. Qed.

  Lemma frame_hseg_var y x : y <= h -> x < w -> CycleFrame.hseg w hor y x = BVar (frame_hid h w y x).
  Proof.
    intros Hy Hx. unfold CycleFrame.hseg, hor, frame_hor, frame_hid.
    assert (Hlt : y * w + x < S h * w) by nia.
    rewrite (nth_indep _ PyNone (BVar 0)) by (rewrite map_length, seq_length; exact Hlt).
    rewrite map_nth, seq_nth by exact Hlt. reflexivity.
  Qed.
  Lemma frame_vseg_var y x : y < h -> x <= w -> CycleFrame.vseg w ver y x = BVar (frame_vid h w y x).
  Proof.
    intros Hy Hx. unfold CycleFrame.vseg, ver, frame_ver, frame_vid.
    assert (Hlt : y * S w + x < h * S w) by nia.
    rewrite (nth_indep _ PyNone (BVar 0)) by (rewrite map_length, seq_length; exact Hlt).
    rewrite map_nth, seq_nth by exact Hlt. f_equal. lia.
  Qed.

  (* one iteration of the double loop of _from_grid_frame, with variable ids instead of variables *)
  Definition vcell (yx : nat * nat) : list (nat * (nat * nat)) :=
    if negb (fst yx =? h)
    then [(frame_vid h w (fst yx) (snd yx), (fst yx * S w + snd yx, S (fst yx) * S w + snd yx))] else [].
  Definition hcell (yx : nat * nat) : list (nat * (nat * nat)) :=
    if negb (snd yx =? w)
    then [(frame_hid h w (fst yx) (snd yx), (fst yx * S w + snd yx, fst yx * S w + S (snd yx)))] else [].
  Definition points : list (nat * nat) := list_prod (seq 0 (S h)) (seq 0 (S w)).
  Definition frame_ids : list (nat * (nat * nat)) := flat_map (fun yx => vcell yx ++ hcell yx) points.

  Lemma frame_all_ids :
    frame_all h w hor ver = map (fun q => (BVar (fst q), snd q)) frame_ids.
  Proof.
    unfold frame_all, frame_ids. fold points. rewrite <- flat_map_concat_map, map_of_flat_map.
    apply flat_map_ext_In. intros [y x] Hin. unfold points in Hin.
    apply in_prod_iff in Hin. rewrite !in_seq in Hin. destruct Hin as [Hy Hx].
    unfold cell, vcell, hcell. cbn [fst snd]. rewrite map_app. f_equal.
    - destruct (Nat.eqb_spec y h) as [E|E]; simpl; [reflexivity|].
      rewrite frame_vseg_var by lia. reflexivity.
    - destruct (Nat.eqb_spec x w) as [E|E]; simpl; [reflexivity|].
      rewrite frame_hseg_var by lia. reflexivity.
  Qed.

  Definition hrows : list (nat * (nat * nat)) :=
    flat_map (fun y => map (fun x => (frame_hid h w y x, (y * S w + x, y * S w + S x))) (seq 0 w)) (seq 0 (S h)).
  Definition vrows : list (nat * (nat * nat)) :=
    flat_map (fun y => map (fun x => (frame_vid h w y x, (y * S w + x, S y * S w + x))) (seq 0 (S w))) (seq 0 h).

  Lemma vcells_rows : flat_map vcell points = vrows.
  Proof.
    unfold points, vrows. rewrite list_prod_flat_map, flat_map_flat_map, (seq_S h 0), flat_map_app.
    cbn [flat_map]. rewrite flat_map_of_map.
    rewrite (flat_map_ext_In (fun a => vcell (0 + h, a)) (fun _ => [])).
    2:{ intros x _. unfold vcell. cbn [fst]. rewrite Nat.eqb_refl. reflexivity. }
    rewrite flat_map_nil, !app_nil_r.
    apply flat_map_ext_In. intros y Hy. apply in_seq in Hy.
    rewrite flat_map_of_map, <- flat_map_single. apply flat_map_ext_In. intros x _.
    unfold vcell. cbn [fst snd]. destruct (Nat.eqb_spec y h); [lia|]. reflexivity.
  Qed.

  Lemma hcells_rows : flat_map hcell points = hrows.
  Proof.
    unfold points, hrows. rewrite list_prod_flat_map, flat_map_flat_map.
    apply flat_map_ext_In. intros y _.
    rewrite flat_map_of_map, (seq_S w 0), flat_map_app. cbn [flat_map].
    unfold hcell at 2. cbn [fst snd]. rewrite Nat.eqb_refl. cbn [negb]. rewrite !app_nil_r.
    rewrite <- flat_map_single. apply flat_map_ext_In. intros x Hx. apply in_seq in Hx.
    unfold hcell. cbn [fst snd]. destruct (Nat.eqb_spec x w); [lia|]. reflexivity.
  Qed.

  Lemma lattice_ids :
    combine (seq 0 (length (lattice_edges (S h) (S w)))) (lattice_edges (S h) (S w)) = hrows ++ vrows.
  Proof.
    unfold lattice_edges. replace (S w - 1) with w by lia. replace (S h - 1) with h by lia.
    rewrite app_length, !length_rows, seq_app, combine_app_eq by (rewrite seq_length, length_rows; reflexivity).
    rewrite !combine_seq_rows. reflexivity.
  Qed.

  Lemma lattice_edges_length : length (lattice_edges (S h) (S w)) = frame_n h w.
  Proof.
    unfold lattice_edges. replace (S w - 1) with w by lia. replace (S h - 1) with h by lia.
    rewrite app_length, !length_rows. reflexivity.
  Qed.

  Lemma frame_lattice_perm gsem en :
    Permutation (tagged (pattern gsem en (frame_edges h w hor ver)) 0 (edges (frame_graph h w hor ver)))
                (tagged (eb en) 0 (edges (lattice (S h) (S w)))).
  Proof.
    unfold frame_edges, frame_graph. cbn [edges lattice]. rewrite tagged_pattern, frame_all_ids, map_map.
    cbn [fst snd]. rewrite tagged_as_map, lattice_ids.
    rewrite (map_ext (fun x : nat * (nat * nat) => (holds gsem en (BVar (fst x)), snd x))
                     (fun q => (eb en (fst q), snd q))).
    2:{ intros [k ab]. cbn [fst snd]. unfold holds. simpl. destruct (eb en k); reflexivity. }
    apply Permutation_map. unfold frame_ids.
    eapply Permutation_trans; [apply perm_flat_map_app|].
    rewrite vcells_rows, hcells_rows. apply Permutation_app_comm.
  Qed.

  Lemma lattice_wf : wf_graph (lattice (S h) (S w)) = true.
  Proof.
    unfold wf_graph. apply forallb_forall. intros [a b] Hin. cbn [edges lattice nv] in *.
    unfold lattice_edges in Hin. replace (S w - 1) with w in Hin by lia. replace (S h - 1) with h in Hin by lia.
    apply andb_true_iff. rewrite !Nat.ltb_lt.
    apply in_app_iff in Hin. destruct Hin as [Hin|Hin]; apply in_flat_map in Hin; destruct Hin as [y [Hy Hin]];
      apply in_map_iff in Hin; destruct Hin as [x [E Hx]]; inversion E; subst; apply in_seq in Hy; apply in_seq in Hx; nia.
  Qed.

  (* the two graphs agree on everything the rule files look at *)
  Theorem frame_lattice gsem en :
    (single_cycle (frame_graph h w hor ver) (pattern gsem en (frame_edges h w hor ver)) <->
     single_loop_b (lattice (S h) (S w)) (eb en) = true) /\
    (forall v, visited (frame_graph h w hor ver) (pattern gsem en (frame_edges h w hor ver)) v =
               on_line (lattice (S h) (S w)) (eb en) v).
  Proof.
    split.
    - rewrite (single_loop_b_spec _ _ lattice_wf).
      apply perm_single_cycle; [reflexivity|apply frame_lattice_perm].
    - intros v. rewrite on_line_visited. unfold visited.
      rewrite (perm_degree _ _ _ _ (frame_lattice_perm gsem en)). reflexivity.
  Qed.
End FrameLattice.

(* ------------------------------------------------------------------------------------------------------ *)
(* 4. the composition theorem                                                                              *)

Lemma tagged_ext A B es k0 :
  (forall k, k0 <= k < k0 + length es -> A k = B k) -> tagged A k0 es = tagged B k0 es.
Proof.
  intros H. unfold tagged. f_equal. apply map_ext_in. intros k Hk. apply in_seq in Hk. apply H. exact Hk.
Qed.

Lemma single_loop_b_ext g A B :
  wf_graph g = true -> (forall k, k < length (edges g) -> A k = B k) ->
  (single_loop_b g A = true <-> single_loop_b g B = true).
Proof.
  intros Hwf H. rewrite !(single_loop_b_spec g _ Hwf).
  apply perm_single_cycle; [reflexivity|].
  rewrite (tagged_ext A B) by (intros k Hk; apply H; lia). apply Permutation_refl.
Qed.

Lemma on_line_ext g A B v :
  (forall k, k < length (edges g) -> A k = B k) -> on_line g A v = on_line g B v.
Proof.
  intros H. unfold on_line. rewrite !degree_as_tdeg.
  rewrite (tagged_ext A B) by (intros k Hk; apply H; lia). reflexivity.
Qed.

(* the call on the fresh frame succeeds for every h, w >= 0; it returns the next (h+1)(w+1) variables *)
Lemma frame_cycle_ok h w :
  exists st1 rest, frame_cycle h w = Ok (st1, P2 (S h) (S w) (frame_passed h w)) /\
                   vars st1 = repeat DBool (frame_n h w) ++ rest.
Proof.
  unfold frame_cycle.
  destruct (CycleFrame.cycle_frame h w _ _ (frame_hor_length h w) (frame_ver_length h w))
    as [_ [_ [Hwf [Hlen [_ [Hc _]]]]]].
  rewrite Hc.
  assert (Hcl : forall e, In e (frame_edges h w (frame_hor h w) (frame_ver h w)) -> is_constraint_like e = true).
  { intros e He. apply (frame_edges_in h w _ _ (frame_hor_length h w) (frame_ver_length h w)) in He.
    destruct He as [He|He]; apply in_map_iff in He; destruct He as [k [<- _]]; reflexivity. }
  assert (Hb : next_id (frame_state h w) = frame_n h w) by (unfold next_id; simpl; apply repeat_length).
  destruct (post_cycle_enc_shape _ (frame_graph h w (frame_hor h w) (frame_ver h w)) (frame_n h w) Hwf
              ltac:(rewrite Hlen; apply le_n) Hcl (frame_state h w) Hb ltac:(simpl; lia)) as [st' [Hp [Hv _]]].
  rewrite Hp. exists st'. eexists. split; [reflexivity|]. rewrite Hv. reflexivity.
Qed.

Theorem cycle_frame_compose gsem h w (extra : list expr) (local : answer -> bool) st1 res ans :
  frame_cycle h w = Ok (st1, res) ->
  (forall en,
     (forall y x, y <= h -> x <= w ->
        eb en (frame_pid h w y x) = on_line (lattice (S h) (S w)) (eb en) (y * S w + x)) ->
     local (map (fun i => b2z (eb en i)) (seq 0 (frame_n h w))) = forallb (holds gsem en) extra) ->
  res = P2 (S h) (S w) (frame_passed h w) /\
  ((exists en, model_of gsem en (ensure st1 extra) /\
               reads (ensure st1 extra) en (seq 0 (frame_n h w)) = ans)
   <-> Nat.eqb (length ans) (frame_n h w) && forallb is01 ans &&
       single_loop_b (lattice (S h) (S w)) (fun k => isb (getz ans k)) && local ans = true).
Proof.
  set (N := frame_n h w). set (st0 := frame_state h w).
  set (hor := frame_hor h w). set (ver := frame_ver h w).
  set (G := frame_graph h w hor ver). set (fe := frame_edges h w hor ver).
  set (L := lattice (S h) (S w)).
  intros Hcall Hloc.
  destruct (frame_cycle_ok h w) as [st1' [rest [Hcall' Hv]]].
  rewrite Hcall in Hcall'. inversion Hcall'; subst st1' res. clear Hcall'.
  split; [reflexivity|].
  assert (Hn0 : next_id st0 = N) by (unfold next_id; simpl; apply repeat_length).
  assert (Hf : forall en, flags_ok gsem st0 en (hor ++ ver)).
  { intros en e He. apply in_app_iff in He.
    destruct He as [He|He]; apply in_map_iff in He; destruct He as [k [<- Hk]]; apply in_seq in Hk;
      (split; [reflexivity|]; split; [rewrite Hn0; unfold N, frame_n; simpl; lia|]; eexists; reflexivity). }
  assert (Hib : forall en, in_bounds en st0 = true) by (intros en; apply in_bounds_bool_grid).
  assert (HLlen : length (edges L) = N) by apply lattice_edges_length.
  assert (Hsplit : forall en, model_of gsem en (ensure st1 extra) <->
                              (model_of gsem en st1 /\ forallb (holds gsem en) extra = true)).
  { intros en. unfold model_of, in_bounds, satisfies, ensure. simpl. rewrite forallb_app, andb_true_iff. tauto. }
  assert (Hreads : forall en, reads (ensure st1 extra) en (seq 0 N) = map (fun i => b2z (eb en i)) (seq 0 N)).
  { intros en. eapply reads_bool_prefix. simpl. exact Hv. }
  assert (Hext : forall en en', extends_sat gsem st0 st1 en en' -> model_of gsem en' st1).
  { intros en en' [_ [H1 H2]]. split; [exact H1|exact H2]. }
  assert (Hself : forall en, model_of gsem en st1 -> extends_sat gsem st0 st1 en en).
  { intros en [H1 H2]. split; [intros i _; split; reflexivity|]. split; [exact H1|exact H2]. }
  (* what C06 says about the call, for every assignment of the frame variables *)
  assert (C6 : forall en,
     ((exists en', extends_sat gsem st0 st1 en en') <-> single_loop_b L (eb en) = true) /\
     (forall en', extends_sat gsem st0 st1 en en' ->
        forall y x, y <= h -> x <= w -> eb en' (frame_pid h w y x) = on_line L (eb en) (y * S w + x))).
  { intros en.
    destruct (CycleFrame.cycle_frame_exact h w hor ver (frame_hor_length h w) (frame_ver_length h w)
                gsem st0 en st1 _ (Hf en) (Hib en) Hcall) as [p [Hp [_ [EX PASS]]]].
    inversion Hp; subst p. clear Hp.
    destruct (frame_lattice h w gsem en) as [FL1 FL2]. fold hor ver L in FL1, FL2.
    split.
    - rewrite <- FL1. exact EX.
    - intros en' He y x Hy Hx. destruct (PASS en' He y x Hy Hx) as [q [Hq1 Hq2]].
      unfold frame_passed in Hq1. rewrite nth_error_map_seq in Hq1 by nia.
      inversion Hq1; subst q. rewrite <- FL2. rewrite <- Hq2.
      unfold holds. simpl. unfold frame_pid. fold N.
      replace (N + y * S w + x) with (N + (y * S w + x)) by lia.
      destruct (eb en' (N + (y * S w + x))); reflexivity. }
  assert (Hread_on : forall en k, k < N ->
            isb (getz (map (fun i => b2z (eb en i)) (seq 0 N)) k) = eb en k).
  { intros en k Hk. rewrite getz_map_seq by exact Hk. apply b2z_isb. }
  split.
  - intros [en [Hm Hr]]. rewrite Hreads in Hr. subst ans.
    apply Hsplit in Hm. destruct Hm as [Hm1 Hcl].
    replace (Nat.eqb (length (map (fun i => b2z (eb en i)) (seq 0 N))) N) with true
      by (rewrite map_length, seq_length; symmetry; apply Nat.eqb_refl).
    replace (forallb is01 (map (fun i => b2z (eb en i)) (seq 0 N))) with true
      by (rewrite forallb_map; symmetry; apply forallb_forall; intros; apply is01_b2z).
    simpl andb. apply andb_true_iff. destruct (C6 en) as [EX PASS]. split.
    + apply (single_loop_b_ext L (eb en) _ (lattice_wf h w)).
      * intros k Hk. rewrite HLlen in Hk. symmetry. apply Hread_on. exact Hk.
      * apply EX. exists en. apply Hself. exact Hm1.
    + rewrite Hloc; [exact Hcl|]. apply PASS. apply Hself. exact Hm1.
  - intros Hr.
    apply andb_true_iff in Hr. destruct Hr as [Hr Hcl].
    apply andb_true_iff in Hr. destruct Hr as [Hr Hloop].
    apply andb_true_iff in Hr. destruct Hr as [Hlen H01]. apply Nat.eqb_eq in Hlen.
    set (en0 := env_of_answer ans).
    pose proof (answer_as_reading ans N Hlen H01) as Ha. fold en0 in Ha.
    destruct (C6 en0) as [EX PASS].
    destruct (proj2 EX Hloop) as [en' He].
    pose proof He as [Hag _]. rewrite Hn0 in Hag.
    assert (Hsame : map (fun i => b2z (eb en' i)) (seq 0 N) = ans).
    { rewrite <- Ha. apply map_ext_in. intros i Hi. apply in_seq in Hi.
      destruct (Hag i ltac:(lia)) as [E _]. rewrite E. reflexivity. }
    exists en'. split; [|rewrite Hreads; exact Hsame].
    apply Hsplit. split; [exact (Hext _ _ He)|].
    rewrite <- Hloc; [rewrite Hsame; exact Hcl|].
    intros y x Hy Hx. rewrite (PASS en' He y x Hy Hx).
    apply on_line_ext. intros k Hk. fold L in Hk. rewrite HLlen in Hk. apply (Hag k Hk).
Qed.
