(* Vocabulary of the C03 statements: which trees are well typed for the text
   backends, how a cspuz assignment is seen from the Sugar side (by name), what
   the solver is expected to have declared.  Definitions only. *)
From Coq Require Import ZArith List Bool String Ascii.
From Cspuz Require Import Lib.PyErr Core.Expr Core.Program Backend.SugarText Backend.Sugar Backend.SugarReply.
Import ListNotations.
Open Scope string_scope.

Definition is_none (e : expr) : bool := match e with PyNone => true | _ => false end.

(* the trees cspuz's constructors build (Core.Expr.wt), plus the two native graph
   operators (operands: any well-typed tree, literal, or None), with Op.SUB
   restricted to two or more operands as in expr.py / array.py *)
Fixpoint wts (want_bool : bool) (e : expr) : bool :=
  match e with
  | PyBool _ => want_bool
  | PyInt _ => negb want_bool
  | PyNone => false
  | BVar _ => want_bool
  | IVar _ _ _ => negb want_bool
  | BNode o args =>
      want_bool &&
      match o with
      | BOOL_CONSTANT => match args with [PyBool _] => true | _ => false end
      | EQ | NE | LE | LT | GE | GT => Nat.eqb (List.length args) 2 && forallb (wts false) args
      | NOT => Nat.eqb (List.length args) 1 && forallb (wts true) args
      | AND | OR => forallb (wts true) args
      | IFF | XOR | IMP => Nat.eqb (List.length args) 2 && forallb (wts true) args
      | ALLDIFF => forallb (wts false) args
      | G_AVC | G_DIV => forallb (fun a => wts true a || wts false a || is_none a) args
      | _ => false
      end
  | INode o args =>
      negb want_bool &&
      match o with
      | INT_CONSTANT => match args with [PyInt _] => true | _ => false end
      | NEG => Nat.eqb (List.length args) 1 && forallb (wts false) args
      | ADD => Nat.leb 1 (List.length args) && forallb (wts false) args
      | SUB => Nat.leb 2 (List.length args) && forallb (wts false) args
      | IF => match args with [c; t; f] => wts true c && wts false t && wts false f | _ => false end
      | _ => false
      end
  end.
Definition okarg (e : expr) : bool := wts true e || wts false e || is_none e.

(* operand counts for which Sugar's reading of a printed operator name is the
   cspuz operator: "-" is negation with one operand, subtraction with more *)
Definition arity_ok (o : op) (n : nat) : bool :=
  match o with
  | NEG => Nat.eqb n 1
  | SUB => Nat.leb 2 n
  | ADD => Nat.leb 1 n
  | _ => true
  end.
Definition eval_node (gsem : op -> list (option value) -> option bool) (o : op) (vs : list (option value)) :=
  if is_int_op o then eval_iop o vs else eval_bop gsem o vs.

(* a cspuz assignment seen by name: "b<id>" / "i<id>" *)
Definition name_env (en : env) (s : string) : option value :=
  match s with
  | String c d =>
      match int_atom d with
      | Some z =>
          if (z <? 0)%Z then None
          else if Ascii.eqb c "b" then Some (VB (eb en (Z.to_nat z)))
          else if Ascii.eqb c "i" then Some (VI (ei en (Z.to_nat z)))
          else None
      | None => None
      end
  | "" => None
  end.

(* what the Sugar side should see declared for a cspuz variable *)
Definition sdecl_of (v : bvar) : sdecl :=
  match v with
  | VBool _ => SDBool (var_name v)
  | VInt _ lo hi => SDInt (var_name v) lo hi
  end.
Definition is_int_var (v : bvar) : bool := match v with VInt _ _ _ => true | _ => false end.
Definition int_names (vs : list bvar) : list string := map var_name (filter is_int_var vs).
Definition bool_names (vs : list bvar) : list string := map var_name (filter (fun v => negb (is_int_var v)) vs).

(* names of the registered keys, in declaration order *)
Fixpoint names_of_keys (vs : list bvar) (ks : list bool) : list string :=
  match vs, ks with
  | v :: r, k :: kr => if k then var_name v :: names_of_keys r kr else names_of_keys r kr
  | _, _ => []
  end.

(* a Sugar assignment gives every declared variable a value of its type *)
Definition typed_on (vs : list bvar) (rho : string -> option value) : Prop :=
  forall v, In v vs ->
    match v with
    | VBool _ => exists b, rho (var_name v) = Some (VB b)
    | VInt _ _ _ => exists z, rho (var_name v) = Some (VI z)
    end.

(* ---- the Sugar-side notion of a model of the problem read from the text ---- *)
Definition in_domain (rho : string -> option value) (d : option sdecl) : bool :=
  match d with
  | Some (SDBool n) => match rho n with Some (VB _) => true | _ => false end
  | Some (SDInt n lo hi) => match rho n with Some (VI z) => (lo <=? z)%Z && (z <=? hi)%Z | _ => false end
  | None => false
  end.
Definition is_true (o : option value) : bool := match o with Some (VB true) => true | _ => false end.
Definition sugar_model (gsem : op -> list (option value) -> option bool) (jp : jproblem)
           (rho : string -> option value) : bool :=
  forallb (in_domain rho) (sugar_decls (j_problem jp)) &&
  forallb (fun x => is_true (sugar_sem gsem rho x)) (sugar_constraints (j_problem jp)).

(* correctness of the external solver on one description, as an hypothesis on
   what _call_solver returns for it: answer-finder mode *)
Definition answer_oracle_at (gsem : op -> list (option value) -> option bool) (solver : string -> string)
           (text : string) : Prop :=
  forall jp, java_load text = Some jp -> j_keys jp = None ->
    (exists en, sugar_model gsem jp (name_env en) = true /\
                java_reply jp (Some (name_env en, fun _ => true)) = Some (solver text)) \/
    ((forall en, sugar_model gsem jp (name_env en) = false) /\ java_reply jp None = Some (solver text)).
(* deduction mode: a key stays "not refuted" exactly when every model agrees with the first one on it *)
Definition deduction_oracle_at (gsem : op -> list (option value) -> option bool) (solver : string -> string)
           (text : string) : Prop :=
  forall jp keys, java_load text = Some jp -> j_keys jp = Some keys ->
    (exists en nr, sugar_model gsem jp (name_env en) = true /\
        (forall n, In n keys ->
                   (nr n = true <->
                    forall en', sugar_model gsem jp (name_env en') = true -> name_env en' n = name_env en n)) /\
        java_reply jp (Some (name_env en, nr)) = Some (solver text)) \/
    ((forall en, sugar_model gsem jp (name_env en) = false) /\ java_reply jp None = Some (solver text)).
