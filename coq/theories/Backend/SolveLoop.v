(* Model of cspuz/solver.py::Solver.solve on the route cspuz drives itself (the
   backend has no solve_irrefutably): first solve, candidate facts from the
   first model, then the refute-and-resolve loop.  The backend is abstract
   (state type B, add_constraint, solve); Backend/Z3.v and a scripted backend
   instantiate it.  Definitions only. *)
From Coq Require Import ZArith List Bool.
From Cspuz Require Import Lib.PyErr Core.Expr Core.Program Backend.Z3.
Import ListNotations.
Open Scope Z_scope.
Open Scope res_scope.

Inductive solve_result :=
  | Unsat                                   (* solve() returned False *)
  | Sat (sol : list (option value))         (* returned True; the sol field of every variable *)
  | OutOfFuel.                              (* the model's loop bound was hit (never, see solve_no_fuel) *)

(* [self.variables[i] != a]: BoolVar.__ne__ builds XOR, IntVar.__ne__ builds NE;
   when the value has the other type _make_bool_expr answers NotImplemented, so
   does the reflected int.__ne__, and Python falls back to identity: True *)
Definition ne_expr (i : nat) (d : vdecl) (a : value) : expr :=
  match d, a with
  | DBool, VB b => BNode XOR [BVar i; PyBool b]
  | DInt lo hi, VI z => BNode NE [IVar i lo hi; PyInt z]
  | _, _ => PyBool true
  end.

(* Python's [answer[i] != sol] on bool / int values (bool is an int) *)
Definition py_value_neq (a b : value) : bool :=
  let n v := match v with VB x => b2z x | VI z => z end in
  negb (n a =? n b).

(* difference_cond: one disjunct per answer key whose candidate is still there *)
Fixpoint diff_from (i : nat) (vs : list vdecl) (ks : list bool) (ans : list (option value)) : list expr :=
  match vs, ks, ans with
  | d :: vr, k :: kr, a :: ar =>
      match k, a with
      | true, Some v => ne_expr i d v :: diff_from (S i) vr kr ar
      | _, _ => diff_from (S i) vr kr ar
      end
  | _, _, _ => []
  end.
Definition refuting_clause (vs : list vdecl) (ks : list bool) (ans : list (option value)) : expr :=
  BNode OR (diff_from O vs ks ans).

(* candidates after the first model *)
Fixpoint init_answer (ks : list bool) (s : list value) : list (option value) :=
  match ks, s with
  | k :: kr, v :: sr => (if k then Some v else None) :: init_answer kr sr
  | k :: kr, [] => None :: init_answer kr []
  | [], _ => []
  end.

(* a candidate is dropped when the new model gives the variable another value *)
Fixpoint demote (ks : list bool) (ans : list (option value)) (s : list value) : list (option value) :=
  match ks, ans, s with
  | k :: kr, a :: ar, v :: sr =>
      (match k, a with
       | true, Some w => if py_value_neq w v then None else Some w
       | _, _ => a
       end) :: demote kr ar sr
  | _, _, _ => ans
  end.

(* final write-back: answer keys get their candidate (None when dropped), the
   other variables keep what the last successful backend solve left *)
Fixpoint final_sol (ks : list bool) (ans : list (option value)) (s : list value) : list (option value) :=
  match ks, ans, s with
  | k :: kr, a :: ar, v :: sr => (if k then a else Some v) :: final_sol kr ar sr
  | _, _, _ => []
  end.

Section Loop.
  Variable B : Type.
  Variable b_add : B -> expr -> res B.                    (* csp_solver.add_constraint(expr) *)
  Variable b_solve : B -> res (option (list value)).      (* csp_solver.solve(): None = False, Some s = True with s written to sol *)

  Variable vs : list vdecl.
  Variable ks : list bool.

  (* the [while True:] loop; [s] = the sol fields as the last successful solve
     left them; the final backend state is returned as well (the scripted
     backend keeps its log there) *)
  Fixpoint refine (fuel : nat) (b : B) (ans : list (option value)) (s : list value) : res (solve_result * B) :=
    match fuel with
    | O => Ok (OutOfFuel, b)
    | S f =>
        let* b' := b_add b (refuting_clause vs ks ans) in
        let* r := b_solve b' in
        match r with
        | None => Ok (Sat (final_sol ks ans s), b')
        | Some s' => refine f b' (demote ks ans s') s'
        end
    end.

  (* Solver.solve after the backend object has been built and loaded *)
  Definition solve_with (fuel : nat) (b : B) : res (solve_result * B) :=
    let* r := b_solve b in
    match r with
    | None => Ok (Unsat, b)
    | Some s => refine fuel b (init_answer ks s) s
    end.
End Loop.

Definition n_keys (ks : list bool) : nat := length (filter (fun k => k) ks).

(* ---- the z3 route --------------------------------------------------------- *)
Section Z3Route.
  Variable oracle : list zterm -> option zmodel.

  Definition solve_fuel (fuel : nat) (st : state) : res solve_result :=
    let* b := z3_add_list (vars st) [] (cons st) in
    let* r := solve_with backend (z3_add (vars st)) (z3_solve oracle (vars st)) (vars st) (keys st) fuel b in
    Ok (fst r).

  (* Solver.solve(backend="z3") *)
  Definition solve (st : state) : res solve_result := solve_fuel (S (n_keys (keys st))) st.
End Z3Route.

(* ---- a scripted backend (for the tie with the real Solver.solve) ---------- *)
(* it logs every constraint it is given and answers solve() from a script: the
   head of the script is the next answer, every add_constraint call of the loop
   moves on to the next entry; an exhausted script answers False *)
Record scripted := { sc_log : list expr; sc_script : list (option (list value)) }.

Definition sc_add (b : scripted) (e : expr) : res scripted :=
  Ok {| sc_log := sc_log b ++ [e]; sc_script := tl (sc_script b) |}.
Definition sc_solve (b : scripted) : res (option (list value)) :=
  match sc_script b with
  | [] => Ok None
  | r :: _ => Ok r
  end.

Definition solve_scripted (vs : list vdecl) (ks : list bool) (fuel : nat)
    (script : list (option (list value))) : res (solve_result * scripted) :=
  solve_with scripted sc_add sc_solve vs ks fuel {| sc_log := []; sc_script := script |}.

(* ---- the native route, abstractly ---------------------------------------- *)
(* A reply of a backend with its own deduction mode, after parsing (C03): None
   = unsat, Some f = for every variable the reported value or nothing.
   SugarLikeBackend.solve_irrefutably writes exactly that into the sol fields. *)
Definition native_reply := option (list (option value)).
Definition sol_of_native (r : native_reply) : solve_result :=
  match r with None => Unsat | Some f => Sat f end.

(* the answer-key part of a result *)
Fixpoint on_keys (ks : list bool) (s : list (option value)) : list (option value) :=
  match ks, s with
  | k :: kr, v :: sr => (if k then v else None) :: on_keys kr sr
  | _, _ => []
  end.
Definition result_on_keys (ks : list bool) (r : solve_result) : solve_result :=
  match r with Sat s => Sat (on_keys ks s) | x => x end.
