(* C11 Tier 1 - model of cspuz/puzzle/castle_wall.py::solve_castle_wall(height, width, arrow, inside), all board
   shapes with height, width >= 1 (single-row and single-column boards included):
       grid_frame = BoolGridFrame(solver, height - 1, width - 1); solver.add_answer_key(grid_frame)
       passed = graph.active_edges_single_cycle(solver, grid_frame)        # shape (height, width): the cells
       for every cell (y, x) with arrow[y][x] != "..":
           ensure(~passed[y, x])
           '^n': ensure(count_true(grid_frame.vertical[:y, x]) == n)       'vn': ... vertical[y:, x]
           '<n': ensure(count_true(grid_frame.horizontal[y, :x]) == n)     '>n': ... horizontal[y, x:]
       is_inside = solver.bool_array((height - 1, width - 1))              # one flag per unit square between 4 cells
       is_inside[0, x] == horizontal[0, x];   is_inside[y, x] == (is_inside[y - 1, x] != horizontal[y, x])  (y >= 1)
       for every cell (y, x): on a single-row / single-column board ensure(False) when inside[y][x] is True;
           otherwise inside[y][x] is True -> ensure(is_inside[max(0, y-1), max(0, x-1)]), is False -> ensure(~ ...)
   Variable ids: the frame of (height-1) x (width-1) squares, CycleFrameBase (horizontal[y, x] = frame_hid,
   vertical[y, x] = frame_vid, passed[y, x] = frame_pid), then the rank / root variables of the single-cycle
   helper, then is_inside row-major from the id the Solver has reached at that point (next_id).
   The call into cspuz.graph is the model of property C06 (Graph/Cycle.v::active_edges_single_cycle on the frame,
   auxiliary-variable route, see CycleFrameBase.v).
   The problem uses the encoding of Rules_castle_wall.v ([[h; w]; kind; num; side], row-major): kind 0 = "..",
   1..4 = ^ v < > with the number in num, any other kind = a clue cell without arrow (the Python treats every
   string that starts with none of ^ v < > that way); side 1 = True, 2 = False, anything else = None.
   Every integer is a legal clue number (negative or too large numbers make the program unsatisfiable).
   Malformed inputs: height <= 0 or width <= 0 is rejected with ValueError (the Python raises ValueError from
   Array2D.__init__ / int_array unless BOTH are negative; boards with both dimensions negative are outside the
   scope of the model and of the plug-in's problems); a kind / num / side list shorter than height * width is
   rejected with IndexError (the Python raises IndexError at the first missing row / cell of arrow or inside; the
   plug-in's malformed problems only drop trailing cells / rows).  An arrow string whose tail is not a number
   (ValueError from int()) cannot be written in the encoding.  No proofs here. *)
From Coq Require Import ZArith List Bool Arith.
From Cspuz Require Import Lib.PyErr Core.Expr Core.Program Graph.GraphModel Graph.Cycle
     Puzzle.PuzzleBase Puzzle.ModelBase Puzzle.CycleFrameBase.
Import ListNotations.
Local Open Scope nat_scope.

(* the constraints of one clue cell; fh x fw is the frame (fh = height - 1, fw = width - 1) *)
Definition cw_arrow (h w : nat) (kind num : list Z) (c : nat * nat) : list expr :=
  let '(y, x) := c in
  let fh := h - 1 in let fw := w - 1 in
  let k := at2 kind w y x in
  let n := at2 num w y x in
  if (k =? 0)%Z then []
  else BNode NOT [BVar (frame_pid fh fw y x)] ::
       (if (k =? 1)%Z then [BNode EQ [ct_vars (map (fun y' => frame_vid fh fw y' x) (seq 0 y)); PyInt n]]
        else if (k =? 2)%Z then [BNode EQ [ct_vars (map (fun y' => frame_vid fh fw y' x) (seq y (h - 1 - y))); PyInt n]]
        else if (k =? 3)%Z then [BNode EQ [ct_vars (map (fun x' => frame_hid fh fw y x') (seq 0 x)); PyInt n]]
        else if (k =? 4)%Z then [BNode EQ [ct_vars (map (fun x' => frame_hid fh fw y x') (seq x (w - 1 - x))); PyInt n]]
        else []).

Definition cw_arrows (h w : nat) (kind num : list Z) : list expr :=
  flat_map (cw_arrow h w kind num) (cells h w).

(* id of is_inside[y, x]; base = id of is_inside[0, 0] *)
Definition cw_iid (base fw y x : nat) : nat := base + y * fw + x.

(* the crossing-parity recurrence down every column of squares *)
Definition cw_inout1 (base fh fw : nat) (c : nat * nat) : expr :=
  let '(y, x) := c in
  match y with
  | O => BNode IFF [BVar (cw_iid base fw 0 x); BVar (frame_hid fh fw 0 x)]
  | S y' => BNode IFF [BVar (cw_iid base fw y x);
                       BNode XOR [BVar (cw_iid base fw y' x); BVar (frame_hid fh fw y x)]]
  end.
Definition cw_inout (base fh fw : nat) : list expr := map (cw_inout1 base fh fw) (cells fh fw).

(* white / black clue cells *)
Definition cw_side1 (base h w : nat) (side : list Z) (c : nat * nat) : list expr :=
  let '(y, x) := c in
  let s := at2 side w y x in
  if (h =? 1) || (w =? 1) then (if (s =? 1)%Z then [PyBool false] else [])
  else
    let v := BVar (cw_iid base (w - 1) (y - 1) (x - 1)) in     (* max(0, y - 1), max(0, x - 1) *)
    if (s =? 1)%Z then [v] else if (s =? 2)%Z then [BNode NOT [v]] else [].
Definition cw_sides (base h w : nat) (side : list Z) : list expr :=
  flat_map (cw_side1 base h w side) (cells h w).

Definition solve_castle_wall_model (pb : problem) : res state :=
  let h := dim pb 0 in let w := dim pb 1 in
  let kind := sec pb 1 in let num := sec pb 2 in let side := sec pb 3 in
  if ((getz (sec pb 0) 0 <=? 0) || (getz (sec pb 0) 1 <=? 0))%Z then Err ValueError
  else
  match frame_cycle (h - 1) (w - 1) with
  | Ok (st1, _) =>
      if Nat.ltb (length kind) (h * w) || Nat.ltb (length num) (h * w) || Nat.ltb (length side) (h * w)
      then Err IndexError
      else
        let st2 := ensure st1 (cw_arrows h w kind num) in
        let base := next_id st2 in
        let '(st3, _) := bool_array st2 ((h - 1) * (w - 1)) in
        Ok (ensure (ensure st3 (cw_inout base (h - 1) (w - 1))) (cw_sides base h w side))
  | Err e => Err e
  end.
