(* C05: the statements of Props/C05.v that sit on top of division_exact /
   division_primitive — both encodings at once, models of the whole program,
   the public wrapper (grid inference, roots given as (y, x)), the executable
   form of the specification, the reading "every label class is connected"
   under the range hypothesis, and the remark that the hypothesis is needed. *)
From Coq Require Import ZArith List Bool Arith Lia.
From Cspuz Require Import Lib.PyErr Core.Expr Core.Program Core.Build Graph.GraphModel Graph.ReachProofs
  Graph.Division Graph.DivisionCert Graph.DivisionEval Graph.DivisionProofs Graph.DivisionPrim
  Graph.DivisionWt.
Import ListNotations.
Open Scope nat_scope.

(* ------------------------------------------------------------------------ *)
(* both encodings                                                            *)

Theorem division_exact_both st s R g roots aeg prim st' en :
  wf_graph g = true ->
  length (seq_data s) = nv g ->
  labels_ok division_gsem (next_id st) (seq_data s) ->
  post_division st s R g roots aeg prim = Ok st' ->
  (extends_sat division_gsem st st' en
   <-> spec_division g R (label_of division_gsem en (seq_data s)) roots aeg).
Proof.
  destruct prim; [apply division_primitive|apply division_exact].
Qed.

(* ------------------------------------------------------------------------ *)
(* from "the added constraints are satisfiable" to models of the whole program *)

Definition cons_closed (st : state) : Prop := Forall (fun c => max_id c <= next_id st) (cons st).

Lemma in_bounds_from_agree en en' vs : forall i,
  (forall j, i <= j < i + length vs -> ei en j = ei en' j) ->
  in_bounds_from en i vs = in_bounds_from en' i vs.
Proof.
  induction vs as [|d vs IH]; intros i H; simpl; [reflexivity|].
  destruct d.
  - apply IH. intros j Hj. apply H. simpl. lia.
  - rewrite (H i) by (simpl; lia). f_equal. apply IH. intros j Hj. apply H. simpl. lia.
Qed.

Lemma extends_sat_models gsem st st' en vs cs :
  vars st' = vars st ++ vs -> cons st' = cons st ++ cs ->
  cons_closed st -> model_of gsem en st ->
  (extends_sat gsem st st' en <->
   exists en', agree_below (next_id st) en en' /\ model_of gsem en' st').
Proof.
  intros Hv Hc Hcl [Hb Hs]. unfold extends_sat, model_of, in_bounds, satisfies.
  rewrite Hv, Hc. unfold cons_closed in Hcl. unfold next_id in *. rewrite !skipn_app_len.
  assert (Hold : forall en', agree_below (next_id st) en en' ->
            in_bounds_from en' 0 (vars st) = true /\ forallb (holds gsem en') (cons st) = true).
  { intros en' Ha. unfold next_id in Ha. split.
    - rewrite <- (in_bounds_from_agree en en' (vars st) 0); [exact Hb|].
      intros j Hj. destruct (Ha j) as [_ He]; [simpl in Hj; lia|exact He].
    - unfold satisfies in Hs. rewrite forallb_forall in Hs. apply forallb_forall. intros c Hin.
      unfold holds. rewrite Forall_forall in Hcl.
      rewrite <- (eval_agree gsem (length (vars st)) en en' c Ha (Hcl c Hin)). apply (Hs c Hin). }
  split.
  - intros [en' [Ha [H1 H2]]]. exists en'. split; [exact Ha|]. destruct (Hold en' Ha) as [H3 H4]. split.
    + rewrite in_bounds_from_app, H3. simpl. exact H1.
    + rewrite forallb_app, H4. exact H2.
  - intros [en' [Ha [H1 H2]]]. exists en'. split; [exact Ha|].
    rewrite in_bounds_from_app in H1. rewrite forallb_app in H2.
    apply andb_true_iff in H1. apply andb_true_iff in H2. simpl in H1. split; tauto.
Qed.

Lemma prim_regions_extends s g aeg ks : forall st st',
  prim_regions st s g aeg ks = Ok st' ->
  exists vs cs, vars st' = vars st ++ vs /\ cons st' = cons st ++ cs.
Proof.
  induction ks as [|k r IH]; intros st st' H; simpl in H.
  - inversion H; subst. exists [], []. rewrite !app_nil_r. split; reflexivity.
  - unfold bool_array in H. rewrite bool_vars_spec in H.
    destruct (region_links _ _ _ _) as [links|]; simpl in H; [|discriminate].
    destruct (avc_primitive_node _ _) as [node|]; simpl in H; [|discriminate].
    destruct aeg.
    + simpl in H. destruct (IH _ _ H) as [vs [cs [Hv Hc]]]. simpl in Hv, Hc.
      eexists. eexists. rewrite Hv, Hc, <- !app_assoc. split; reflexivity.
    + destruct (count_true _) as [ct|]; simpl in H; [|discriminate].
      destruct (IH _ _ H) as [vs [cs [Hv Hc]]]. simpl in Hv, Hc.
      eexists. eexists. rewrite Hv, Hc, <- !app_assoc. split; reflexivity.
Qed.

Lemma post_division_extends st s R g roots aeg prim st' :
  post_division st s R g roots aeg prim = Ok st' ->
  exists vs cs, vars st' = vars st ++ vs /\ cons st' = cons st ++ cs.
Proof.
  unfold post_division. destruct prim.
  - destruct (prim_regions st s g aeg (seq 0 R)) as [st1|] eqn:E; simpl; [|discriminate].
    destruct (opt_roots _ roots) as [rs|]; simpl; [|discriminate]. intros H; inversion H; subst.
    destruct (prim_regions_extends s g aeg (seq 0 R) st st1 E) as [vs [cs [Hv Hc]]].
    exists vs, (cs ++ rs). simpl. rewrite Hv, Hc, <- app_assoc. split; reflexivity.
  - unfold int_array. destruct (Z.of_nat (nv g) - 1 <? 0)%Z; simpl; [discriminate|].
    rewrite int_vars_spec. unfold bool_array. rewrite !bool_vars_spec.
    destruct (aux_constraints _ _ _ _ _ _ _ _) as [cs|]; simpl; [|discriminate].
    intros H; inversion H; subst. simpl. eexists. eexists. rewrite <- !app_assoc. split; reflexivity.
Qed.

Theorem division_exact_models st s R g roots aeg prim st' en :
  wf_graph g = true ->
  length (seq_data s) = nv g ->
  labels_ok division_gsem (next_id st) (seq_data s) ->
  cons_closed st -> model_of division_gsem en st ->
  post_division st s R g roots aeg prim = Ok st' ->
  ((exists en', agree_below (next_id st) en en' /\ model_of division_gsem en' st')
   <-> spec_division g R (label_of division_gsem en (seq_data s)) roots aeg).
Proof.
  intros Hwf Hlen Hlab Hcl Hm Hpost.
  destruct (post_division_extends st s R g roots aeg prim st' Hpost) as [vs [cs [Hv Hc]]].
  rewrite <- (extends_sat_models division_gsem st st' en vs cs Hv Hc Hcl Hm).
  apply (division_exact_both st s R g roots aeg prim st' en); assumption.
Qed.

(* ------------------------------------------------------------------------ *)
(* executable specification; "each label class" under the range hypothesis     *)

Lemma spec_division_b_spec g R label roots aeg :
  wf_graph g = true ->
  (spec_division_b g R label roots aeg = true <-> spec_division g R label roots aeg).
Proof.
  intros Hwf. unfold spec_division_b, spec_division. rewrite !andb_true_iff, forallb_forall. split.
  - intros [[Hc Hu] Hr]. split; [|split; [|exact Hr]].
    + intros k Hk. apply (connected_b_spec g _ Hwf). apply Hc. apply in_seq. lia.
    + intros Ha k Hk. rewrite Ha in Hu. simpl in Hu. rewrite forallb_forall in Hu.
      specialize (Hu k). rewrite in_seq in Hu. assert (H : existsb (class_of label k) (seq 0 (nv g)) = true) by (apply Hu; lia).
      apply existsb_exists in H. destruct H as [v [Hin Hv]]. apply in_seq in Hin.
      exists v. split; [lia|]. unfold class_of in Hv. apply Z.eqb_eq. exact Hv.
  - intros [Hc [Hu Hr]]. split; [split|exact Hr].
    + intros k Hk. apply in_seq in Hk. apply (connected_b_spec g _ Hwf). apply Hc. lia.
    + destruct aeg; [reflexivity|]. simpl. apply forallb_forall. intros k Hk. apply in_seq in Hk.
      destruct (Hu eq_refl k) as [v [Hv Hl]]; [lia|]. apply existsb_exists. exists v.
      split; [apply in_seq; lia|]. unfold class_of. apply Z.eqb_eq. exact Hl.
Qed.

(* with all labels in 0..R-1, "every class k < R is connected" is "the
   vertices carrying each label induce a connected subgraph" *)
Theorem all_classes_connected g R label :
  labels_in_range (nv g) R label ->
  ((forall k, k < R -> connected g (class_of label k))
   <-> (forall z : Z, connected g (fun v => Z.eqb (label v) z))).
Proof.
  intros Hr. split.
  - intros H z u v Hu Hv Hau Hav. apply Z.eqb_eq in Hau. apply Z.eqb_eq in Hav.
    pose proof (Hr u Hu) as Hru.
    assert (Hk : Z.to_nat z < R) by lia.
    assert (Hz : z = Z.of_nat (Z.to_nat z)) by lia.
    apply (reach_ext g (class_of label (Z.to_nat z)) _ all_edges_ok all_edges_ok);
      [intros x; unfold class_of; rewrite <- Hz; reflexivity|reflexivity|].
    apply (H _ Hk); try assumption; unfold class_of; apply Z.eqb_eq; lia.
  - intros H k _. apply (H (Z.of_nat k)).
Qed.

(* ------------------------------------------------------------------------ *)
(* the public wrapper                                                        *)

Theorem division_wrapper_graph st s R g roots aeg p :
  division_connected st (D1 s) R (Some g) roots aeg p = post_division st s R g roots aeg p.
Proof. reflexivity. Qed.

Theorem division_wrapper_type_errors st s h w data R g roots aeg p :
  division_connected st (D1 s) R None roots aeg p = Err TypeError /\
  division_connected st (D2 h w data) R (Some g) roots aeg p = Err TypeError.
Proof. split; reflexivity. Qed.

(* roots in grid form: None or a cell (y, x) *)
Inductive grid_root := GNone | GCell (y x : Z).
Definition grid_root_arg (r : grid_root) : root_arg :=
  match r with GNone => RNone | GCell y x => RTup [y; x] end.
Definition grid_root_vertex (w : nat) (r : grid_root) : root_arg :=
  match r with GNone => RNone | GCell y x => RInt (y * Z.of_nat w + x)%Z end.

Lemma conv_roots_cells w rs :
  mapM (conv_root w) (map grid_root_arg rs) = Ok (map (grid_root_vertex w) rs).
Proof.
  induction rs as [|r rs IH]; simpl; [reflexivity|].
  destruct r; simpl; rewrite IH; reflexivity.
Qed.

(* (y, x) |-> y * w + x; the graph is the grid graph; the labels are the
   flattened array; the encoding is the configured one *)
Theorem division_grid_roots st h w data R rs aeg p :
  division_connected st (D2 h w data) R None (Some (map grid_root_arg rs)) aeg p
  = post_division st (SArr data) R (grid_graph h w) (Some (map (grid_root_vertex w) rs)) aeg p.
Proof. simpl. rewrite conv_roots_cells. reflexivity. Qed.

Theorem division_grid_no_roots st h w data R aeg p :
  division_connected st (D2 h w data) R None None aeg p
  = post_division st (SArr data) R (grid_graph h w) None aeg p.
Proof. reflexivity. Qed.

(* an int root in grid form is a TypeError, a tuple of another length a
   ValueError (first offending entry wins) *)
Definition grid_entry_ok (a : root_arg) : bool :=
  match a with RNone => true | RTup [_; _] => true | _ => false end.

Theorem division_grid_bad_root st h w data R pre a post aeg p :
  forallb grid_entry_ok pre = true -> grid_entry_ok a = false ->
  division_connected st (D2 h w data) R None (Some (pre ++ a :: post)) aeg p
  = Err (match a with RInt _ => TypeError | _ => ValueError end).
Proof.
  intros Hpre Ha. simpl.
  assert (H : mapM (conv_root w) (pre ++ a :: post)
              = Err (match a with RInt _ => TypeError | _ => ValueError end)).
  { induction pre as [|b pre IH]; simpl.
    - destruct a as [|z|l]; simpl in *; try discriminate; try reflexivity.
      destruct l as [|y [|x [|t l]]]; simpl in *; try discriminate; reflexivity.
    - simpl in Hpre. apply andb_true_iff in Hpre. destruct Hpre as [Hb Hpre].
      rewrite (IH Hpre). destruct b as [|z|l]; simpl in *; try discriminate; try reflexivity.
      destruct l as [|y [|x [|t l]]]; simpl in *; try discriminate; reflexivity. }
  rewrite H. reflexivity.
Qed.

(* a cell inside the grid is the vertex y * w + x of the grid graph *)
Lemma grid_cell_lt h w y x : y < h -> x < w -> y * w + x < h * w.
Proof.
  intros Hy Hx. assert (S y * w <= h * w) by (apply Nat.mul_le_mono_r; lia). simpl in H. lia.
Qed.

Theorem grid_root_vertex_cell h w y x :
  y < h -> x < w ->
  root_vertex (nv (grid_graph h w)) (grid_root_vertex w (GCell (Z.of_nat y) (Z.of_nat x)))
  = Some (Some (y * w + x)).
Proof.
  intros Hy Hx. pose proof (grid_cell_lt h w y x Hy Hx) as Hlt. simpl.
  destruct (Z.ltb_spec (Z.of_nat y * Z.of_nat w + Z.of_nat x) 0); [lia|].
  destruct (Z.leb_spec 0 (Z.of_nat y * Z.of_nat w + Z.of_nat x)); [|lia].
  destruct (Z.ltb_spec (Z.of_nat y * Z.of_nat w + Z.of_nat x) (Z.of_nat (h * w))); [|lia].
  simpl. f_equal. f_equal. lia.
Qed.

Lemma grid_wf h w : wf_graph (grid_graph h w) = true.
Proof.
  unfold wf_graph. apply forallb_forall. intros [a b] Hin. simpl in Hin. unfold grid_edges in Hin.
  rewrite in_flat_map in Hin. destruct Hin as [y [Hy Hin]]. apply in_seq in Hy.
  rewrite in_flat_map in Hin. destruct Hin as [x [Hx Hin]]. apply in_seq in Hx.
  simpl nv. apply in_app_iff in Hin. destruct Hin as [H|H].
  - destruct (Nat.ltb_spec (S x) w); [|destruct H]. destruct H as [H|[]]. inversion H; subst.
    apply andb_true_iff. split; apply Nat.ltb_lt; apply grid_cell_lt; lia.
  - destruct (Nat.ltb_spec (S y) h); [|destruct H]. destruct H as [H|[]]. inversion H; subst.
    apply andb_true_iff. split; apply Nat.ltb_lt; [apply grid_cell_lt; lia|].
    apply (grid_cell_lt h w (S y) x); lia.
Qed.

(* the property on inferred grids, both encodings *)
Theorem division_exact_grid st h w data R rs aeg p st' en :
  length data = h * w ->
  labels_ok division_gsem (next_id st) data ->
  division_connected st (D2 h w data) R None (option_map (map grid_root_arg) rs) aeg p = Ok st' ->
  (extends_sat division_gsem st st' en
   <-> spec_division (grid_graph h w) R (label_of division_gsem en data)
         (option_map (map (grid_root_vertex w)) rs) aeg).
Proof.
  intros Hlen Hlab Hpost.
  assert (H : post_division st (SArr data) R (grid_graph h w) (option_map (map (grid_root_vertex w)) rs) aeg p
              = Ok st').
  { destruct rs as [rs|]; simpl option_map in *.
    - rewrite <- division_grid_roots. exact Hpost.
    - exact Hpost. }
  apply (division_exact_both st (SArr data) R (grid_graph h w) _ aeg p st' en (grid_wf h w) Hlen Hlab H).
Qed.

(* ------------------------------------------------------------------------ *)
(* the hypotheses are satisfiable: typical label forms                        *)

Lemma labels_ok_vars gsem k (ids : list nat) lo hi :
  (forall i, In i ids -> i < k) -> labels_ok gsem k (map (fun i => IVar i lo hi) ids).
Proof.
  intros H. unfold labels_ok. apply Forall_forall. intros d Hd. apply in_map_iff in Hd.
  destruct Hd as [i [<- Hi]]. split; [reflexivity|]. split; [simpl; apply H; exact Hi|].
  intros en. exists (ei en i). reflexivity.
Qed.

Lemma labels_ok_ints gsem k (zs : list Z) : labels_ok gsem k (map PyInt zs).
Proof.
  unfold labels_ok. apply Forall_forall. intros d Hd. apply in_map_iff in Hd.
  destruct Hd as [z [<- _]]. split; [reflexivity|]. split; [simpl; lia|]. intros en. exists z. reflexivity.
Qed.

(* ------------------------------------------------------------------------ *)
(* the range hypothesis of the property is needed for "each label": the
   encoding says nothing about labels outside 0..R-1.  Two isolated vertices
   both labelled 5, one region, empty groups allowed: the posted constraints are
   satisfiable although the class of label 5 is not connected.                 *)

Definition g2 : graph := {| nv := 2; edges := [] |}.
Definition env0 : env := {| eb := fun _ => false; ei := fun _ => 0%Z |}.

Example division_range_needed :
  exists st',
    post_division empty_state (SList [PyInt 5; PyInt 5]) 1 g2 None true false = Ok st' /\
    extends_sat division_gsem empty_state st' env0 /\
    ~ connected g2 (fun v => Z.eqb (label_of division_gsem env0 [PyInt 5; PyInt 5] v) 5).
Proof.
  destruct (post_division empty_state (SList [PyInt 5; PyInt 5]) 1 g2 None true false) as [st'|] eqn:E;
    [|vm_compute in E; discriminate].
  exists st'. split; [reflexivity|]. split.
  - apply (division_exact division_gsem empty_state (SList [PyInt 5; PyInt 5]) 1 g2 None true st' env0);
      [reflexivity|reflexivity|apply (labels_ok_ints division_gsem 0 [5; 5]%Z)|exact E|].
    apply (spec_division_b_spec g2); reflexivity.
  - intros H. apply (connected_b_spec g2 _ eq_refl) in H. vm_compute in H. discriminate.
Qed.

(* ------------------------------------------------------------------------ *)
(* the same with the typing predicate of Core/Expr.v on the label entries      *)

Theorem division_exact_wt st s R g roots aeg prim st' en :
  wf_graph g = true ->
  length (seq_data s) = nv g ->
  Forall (fun d => wt_int d = true /\ max_id d <= next_id st) (seq_data s) ->
  post_division st s R g roots aeg prim = Ok st' ->
  (extends_sat division_gsem st st' en
   <-> spec_division g R (label_of division_gsem en (seq_data s)) roots aeg).
Proof.
  intros Hwf Hlen Hw. apply division_exact_both; try assumption. apply labels_ok_wt. exact Hw.
Qed.

(* ------------------------------------------------------------------------ *)
(* error points of _division_connected                                        *)

(* no vertices: the auxiliary branch calls int_array(0, 0, -1) *)
Theorem division_zero_vertices st s R g roots aeg :
  nv g = 0 -> post_division st s R g roots aeg false = Err ValueError.
Proof. intros H. unfold post_division, int_array. rewrite H. reflexivity. Qed.

Lemma root_vertex_py_nth {A} (l : list A) z v :
  root_vertex (length l) (RInt z) = Some (Some v) -> exists a, py_nth l z = Ok a.
Proof.
  unfold root_vertex, py_nth.
  set (p := (if (z <? 0)%Z then (z + Z.of_nat (length l))%Z else z)).
  destruct ((0 <=? p)%Z && (p <? Z.of_nat (length l))%Z) eqn:E; [|discriminate]. intros _.
  apply andb_true_iff in E. destruct E as [E1 E2]. apply Z.leb_le in E1. apply Z.ltb_lt in E2.
  unfold nth_res. destruct (nth_error l (Z.to_nat p)) as [a|] eqn:En; [eauto|].
  apply nth_error_None in En. lia.
Qed.

Lemma root_vertex_none_py_nth {A} (l : list A) z :
  root_vertex (length l) (RInt z) = None -> py_nth l z = Err IndexError.
Proof.
  unfold root_vertex, py_nth.
  destruct ((0 <=? (if (z <? 0)%Z then (z + Z.of_nat (length l))%Z else z))%Z
            && ((if (z <? 0)%Z then (z + Z.of_nat (length l))%Z else z) <? Z.of_nat (length l))%Z);
    [discriminate|reflexivity].
Qed.

(* the first entry of roots that is not None / a valid vertex id decides the
   exception: a tuple is a TypeError, an id outside [-n, n) an IndexError *)
Theorem roots_error_primitive labels pre a post : forall k,
  Forall (fun b => exists v, root_vertex (length labels) b = Some v) pre ->
  root_vertex (length labels) a = None ->
  prim_roots labels k (pre ++ a :: post)
  = Err (match a with RTup _ => TypeError | _ => IndexError end).
Proof.
  induction pre as [|b pre IH]; intros k Hpre Ha; simpl.
  - destruct a as [|z|l]; simpl in Ha; try discriminate; [|reflexivity].
    rewrite (root_vertex_none_py_nth labels z Ha). reflexivity.
  - inversion Hpre as [|? ? [v Hb] Hrest]; subst. destruct b as [|z|l]; simpl in Hb; try discriminate.
    + apply IH; assumption.
    + destruct v as [v|]; [|unfold root_vertex in Hb;
        destruct ((0 <=? _)%Z && _) in Hb; discriminate].
      destruct (root_vertex_py_nth labels z v Hb) as [d Hd]. rewrite Hd. simpl.
      rewrite (IH (S k) Hrest Ha). reflexivity.
Qed.

Theorem roots_error_aux labels root pre a post : forall k,
  length root = length labels ->
  Forall (fun b => exists v, root_vertex (length labels) b = Some v) pre ->
  root_vertex (length labels) a = None ->
  aux_roots labels root k (pre ++ a :: post)
  = Err (match a with RTup _ => TypeError | _ => IndexError end).
Proof.
  intros k Hl. revert k. induction pre as [|b pre IH]; intros k Hpre Ha; simpl.
  - destruct a as [|z|l]; simpl in Ha; try discriminate; [|reflexivity].
    rewrite (root_vertex_none_py_nth labels z Ha). reflexivity.
  - inversion Hpre as [|? ? [v Hb] Hrest]; subst. destruct b as [|z|l]; simpl in Hb; try discriminate.
    + apply IH; assumption.
    + destruct v as [v|]; [|unfold root_vertex in Hb;
        destruct ((0 <=? _)%Z && _) in Hb; discriminate].
      destruct (root_vertex_py_nth labels z v Hb) as [d Hd]. rewrite Hd. simpl.
      rewrite <- Hl in Hb. destruct (root_vertex_py_nth root z v Hb) as [r Hr]. rewrite Hr. simpl.
      rewrite (IH (S k) Hrest Ha). reflexivity.
Qed.
