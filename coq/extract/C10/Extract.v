(* deps (scanned by harness/vlib.py::build_runner): Cspuz.Lib.PyErr Cspuz.Core.Expr Cspuz.Core.Program Cspuz.Core.Build Cspuz.Graph.GraphModel Cspuz.Graph.Avc Cspuz.Graph.Crossable *)
Require Extraction.
Require Import ExtrOcamlBasic.
From Coq Require Import ZArith List.
From Cspuz Require Import Lib.PyErr Core.Expr Core.Program Core.Build Graph.GraphModel Graph.Avc Graph.Crossable.
Extraction "model.ml" Z.add Nat.add pyerr_code empty_state new_frame post_crossable split_graph
  crossable_spec_b outputs_b act_of_bits.
