open Model
open Zutil

(* token cursor *)
let toks = ref []
let next () = match !toks with t :: r -> toks := r; t | [] -> failwith "eof"
let next_int () = int_of_string (next ())
let next_z () = z_of_int (next_int ())
let next_opt () = match next () with "_" -> None | s -> Some (z_of_int (int_of_string s))
let rec times n f = if n <= 0 then [] else let x = f () in x :: times (n - 1) f

let p_cell () = let y = next_z () in let x = next_z () in (y, x)
let p_block () = let k = next_int () in times k p_cell
let p_blocks () = let n = next_int () in times n p_block
let p_nats () = let n = next_int () in times n (fun () -> nat_of_int (next_int ()))
let p_cfg () =
  let h = next_z () in let w = next_z () in
  let mn = next_opt () in let mx = next_opt () in let ms = next_opt () in let xs = next_opt () in
  let allow = (next_int () <> 0) in
  make_config h w mn mx ms xs allow
let p_update () = let ex = p_nats () in let nw = p_blocks () in (ex, nw)

let s_cell (y, x) = string_of_int (int_of_z y) ^ " " ^ string_of_int (int_of_z x)
let s_block b = String.concat " " (string_of_int (List.length b) :: List.map s_cell b)
let s_blocks bs = String.concat " " (string_of_int (List.length bs) :: List.map s_block bs)
let s_nats l = String.concat " " (string_of_int (List.length l) :: List.map (fun n -> string_of_int (int_of_nat n)) l)
let s_update (ex, nw) = s_nats ex ^ " " ^ s_blocks nw
let s_err e = "E " ^ string_of_int (int_of_nat (pyerr_code e))

let handle ts = match ts with
  | [] -> "EXN empty"
  | cmd :: rest ->
    toks := rest;
    (match cmd with
     | "CAND" ->
        let cfg = p_cfg () in let bs = p_blocks () in let ds = p_nats () in
        (match candidates cfg bs ds with
         | Err e -> s_err e
         | Ok (us, r) ->
            "OK " ^ string_of_int (List.length r) ^ " " ^
            String.concat " " (string_of_int (List.length us) :: List.map s_update us))
     | "APPLY" ->
        let bs = p_blocks () in let u = p_update () in
        "OK " ^ s_blocks (apply_update bs u)
     | "INIT" ->
        let cfg = p_cfg () in
        let ib = (if next_int () = 0 then None else Some (p_blocks ())) in
        let ds = p_nats () in
        (match initial cfg ib ds (S (nat_of_int (List.length ds))) with
         | Err e -> s_err e
         | Ok (bs, r) -> "OK " ^ string_of_int (List.length r) ^ " " ^ s_blocks bs)
     | "SPLIT" ->
        let b = p_block () in let ds = p_nats () in
        (match split_block b ds with
         | Err e -> s_err e
         | Ok ((a, b2), r) -> "OK " ^ string_of_int (List.length r) ^ " " ^ s_block a ^ " " ^ s_block b2)
     | "ISCONN" ->
        let b = p_block () in
        let ex = (match next () with "_" -> None | y -> let y = z_of_int (int_of_string y) in let x = next_z () in Some (y, x)) in
        if is_connected b ex then "T" else "F"
     | "CFG" ->
        let cfg = p_cfg () in
        "OK " ^ zs [min_num cfg; max_num cfg; min_size cfg; max_size cfg]
     | _ -> "EXN bad request")

let () = main_loop handle
