"""C11 plug-in: slalom (solve_slalom(height, width, origin, is_black, gates), the reference_sol_loop=None form).

problem dict: h, w, origin [oy, ox], black (h x w grid of 0/1: is_black as instantiate_problem computes it - the free
black cells plus the black cells at the ends of the gates), gates [[y, x, d, l, n], ..] (d 0 = horizontal dotted line,
1 = vertical; l cells; n >= 1 the gate's number, -1 none).  The generators only produce boards in the puzzle's format
(Rules_slalom.slalom_wf, mirrored by _wf below): the start and the gates on the board, gates pairwise disjoint and not
through the start, both ends of a gate at the board edge or on a black cell.  The answer is the BoolGridFrame `loop`."""
import itertools

import c11lib as L

NAME = "slalom"
MODULE = "cspuz.puzzle.slalom"
FUNC = "solve_slalom"
LOOP = True
MAX_ANSWERS = 140000          # 3x4 / 4x3 boards (17 segments) are enumerated in both tiers


def call(mod, pb):
    black = [[bool(v) for v in row] for row in pb["black"]]
    return mod.solve_slalom(pb["h"], pb["w"], tuple(pb["origin"]), black, [tuple(g) for g in pb["gates"]])


def ncand(pb):
    return 2 ** L.n_loop_edges(pb["h"], pb["w"])


def encode(pb):
    return [[pb["h"], pb["w"]], list(pb["origin"]), L.flat(pb["black"]), [v for g in pb["gates"] for v in g]]


# ---------------------------------------------------------------- the board format (mirror of Rules_slalom.slalom_wf)

def gate_cells(g):
    y, x, d, l, _ = g
    return [(y, x + i) for i in range(l)] if d == 0 else [(y + i, x) for i in range(l)]


def _wf(pb):
    h, w = pb["h"], pb["w"]
    oy, ox = pb["origin"]
    bl = pb["black"]
    if not (0 <= oy < h and 0 <= ox < w):
        return False
    seen = set()
    for g in pb["gates"]:
        y, x, d, l, n = g
        if not (y >= 0 and x >= 0 and l >= 0 and d in (0, 1)):
            return False
        if d == 0:
            if not (y < h and x + l <= w and (x == 0 or bl[y][x - 1]) and (x + l == w or bl[y][x + l])):
                return False
        else:
            if not (x < w and y + l <= h and (y == 0 or bl[y - 1][x]) and (y + l == h or bl[y + l][x])):
                return False
        for c in gate_cells(g):
            if c in seen or c == (oy, ox):
                return False
            seen.add(c)
    return True


def _runs(h, w, bl):
    """the candidate gates of a board: maximal horizontal / vertical runs of white cells as (y, x, d, l)"""
    out = []
    for y in range(h):
        x = 0
        while x < w:
            if bl[y][x]:
                x += 1
                continue
            x2 = x
            while x2 < w and not bl[y][x2]:
                x2 += 1
            out.append((y, x, 0, x2 - x))
            x = x2
    for x in range(w):
        y = 0
        while y < h:
            if bl[y][x]:
                y += 1
                continue
            y2 = y
            while y2 < h and not bl[y2][x]:
                y2 += 1
            out.append((y, x, 1, y2 - y))
            y = y2
    return out


def _gate_sets(runs, maxg):
    """every set of at most maxg pairwise disjoint runs"""
    def go(i, chosen, used):
        if i == len(runs):
            yield list(chosen)
            return
        yield from go(i + 1, chosen, used)
        cs = set(gate_cells(runs[i] + (-1,)))
        if len(chosen) < maxg and not (cs & used):
            chosen.append(runs[i])
            yield from go(i + 1, chosen, used | cs)
            chosen.pop()
    yield from go(0, [], set())


def _mk(h, w, origin, bl, gates):
    pb = {"h": h, "w": w, "origin": list(origin), "black": [list(r) for r in bl], "gates": [list(g) for g in gates]}
    assert _wf(pb), pb
    return pb


def _numberings(k, values):
    return itertools.product(values, repeat=k)


def _boards(h, w, rng, nblack, maxg, per_board, numbers=None):
    """random boards: nblack black cells, then a random set of disjoint gates, a random numbering (numbers drawn
    from -1 (twice as likely) and 1 .. G + 1: G + 1 is beyond the last position) and a random start"""
    cells = [(y, x) for y in range(h) for x in range(w)]
    for _ in range(per_board):
        bl = [[0] * w for _ in range(h)]
        for (y, x) in rng.sample(cells, min(nblack, len(cells))):
            bl[y][x] = 1
        runs = _runs(h, w, bl)
        rng.shuffle(runs)
        gates, used = [], set()
        for r in runs:
            cs = set(gate_cells(r + (-1,)))
            if len(gates) < maxg and not (cs & used) and rng.random() < 0.7:
                gates.append(r)
                used |= cs
        free = [c for c in cells if not bl[c[0]][c[1]] and c not in used]
        if not free:
            continue
        g = len(gates)
        vals = numbers if numbers is not None else [-1, -1] + list(range(1, g + 2))
        yield _mk(h, w, rng.choice(free), bl, [r + (rng.choice(vals),) for r in gates])


def _ring3(n, rng, transpose=False):
    """3 x n board whose white cells are the border ring (the middle row is black except its two end cells): the only loop
    is the ring.  Every top / bottom cell above / below a black cell is a 1-cell vertical gate candidate, the two middle
    end cells are 1-cell horizontal gates.  Returns (problem, ring segments, gate cells in clockwise order from (0, 0))"""
    bl = [[0] * n for _ in range(3)]
    for x in range(1, n - 1):
        bl[1][x] = 1
    order = [(0, x) for x in range(1, n - 1)] + [(1, n - 1)] + [(2, x) for x in range(n - 2, 0, -1)] + [(1, 0)]
    segs = set()
    for x in range(n - 1):
        segs.add(((0, x), (0, x + 1)))
        segs.add(((2, x), (2, x + 1)))
    for y in range(2):
        segs.add(((y, 0), (y + 1, 0)))
        segs.add(((y, n - 1), (y + 1, n - 1)))
    return bl, order, segs


def _ring_problem(n, rng, consistent, transpose):
    bl, order, segs = _ring3(n, rng)
    k = rng.randint(1, min(len(order), 12))
    chosen = sorted(rng.sample(range(len(order)), k))
    cells = [order[i] for i in chosen]
    if rng.random() < 0.5:          # numbers count the other way round
        pos = {c: k - i for i, c in enumerate(cells)}
    else:
        pos = {c: i + 1 for i, c in enumerate(cells)}
    gates = []
    for c in cells:
        d = 0 if c[0] == 1 else 1
        gates.append([c[0], c[1], d, 1, pos[c] if rng.random() < 0.5 else -1])
    if not consistent and k >= 2:
        # break the order: one gate gets a position that is not its own (it may still fit the other direction)
        i = rng.randrange(k)
        gates[i][4] = rng.choice([v for v in range(1, k + 2) if v != pos[cells[i]]])
    # the ring is a solution iff the numbers fit one of the two directions of travel
    ok = any(all(g[4] == -1 or seq.index((g[0], g[1])) + 1 == g[4] for g in gates) for seq in (cells, cells[::-1]))
    pb = {"h": 3, "w": n, "origin": [0, 0], "black": bl, "gates": gates}
    ans = L.lattice_answer(3, n, segs)
    if transpose:
        pb = {"h": n, "w": 3, "origin": [0, 0], "black": L.transpose_grid(bl),
              "gates": [[g[1], g[0], 1 - g[2], g[3], g[4]] for g in gates]}
        ans = L.lattice_answer(n, 3, {((a[1], a[0]), (b[1], b[0])) for (a, b) in segs})
    assert _wf(pb), pb
    pb["planted"] = [ans] if ok else []
    pb["n_solutions"] = 1 if ok else 0
    return pb


# ---- an independent brute force for mid-size boards (big): all loops through the start, the rules read off directly

def _all_solutions(pb, limit=200000):
    h, w = pb["h"], pb["w"]
    o = tuple(pb["origin"])
    bl = pb["black"]
    gates = pb["gates"]
    gid = {}
    for k, g in enumerate(gates):
        for c in gate_cells(g):
            gid[c] = k
    if bl[o[0]][o[1]]:
        return []
    sols = []
    steps = [0]

    def nb(c):
        y, x = c
        for (dy, dx) in ((-1, 0), (1, 0), (0, -1), (0, 1)):
            y2, x2 = y + dy, x + dx
            if 0 <= y2 < h and 0 <= x2 < w and not bl[y2][x2]:
                yield (y2, x2), (dy, dx)

    def check(path):
        # path: the cells of the loop in travelling order, path[0] = start
        n = len(path)
        met = []
        cnt = [0] * len(gates)
        for i, c in enumerate(path):
            if c in gid:
                k = gid[c]
                cnt[k] += 1
                p, q = path[i - 1], path[(i + 1) % n]
                d = gates[k][2]
                if d == 0 and not (p[1] == c[1] == q[1]):
                    return False
                if d == 1 and not (p[0] == c[0] == q[0]):
                    return False
                met.append(k)
        if any(v != 1 for v in cnt):
            return False
        for seq in (met, met[::-1]):
            if all(gates[k][4] < 1 or i + 1 == gates[k][4] for i, k in enumerate(seq)):
                return True
        return False

    def dfs(path, onp):
        steps[0] += 1
        if steps[0] > limit:
            raise OverflowError
        c = path[-1]
        for (c2, _) in nb(c):
            if c2 == o and len(path) >= 4:
                # count each loop once: the second cell is smaller than the last
                if path[1] < path[-1] and check(path):
                    sols.append(list(path))
            elif c2 not in onp:
                onp.add(c2)
                path.append(c2)
                dfs(path, onp)
                path.pop()
                onp.discard(c2)

    dfs([o], {o})
    out = []
    for p in sols:
        segs = {(p[i], p[(i + 1) % len(p)]) for i in range(len(p))}
        out.append(L.lattice_answer(h, w, segs))
    return out


def _random_loop(h, w, rng, minlen):
    """a random simple cycle of the h x w grid with at least minlen cells, as the list of its cells in travelling order"""
    for _ in range(50):
        o = (rng.randrange(h), rng.randrange(w))
        path, onp = [o], {o}
        budget = [4000]

        def dfs():
            budget[0] -= 1
            if budget[0] < 0:
                return False
            y, x = path[-1]
            nbs = [(y - 1, x), (y + 1, x), (y, x - 1), (y, x + 1)]
            rng.shuffle(nbs)
            if o in nbs and len(path) >= max(4, minlen):
                return True
            for c in nbs:
                if not (0 <= c[0] < h and 0 <= c[1] < w):
                    continue
                if c == o and len(path) >= max(4, minlen):
                    return True
                if c not in onp:
                    onp.add(c)
                    path.append(c)
                    if dfs():
                        return True
                    path.pop()
                    onp.discard(c)
            return False
        if dfs():
            return path
    return None


def _planted_board(h, w, rng):
    """a board built around a random loop: gates are put across straight stretches of the loop (the cells next to the
    crossing, up to 2 off-loop cells away, become the black ends), some gates get their position along the loop as a number;
    a few more black cells off the loop"""
    path = _random_loop(h, w, rng, rng.choice([4, 6, 8, 10]))
    if path is None:
        return None
    n = len(path)
    onp = set(path)
    o = path[0]
    bl = [[0] * w for _ in range(h)]
    gates, used = [], set()
    for i in rng.sample(range(1, n), n - 1):
        c, p, q = path[i], path[i - 1], path[(i + 1) % n]
        if p[0] == c[0] == q[0]:
            d, side = 1, (1, 0)          # travelled horizontally: a vertical dotted line
        elif p[1] == c[1] == q[1]:
            d, side = 0, (0, 1)
        else:
            continue
        if rng.random() < 0.4:
            continue
        cells = [c]
        newblack = []
        ok = True
        for sgn in (-1, 1):
            k = rng.choice([0, 0, 1, 2])
            cur = c
            for _ in range(k):
                nx = (cur[0] + sgn * side[0], cur[1] + sgn * side[1])
                if not (0 <= nx[0] < h and 0 <= nx[1] < w) or nx in onp or bl[nx[0]][nx[1]]:
                    break
                cells.append(nx)
                cur = nx
            end = (cur[0] + sgn * side[0], cur[1] + sgn * side[1])
            if 0 <= end[0] < h and 0 <= end[1] < w:
                if end in onp or end in used:
                    ok = False
                    break
                newblack.append(end)
        if not ok or any(x in used or bl[x[0]][x[1]] for x in cells):
            continue
        if any(b in cells for b in newblack):
            continue
        for b in newblack:
            bl[b[0]][b[1]] = 1
        cells.sort()
        used |= set(cells)
        gates.append([cells[0][0], cells[0][1], d, len(cells), -1])
    for y in range(h):
        for x in range(w):
            if (y, x) not in onp and (y, x) not in used and rng.random() < 0.12:
                bl[y][x] = 1
    # a gate may have lost an end to nothing: re-check the format; number some gates by their position
    gid = {c: k for k, g in enumerate(gates) for c in gate_cells(g)}
    seq = path[1:] if rng.random() < 0.5 else path[:0:-1]
    posn = 0
    for c in seq:
        if c in gid:
            posn += 1
            if rng.random() < 0.45:
                gates[gid[c]][4] = posn
    pb = {"h": h, "w": w, "origin": list(o), "black": bl, "gates": gates}
    if not _wf(pb):
        return None
    return pb


# ---------------------------------------------------------------- generators

def _all_small(h, w, maxg, numbers_cap):
    """every board in the format on an h x w grid: black set, set of <= maxg disjoint gates, numbering over -1, 1..G+1
    (capped), start on any white non-gate cell"""
    cells = [(y, x) for y in range(h) for x in range(w)]
    for bits in itertools.product((0, 1), repeat=h * w):
        bl = [list(bits[y * w:(y + 1) * w]) for y in range(h)]
        runs = _runs(h, w, bl)
        for gs in _gate_sets(runs, maxg):
            used = {c for r in gs for c in gate_cells(r + (-1,))}
            free = [c for c in cells if not bl[c[0]][c[1]] and c not in used]
            nums = list(_numberings(len(gs), [-1] + list(range(1, min(len(gs), numbers_cap) + 2))))
            for o in free:
                for nm in nums:
                    yield _mk(h, w, o, bl, [r + (n,) for r, n in zip(gs, nm)])


def _cross3(rng, count):
    """3x3 boards with the black centre: the ring is the only loop; the four mid-side cells are the possible gates.
    All gate subsets with all numberings over -1, 1..G+1 (sampled), all starts"""
    bl = [[0, 0, 0], [0, 1, 0], [0, 0, 0]]
    cand = [(0, 1, 1, 1), (1, 0, 0, 1), (1, 2, 0, 1), (2, 1, 1, 1)]
    out = []
    for k in range(5):
        for gs in itertools.combinations(cand, k):
            used = {(g[0], g[1]) for g in gs}
            for o in [(y, x) for y in range(3) for x in range(3) if (y, x) != (1, 1) and (y, x) not in used]:
                for nm in _numberings(k, [-1] + list(range(1, k + 2))):
                    out.append(_mk(3, 3, o, bl, [g + (n,) for g, n in zip(gs, nm)]))
    return L.sample(rng, out, count)


RING3 = [(0, 0), (0, 1), (0, 2), (1, 2), (2, 2), (2, 1), (2, 0), (1, 0)]     # the border of the 3x3 board, clockwise


def _cross3_ordered(rng, count, wrong):
    """3x3 boards with the black centre whose numbers fit one direction of travel (every gate subset, every start, every
    subset of the gates numbered by position, both directions); wrong > 0: that many variants with one number changed"""
    bl = [[0, 0, 0], [0, 1, 0], [0, 0, 0]]
    cand = {(0, 1): 1, (1, 2): 0, (2, 1): 1, (1, 0): 0}
    out = []
    for k in range(1, 5):
        for cells in itertools.combinations(sorted(cand), k):
            for o in RING3:
                if o in cells:
                    continue
                i0 = RING3.index(o)
                cw = [c for c in RING3[i0:] + RING3[:i0] if c in cells]
                for seq in (cw, cw[::-1]):
                    for mask in range(1 << k):
                        gates = [(c[0], c[1], cand[c], 1, (seq.index(c) + 1) if (mask >> j) & 1 else -1)
                                 for j, c in enumerate(cells)]
                        out.append(_mk(3, 3, o, bl, gates))
    good = L.sample(rng, out, count)
    yield from good
    for pb in L.sample(rng, [p for p in out if p["gates"]], wrong):
        pb = _mk(3, 3, pb["origin"], pb["black"], pb["gates"])
        g = rng.choice(pb["gates"])
        g[4] = rng.choice([v for v in range(1, len(pb["gates"]) + 2) if v != g[4]])
        yield pb


def _planted(h, w, rng, count, p_wrong=0.2):
    made = 0
    tries = 0
    while made < count and tries < 50 * count:
        tries += 1
        pb = _planted_board(h, w, rng)
        if pb is None:
            continue
        if pb["gates"] and rng.random() < p_wrong:
            g = rng.choice(pb["gates"])
            g[4] = rng.randint(1, len(pb["gates"]) + 1)
        made += 1
        yield pb


def families(tier, rng):
    th = tier == "thorough"
    # every board in the format on the tiniest grids (no loop fits on a single row / column: all unsolvable)
    for (h, w) in [(1, 1), (1, 2), (2, 1), (1, 3), (3, 1), (2, 2)]:
        yield from _all_small(h, w, 2, 1)
    for (h, w) in [(2, 3), (3, 2)]:
        allb = list(_all_small(h, w, 2, 1))
        yield from (allb if th else L.sample(rng, allb, 60))
    # 3x3: the smallest board with passable gates; numbers that fit a direction of travel, and numbers that do not
    yield from _cross3_ordered(rng, 400 if th else 110, 150 if th else 40)
    yield from _cross3(rng, 200 if th else 40)
    for nb in (0, 1, 2, 3):
        yield from _boards(3, 3, rng, nb, 4, 30 if th else 6)
    yield from _planted(3, 3, rng, 120 if th else 40)
    # 3x4 / 4x3: gates of length 2, gates on the edge, several loops to choose from; boards built around a loop
    for (h, w) in [(3, 4), (4, 3)]:
        yield from _planted(h, w, rng, 40 if th else 10)
        for nb in (1, 2, 3):
            yield from _boards(h, w, rng, nb, 4, 8 if th else 2)
    for (h, w) in [(2, 5), (5, 2), (2, 6), (1, 6), (6, 1)]:
        yield from _boards(h, w, rng, rng.randint(0, 2), 3, 6 if th else 2)


def tier2(tier, rng):
    th = tier == "thorough"
    for (h, w) in [(1, 1), (1, 2), (2, 1)]:
        yield from L.sample(rng, list(_all_small(h, w, 2, 1)), 12 if th else 4)
    allb = list(_all_small(2, 2, 1, 1))
    yield _mk(2, 2, (0, 0), [[0, 0], [0, 0]], [])
    yield from L.sample(rng, allb, 12 if th else 3)


SAMPLE = {  # the instance of _main (https://puzsq.jp/main/puzzle_play.php?pid=9522)
    "h": 10, "w": 10, "origin": [5, 1], "extra_black": [(9, 2)],
    "gates": [[1, 5, 0, 3, -1], [2, 3, 0, 1, -1], [3, 8, 0, 1, 1], [6, 3, 0, 4, 3], [7, 1, 0, 1, -1], [8, 6, 0, 4, 2]],
}


def _instantiate(h, w, extra_black, gates):
    """is_black of a board given by its free black cells and gates (what instantiate_problem computes)"""
    bl = [[0] * w for _ in range(h)]
    for (y, x) in extra_black:
        bl[y][x] = 1
    for (y, x, d, l, n) in gates:
        ends = [(y, x - 1), (y, x + l)] if d == 0 else [(y - 1, x), (y + l, x)]
        for (ey, ex) in ends:
            if 0 <= ey < h and 0 <= ex < w:
                bl[ey][ex] = 1
    return bl


def big(tier, rng):
    """boards too large for the candidate enumeration: (a) 3 x n ring boards (n in 8..25, both orientations) with up to 12
    one-cell gates, numbered consistently with one direction of travel (exactly one solution: the ring) or with one
    wrong number (no solution); (b) 4x4 .. 5x6 boards built around a random loop, with gates of length 1..5 across it, whose complete solution list is
    computed by an independent brute force over all loops through the start (planted = all of them, n_solutions);
    (c) the 10x10 instance of the module's _main."""
    th = tier == "thorough"
    for n in (L.LONG if th else L.sample(rng, L.LONG, 3)) + [8, 11]:
        for consistent in (True, False):
            yield _ring_problem(n, rng, consistent, False)
            yield _ring_problem(n, rng, consistent, True)
    shapes = [(4, 4), (4, 5), (5, 4), (5, 5), (3, 6), (6, 3), (4, 6), (6, 4), (5, 6)]
    made = 0
    want = 40 if th else 14
    tries = 0
    while made < want and tries < 2000:
        tries += 1
        (h, w) = rng.choice(shapes)
        pb = _planted_board(h, w, rng)
        if pb is None or (len(pb["gates"]) < 2 and rng.random() < 0.9):
            continue
        if pb["gates"] and rng.random() < 0.25:
            # a wrong / out-of-range number on one gate (usually leaves no solution)
            g = rng.choice(pb["gates"])
            g[4] = rng.randint(1, len(pb["gates"]) + 1)
        try:
            sols = _all_solutions(pb)
        except OverflowError:
            continue
        pb["planted"] = sols[:40]
        pb["n_solutions"] = len(sols)
        made += 1
        yield pb
    # numbered LONG gates (two or more cells): the number has to bind whichever cell of the gate the loop crosses; boards
    # with at least three gates, every long gate numbered at random (consistent with some loop or not)
    made, tries = 0, 0
    while made < (30 if th else 10) and tries < 3000:
        tries += 1
        (h, w) = rng.choice(shapes)
        pb = _planted_board(h, w, rng)
        if pb is None or len(pb["gates"]) < 3 or not any(g[3] >= 2 for g in pb["gates"]):
            continue
        for g in pb["gates"]:
            if g[3] >= 2:
                g[4] = rng.randint(1, len(pb["gates"]))
        try:
            sols = _all_solutions(pb)
        except OverflowError:
            continue
        pb["planted"] = sols[:40]
        pb["n_solutions"] = len(sols)
        made += 1
        yield pb
    s = SAMPLE
    bl = _instantiate(s["h"], s["w"], s["extra_black"], s["gates"])
    pb = {"h": s["h"], "w": s["w"], "origin": s["origin"], "black": bl, "gates": s["gates"]}
    assert _wf(pb)
    yield pb


# ---------------------------------------------------------------- Tier 1: program-capture tie

TIER1 = ("Slalom", "solve_slalom_model")
TIER1_PRIM = ("SlalomPrim", "solve_slalom_model_prim")


def _raw(h, w, origin, bl, gates):
    return {"h": h, "w": w, "origin": list(origin), "black": [list(r) for r in bl], "gates": [list(g) for g in gates]}


def _random_raw(h, w, rng, ngates, fit=True):
    """any board: random black cells, random gates (overlapping, through the start, over black cells, ends anywhere,
    lengths 0 .. the space left (one more when not fit), numbers -1, 0, 1 .. G + 2, 17), random start"""
    bl = [[1 if rng.random() < 0.25 else 0 for _ in range(w)] for _ in range(h)]
    gates = []
    for _ in range(ngates):
        y, x, d = rng.randrange(h), rng.randrange(w), rng.randrange(2)
        room = (w - x) if d == 0 else (h - y)
        l = rng.randint(0, room) if fit else room + 1
        gates.append([y, x, d, l, rng.choice([-1, -1, 0, 17] + list(range(1, ngates + 3)))])
    return _raw(h, w, (rng.randrange(h), rng.randrange(w)), bl, gates)


def tier1_problems(tier, rng):
    """program-capture tie: every board in the format on the grids with <= 4 cells and a sample on those with 5..6 cells
    (both orientations), the 3x3 boards with the black centre (all gate subsets / numberings / starts, sampled), random
    boards in the format up to 7x7 (1xN, Nx1, 2xN included), ~100 random boards OUTSIDE the format (overlapping gates, gates
    through the start or over black cells, open gate ends, empty and negative-length gates, numbers 0, G + 1, G + 2, 17),
    and malformed problems: height <= 0 or width <= 0 (ValueError), gate cells or the start beyond the last row / column
    (IndexError), trailing cells / rows of is_black missing (IndexError)"""
    th = tier == "thorough"
    for (h, w) in [(1, 1), (1, 2), (2, 1), (1, 3), (3, 1), (2, 2)]:
        yield from _all_small(h, w, 2, 2)
    for (h, w) in [(1, 4), (4, 1), (1, 5), (5, 1), (2, 3), (3, 2), (1, 6), (6, 1)]:
        yield from L.sample(rng, list(_all_small(h, w, 2, 1)), 150 if th else 30)
    yield from _cross3(rng, 300 if th else 40)
    shapes = [(3, 3), (2, 4), (4, 2), (2, 5), (5, 2), (3, 4), (4, 3), (4, 4), (3, 6), (6, 3), (5, 5), (4, 6), (6, 5),
              (7, 7), (1, 7), (7, 1), (1, 9), (8, 1), (2, 7), (7, 2)]
    for (h, w) in shapes:
        for nb in ([0, 2, 5] * (3 if th else 1)):
            yield from _boards(h, w, rng, nb, 6, 1)
        for _ in range(3 if th else 1):
            pb = _planted_board(h, w, rng) if h >= 2 and w >= 2 else None
            if pb is not None:
                yield pb
    for (h, w) in shapes + [(1, 1), (1, 2), (2, 1), (2, 2), (1, 3), (2, 3)]:
        for ng in ([0, 1, 3, 6] * (2 if th else 1)):
            yield _random_raw(h, w, rng, ng)
    # empty / negative-length gates
    yield _raw(2, 2, (0, 0), [[0, 0], [0, 0]], [[0, 0, 0, 0, -1]])
    yield _raw(2, 3, (1, 1), [[0, 0, 1], [0, 0, 0]], [[0, 1, 1, -2, 1], [1, 2, 0, 0, 2]])
    yield _raw(3, 3, (0, 0), [[0, 0, 0], [0, 1, 0], [0, 0, 0]], [[1, 0, 0, 1, 1], [1, 0, 0, 1, 2], [1, 2, 0, 1, -1]])
    # malformed: no row or no column -> ValueError (Array2D.__init__ for the frame)
    for (h, w) in [(0, 0), (0, 1), (1, 0), (0, 3), (3, 0), (0, 6), (5, 0), (-1, 0), (0, -1), (-1, 2), (2, -1), (-3, 1),
                   (1, -2), (-2, 0), (0, -4)]:
        yield _raw(h, w, (0, 0), [[0] * max(w, 0) for _ in range(max(h, 0))], [])
    # malformed: a gate leaves the board / the start is off the board -> IndexError
    for (h, w) in [(1, 1), (1, 3), (2, 2), (3, 2), (3, 3), (4, 4), (2, 6)]:
        yield _random_raw(h, w, rng, 1, fit=False)
        yield _random_raw(h, w, rng, 3, fit=False)
        pb = _random_raw(h, w, rng, 2)
        pb["origin"] = [h, 0]
        yield pb
        pb = _random_raw(h, w, rng, 1)
        pb["origin"] = [0, w]
        yield pb
        pb = _random_raw(h, w, rng, 0)
        pb["origin"] = [h + 1, w + 2]
        yield pb
    # malformed: trailing cells / rows of is_black missing -> IndexError
    for (h, w) in [(1, 1), (1, 3), (2, 2), (3, 2), (4, 4)]:
        pb = _random_raw(h, w, rng, 2)
        g = pb["black"]
        yield dict(pb, black=g[:-1] + [g[-1][:-1]])
        yield dict(pb, black=g[:-1])
        yield dict(pb, black=[])
