(* C19 — model of cspuz/generator/core.py::generate_problem as a state machine.
   No proofs in this file.

   The callbacks are Section variables.  They may be stateful in Python; the
   model threads an abstract world state W through every callback call, in the
   order generate_problem makes the calls.  Callbacks are assumed not to raise,
   not to draw from srandom and not to modify the problem they are given.

   The acceptance test
       srandom.random() < math.exp((next_score - current_score) / temperature)
   is floating point arithmetic; it is modelled as the Section variable
   `accept step current next x`, where x is the raw 32-bit word behind
   srandom.random() and `step` determines the temperature
   (initial_temperature * temperature_decay^step, by repeated multiplication).
   Soundness and locality do not depend on it; the extracted runner instantiates
   it with the same IEEE operations (harness/pC19.py, TRUSTED).

   `for step in range(max_steps)` is structural recursion on max_steps: no
   artificial fuel besides the one of randint's rejection loop. *)
From Coq Require Import ZArith List Bool.
From Cspuz Require Import Lib.PyErr Generator.XorShift.
Import ListNotations.
Open Scope Z_scope.

Section Anneal.
  Variables P A W : Type.
  Variable solver : P -> W -> option A * W.          (* is_sat, *answer = solver(problem) *)
  Variable uniqueness : A -> W -> bool * W.
  Variable score : A -> W -> Z * W.
  Variable pretest : option (P -> W -> bool * W).
  Variable clue_penalty : option (P -> W -> Z * W).
  Variable accept : nat -> Z -> Z -> Z -> bool.
  Variable neighbours : P -> R (list P).              (* neighbor_generator(problem), materialised *)

  (* what happened to one callback-visible event, for the tie *)
  Inductive event :=
    | EvSolve (p : P) (sat : bool).

  Record env := mkenv { e_world : W; e_rng : xs; e_trace : list event }.

  Inductive inner :=
    | Found (p : P) (e : env)                         (* return next_problem *)
    | Moved (p : P) (sc : Z) (e : env)                (* problem = next_problem; break *)
    | Exhausted (e : env).                            (* the for loop ran to its end *)

  Definition penalty_of (p : P) (w : W) : Z * W :=
    match clue_penalty with
    | None => (0, w)
    | Some f => f p w
    end.

  (* the loop  for next_problem in neighbor_generator(problem): ... *)
  Fixpoint try_neighbours (step : nat) (cs : option Z) (ns : list P) (e : env) : inner :=
    match ns with
    | [] => Exhausted e
    | q :: rest =>
        let '(pass, w1) := match pretest with
                           | None => (true, e_world e)
                           | Some f => f q (e_world e)
                           end in
        if negb pass then try_neighbours step cs rest (mkenv w1 (e_rng e) (e_trace e)) else
        let '(r, w2) := solver q w1 in
        match r with
        | None => try_neighbours step cs rest (mkenv w2 (e_rng e) (e_trace e ++ [EvSolve q false]))
        | Some ans =>
            let tr := e_trace e ++ [EvSolve q true] in
            let '(u, w3) := uniqueness ans w2 in
            if u then Found q (mkenv w3 (e_rng e) tr) else
            let '(base, w4) := score ans w3 in
            let '(pen, w5) := penalty_of q w4 in
            let next_score := base - pen in
            let '(update, s') :=
              match cs with
              | None => (true, e_rng e)
              | Some c => if c <=? next_score then (true, e_rng e)
                          else let '(x, s') := next (e_rng e) in (accept step c next_score x, s')
              end in
            if update then Moved q next_score (mkenv w5 s' tr)
            else try_neighbours step cs rest (mkenv w5 s' tr)
        end
    end.

  (* result of a run: Some p = the returned problem, None = `return None` *)
  Inductive run_result :=
    | Finished (r : option P) (e : env)
    | Failed (err : pyerr)                            (* exception out of the neighbour generator *)
    | Diverged.

  (* for step in range(max_steps) *)
  Fixpoint steps (n : nat) (step : nat) (p : P) (cs : option Z) (e : env) : run_result :=
    match n with
    | O => Finished None e
    | S n' =>
        match neighbours p (e_rng e) with
        | Raise err => Failed err
        | Diverge => Diverged
        | Done ns s1 =>
            match try_neighbours step cs ns (mkenv (e_world e) s1 (e_trace e)) with
            | Found q e' => Finished (Some q) e'
            | Moved q sc e' => steps n' (S step) q (Some sc) e'
            | Exhausted e' => steps n' (S step) p cs e'
            end
        end
    end.

  Definition DEFAULT_MAX_STEPS : nat := Nat.mul 10 100.

  (* generate_problem(solver, builder_pattern=..., max_steps, solve_initial_problem) *)
  Definition generate (initial : P) (max_steps : option nat) (solve_initial : bool)
             (w0 : W) (s0 : xs) : run_result :=
    let n := match max_steps with Some n => n | None => DEFAULT_MAX_STEPS end in
    if solve_initial then
      let '(r, w1) := solver initial w0 in
      match r with
      | None => Finished None (mkenv w1 s0 [EvSolve initial false])
      | Some ans =>
          let '(base, w2) := score ans w1 in
          let '(pen, w3) := penalty_of initial w2 in
          steps n O initial (Some (base - pen)) (mkenv w3 s0 [EvSolve initial true])
      end
    else steps n O initial None (mkenv w0 s0 []).
End Anneal.

Arguments EvSolve {P} p sat.
Arguments mkenv {P W} _ _ _.
Arguments e_world {P W} _.
Arguments e_rng {P W} _.
Arguments e_trace {P W} _.
Arguments Found {P W} p e.
Arguments Moved {P W} p sc e.
Arguments Exhausted {P W} e.
Arguments Finished {P W} r e.
Arguments Failed {P W} err.
Arguments Diverged {P W}.
