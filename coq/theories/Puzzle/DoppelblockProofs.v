(* C11 Tier 1 - doppelblock: for every n >= 2 and all clues, the program posted by
   solve_doppelblock (model Doppelblock.v) admits exactly the grids obeying Rules_doppelblock. *)
From Coq Require Import ZArith List Bool Arith Lia.
From Cspuz Require Import Lib.PyErr Core.Expr Core.Program Puzzle.PuzzleBase Puzzle.SatAbs
     Puzzle.ModelBase Puzzle.ModelLemmas Puzzle.Rules_doppelblock Puzzle.Building Puzzle.BuildingProofs
     Puzzle.Doppelblock.
Import ListNotations.
Local Open Scope nat_scope.

Definition z0 (v : Z) : bool := (v =? 0)%Z.

(* ---- the sum posted by sequence_constraint, on values *)
Fixpoint seq_sem (before : list Z) (rest : list Z) : Z :=
  match rest with
  | [] => 0%Z
  | a :: r => ((if existsb z0 before && existsb z0 r then a else 0) + seq_sem (before ++ [a]) r)%Z
  end.
Fixpoint flag_sem (flag : bool) (rest : list Z) : Z :=
  match rest with
  | [] => 0%Z
  | a :: r => ((if flag && existsb z0 r then a else 0) + flag_sem (flag || z0 a) r)%Z
  end.
Lemma seq_sem_flag : forall rest before, seq_sem before rest = flag_sem (existsb z0 before) rest.
Proof.
  induction rest as [|a r IH]; intros before; [reflexivity|].
  simpl. rewrite IH, existsb_app. simpl. rewrite orb_false_r. reflexivity.
Qed.

Lemma no_zero_existsb l : count z0 l = 0 -> existsb z0 l = false.
Proof.
  unfold count. induction l as [|a r IH]; simpl; [reflexivity|]. destruct (z0 a); simpl; [discriminate|exact IH].
Qed.
Lemma some_zero_existsb l : 1 <= count z0 l -> existsb z0 l = true.
Proof.
  unfold count. induction l as [|a r IH]; simpl; [lia|]. destruct (z0 a); simpl; [reflexivity|exact IH].
Qed.
Lemma flag_sem_none : forall l flag, count z0 l = 0 -> flag_sem flag l = 0%Z.
Proof.
  induction l as [|a r IH]; intros flag H; [reflexivity|].
  unfold count in *. simpl in *. destruct (z0 a) eqn:Za; simpl in H; [discriminate|].
  rewrite (no_zero_existsb r H), andb_false_r, IH by exact H. reflexivity.
Qed.
Lemma flag_sem_one : forall l, count z0 l = 1 -> flag_sem true l = sum_until_zero l.
Proof.
  induction l as [|a r IH]; intros H; [reflexivity|].
  unfold count in *. simpl in *. fold (z0 a). destruct (z0 a) eqn:Za; simpl in H.
  - assert (H0 : count z0 r = 0) by (unfold count; lia).
    rewrite (no_zero_existsb r H0), flag_sem_none by exact H0. reflexivity.
  - rewrite (some_zero_existsb r) by (unfold count; lia). rewrite IH by exact H. reflexivity.
Qed.
Lemma flag_sem_two : forall l, count z0 l = 2 -> flag_sem false l = between_zeros l.
Proof.
  induction l as [|a r IH]; intros H; [reflexivity|].
  unfold count in *. simpl in *. fold (z0 a). destruct (z0 a) eqn:Za; simpl in H.
  - rewrite flag_sem_one by (unfold count; lia). reflexivity.
  - rewrite IH by exact H. reflexivity.
Qed.

Section Sem.
  Variables (n : nat) (en : env).
  Let val (k : nat) : Z := ei en k.

  Lemma eval_cell_is v k : eval no_graph en (cell_is n v k) = Some (VB (val k =? v)%Z).
  Proof. reflexivity. Qed.

  Lemma eval_ct_is ids v :
    eval no_graph en (ct_is n ids v) = Some (VI (Z.of_nat (count (fun z => (z =? v)%Z) (map val ids)))).
  Proof.
    destruct ids as [|i r]; [reflexivity|].
    unfold ct_is. set (l := i :: r).
    assert (Hne : l <> []) by discriminate. clearbody l.
    cbn [eval]. rewrite map_map.
    rewrite (map_ext _ (fun x => Some (VI (if (val x =? v)%Z then 1 else 0)%Z)))
      by (intros x; unfold val; cbn; destruct (ei en x =? v)%Z; reflexivity).
    rewrite <- (map_map (fun x => (if (val x =? v)%Z then 1 else 0)%Z) (fun z => Some (VI z))).
    rewrite eval_iop_add_ints by (destruct l; [contradiction|discriminate]).
    f_equal. f_equal. clear. unfold count, zsum.
    induction l as [|b r IH]; [reflexivity|]. cbn [map fold_right filter].
    destruct (val b =? v)%Z; cbn [length]; rewrite IH; lia.
  Qed.

  Lemma holds_ct_is ids v c :
    holds no_graph en (BNode EQ [ct_is n ids v; PyInt c]) =
    (Z.of_nat (count (fun z => (z =? v)%Z) (map val ids)) =? c)%Z.
  Proof.
    unfold holds. cbn [eval map]. rewrite eval_ct_is. simpl.
    destruct (Z.of_nat (count (fun z => (z =? v)%Z) (map val ids)) =? c)%Z; reflexivity.
  Qed.

  Lemma occurrence_holds ids :
    forallb (holds no_graph en) (occurrence n ids) = line_ok n (map val ids).
  Proof.
    unfold occurrence, line_ok. cbn [forallb]. rewrite holds_ct_is, forallb_map.
    change 2%Z with (Z.of_nat 2). rewrite znat_eqb. f_equal.
    apply forallb_ext_in. intros k _. rewrite holds_ct_is. change 1%Z with (Z.of_nat 1). apply znat_eqb.
  Qed.

  Lemma eval_any_zero ids : eval no_graph en (any_zero n ids) = Some (VB (existsb z0 (map val ids))).
  Proof.
    destruct ids as [|i r]; [reflexivity|]. unfold any_zero. set (l := i :: r). clearbody l.
    cbn [eval]. rewrite map_map. unfold eval_bop.
    rewrite (map_ext _ (fun k => Some (VB (val k =? 0)%Z))) by reflexivity.
    rewrite (all_some_vals (fun k => VB (val k =? 0)%Z)), as_bools_vals. simpl. f_equal. f_equal.
    clear. induction l as [|a r IH]; simpl; [reflexivity|]. rewrite IH. reflexivity.
  Qed.

  Lemma eval_seq_go : forall rest before acc a,
    eval no_graph en acc = Some (VI a) ->
    eval no_graph en (seq_go n before acc rest) = Some (VI (a + seq_sem (map val before) (map val rest))).
  Proof.
    induction rest as [|v r IH]; intros before acc a Ha.
    - simpl. rewrite Ha. f_equal. f_equal. lia.
    - cbn [seq_go map seq_sem].
      rewrite (IH (before ++ [v]) _ (a + (if existsb z0 (map val before) && existsb z0 (map val r) then val v else 0))%Z).
      + rewrite map_app. simpl map. f_equal. f_equal. lia.
      + cbn [eval map]. rewrite Ha.
        change (eval_bop no_graph BOOL_CONSTANT) with (eval_bop no_graph BOOL_CONSTANT).
        pose proof (eval_any_zero before) as E1. pose proof (eval_any_zero r) as E2.
        cbn [eval] in E1, E2. unfold eval_bop at 1. cbn [map]. rewrite E1, E2. cbn -[Z.add].
        destruct (existsb z0 (map val before)), (existsb z0 (map val r)); cbn -[Z.add]; f_equal; f_equal; unfold val; lia.
  Qed.

  Lemma sequence_holds ids c :
    count z0 (map val ids) = 2 ->
    forallb (holds no_graph en) (sequence n ids c) = ((c <? 0)%Z || (between_zeros (map val ids) =? c)%Z).
  Proof.
    intros H2. unfold sequence.
    destruct (Z.leb_spec 0 c); destruct (Z.ltb_spec c 0); try lia; simpl; [|reflexivity].
    rewrite andb_true_r. unfold holds. cbn [eval map].
    rewrite (eval_seq_go ids [] (PyInt 0) 0%Z eq_refl). cbn [map].
    rewrite seq_sem_flag. cbn [existsb]. rewrite flag_sem_two by exact H2.
    rewrite Z.add_0_l. set (k := between_zeros (map val ids)). clearbody k. cbn.
    destruct (k =? c)%Z; reflexivity.
  Qed.
End Sem.

Lemma line_ok_two n l : line_ok n l = true -> count z0 l = 2.
Proof.
  unfold line_ok. intros H. apply andb_true_iff in H. destruct H as [H _]. apply Nat.eqb_eq in H. exact H.
Qed.

Lemma andb_under a b b' : (a = true -> b = b') -> a && b = a && b'.
Proof. destruct a; simpl; auto. Qed.

Lemma doppelblock_core n rows cols en :
  let ans := map (ei en) (seq 0 (n * n)) in
  let rowl := fun y => map (fun x => at2 ans n y x) (seq 0 n) in
  let coll := fun x => map (fun y => at2 ans n y x) (seq 0 n) in
  let ok := fun (clues : list Z) i (line : list Z) =>
              let c := getz clues i in (c <? 0)%Z || (between_zeros line =? c)%Z in
  forallb (fun i => line_ok n (rowl i) && line_ok n (coll i)) (seq 0 n) &&
  forallb (fun i => ok rows i (rowl i) && ok cols i (coll i)) (seq 0 n) =
  satisfies no_graph en (int_grid_state (n * n) 0 (Z.of_nat n - 2) (doppelblock_constraints n rows cols)).
Proof.
  intros ans rowl coll ok.
  assert (Hat : forall y x, y < n -> x < n -> at2 ans n y x = ei en (y * n + x)).
  { intros y x Hy Hx. unfold at2, ans. apply getz_map_seq. apply cell_lt; assumption. }
  assert (Hrow : forall y, y < n -> rowl y = map (ei en) (row_ids n y)).
  { intros y Hy. unfold rowl, row_ids. rewrite map_map. apply map_ext_in. intros x Hx. apply in_seq in Hx.
    apply Hat; lia. }
  assert (Hcol : forall x, x < n -> coll x = map (ei en) (col_ids n x)).
  { intros x Hx. unfold coll, col_ids. rewrite map_map. apply map_ext_in. intros y Hy. apply in_seq in Hy.
    apply Hat; lia. }
  unfold satisfies, int_grid_state, doppelblock_constraints. cbn [Program.cons].
  rewrite forallb_flat_map.
  transitivity (forallb (fun i => (line_ok n (rowl i) && line_ok n (coll i)) && (ok rows i (rowl i) && ok cols i (coll i))) (seq 0 n)).
  - symmetry. apply (forallb_and (fun i => line_ok n (rowl i) && line_ok n (coll i))
                                  (fun i => ok rows i (rowl i) && ok cols i (coll i))).
  - symmetry. apply forallb_ext_in. intros i Hi. apply in_seq in Hi. rewrite !forallb_app, !occurrence_holds, <- Hrow, <- Hcol by lia.
    rewrite andb_assoc. apply andb_under. intros HL. apply andb_true_iff in HL. destruct HL as [L1 L2].
    rewrite !sequence_holds.
    + rewrite <- Hrow, <- Hcol by lia. reflexivity.
    + rewrite <- Hcol by lia. apply (line_ok_two n). exact L2.
    + rewrite <- Hrow by lia. apply (line_ok_two n). exact L1.
Qed.

Theorem doppelblock_exact n rows cols st ans :
  solve_doppelblock_model [[Z.of_nat n]; rows; cols] = Ok st ->
  ((exists en, model_of no_graph en st /\ reads st en (seq 0 (n * n)) = ans)
   <-> rules_doppelblock [[Z.of_nat n]; rows; cols] ans = true).
Proof.
  unfold solve_doppelblock_model, rules_doppelblock. rewrite (dims1 n [rows; cols]).
  change (sec [[Z.of_nat n]; rows; cols] 1) with rows. change (sec [[Z.of_nat n]; rows; cols] 2) with cols.
  destruct (Nat.ltb n 2); [discriminate|].
  destruct (Nat.ltb (length rows) n || Nat.ltb (length cols) n); [discriminate|].
  intros H. inversion H; subst st; clear H.
  set (st := int_grid_state (n * n) 0 (Z.of_nat n - 2) (doppelblock_constraints n rows cols)).
  assert (Hdom : forall en, in_bounds en st =
            forallb (fun v => (0 <=? v)%Z && (v <=? Z.of_nat n - 2)%Z) (map (ei en) (seq 0 (n * n)))).
  { intros en. unfold in_bounds, st, int_grid_state. cbn [vars]. rewrite in_bounds_from_repeat_int, forallb_map. reflexivity. }
  split.
  - intros [en [[Hb Hs] Hr]]. unfold st in Hr. rewrite reads_int_grid in Hr. subst ans.
    rewrite map_length, seq_length, Nat.eqb_refl. rewrite <- Hdom, Hb. simpl andb.
    rewrite <- Hs. exact (doppelblock_core n rows cols en).
  - intros Hr. rewrite <- !andb_assoc in Hr.
    apply andb_true_iff in Hr. destruct Hr as [Hl Hr]. apply Nat.eqb_eq in Hl.
    apply andb_true_iff in Hr. destruct Hr as [Hd Hr].
    set (en := {| eb := fun _ => false; ei := getz ans |}).
    assert (Ha : map (ei en) (seq 0 (n * n)) = ans) by (rewrite <- Hl; apply map_getz_seq).
    assert (Hb : in_bounds en st = true) by (rewrite Hdom, Ha; exact Hd).
    exists en. split; [split; [exact Hb|]|unfold st; rewrite reads_int_grid; exact Ha].
    pose proof (doppelblock_core n rows cols en) as BC. cbv zeta in BC. rewrite Ha in BC.
    cbv zeta in Hr. rewrite Hr in BC. symmetry. exact BC.
Qed.
