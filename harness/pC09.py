"""C09 — active_edges_acyclic admits exactly the forests."""
import itertools

import exprio
import graphcap
import graphforms
import vlib

PROPS = "Props/C09.v"
RULE = ("tie P (program capture): for every graph x flag-form case the program really posted by "
        "cspuz.graph.active_edges_acyclic on a Solver that already holds caller variables/constraints is compared "
        "verbatim (declarations, answer keys, constraints in posting order) with the program of the extracted Coq "
        "model post_acyclic; error cases compare the exception class.  A case is non-trivial when it is a distinct "
        "(graph, flag form, flag list) triple.  Graphs: all loop-free multigraphs with <= 4 vertices and <= 5 edges "
        "(incl. parallel edges) in canonical and in shuffled/flipped edge order, small graphs with self-loops, random "
        "multigraphs up to 9 vertices, grid graphs, the 0-vertex graph; flag forms: BoolArray1D, list of variables, "
        "~v, v&w, v|w, Python True/False, shared variables, mixed, and a malformed stream (short list, int / IntExpr / "
        "None entries, over-long list).  search: satisfiability (z3) of the really posted program with the edge "
        "pattern fixed vs the independent union-find oracle graphcap.edges_form_forest, for every pattern of every "
        "small multigraph and for tree-biased patterns of random larger ones; the Coq specification (forest_b, "
        "uf_forest) is validated against the same oracle; z3 models are re-checked by the Coq certificate checker and "
        "the Coq rank construction is replayed on the real program.  "
        "Hardened input classes (tie and search): graph forms (edges stored (larger, smaller), shuffled order, cycles stored "
        "head-to-tail, parallel bundles) and structured instances with 6-10 vertices (two disjoint cycles, K5/K6/K33, wheels, "
        "prisms, Petersen, long paths / cycles, 7-vertex graphs with n+3..n+6 edges; graphforms.py) with forest-biased and "
        "cycle-targeted edge subsets; flags as Python True/False spelling out a targeted subset (a forest plus one edge) mixed "
        "with expressions; tuple / BoolArray1D containers of every flag form, all arguments by keyword; one-shot iterables "
        "(generator, iter, map, reversed, zip) -- refused with TypeError or the program of the materialised list; histories: "
        "two calls on one Solver with the same Graph object and flag list, the Graph extended by the caller in between, "
        "flag list and Graph unchanged after every call.")
TRUSTED = [
    "reading of the property: 'contain no cycle' = every active edge is a bridge of the active-edge subgraph "
    "(Graph/Acyclic.v::forest); validated on every run against a union-find oracle written independently in Python "
    "(graphcap.edges_form_forest) and against the Coq union-find uf_forest",
    "Core/Expr.v::eval as the meaning of the posted trees (n-ary ADD, IF, LT/NE/LE, binary AND); z3 (search only) "
    "as the decision procedure for the really posted program",
    "exprio.py / exprio.ml serialisation of trees and solver states used by the capture comparison",
]
ASSUMPTIONS = [
    "graph is a cspuz.graph.Graph built with add_edge on vertices 0..n-1 (endpoints < n), no self-loops (the "
    "property text says loop-free; a self-loop is silently ignored by the encoding)",
    "n >= 1 (n = 0 raises ValueError from int_array; the model and the check agree on that)",
    "every edge flag is a BoolExpr / Python bool over the caller's variables; is_active_edge has at least "
    "len(graph.edges) entries",
]

ERR = {1: "IndexError", 2: "KeyError", 3: "AssertionError", 4: "TypeError", 5: "ValueError",
       6: "RecursionError", 7: "NotImplementedError", 8: "Other"}


# ---------------------------------------------------------------- flag forms

FORMS = ["array", "vars", "neg", "and", "or", "const", "shared", "mixed"]
BAD_FORMS = ["short", "int", "intexpr", "none", "long"]


def make_flags(s, m, form, rng):
    """returns (is_active_edge argument, list of flag trees as passed)"""
    from cspuz.array import BoolArray1D
    if form == "array":
        arr = s.bool_array(m)
        return arr, list(arr.data)
    if form == "vars":
        fl = [s.bool_var() for _ in range(m)]
        return fl, fl
    if form == "neg":
        fl = [~s.bool_var() for _ in range(m)]
        return fl, fl
    if form == "and":
        fl = [s.bool_var() & s.bool_var() for _ in range(m)]
        return fl, fl
    if form == "or":
        fl = [s.bool_var() | ~s.bool_var() for _ in range(m)]
        return fl, fl
    if form == "const":
        fl = [rng.random() < 0.6 for _ in range(m)]
        return fl, fl
    if form == "shared":
        pool = [s.bool_var() for _ in range(max(1, (m + 1) // 2))]
        fl = [pool[rng.randrange(len(pool))] for _ in range(m)]
        return fl, fl
    if form == "mixed":
        pool = [s.bool_var() for _ in range(m + 1)]
        fl = []
        for _ in range(m):
            c = rng.randrange(7)
            v, w = pool[rng.randrange(len(pool))], pool[rng.randrange(len(pool))]
            fl.append([v, ~v, v & w, v | w, True, False, (v == w) & ~(v ^ w)][c])
        if rng.random() < 0.3:
            return tuple(fl), fl
        return fl, fl
    # malformed stream
    base = [s.bool_var() for _ in range(m)]
    if form == "short":
        fl = base[:rng.randrange(m)] if m else base
        return fl, fl
    if form == "long":
        fl = base + [s.bool_var(), True]
        return fl, fl
    k = rng.randrange(m) if m else 0
    if form == "int":
        bad = rng.choice([0, 1, 7])
    elif form == "intexpr":
        bad = s.int_var(0, 3) if rng.random() < 0.5 else (s.int_var(0, 3) + 1)
    else:
        bad = None
    fl = list(base)
    if m:
        fl[k] = bad
    return fl, fl


def pre_state(s, rng, style):
    """put caller-side variables / constraints / answer keys into the solver first."""
    if style == 0:
        return
    a = s.bool_var()
    if style >= 2:
        x = s.int_var(-2, 5)
        s.ensure(a | (x > 0))
        s.add_answer_key(a)


def run_case(ctx, m, n, edges, form, style, reqs, metas, cont="asis", kw=False):
    """cont: the container handed to the function -- 'asis' (what make_flags built), 'tuple', 'array1d', or a one-shot
    iterable kind of graphforms.ONESHOT (the model always sees the materialised list); kw: all arguments by keyword"""
    from cspuz.array import BoolArray1D
    from cspuz.graph import Graph, active_edges_acyclic
    from cspuz import Solver
    s = Solver()
    pre_state(s, ctx.rng, style)
    arg, trees = make_flags(s, len(edges), form, ctx.rng)
    if cont == "tuple":
        arg = tuple(trees)
    elif cont == "array1d":
        arg = BoolArray1D(list(trees))
    elif cont in graphforms.ONESHOT:
        arg = graphforms.oneshot(cont, trees)
    g = Graph(n)
    for (a, b) in edges:
        g.add_edge(a, b)
    pre = exprio.show_state(s)
    ftok = exprio.show_list(trees)
    if kw:
        r = vlib.guarded(lambda: active_edges_acyclic(solver=s, is_active_edge=arg, graph=g))
    else:
        r = vlib.guarded(active_edges_acyclic, s, arg, g)
    if r[0] == "ok" and r[1] is not None:
        r = ("ok-but-returns", type(r[1]).__name__)
    impl = ("ok", exprio.show_state(s)) if r[0] == "ok" else r
    reqs.append("P %s S %s L %s" % (graphcap.graph_tok(n, edges), pre, ftok))
    metas.append((n, tuple(edges), form, style, ftok, impl, cont, kw))


def graph_snapshot(g):
    return (g.num_vertices, list(g.edges), [list(l) for l in g.incident_edges])


def run_history(ctx, n, edges, form, mode, style, reqs, metas, side):
    """two calls on the same Solver with the same Graph object and the same flag list ('same'), or with an edge added to
    the Graph and a flag appended to the list by the caller in between ('extend'); the second request starts from the
    state the first call left.  After every call the flag list and the Graph must be what the caller passed."""
    from cspuz.graph import active_edges_acyclic
    from cspuz import Solver
    rng = ctx.rng
    s = Solver()
    pre_state(s, rng, style)
    arg, trees = make_flags(s, len(edges), form, rng)
    flags = list(trees)
    edges = list(edges)
    g = graphcap.mk_graph(n, edges)
    for step in ("first", "second"):
        pre = exprio.show_state(s)
        ftok = exprio.show_list(flags)
        snap_f, snap_g = list(flags), graph_snapshot(g)
        r = vlib.guarded(active_edges_acyclic, s, flags, g)
        impl = ("ok", exprio.show_state(s)) if r[0] == "ok" else r
        reqs.append("P %s S %s L %s" % (graphcap.graph_tok(n, edges), pre, ftok))
        metas.append((n, tuple(edges), form, style, ftok, impl, "history-%s-%s" % (mode, step), False))
        same = (len(flags) == len(snap_f) and all(a is b for a, b in zip(flags, snap_f)) and graph_snapshot(g) == snap_g
                and snap_g == graph_snapshot(graphcap.mk_graph(n, edges)))
        side.append(("args-unchanged", (mode, step, n, tuple(edges), form), "unchanged",
                     "unchanged" if same else "flag list or Graph modified by the call"))
        if r[0] != "ok":
            return
        if step == "first" and mode == "extend" and n >= 2:
            a = rng.randrange(n)
            b = (a + 1 + rng.randrange(n - 1)) % n
            if rng.random() < 0.5:
                a, b = b, a
            g.add_edge(a, b)
            edges.append((a, b))
            flags.append(s.bool_var() if form != "const" else True)


def parse_post(o):
    if o.startswith("E "):
        return ("err", ERR[int(o.split()[1])])
    return ("ok", o)


def shuffled(rng, edges):
    es = [(b, a) if rng.random() < 0.5 else (a, b) for (a, b) in edges]
    rng.shuffle(es)
    return es


def corr_graphs(ctx):
    rng = ctx.rng
    # exhaustive small loop-free multigraphs (canonical order and a shuffled/flipped copy)
    for n, es in graphcap.all_multigraphs(4, 5):
        yield "small", n, es
        if len(es) >= 1:
            yield "small-shuffled", n, shuffled(rng, es)
    # self-loops are outside the property but inside the model
    for n, es in graphcap.all_multigraphs(3, 3, loops=True):
        if any(a == b for a, b in es):
            yield "loops", n, shuffled(rng, es)
    for _ in range(400 if ctx.thorough else 80):
        n, es = graphcap.random_multigraph(rng, 9)
        yield "random", n, es
    for _ in range(60 if ctx.thorough else 15):
        n, es = graphcap.random_multigraph(rng, 6, loops=True)
        yield "random-loops", n, es
    for h, w in graphcap.grid_shapes(20 if ctx.thorough else 12):
        yield "grid", h * w, graphcap.grid_edges(h, w)
    # structured instances beyond the exhaustive scope, as given and with shuffled order / flipped endpoints
    for (k, n, es) in graphforms.structured(rng, loops=True):
        yield "structured", n, es
        yield "structured", n, graphforms.shuffled(rng, es)
    for m in (0, 1, 2):
        yield "zero-vertices", 0, []


def correspond(ctx):
    m = ctx.model("C09")
    rng = ctx.rng
    reqs, metas = [], []
    for kind, n, es in corr_graphs(ctx):
        if kind in ("small", "small-shuffled"):
            forms = [FORMS[(len(es) + n) % 2], rng.choice(FORMS[2:]), "mixed"]
            if rng.random() < 0.35:
                forms.append(rng.choice(BAD_FORMS))
        elif kind == "zero-vertices":
            forms = ["vars", "const"]
        else:
            forms = FORMS + [rng.choice(BAD_FORMS)]
        for form in forms:
            ctx.count("graphs:" + kind)
            ctx.count("form:" + form)
            run_case(ctx, m, n, es, form, rng.randrange(3), reqs, metas)
        # containers and call forms: tuple / BoolArray1D of any flag form, every argument by keyword, one-shot iterables
        if kind != "zero-vertices":
            form = rng.choice(FORMS[1:])
            cont = rng.choice(["tuple", "array1d"])
            ctx.count("container:" + cont)
            run_case(ctx, m, n, es, form, rng.randrange(3), reqs, metas, cont=cont, kw=rng.random() < 0.5)
            if kind not in ("small", "small-shuffled") or rng.random() < 0.3:
                cont = rng.choice(graphforms.ONESHOT)
                ctx.count("container:oneshot:" + cont)
                run_case(ctx, m, n, es, rng.choice(FORMS[1:]), 0, reqs, metas, cont=cont, kw=rng.random() < 0.3)
    # histories: the same Solver / Graph object / flag list used for two calls
    side = []
    hist = [(k, n, es) for (k, n, es) in corr_graphs(ctx) if k in ("small-shuffled", "random", "structured", "grid", "loops")]
    for (k, n, es) in hist[::(3 if ctx.thorough else 6)]:
        mode = rng.choice(["same", "extend", "extend"])
        ctx.count("history:" + mode)
        run_history(ctx, n, es, rng.choice(["vars", "vars", "mixed", "const", "neg", "shared"]), mode, rng.randrange(3), reqs, metas, side)
    outs = m.batch(reqs)
    for (n, es, form, style, ftok, impl, cont, kw), o in zip(metas, outs):
        mo = parse_post(o)
        if cont in graphforms.ONESHOT and impl == ("err", "TypeError"):
            ctx.count("container:oneshot:refused(TypeError)")
            impl = mo        # refusing a one-shot iterable is allowed; anything else must equal the list form
        if mo[0] == "err" or impl[0] == "err":
            ctx.count("outcome:" + (impl[1] if impl[0] == "err" else "ok-vs-model-err"))
        kindname = "posted-program" if cont == "asis" else ("posted-program:" + (cont if not cont.startswith("history") else cont.rsplit("-", 1)[0]))
        ctx.corr(kindname, (n, es, form, style, ftok, cont, kw), mo, impl)
    for (kind, info, want, got) in side:
        ctx.corr(kind, info, want, got)


# ---------------------------------------------------------------- search

def key_of(n, edges, pat):
    return "acyclic:n=%d:e=%s:p=%s" % (n, ",".join("%d-%d" % e for e in edges), "".join("1" if b else "0" for b in pat))


def z3_term(e, zv):
    """ordinary meaning of a posted tree as a z3 term (written here so that the search does not depend on
    cspuz.backend.z3, whose handling of constant nodes is the subject of C01)."""
    import z3
    from cspuz.expr import BoolVar, IntVar, Op
    if e is True or e is False:
        return z3.BoolVal(e)
    if isinstance(e, int):
        return z3.IntVal(e)
    if isinstance(e, (BoolVar, IntVar)):
        return zv[e.id]
    a = [z3_term(x, zv) for x in e.operands]
    o = e.op
    if o in (Op.BOOL_CONSTANT, Op.INT_CONSTANT):
        return a[0]
    if o == Op.NEG:
        return -a[0]
    if o == Op.ADD:
        return z3.Sum(a) if len(a) > 1 else a[0]
    if o == Op.SUB:
        r = a[0]
        for x in a[1:]:
            r = r - x
        return r
    if o == Op.EQ:
        return a[0] == a[1]
    if o == Op.NE:
        return a[0] != a[1]
    if o == Op.LE:
        return a[0] <= a[1]
    if o == Op.LT:
        return a[0] < a[1]
    if o == Op.GE:
        return a[0] >= a[1]
    if o == Op.GT:
        return a[0] > a[1]
    if o == Op.NOT:
        return z3.Not(a[0])
    if o == Op.AND:
        return z3.And(a) if a else z3.BoolVal(True)
    if o == Op.OR:
        return z3.Or(a) if a else z3.BoolVal(False)
    if o == Op.IFF:
        return a[0] == a[1]
    if o == Op.XOR:
        return z3.Xor(a[0], a[1])
    if o == Op.IMP:
        return z3.Implies(a[0], a[1])
    if o == Op.IF:
        return z3.If(a[0], a[1], a[2])
    if o == Op.ALLDIFF:
        return z3.Distinct(a) if len(a) > 1 else z3.BoolVal(True)
    raise ValueError("operator %s cannot be decided offline" % o)


def z3_session(solver):
    """check(fixed, want_model) over the program held by `solver` (same interface as graphcap.z3_session)."""
    import z3
    from cspuz.expr import BoolVar
    zv = {}
    zs = z3.Solver()
    for var in solver.variables:
        if isinstance(var, BoolVar):
            zv[var.id] = z3.Bool("b%d" % var.id)
        else:
            zv[var.id] = z3.Int("i%d" % var.id)
            zs.add(var.lo <= zv[var.id], zv[var.id] <= var.hi)
    for c in solver.constraints:
        zs.add(z3_term(c, zv))

    def check(fixed, want_model=False):
        zs.push()
        for v, val in fixed:
            if isinstance(v, BoolVar):
                zs.add(zv[v.id] if val else z3.Not(zv[v.id]))
            else:
                zs.add(zv[v.id] == val)
        r = zs.check() == z3.sat
        model = None
        if r and want_model:
            mm = zs.model()
            model = {}
            for var in solver.variables:
                val = mm.eval(zv[var.id], model_completion=True)
                model[var.id] = z3.is_true(val) if isinstance(var, BoolVar) else val.as_long()
        zs.pop()
        return (r, model) if want_model else r
    return check


def posted(n, edges):
    """the program really posted for flags = fresh variables"""
    from cspuz.graph import Graph, active_edges_acyclic
    from cspuz import Solver
    s = Solver()
    fl = [s.bool_var() for _ in range(len(edges))]
    g = graphcap.mk_graph(n, edges)
    active_edges_acyclic(s, fl, g)
    return s, fl


def tree_biased_patterns(rng, n, edges, count):
    m = len(edges)
    out = set()
    for _ in range(count):
        # random spanning forest by union-find over a random edge order, then perturb
        order = list(range(m))
        rng.shuffle(order)
        parent = list(range(n))

        def find(x):
            while parent[x] != x:
                x = parent[x]
            return x
        pat = [False] * m
        for k in order:
            a, b = edges[k]
            ra, rb = find(a), find(b)
            if ra != rb and rng.random() < 0.85:
                parent[ra] = rb
                pat[k] = True
        c = rng.random()
        if c < 0.5 and m:
            k = rng.randrange(m)
            pat[k] = not pat[k]
        elif c < 0.6 and m:
            for k in rng.sample(range(m), min(m, 2)):
                pat[k] = True
        out.add(tuple(pat))
    return sorted(out)


def search_graphs(ctx):
    rng = ctx.rng
    for n, es in graphcap.all_multigraphs(4, 5):
        yield "small", n, es, None
    # 5 vertices: all graphs with few edges, sampled beyond
    lim5 = 5 if (ctx.thorough or ctx.deep) else 4
    for n, es in graphcap.all_multigraphs(5, lim5):
        if n == 5:
            yield "five", n, es, None
    if ctx.thorough:
        for n, es in graphcap.all_multigraphs(6, 4):
            if n == 6:
                yield "six", n, es, None
    for _ in range(300 if ctx.thorough else (120 if ctx.deep else 60)):
        n, es = graphcap.random_multigraph(rng, 9)
        if len(es) <= 6:
            yield "random", n, es, None
        else:
            yield "random", n, es, tree_biased_patterns(rng, n, es, 24)
    # dense graphs need many distinct ranks: complete graphs, wheels, doubled cycles
    for n in range(3, 9 if (ctx.thorough or ctx.deep) else 8):
        es = [(a, b) for a in range(n) for b in range(a + 1, n)]
        yield "complete", n, es, (None if len(es) <= 6 else tree_biased_patterns(rng, n, es, 30))
        cyc = [(i, (i + 1) % n) for i in range(n)]
        dbl = cyc + [(b, a) for (a, b) in cyc]
        yield "doubled-cycle", n, dbl, (None if len(dbl) <= 8 else tree_biased_patterns(rng, n, dbl, 30))
    for h, w in [(2, 2), (2, 3), (3, 3), (2, 4), (1, 5), (3, 4)]:
        es = graphcap.grid_edges(h, w)
        yield "grid", h * w, es, (None if len(es) <= 7 else tree_biased_patterns(rng, h * w, es, 40))
    # graph forms: the exhaustive graphs stored with shuffled edge order / flipped endpoints (a sample in quick)
    for n, es in graphcap.all_multigraphs(4, 5):
        if len(es) >= 2 and (ctx.thorough or rng.random() < (0.6 if ctx.deep else 0.3)):
            yield "small-flip", n, graphforms.shuffled(rng, es), None
    # structured instances beyond the exhaustive scope (two disjoint cycles, K5/K6/K33, wheels, prisms, Petersen, bundles,
    # long paths / cycles, 7-vertex graphs with n+3..n+6 edges), cycles stored head-to-tail / (larger, smaller)
    for (k, n, es) in graphforms.structured(rng):
        forms = [es, graphforms.shuffled(rng, es)] if (ctx.thorough or ctx.deep) else [es if rng.random() < 0.5 else graphforms.shuffled(rng, es)]
        for f in forms:
            if len(f) <= 7:
                yield "structured", n, f, None
            else:
                cnt = 60 if ctx.thorough else 35
                yield "structured", n, f, sorted(set(tree_biased_patterns(rng, n, f, cnt)) | set(graphforms.targeted_patterns(rng, n, f, cnt)))


def bool_value(e, val):
    """value of a flag tree under an assignment of the caller's BoolVars (plain Python)"""
    from cspuz.expr import BoolVar, Op
    if e is True or e is False:
        return e
    if isinstance(e, BoolVar):
        return val[e.id]
    a = [bool_value(x, val) for x in e.operands]
    return {Op.NOT: lambda: not a[0], Op.AND: lambda: all(a), Op.OR: lambda: any(a),
            Op.IFF: lambda: a[0] == a[1], Op.XOR: lambda: a[0] != a[1],
            Op.IMP: lambda: (not a[0]) or a[1], Op.BOOL_CONSTANT: lambda: a[0]}[e.op]()


def search_expression_flags(ctx):
    """edge flags given as expressions (~v, v&w, v|w, constants, shared variables): the caller's variables are
    fixed, the pattern is the value of the flags, satisfiability of the posted program must follow the oracle."""
    from cspuz import Solver
    from cspuz.expr import BoolVar
    from cspuz.graph import active_edges_acyclic
    rng = ctx.rng
    graphs = [(n, es) for n, es in graphcap.all_multigraphs(3, 4)]
    graphs += [graphcap.random_multigraph(rng, 7) for _ in range(120 if ctx.thorough else 40)]
    for n, es in graphs:
        for form in ("neg", "and", "or", "const", "shared", "mixed"):
            s = Solver()
            pre_state(s, rng, 1)
            arg, trees = make_flags(s, len(es), form, rng)
            callers = [v for v in s.variables if isinstance(v, BoolVar)]
            r = vlib.guarded(active_edges_acyclic, s, arg, graphcap.mk_graph(n, es))
            if r[0] == "err":
                ctx.violation("acyclic:n=%d:e=%s:%s:raises" % (n, ",".join("%d-%d" % e for e in es), form),
                              "active_edges_acyclic raises on a well-formed call",
                              {"n": n, "edges": es, "flags": exprio.show_list(trees), "error": r[1]})
                continue
            check = z3_session(s)
            for _ in range(6):
                val = {v.id: rng.random() < 0.6 for v in callers}
                pat = [bool_value(t, val) for t in trees]
                want = graphcap.edges_form_forest(n, es, pat)
                got = check([(v, val[v.id]) for v in callers])
                ctx.prop_case("sat-vs-forest:expr-flags", (n, tuple(es), form, exprio.show_list(trees), tuple(sorted(val.items()))))
                ctx.count("pattern:" + ("forest" if want else "cyclic"))
                if got != want:
                    ctx.violation("acyclic:n=%d:e=%s:flags=%s:val=%s" % (
                        n, ",".join("%d-%d" % e for e in es), exprio.show_list(trees).replace(" ", ""),
                        "".join("1" if val[v.id] else "0" for v in callers)),
                        "posted constraints are %s although the active edges %s" % (
                            "satisfiable" if got else "unsatisfiable",
                            "contain a cycle" if not want else "form a forest"),
                        {"n": n, "edges": es, "flags": exprio.show_list(trees), "pattern": [int(b) for b in pat],
                         "caller_assignment": {str(k): v for k, v in val.items()},
                         "expected_satisfiable": want, "observed_satisfiable": got})


# ---------------------------------------------------------------- scenarios: containers, call forms, histories

class Scenario:
    """a JSON-able call sequence run on the real code: {"decl": caller variables, "n": vertices, "same_list": bool,
    "calls": [{"edges" (edge list of the one Graph object at the time of the call: a prefix extension of the previous
    call's), "newdecl", "flags" (tree strings over the caller's variables; c<k> = k-th caller variable), "cont", "kw"}]}"""

    def __init__(self, sc):
        from cspuz import Solver
        from cspuz.array import BoolArray1D
        from cspuz.graph import Graph, active_edges_acyclic
        self.sc = sc
        s = self.s = Solver()
        self.callers, self.trees, self.unchanged = [], [], True
        n = sc["n"]

        def declare(tokens):
            for t in tokens:
                if t == "b":
                    self.callers.append(s.bool_var())
                else:
                    _, lo, hi = t.split(":")
                    self.callers.append(s.int_var(int(lo), int(hi)))
        declare(sc["decl"])
        g = Graph(n)
        flaglist = []
        for call in sc["calls"]:
            declare(call.get("newdecl", []))
            edges = [tuple(e) for e in call["edges"]]
            for (a, b) in edges[len(g.edges):]:
                g.add_edge(a, b)
            flags = [exprio.parse(" ".join(exprio.show(self.callers[int(w[1:])]) if w[0] == "c" else w for w in t.split()), s.variables)
                     for t in call["flags"]]
            if sc.get("same_list"):
                flaglist.extend(flags[len(flaglist):])
            else:
                flaglist = flags
            self.trees.append(list(flaglist))
            cont = call.get("cont", "S")
            if cont == "S":
                carg = flaglist
            elif cont == "T":
                carg = tuple(flaglist)
            elif cont == "A":
                carg = BoolArray1D(flaglist)
            else:
                carg = graphforms.oneshot(cont, flaglist)
            snap_f, snap_g = list(flaglist), graph_snapshot(g)
            if call.get("kw"):
                res = active_edges_acyclic(solver=s, is_active_edge=carg, graph=g)
            else:
                res = active_edges_acyclic(s, carg, g)
            if res is not None:
                raise TypeError("active_edges_acyclic returned a value")
            if not (len(flaglist) == len(snap_f) and all(a is b for a, b in zip(flaglist, snap_f))
                    and graph_snapshot(g) == snap_g == graph_snapshot(graphcap.mk_graph(n, edges))):
                self.unchanged = False
        self._check = None

    def sat(self, val):
        if self._check is None:
            self._check = z3_session(self.s)
        return self._check(list(zip(self.callers, val)))

    def expected(self, val):
        asg = {v.id: x for v, x in zip(self.callers, val)}
        want, pats = True, []
        for call, trees in zip(self.sc["calls"], self.trees):
            edges = [tuple(e) for e in call["edges"]]
            pat = [bool(bool_value(t, asg)) for t in trees[:len(edges)]]
            pats.append("".join("1" if b else "0" for b in pat))
            want = want and graphcap.edges_form_forest(self.sc["n"], edges, pat)
        return want, pats


def scenario_key(sc):
    import hashlib
    import json
    return hashlib.md5(json.dumps(sc, sort_keys=True).encode()).hexdigest()[:10]


def check_scenario(ctx, label, sc, nvals):
    rng = ctx.rng
    key = "acyclic:%s:%s" % (label, scenario_key(sc))
    r = vlib.guarded(Scenario, sc)
    if r[0] == "err":
        ctx.prop_case(label + ":raises", key)
        ctx.violation(key + ":raises", "active_edges_acyclic raises %s on a well-formed call sequence (%s)" % (r[1], label),
                      {"scenario": sc, "error": r[1]})
        return
    P = r[1]
    if not P.unchanged:
        ctx.violation(key + ":args", "the flag list or the Graph passed in was modified by the call (%s)" % label, {"scenario": sc})
    cands, seen = {True: [], False: []}, set()
    for _ in range(40 * nvals):
        val = [rng.random() < 0.55 for _ in P.callers]
        if tuple(val) not in seen:
            seen.add(tuple(val))
            cands[P.expected(val)[0]].append(val)
        if len(cands[True]) >= nvals and len(cands[False]) >= nvals:
            break
    k = min(len(cands[True]), (nvals + 1) // 2)
    for val in cands[True][:k] + cands[False][:nvals - k]:
        want, pats = P.expected(val)
        got = P.sat(val)
        ctx.prop_case("sat-vs-forest:" + label, (key, tuple(val)))
        ctx.count("pattern:" + ("forest" if want else "cyclic"))
        if got != want:
            ctx.violation("%s:val=%s" % (key, "".join("1" if x else "0" for x in val)),
                          "posted constraints are %s although the active edges %s (%s)" % (
                              "satisfiable" if got else "unsatisfiable", "contain a cycle" if not want else "form a forest", label),
                          {"scenario": sc, "caller_values": [bool(x) for x in val], "active_per_call": pats,
                           "expected_satisfiable": want, "observed_satisfiable": got})


def flag_strings(rng, m, form):
    from cspuz import Solver
    from cspuz.expr import BoolVar
    s0 = Solver()
    pre_state(s0, rng, 1)
    arg, trees = make_flags(s0, m, form, rng)
    return ["b" if isinstance(v, BoolVar) else "i:%d:%d" % (v.lo, v.hi) for v in s0.variables], [exprio.show(t) for t in trees]


def search_scenarios(ctx):
    rng = ctx.rng
    big, deep = ctx.thorough, ctx.deep
    small = [(n, es) for n, es in graphcap.all_multigraphs(4, 4) if len(es) >= 1]
    pool = rng.sample(small, 100 if big else (60 if deep else 36))
    pool = [(n, graphforms.shuffled(rng, es) if i % 2 else es) for i, (n, es) in enumerate(pool)]
    pool += [graphcap.random_multigraph(rng, 7) for _ in range(80 if big else (40 if deep else 24))]
    pool += [(n, es) for (k, n, es) in graphforms.structured(rng)][::(1 if big else 3)]
    # (a) expression / constant flags in every container kind, positional and keyword call
    for (n, es) in pool:
        form = rng.choice(["neg", "and", "or", "const", "shared", "mixed", "mixed"])
        decl, flags = flag_strings(rng, len(es), form)
        sc = {"decl": decl, "n": n, "calls": [{"edges": [list(e) for e in es], "flags": flags,
                                               "cont": rng.choice(["S", "T", "A"]), "kw": rng.random() < 0.4}]}
        ctx.count("scenario-form:" + form)
        check_scenario(ctx, "expr-flags", sc, 8 if len(es) > 2 else 4)
    # (a') flags that are mostly Python constants spelling out a targeted edge subset (a forest plus one edge, when there
    # is one; and a random one); the few non-constant flags are decided by the caller assignment
    for (n, es) in pool:
        if len(es) < 2:
            continue
        pats = graphforms.targeted_patterns(rng, n, es, 12) + tree_biased_patterns(rng, n, es, 6)
        near = []
        for q in pats:
            if not graphcap.edges_form_forest(n, es, q):
                on = [k for k in range(len(es)) if q[k]]
                if any(graphcap.edges_form_forest(n, es, [b and k != d for k, b in enumerate(q)]) for d in on):
                    near.append(q)
        for pat in ([rng.choice(near)] if near else []) + [rng.choice(pats)]:
            allconst = rng.random() < 0.6
            flags = [("T" if b else "F") if (allconst or rng.random() < 0.7) else rng.choice(["b0", "( B NOT b1 )", "( B AND b0 b1 )"])
                     for b in pat]
            sc = {"decl": ["b", "b"], "n": n, "calls": [{"edges": [list(e) for e in es], "flags": flags,
                                                         "cont": rng.choice(["S", "T", "A"]), "kw": rng.random() < 0.4}]}
            ctx.count("scenario-form:const-pattern")
            check_scenario(ctx, "const-flags", sc, 1 if allconst else 4)
    # (b) histories: two calls on the same Solver and Graph object; same flag list, or the Graph extended in between
    for i, (n, es) in enumerate(pool):
        if n < 2 or len(es) > 10:
            continue
        mode = ["same", "extend", "extend-fresh-flags"][i % 3]
        decl, flags = flag_strings(rng, len(es), rng.choice(["vars", "vars", "neg", "mixed"]))
        c1 = {"edges": [list(e) for e in es], "flags": flags, "cont": "S"}
        if mode == "same":
            sc = {"decl": decl, "n": n, "same_list": True, "calls": [c1, dict(c1)]}
        else:
            a = rng.randrange(n)
            b = (a + 1 + rng.randrange(n - 1)) % n
            es2 = [list(e) for e in es] + [[a, b]]
            if mode == "extend":
                c2 = {"edges": es2, "newdecl": ["b"], "flags": flags + ["c%d" % len(decl)], "cont": "S"}
                sc = {"decl": decl, "n": n, "same_list": True, "calls": [c1, c2]}
            else:
                k = len(decl)
                c2 = {"edges": es2, "newdecl": ["b"] * len(es2), "flags": ["c%d" % (k + j) for j in range(len(es2))],
                      "cont": rng.choice(["S", "T", "A"])}
                sc = {"decl": decl, "n": n, "same_list": False, "calls": [c1, c2]}
        ctx.count("scenario-history:" + mode)
        check_scenario(ctx, "history-" + mode, sc, 10)
    # (c) one-shot iterables: refused with TypeError, or the same program as for the materialised list
    for (n, es) in pool[::2]:
        decl, flags = flag_strings(rng, len(es), rng.choice(["vars", "mixed"]))
        kind = rng.choice(graphforms.ONESHOT)
        base = {"edges": [list(e) for e in es], "flags": flags, "cont": "S"}
        sc_one = {"decl": decl, "n": n, "calls": [dict(base, cont=kind)]}
        ctx.prop_case("oneshot", (n, tuple(es), kind, tuple(flags)))
        r1 = vlib.guarded(lambda: exprio.show_state(Scenario({"decl": decl, "n": n, "calls": [base]}).s))
        r2 = vlib.guarded(lambda: exprio.show_state(Scenario(sc_one).s))
        ctx.count("scenario-oneshot:" + (r2[1] if r2[0] == "err" else "accepted"))
        if r2 != r1 and r2 != ("err", "TypeError"):
            ctx.violation("acyclic:oneshot:%s" % scenario_key(sc_one),
                          "a one-shot iterable as is_active_edge is neither refused (TypeError) nor treated like the list it yields",
                          {"scenario": sc_one, "list_form": r1[1][:400], "oneshot_form": r2[1][:400]})


def search(ctx):
    try:
        m = ctx.model("C09")
    except Exception as ex:  # model build broken: the oracle comparison still runs
        ctx.note("model runner unavailable in search: %r" % (ex,))
        m = None
    rng = ctx.rng
    spec_reqs, spec_meta = [], []
    cert_reqs, cert_meta = [], []
    rank_jobs = []
    for kind, n, es, pats in search_graphs(ctx):
        r = vlib.guarded(posted, n, es)
        if r[0] == "err":
            ctx.violation("acyclic:n=%d:e=%s:raises" % (n, ",".join("%d-%d" % e for e in es)),
                          "active_edges_acyclic raises on a well-formed call", {"n": n, "edges": es, "error": r[1]})
            continue
        s, fl = r[1]
        check = z3_session(s)
        rank_vars = [v for v in s.variables[len(es):]]
        if pats is None:
            pats = list(graphcap.patterns(len(es)))
        ctx.count("search-graphs:" + kind)
        for pat in pats:
            want = graphcap.edges_form_forest(n, es, pat)
            sample = m is not None and rng.random() < 0.08
            if sample and want:
                got, model = check(list(zip(fl, pat)), want_model=True)
            else:
                got, model = check(list(zip(fl, pat))), None
            ctx.prop_case("sat-vs-forest", (n, tuple(es), pat))
            ctx.count("pattern:" + ("forest" if want else "cyclic"))
            if got != want:
                ctx.violation(key_of(n, es, pat),
                              "posted constraints are %s although the active edges %s" % (
                                  "satisfiable" if got else "unsatisfiable",
                                  "contain a cycle" if not want else "form a forest"),
                              {"n": n, "edges": es, "pattern": [int(b) for b in pat],
                               "expected_satisfiable": want, "observed_satisfiable": got})
            if m is not None and (n <= 12 or rng.random() < 0.1):
                # (the extracted specification computes in unary arithmetic: ~1 s per pattern on 18 vertices, so the
                # larger structured graphs are validated on a sample of their patterns)
                spec_reqs.append("F %s B %s" % (graphcap.graph_tok(n, es), " ".join("1" if b else "0" for b in pat)))
                spec_meta.append((n, es, pat, want))
                if model is not None and len(rank_vars) == n:
                    ranks = [model[v.id] for v in rank_vars]
                    cert_reqs.append("C %s B %s R %s" % (graphcap.graph_tok(n, es), " ".join("1" if b else "0" for b in pat),
                                                           " ".join(str(x) for x in ranks)))
                    cert_meta.append((n, es, pat, ranks))
                if sample and want and len(rank_vars) == n:
                    rank_jobs.append((n, es, pat, check, fl, rank_vars))
    search_expression_flags(ctx)
    search_scenarios(ctx)
    if m is None:
        return
    # the Coq specification agrees with the independent oracle
    for (n, es, pat, want), o in zip(spec_meta, m.batch(spec_reqs)):
        fb, uf = [t == "1" for t in o.split()]
        ctx.count("spec-validation")
        if fb != want or uf != want:
            ctx.mismatches.append({"kind": "spec-vs-oracle", "input": [n, es, [int(b) for b in pat]],
                                   "model": [fb, uf], "impl": want})
    # a z3 model of the real program passes the Coq certificate checker
    for (n, es, pat, ranks), o in zip(cert_meta, m.batch(cert_reqs)):
        ctx.corr("cert-of-z3-model", (n, tuple(es), pat, tuple(ranks)), o, "1 1")
    # the ranks constructed in the completeness proof satisfy the real program
    reqs = ["R %s B %s" % (graphcap.graph_tok(n, es), " ".join("1" if b else "0" for b in pat))
            for (n, es, pat, _, _, _) in rank_jobs]
    for (n, es, pat, check, fl, rank_vars), o in zip(rank_jobs, m.batch(reqs)):
        ranks = [int(t) for t in o.split()]
        ok = len(ranks) == n and check(list(zip(fl, pat)) + list(zip(rank_vars, ranks)))
        ctx.corr("coq-ranks-on-real-program", (n, tuple(es), pat), ("sat", tuple(ranks)) if ok else ("unsat", tuple(ranks)),
                 ("sat", tuple(ranks)))


def replay(ctx, rp):
    print(rp)
    v = rp.get("violation", {}).get("detail", {})
    if v and "scenario" in v:
        r = vlib.guarded(Scenario, v["scenario"])
        if r[0] == "err":
            print("scenario raises", r[1])
            return 1 if ("error" in v or "oneshot_form" in v) else 0
        P = r[1]
        if "caller_values" not in v:
            print("arguments unchanged:", P.unchanged)
            return 0 if P.unchanged else 1
        want, pats = P.expected(v["caller_values"])
        got = P.sat(v["caller_values"])
        print("satisfiable:", got, " forest (every call):", want, " active edges per call:", pats)
        return 1 if got != want else 0
    if not v or "pattern" not in v:
        return 0
    n, es, pat = v["n"], [tuple(e) for e in v["edges"]], [bool(b) for b in v["pattern"]]
    s, fl = posted(n, es)
    got = z3_session(s)(list(zip(fl, pat)))
    want = graphcap.edges_form_forest(n, es, pat)
    print("satisfiable:", got, " forest:", want)
    return 1 if got != want else 0
