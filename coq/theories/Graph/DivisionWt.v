(* C05: well-typed trees (Core/Expr.v wt — what the public constructors can
   build) evaluate; hence "labels given as arbitrary int expressions" can be
   stated with the typing predicate. *)
From Coq Require Import ZArith List Bool Arith Lia.
From Cspuz Require Import Lib.PyErr Core.Expr Core.Program Graph.GraphModel Graph.Division
  Graph.DivisionCert Graph.DivisionEval Graph.DivisionProofs.
Import ListNotations.
Open Scope nat_scope.

Section Wt.
  Variable gsem : op -> list (option value) -> option bool.
  Variable en : env.

  Definition ev_ok (e : expr) : Prop :=
    (wt true e = true -> exists b, eval gsem en e = Some (VB b)) /\
    (wt false e = true -> exists z, eval gsem en e = Some (VI z)).

  Lemma bool_args args :
    Forall ev_ok args -> forallb (wt true) args = true ->
    exists bs, map (eval gsem en) args = map (fun b => Some (VB b)) bs.
  Proof.
    induction 1 as [|a r Ha _ IH]; simpl; intros H; [exists []; reflexivity|].
    apply andb_true_iff in H. destruct H as [H1 H2]. destruct (IH H2) as [bs Hbs].
    destruct (proj1 Ha H1) as [b Hb]. exists (b :: bs). simpl. rewrite Hb, Hbs. reflexivity.
  Qed.

  Lemma int_args args :
    Forall ev_ok args -> forallb (wt false) args = true ->
    exists zs, map (eval gsem en) args = map (fun z => Some (VI z)) zs.
  Proof.
    induction 1 as [|a r Ha _ IH]; simpl; intros H; [exists []; reflexivity|].
    apply andb_true_iff in H. destruct H as [H1 H2]. destruct (IH H2) as [zs Hzs].
    destruct (proj2 Ha H1) as [z Hz]. exists (z :: zs). simpl. rewrite Hz, Hzs. reflexivity.
  Qed.

  Lemma all_some_bools bs : all_some (map (fun b => Some (VB b)) bs) = Some (map VB bs).
  Proof. induction bs as [|b r IH]; simpl; [reflexivity|]. rewrite IH. reflexivity. Qed.
  Lemma all_some_ints zs : all_some (map (fun z => Some (VI z)) zs) = Some (map VI zs).
  Proof. induction zs as [|z r IH]; simpl; [reflexivity|]. rewrite IH. reflexivity. Qed.
  Lemma as_bools_VB bs : as_bools (map VB bs) = Some bs.
  Proof. induction bs as [|b r IH]; simpl; [reflexivity|]. rewrite IH. reflexivity. Qed.
  Lemma as_ints_VI zs : as_ints (map VI zs) = Some zs.
  Proof. induction zs as [|z r IH]; simpl; [reflexivity|]. rewrite IH. reflexivity. Qed.

  Lemma two_ints args :
    Forall ev_ok args -> Nat.eqb (length args) 2 && forallb (wt false) args = true ->
    exists x y, map (eval gsem en) args = [Some (VI x); Some (VI y)].
  Proof.
    intros HF H. apply andb_true_iff in H. destruct H as [Hl Hw].
    destruct (int_args args HF Hw) as [zs Hzs].
    destruct args as [|a [|b [|c r]]]; simpl in Hl; try discriminate.
    destruct zs as [|x [|y [|z zs]]]; simpl in Hzs; try discriminate. exists x, y. exact Hzs.
  Qed.

  Lemma two_bools args :
    Forall ev_ok args -> Nat.eqb (length args) 2 && forallb (wt true) args = true ->
    exists x y, map (eval gsem en) args = [Some (VB x); Some (VB y)].
  Proof.
    intros HF H. apply andb_true_iff in H. destruct H as [Hl Hw].
    destruct (bool_args args HF Hw) as [bs Hbs].
    destruct args as [|a [|b [|c r]]]; simpl in Hl; try discriminate.
    destruct bs as [|x [|y [|z bs]]]; simpl in Hbs; try discriminate. exists x, y. exact Hbs.
  Qed.

  Lemma wt_eval e : ev_ok e.
  Proof.
    induction e using expr_ind'; unfold ev_ok; simpl.
    - split; [intros _; eauto|discriminate].
    - split; [discriminate|intros _; eauto].
    - split; discriminate.
    - split; [intros _; eauto|discriminate].
    - split; [discriminate|intros _; eauto].
    - split; [|discriminate]. intros Hw. unfold eval_bop.
      destruct o; try discriminate.
      + (* BOOL_CONSTANT *)
        destruct args as [|a r]; [discriminate|]. destruct a; try discriminate.
        destruct r; [|discriminate]. simpl. eauto.
      + destruct (two_ints args H Hw) as [x [y E]]. rewrite E. simpl. eauto.
      + destruct (two_ints args H Hw) as [x [y E]]. rewrite E. simpl. eauto.
      + destruct (two_ints args H Hw) as [x [y E]]. rewrite E. simpl. eauto.
      + destruct (two_ints args H Hw) as [x [y E]]. rewrite E. simpl. eauto.
      + destruct (two_ints args H Hw) as [x [y E]]. rewrite E. simpl. eauto.
      + destruct (two_ints args H Hw) as [x [y E]]. rewrite E. simpl. eauto.
      + (* NOT *)
        apply andb_true_iff in Hw. destruct Hw as [Hl Hw].
        destruct (bool_args args H Hw) as [bs Hbs].
        destruct args as [|a [|b r]]; simpl in Hl; try discriminate.
        destruct bs as [|x [|y bs]]; simpl in Hbs; try discriminate. cbn [map]. rewrite Hbs. simpl. eauto.
      + destruct (bool_args args H Hw) as [bs Hbs]. rewrite Hbs, all_some_bools, as_bools_VB. simpl. eauto.
      + destruct (bool_args args H Hw) as [bs Hbs]. rewrite Hbs, all_some_bools, as_bools_VB. simpl. eauto.
      + destruct (two_bools args H Hw) as [x [y E]]. rewrite E. simpl. eauto.
      + destruct (two_bools args H Hw) as [x [y E]]. rewrite E. simpl. eauto.
      + destruct (two_bools args H Hw) as [x [y E]]. rewrite E. simpl. eauto.
      + destruct (int_args args H Hw) as [zs Hzs]. rewrite Hzs, all_some_ints, as_ints_VI. simpl. eauto.
    - split; [discriminate|]. intros Hw. unfold eval_iop.
      destruct o; try discriminate.
      + destruct args as [|a r]; [discriminate|]. destruct a; try discriminate.
        destruct r; [|discriminate]. simpl. eauto.
      + (* NEG *)
        apply andb_true_iff in Hw. destruct Hw as [Hl Hw].
        destruct (int_args args H Hw) as [zs Hzs].
        destruct args as [|a [|b r]]; simpl in Hl; try discriminate.
        destruct zs as [|x [|y zs]]; simpl in Hzs; try discriminate. cbn [map]. rewrite Hzs. simpl. eauto.
      + (* ADD *)
        apply andb_true_iff in Hw. destruct Hw as [Hl Hw].
        destruct (int_args args H Hw) as [zs Hzs]. rewrite Hzs, all_some_ints.
        destruct args as [|a r]; simpl in Hl; try discriminate.
        destruct zs as [|x zs]; simpl in Hzs; try discriminate.
        pose proof (as_ints_VI (x :: zs)) as Hai. cbn [map] in Hai |- *. rewrite Hai. simpl. eauto.
      + (* SUB *)
        apply andb_true_iff in Hw. destruct Hw as [Hl Hw].
        destruct (int_args args H Hw) as [zs Hzs]. rewrite Hzs, all_some_ints, as_ints_VI.
        destruct args as [|a r]; simpl in Hl; try discriminate.
        destruct zs as [|x zs]; simpl in Hzs; try discriminate. simpl. eauto.
      + (* IF *)
        destruct args as [|c [|t [|f [|x r]]]]; try discriminate.
        apply andb_true_iff in Hw. destruct Hw as [Hw Hf]. apply andb_true_iff in Hw. destruct Hw as [Hc Ht].
        inversion H as [|? ? Hc' H1]; subst. inversion H1 as [|? ? Ht' H2]; subst.
        inversion H2 as [|? ? Hf' _]; subst.
        destruct (proj1 Hc' Hc) as [b Eb]. destruct (proj2 Ht' Ht) as [z1 E1]. destruct (proj2 Hf' Hf) as [z2 E2].
        simpl. rewrite Eb, E1, E2. simpl. eauto.
  Qed.

  Lemma wt_int_like e : wt false e = true -> is_int_expr_like e = true.
  Proof. destruct e; simpl; intros H; try reflexivity; discriminate. Qed.
End Wt.

Lemma labels_ok_wt gsem k labels :
  Forall (fun d => wt_int d = true /\ max_id d <= k) labels -> labels_ok gsem k labels.
Proof.
  unfold labels_ok. intros H. rewrite Forall_forall in *. intros d Hd. destruct (H d Hd) as [Hw Hm].
  split; [apply wt_int_like; exact Hw|]. split; [exact Hm|].
  intros en. apply (proj2 (wt_eval gsem en d)). exact Hw.
Qed.
