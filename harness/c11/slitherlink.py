"""C11 plug-in: slitherlink (solve_slitherlink(height, width, problem))."""
import c11lib as L

NAME = "slitherlink"
MODULE = "cspuz.puzzle.slitherlink"
FUNC = "solve_slitherlink"
LOOP = True
VALUES = [-1, 0, 1, 2, 3, 4]


def call(mod, pb):
    return mod.solve_slitherlink(pb["h"], pb["w"], pb["grid"])


def ncand(pb):
    return 2 ** L.n_loop_edges(pb['h'] + 1, pb['w'] + 1)


def encode(pb):
    return [[pb["h"], pb["w"]], L.flat(pb["grid"])]


def families(tier, rng):
    full = [(1, 1), (1, 2), (2, 1), (1, 3), (3, 1)] + ([(2, 2)] if tier == "thorough" else [])
    for (h, w) in full:
        for g in L.all_grids(h, w, VALUES):
            yield {"h": h, "w": w, "grid": g}
    if tier != "thorough":
        for g in L.sample(rng, L.all_grids(2, 2, VALUES), 150):
            yield {"h": 2, "w": 2, "grid": g}
    for (h, w) in [(1, 4), (4, 1)] + ([(2, 3), (3, 2)] if tier == "thorough" else []):
        for _ in range(40 if tier == "thorough" else 20):
            yield {"h": h, "w": w, "grid": L.random_grid(rng, h, w, VALUES, 0.4)}


def tier2(tier, rng):
    for (h, w) in [(1, 1)]:
        for g in L.all_grids(h, w, VALUES):
            yield {"h": h, "w": w, "grid": g}
    for (h, w) in [(1, 2), (2, 1)]:
        for g in L.sample(rng, L.all_grids(h, w, VALUES), 36 if tier == "thorough" else 6):
            yield {"h": h, "w": w, "grid": g}
