(* C11 Tier 1 - building (skyscrapers): for every n >= 1 and all clues, the program posted by
   solve_building (model Building.v) admits exactly the grids obeying Rules_building. *)
From Coq Require Import ZArith List Bool Arith Lia.
From Cspuz Require Import Lib.PyErr Core.Expr Core.Program Puzzle.PuzzleBase Puzzle.SatAbs
     Puzzle.ModelBase Puzzle.ModelLemmas Puzzle.Rules_building Puzzle.Building.
Import ListNotations.
Local Open Scope nat_scope.

(* ---- the counting formula of num_visible_buildings on values *)
Fixpoint vis_sem (pv : list Z) (rv : list Z) : nat :=
  match rv with
  | [] => 0
  | a :: r => (if forallb (fun u => (u <? a)%Z) pv then 1 else 0) + vis_sem (pv ++ [a]) r
  end.

Lemma vis_sem_visible_from : forall rv pv top,
  (forall b, forallb (fun u => (u <? b)%Z) pv = (top <? b)%Z) -> vis_sem pv rv = visible_from top rv.
Proof.
  induction rv as [|a r IH]; intros pv top H; [reflexivity|].
  simpl. rewrite H. destruct (Z.ltb_spec top a) as [L|L].
  - simpl. f_equal. apply IH. intros b. rewrite forallb_app, H. simpl. rewrite andb_true_r.
    destruct (Z.ltb_spec top b), (Z.ltb_spec a b); try reflexivity; lia.
  - simpl. apply IH. intros b. rewrite forallb_app, H. simpl. rewrite andb_true_r.
    destruct (Z.ltb_spec top b), (Z.ltb_spec a b); try reflexivity; lia.
Qed.

Lemma visible_first a r : (1 <= a)%Z -> visible (a :: r) = S (vis_sem [a] r).
Proof.
  intros H. unfold visible. cbn [visible_from]. destruct (Z.ltb_spec 0 a) as [L|L]; [|lia].
  rewrite (vis_sem_visible_from r [a] a); [reflexivity|]. intros b. cbn [forallb]. apply andb_true_r.
Qed.

Lemma zdistinct_distinct l : zdistinct l = distinct l.
Proof.
  assert (E : forall a r, zmem_ a r = zmem a r).
  { intros a r. induction r as [|b r IH]; [reflexivity|]. simpl. rewrite IH. reflexivity. }
  induction l as [|a r IH]; [reflexivity|]. simpl. rewrite IH, E. reflexivity.
Qed.

Lemma in_bounds_from_repeat_int en lo hi k : forall i,
  in_bounds_from en i (repeat (DInt lo hi) k) = forallb (fun j => (lo <=? ei en j)%Z && (ei en j <=? hi)%Z) (seq i k).
Proof. induction k as [|k IH]; intros i; [reflexivity|]. simpl. rewrite IH. reflexivity. Qed.

Section Sem.
  Variables (n : nat) (en : env).
  Let val (k : nat) : Z := ei en k.

  Lemma all_some_vals (f : nat -> value) ids :
    all_some (map (fun k => Some (f k)) ids) = Some (map f ids).
  Proof. induction ids as [|a r IH]; simpl; [reflexivity|]. rewrite IH. reflexivity. Qed.
  Lemma as_ints_vals (f : nat -> Z) ids : as_ints (map (fun k => VI (f k)) ids) = Some (map f ids).
  Proof. induction ids as [|a r IH]; simpl; [reflexivity|]. rewrite IH. reflexivity. Qed.
  Lemma as_bools_vals (f : nat -> bool) ids : as_bools (map (fun k => VB (f k)) ids) = Some (map f ids).
  Proof. induction ids as [|a r IH]; simpl; [reflexivity|]. rewrite IH. reflexivity. Qed.

  Lemma holds_alldiff ids :
    holds no_graph en (BNode ALLDIFF (map (bvar n) ids)) = distinct (map val ids).
  Proof.
    unfold holds. cbn [eval]. rewrite map_map. unfold bvar. cbn [eval].
    unfold eval_bop. rewrite (all_some_vals (fun k => VI (ei en k))), as_ints_vals. simpl.
    unfold val. destruct (distinct (map (fun k => ei en k) ids)); reflexivity.
  Qed.

  Lemma eval_and_lt prefix v :
    eval no_graph en (BNode AND (map (fun u => BNode LT [bvar n u; bvar n v]) prefix)) =
    Some (VB (forallb (fun u => (u <? val v)%Z) (map val prefix))).
  Proof.
    cbn [eval]. rewrite map_map. unfold eval_bop.
    rewrite (map_ext _ (fun u => Some (VB (val u <? val v)%Z))) by reflexivity.
    rewrite (all_some_vals (fun u => VB (val u <? val v)%Z)), as_bools_vals. simpl.
    f_equal. f_equal. rewrite forallb_map. clear. induction prefix as [|a r IH]; simpl; [reflexivity|].
    rewrite IH. reflexivity.
  Qed.

  Lemma eval_vis_go : forall rest prefix acc a,
    eval no_graph en acc = Some (VI a) ->
    eval no_graph en (vis_go n prefix acc rest) =
    Some (VI (a + Z.of_nat (vis_sem (map val prefix) (map val rest)))).
  Proof.
    induction rest as [|v r IH]; intros prefix acc a Ha.
    - simpl. rewrite Ha. f_equal. f_equal. lia.
    - cbn [vis_go map vis_sem].
      rewrite (IH (prefix ++ [v]) _ (a + (if forallb (fun u => (u <? val v)%Z) (map val prefix) then 1 else 0))%Z).
      + rewrite map_app. simpl map. f_equal. f_equal.
        destruct (forallb (fun u => (u <? val v)%Z) (map val prefix)); lia.
      + cbn [eval map]. rewrite Ha. cbn [eval] in *.
        change (eval_bop no_graph AND (map (eval no_graph en) (map (fun u => BNode LT [bvar n u; bvar n v]) prefix)))
          with (eval no_graph en (BNode AND (map (fun u => BNode LT [bvar n u; bvar n v]) prefix))).
        rewrite eval_and_lt.
        destruct (forallb (fun u => (u <? val v)%Z) (map val prefix)); cbn -[Z.add]; f_equal; f_equal; lia.
  Qed.

  (* the posted clue constraint says what the rules say, for a line whose first value is >= 1 *)
  Lemma vis_clue_holds ids c :
    ids <> [] -> (1 <= val (hd 0%nat ids))%Z ->
    forallb (holds no_graph en) (vis_clue n ids c) =
    ((c <? 1)%Z || (Z.of_nat (visible (map val ids)) =? c)%Z).
  Proof.
    intros Hne H1. unfold vis_clue.
    destruct (Z.leb_spec 1 c); destruct (Z.ltb_spec c 1); try lia; simpl; [|reflexivity].
    rewrite andb_true_r. destruct ids as [|v0 r]; [contradiction|]. simpl in H1.
    simpl map. rewrite visible_first by exact H1.
    unfold vis_constraint. destruct r as [|v1 r'].
    - unfold holds. cbn [eval map vis_sem]. change (Z.of_nat 1) with 1%Z. destruct (1 =? c)%Z; reflexivity.
    - set (r := v1 :: r') in *. clearbody r. unfold holds. cbn [eval map].
      rewrite (eval_vis_go r [v0] (PyInt 1) 1%Z eq_refl). cbn [map].
      replace (1 + Z.of_nat (vis_sem [val v0] (map val r)))%Z with (Z.of_nat (S (vis_sem [val v0] (map val r)))) by lia.
      set (k := Z.of_nat (S (vis_sem [val v0] (map val r)))). clearbody k.
      cbn. destruct (k =? c)%Z; reflexivity.
  Qed.
End Sem.

Lemma dims1 n (rest : list (list Z)) : dim ([Z.of_nat n] :: rest) 0 = n.
Proof. unfold dim, zn, getz, sec; simpl. apply Nat2Z.id. Qed.

Lemma cell_lt n y x : y < n -> x < n -> y * n + x < n * n.
Proof. intros. nia. Qed.

Lemma building_core n up dw lf rg en :
  1 <= n ->
  in_bounds en (int_grid_state (n * n) 1 (Z.of_nat n) (building_constraints n up dw lf rg)) = true ->
  let ans := map (ei en) (seq 0 (n * n)) in
  let rowl := fun y => map (fun x => at2 ans n y x) (seq 0 n) in
  let coll := fun x => map (fun y => at2 ans n y x) (seq 0 n) in
  let ok := fun (clues : list Z) i (line : list Z) =>
              let c := getz clues i in (c <? 1)%Z || (Z.of_nat (visible line) =? c)%Z in
  forallb (fun i => zdistinct (rowl i) && zdistinct (coll i)) (seq 0 n) &&
  forallb (fun i => ok up i (coll i) && ok dw i (rev (coll i)) && ok lf i (rowl i) && ok rg i (rev (rowl i))) (seq 0 n) =
  satisfies no_graph en (int_grid_state (n * n) 1 (Z.of_nat n) (building_constraints n up dw lf rg)).
Proof.
  intros Hn Hb ans rowl coll ok.
  unfold in_bounds, int_grid_state in Hb. cbn [vars] in Hb. rewrite in_bounds_from_repeat_int in Hb.
  assert (Hlo : forall k, k < n * n -> (1 <= ei en k)%Z).
  { intros k Hk. rewrite forallb_forall in Hb. specialize (Hb k ltac:(apply in_seq; lia)).
    apply andb_true_iff in Hb. destruct Hb as [Hb _]. apply Z.leb_le in Hb. exact Hb. }
  assert (Hat : forall y x, y < n -> x < n -> at2 ans n y x = ei en (y * n + x)).
  { intros y x Hy Hx. unfold at2, ans. apply getz_map_seq. apply cell_lt; assumption. }
  assert (Hrow : forall y, y < n -> rowl y = map (ei en) (row_ids n y)).
  { intros y Hy. unfold rowl, row_ids. rewrite map_map. apply map_ext_in. intros x Hx. apply in_seq in Hx.
    apply Hat; lia. }
  assert (Hcol : forall x, x < n -> coll x = map (ei en) (col_ids n x)).
  { intros x Hx. unfold coll, col_ids. rewrite map_map. apply map_ext_in. intros y Hy. apply in_seq in Hy.
    apply Hat; lia. }
  assert (Hne : forall (f : nat -> nat), map f (seq 0 n) <> []) by (intros f; destruct n; [lia|discriminate]).
  assert (Hrid : forall y k, y < n -> In k (row_ids n y) -> k < n * n).
  { intros y k Hy Hk. unfold row_ids in Hk. apply in_map_iff in Hk. destruct Hk as [x [<- Hx]].
    apply in_seq in Hx. apply cell_lt; lia. }
  assert (Hcid : forall x k, x < n -> In k (col_ids n x) -> k < n * n).
  { intros x k Hx Hk. unfold col_ids in Hk. apply in_map_iff in Hk. destruct Hk as [y [<- Hy]].
    apply in_seq in Hy. apply cell_lt; lia. }
  assert (Hhd : forall ids, ids <> [] -> (forall k, In k ids -> k < n * n) -> (1 <= ei en (hd 0%nat ids))%Z).
  { intros [|a r] H1 H2; [contradiction|]. apply Hlo. apply H2. left. reflexivity. }
  assert (Hrevne : forall l : list nat, l <> [] -> rev l <> []).
  { intros [|a r] H; [contradiction|]. simpl. destruct (rev r); discriminate. }
  unfold satisfies, int_grid_state, building_constraints. cbn [Program.cons].
  rewrite forallb_app, !forallb_flat_map. f_equal.
  - apply forallb_ext_in. intros i Hi. apply in_seq in Hi. cbn [forallb].
    rewrite !holds_alldiff, andb_true_r, !zdistinct_distinct, Hrow, Hcol by lia. reflexivity.
  - apply forallb_ext_in. intros i Hi. apply in_seq in Hi.
    rewrite !forallb_app. unfold ok.
    rewrite (vis_clue_holds n en (col_ids n i)), (vis_clue_holds n en (rev (col_ids n i))),
            (vis_clue_holds n en (row_ids n i)), (vis_clue_holds n en (rev (row_ids n i))).
    + rewrite !map_rev, <- Hrow, <- Hcol by lia. rewrite !andb_assoc. reflexivity.
    + apply Hrevne, Hne.
    + apply Hhd; [apply Hrevne, Hne|]. intros k Hk. apply in_rev in Hk. apply (Hrid i); [lia|exact Hk].
    + apply Hne.
    + apply Hhd; [apply Hne|]. intros k Hk. apply (Hrid i); [lia|exact Hk].
    + apply Hrevne, Hne.
    + apply Hhd; [apply Hrevne, Hne|]. intros k Hk. apply in_rev in Hk. apply (Hcid i); [lia|exact Hk].
    + apply Hne.
    + apply Hhd; [apply Hne|]. intros k Hk. apply (Hcid i); [lia|exact Hk].
Qed.

Lemma reads_int_grid k lo hi cs en :
  reads (int_grid_state k lo hi cs) en (seq 0 k) = map (ei en) (seq 0 k).
Proof.
  unfold reads. apply map_ext_in. intros i Hi. apply in_seq in Hi.
  unfold read_var, int_grid_state. simpl.
  rewrite (nth_error_nth' _ (DInt lo hi)) by (rewrite repeat_length; lia).
  rewrite nth_repeat. reflexivity.
Qed.

Theorem building_exact n up dw lf rg st ans :
  solve_building_model [[Z.of_nat n]; up; dw; lf; rg] = Ok st ->
  ((exists en, model_of no_graph en st /\ reads st en (seq 0 (n * n)) = ans)
   <-> rules_building [[Z.of_nat n]; up; dw; lf; rg] ans = true).
Proof.
  unfold solve_building_model, rules_building. rewrite (dims1 n [up; dw; lf; rg]).
  change (sec [[Z.of_nat n]; up; dw; lf; rg] 1) with up. change (sec [[Z.of_nat n]; up; dw; lf; rg] 2) with dw.
  change (sec [[Z.of_nat n]; up; dw; lf; rg] 3) with lf. change (sec [[Z.of_nat n]; up; dw; lf; rg] 4) with rg.
  destruct (Nat.eqb_spec n 0) as [|Hn]; [discriminate|].
  destruct (Nat.ltb (length up) n || Nat.ltb (length dw) n || Nat.ltb (length lf) n || Nat.ltb (length rg) n); [discriminate|].
  intros H. inversion H; subst st; clear H.
  set (st := int_grid_state (n * n) 1 (Z.of_nat n) (building_constraints n up dw lf rg)).
  assert (Hdom : forall en, in_bounds en st =
            forallb (fun v => (1 <=? v)%Z && (v <=? Z.of_nat n)%Z) (map (ei en) (seq 0 (n * n)))).
  { intros en. unfold in_bounds, st, int_grid_state. cbn [vars]. rewrite in_bounds_from_repeat_int, forallb_map. reflexivity. }
  split.
  - intros [en [[Hb Hs] Hr]]. unfold st in Hr. rewrite reads_int_grid in Hr. subst ans.
    rewrite map_length, seq_length, Nat.eqb_refl. rewrite <- Hdom, Hb. simpl andb.
    rewrite <- Hs. exact (building_core n up dw lf rg en ltac:(lia) Hb).
  - intros Hr. rewrite <- !andb_assoc in Hr.
    apply andb_true_iff in Hr. destruct Hr as [Hl Hr]. apply Nat.eqb_eq in Hl.
    apply andb_true_iff in Hr. destruct Hr as [Hd Hr].
    set (en := {| eb := fun _ => false; ei := getz ans |}).
    assert (Ha : map (ei en) (seq 0 (n * n)) = ans) by (rewrite <- Hl; apply map_getz_seq).
    assert (Hb : in_bounds en st = true) by (rewrite Hdom, Ha; exact Hd).
    exists en. split; [split; [exact Hb|]|unfold st; rewrite reads_int_grid; exact Ha].
    pose proof (building_core n up dw lf rg en ltac:(lia) Hb) as BC. cbv zeta in BC. rewrite Ha in BC.
    cbv zeta in Hr. rewrite Hr in BC. symmetry. exact BC.
Qed.
