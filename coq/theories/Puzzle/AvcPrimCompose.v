(* C11 Tier 1, native-operator route - composition with property C04: a solver that declares a boolean answer grid,
   calls graph.active_vertices_connected on it with cspuz.config.use_graph_primitive on (model Graph/Avc.v::post_avc
   with prim = true: ONE node GRAPH_ACTIVE_VERTICES_CONNECTED over the grid variables, no auxiliary variable) and then
   posts further constraints (over the grid variables only, or over variables declared after the call).
   Analogue of AvcCompose.avc_grid_compose / HeyawakeLemmas.avc_grid_compose_gen / LitsProofs.lits_compose for
   prim = true; uses C04's closed theorem avc_primitive (Props/C04.v; Graph/AvcProofs.v): the node holds exactly when
   the pattern its operands evaluate to is connected (the meaning gsem_avc gives the operator). *)
From Coq Require Import ZArith List Bool Arith Lia.
From Cspuz Require Import Lib.PyErr Core.Expr Core.Program Graph.GraphModel Graph.ReachProofs
     Graph.Avc Graph.AvcSem Graph.AvcProofs
     Puzzle.PuzzleBase Puzzle.SatAbs Puzzle.ModelBase Puzzle.ModelLemmas Puzzle.CreekProofs Puzzle.HeyawakeLemmas.
Import ListNotations.
Local Open Scope nat_scope.

Notation b2z := PuzzleBase.b2z.

(* what the call leaves behind: the declarations are untouched, one constraint is appended, and under every
   assignment that constraint holds exactly when the board pattern [act] of the reading is connected *)
Lemma avc_prim_state h w (pre acts : list expr) (act : answer -> nat -> bool) st1 :
  post_avc (bool_grid_state (h * w) pre) acts (grid_graph h w) false true = Ok st1 ->
  (forall en, acts_defined en acts) ->
  (forall en v, v < h * w -> pattern en acts v = act (map (fun i => b2z (eb en i)) (seq 0 (h * w))) v) ->
  vars st1 = repeat DBool (h * w) /\
  exists e, Program.cons st1 = pre ++ [e] /\
    forall en, holds gsem_avc en e = connected_b (board h w) (act (map (fun i => b2z (eb en i)) (seq 0 (h * w)))).
Proof.
  intros Hp Hdef Hact.
  destruct (avc_primitive _ _ _ _ Hp) as [_ [Hv [_ [e [Hc [_ Hev]]]]]].
  split; [exact Hv|]. exists e. split; [exact Hc|].
  intros en. destruct (Hev en (Hdef en)) as [_ Hh]. specialize (Hh (grid_wf h w)).
  apply eq_true_iff_eq. rewrite Hh. unfold board.
  rewrite (connected_b_ext_below _ (act (map (fun i => b2z (eb en i)) (seq 0 (h * w)))) (pattern en acts) (grid_wf h w))
    by (intros x Hx; symmetry; apply Hact; exact Hx).
  symmetry. apply (connected_b_spec _ _ (grid_wf h w)).
Qed.

(* general form: constraints [pre] posted before the call, any is_active expressions over the grid variables *)
Theorem avc_grid_compose_gen_prim h w (pre extra acts : list expr) (act : answer -> nat -> bool)
        (local_pre local : answer -> bool) st1 ans :
  post_avc (bool_grid_state (h * w) pre) acts (grid_graph h w) false true = Ok st1 ->
  (forall en, acts_defined en acts) ->
  (forall en v, v < h * w -> pattern en acts v = act (map (fun i => b2z (eb en i)) (seq 0 (h * w))) v) ->
  (forall en, local_pre (map (fun i => b2z (eb en i)) (seq 0 (h * w))) = forallb (holds gsem_avc en) pre) ->
  (forall en, local (map (fun i => b2z (eb en i)) (seq 0 (h * w))) = forallb (holds gsem_avc en) extra) ->
  ((exists en, model_of gsem_avc en (ensure st1 extra) /\ reads (ensure st1 extra) en (seq 0 (h * w)) = ans)
   <-> Nat.eqb (length ans) (h * w) && forallb is01 ans && local_pre ans &&
       connected_b (board h w) (act ans) && local ans = true).
Proof.
  intros Hp Hdef Hact Hpre Hloc.
  destruct (avc_prim_state h w pre acts act st1 Hp Hdef Hact) as [Hv [e [Hc He]]].
  set (n := h * w) in *.
  set (rd := fun en : env => map (fun i => b2z (eb en i)) (seq 0 n)).
  assert (Hmodel : forall en, model_of gsem_avc en (ensure st1 extra) <->
                     local_pre (rd en) && connected_b (board h w) (act (rd en)) && local (rd en) = true).
  { intros en. unfold model_of, in_bounds, satisfies, ensure. cbn [vars Program.cons].
    rewrite Hv, Hc, in_bounds_from_bools, !forallb_app. cbn [forallb]. rewrite andb_true_r.
    rewrite He, <- Hpre, <- Hloc. fold (rd en). split; [intros [_ H]; exact H|intros H; split; [reflexivity|exact H]]. }
  assert (Hreads : forall en, reads (ensure st1 extra) en (seq 0 n) = rd en).
  { intros en. apply (reads_bool_prefix _ en n []). simpl. rewrite Hv, app_nil_r. reflexivity. }
  split.
  - intros [en [Hm Hr]]. rewrite Hreads in Hr. subst ans. apply Hmodel in Hm.
    replace (Nat.eqb (length (rd en)) n) with true
      by (unfold rd; rewrite map_length, seq_length; symmetry; apply Nat.eqb_refl).
    replace (forallb is01 (rd en)) with true
      by (unfold rd; rewrite forallb_map; symmetry; apply forallb_forall; intros; apply is01_b2z).
    exact Hm.
  - intros Hr.
    apply andb_true_iff in Hr. destruct Hr as [Hr Hcl].
    apply andb_true_iff in Hr. destruct Hr as [Hr Hconn].
    apply andb_true_iff in Hr. destruct Hr as [Hr Hpr].
    apply andb_true_iff in Hr. destruct Hr as [Hlen H01]. apply Nat.eqb_eq in Hlen.
    pose proof (answer_as_reading ans n Hlen H01) as Ha.
    exists (env_of_answer ans). split; [|rewrite Hreads; exact Ha].
    apply Hmodel. unfold rd. rewrite Ha, Hpr, Hconn, Hcl. reflexivity.
Qed.

(* the common form: nothing posted before the call, is_active = the answer grid itself *)
Theorem avc_grid_compose_prim h w (extra : list expr) (local : answer -> bool) st1 ans :
  post_avc (bool_grid_state (h * w) []) (map BVar (seq 0 (h * w))) (grid_graph h w) false true = Ok st1 ->
  (forall en, local (map (fun i => b2z (eb en i)) (seq 0 (h * w))) = forallb (holds gsem_avc en) extra) ->
  ((exists en, model_of gsem_avc en (ensure st1 extra) /\ reads (ensure st1 extra) en (seq 0 (h * w)) = ans)
   <-> Nat.eqb (length ans) (h * w) && forallb is01 ans &&
       cells_connected h w (fun v => isb (getz ans v)) && local ans = true).
Proof.
  intros Hp Hloc.
  pose proof (avc_grid_compose_gen_prim h w [] extra (map BVar (seq 0 (h * w))) (fun a v => isb (getz a v))
                (fun _ => true) local st1 ans Hp (acts_def (h * w))) as G.
  rewrite andb_true_r in G. apply G.
  - intros en v _. symmetry. apply reading_act.
  - intros en. reflexivity.
  - exact Hloc.
Qed.

(* a solver that declares k integers in [0, 2] and k booleans after the call (lits): the later variables are
   existential; the node does not mention them *)
Theorem lits_compose_prim h w k (extra : list expr) (loc : answer -> bool) st1 ans :
  post_avc (bool_grid_state (h * w) []) (map BVar (seq 0 (h * w))) (grid_graph h w) false true = Ok st1 ->
  let st := {| vars := vars st1 ++ repeat (DInt 0 2) k ++ repeat DBool k;
               keys := keys st1 ++ repeat false (k + k);
               cons := Program.cons st1 ++ extra |} in
  (forall en, forallb (holds gsem_avc en) extra = true -> loc (map (fun i => b2z (eb en i)) (seq 0 (h * w))) = true) ->
  (forall en, loc (map (fun i => b2z (eb en i)) (seq 0 (h * w))) = true ->
     exists en', agree_below (next_id st1) en en' /\
                 (forall j, j < k -> (0 <= ei en' (next_id st1 + j) <= 2)%Z) /\
                 forallb (holds gsem_avc en') extra = true) ->
  next_id st1 = h * w /\
  ((exists en, model_of gsem_avc en st /\ reads st en (seq 0 (h * w)) = ans)
   <-> Nat.eqb (length ans) (h * w) && forallb is01 ans &&
       cells_connected h w (fun v => isb (getz ans v)) && loc ans = true).
Proof.
  intros Hp st H1 H2.
  destruct (avc_prim_state h w [] (map BVar (seq 0 (h * w))) (fun a v => isb (getz a v)) st1 Hp (acts_def (h * w)))
    as [Hv [e [Hc He]]]; [intros en v _; symmetry; apply reading_act|].
  set (n := h * w) in *.
  set (rd := fun en : env => map (fun i => b2z (eb en i)) (seq 0 n)).
  assert (Hn1 : next_id st1 = n) by (unfold next_id; rewrite Hv; apply repeat_length).
  split; [exact Hn1|].
  assert (Hmodel : forall en, model_of gsem_avc en st <->
                     ((forall j, j < k -> (0 <= ei en (next_id st1 + j) <= 2)%Z) /\
                      cells_connected h w (fun v => isb (getz (rd en) v)) = true /\
                      forallb (holds gsem_avc en) extra = true)).
  { intros en. unfold model_of, in_bounds, satisfies, st. cbn [vars Program.cons].
    rewrite Hv, Hc, !in_bounds_from_app, !in_bounds_from_bools, andb_true_r, !forallb_app. cbn [forallb andb Nat.add].
    rewrite andb_true_r, andb_true_iff, in_bounds_from_ints, repeat_length, He. fold (rd en).
    rewrite Hn1. unfold cells_connected. tauto. }
  assert (Hreads : forall en, reads st en (seq 0 n) = rd en).
  { intros en. eapply reads_bool_prefix. unfold st. cbn [vars]. rewrite Hv. reflexivity. }
  split.
  - intros [en [Hm Hr]]. rewrite Hreads in Hr. subst ans. apply Hmodel in Hm. destruct Hm as [_ [Hconn Hx]].
    replace (Nat.eqb (length (rd en)) n) with true
      by (unfold rd; rewrite map_length, seq_length; symmetry; apply Nat.eqb_refl).
    replace (forallb is01 (rd en)) with true
      by (unfold rd; rewrite forallb_map; symmetry; apply forallb_forall; intros; apply is01_b2z).
    rewrite Hconn. apply (H1 en Hx).
  - intros Hr.
    apply andb_true_iff in Hr. destruct Hr as [Hr Hcl].
    apply andb_true_iff in Hr. destruct Hr as [Hr Hconn].
    apply andb_true_iff in Hr. destruct Hr as [Hlen H01]. apply Nat.eqb_eq in Hlen.
    pose proof (answer_as_reading ans n Hlen H01) as Ha.
    rewrite <- Ha in Hcl. destruct (H2 _ Hcl) as [en' [Hag [Hb Hx]]].
    assert (Hsame : rd en' = ans).
    { rewrite <- Ha. unfold rd. apply map_ext_in. intros i Hi. apply in_seq in Hi.
      destruct (Hag i ltac:(lia)) as [E _]. rewrite E. reflexivity. }
    exists en'. split; [|rewrite Hreads; exact Hsame].
    apply Hmodel. rewrite Hsame. auto.
Qed.
