(* The Rooms decoder's flood fill reconstructs the room-index grid from the two border bitmaps. *)
From Coq Require Import ZArith List Ascii Bool NArith Lia Sorting.Sorted.
From Cspuz Require Import Lib.PyErr Codec.Comb Codec.CombWf Codec.RoomsGrid.
Import ListNotations.
Local Open Scope Z_scope.

(* ------------------------------------------------------------------ order of cells *)
Lemma cell_ltb_trans a b c : cell_lt a b -> cell_lt b c -> cell_lt a c.
Proof.
  unfold cell_lt, cell_ltb. intros H1 H2.
  apply orb_true_iff in H1. apply orb_true_iff in H2. apply orb_true_iff.
  rewrite !andb_true_iff, !Nat.ltb_lt, !Nat.eqb_eq in *. lia.
Qed.

Lemma cell_lt_irrefl a : ~ cell_lt a a.
Proof.
  unfold cell_lt, cell_ltb. intros H. apply orb_true_iff in H.
  rewrite !andb_true_iff, !Nat.ltb_lt, !Nat.eqb_eq in *. lia.
Qed.

Lemma cell_lt_spec a b : cell_lt a b <-> (fst a < fst b)%nat \/ (fst a = fst b /\ (snd a < snd b)%nat).
Proof.
  unfold cell_lt, cell_ltb. rewrite orb_true_iff, andb_true_iff, !Nat.ltb_lt, Nat.eqb_eq. reflexivity.
Qed.

Lemma cell_trichotomy (a b : cell) : cell_lt a b \/ a = b \/ cell_lt b a.
Proof.
  rewrite !cell_lt_spec. destruct a as [ay ax], b as [by_ bx]. simpl.
  destruct (Nat.lt_trichotomy ay by_) as [?|[?|?]]; try lia.
  destruct (Nat.lt_trichotomy ax bx) as [?|[?|?]]; try lia.
  right; left. f_equal; lia.
Qed.

Lemma StronglySorted_app {A} (R : A -> A -> Prop) l1 l2 :
  StronglySorted R l1 -> StronglySorted R l2 -> (forall a b, In a l1 -> In b l2 -> R a b) ->
  StronglySorted R (l1 ++ l2).
Proof.
  induction l1 as [|x l1 IH]; simpl; intros H1 H2 H12; auto.
  inversion H1; subst. constructor.
  - apply IH; auto.
  - apply Forall_app. split; auto. rewrite Forall_forall. intros b Hb. apply H12; auto.
Qed.

Lemma row_sorted y : forall s n, StronglySorted cell_lt (map (fun x => (y, x)) (seq s n)).
Proof.
  intros s n; revert s; induction n; intros s; simpl; constructor; auto.
  rewrite Forall_forall. intros c Hc. apply in_map_iff in Hc as (x & E & Hx). subst. apply in_seq in Hx.
  apply cell_lt_spec. simpl. lia.
Qed.

Lemma cells_sorted_gen W : forall n s,
  StronglySorted cell_lt (flat_map (fun y => map (fun x => (y, x)) (seq 0 W)) (seq s n)).
Proof.
  induction n; intros s; simpl; [constructor|].
  apply StronglySorted_app; auto using row_sorted.
  intros a b Ha Hb. apply in_map_iff in Ha as (x & E & Hx). subst.
  apply in_flat_map in Hb as (y' & Hy' & Hb). apply in_map_iff in Hb as (x' & E & Hx'). subst.
  apply in_seq in Hy'. apply cell_lt_spec. simpl. lia.
Qed.

Lemma cells_of_sorted H W : StronglySorted cell_lt (cells_of (Z.of_nat H) (Z.of_nat W)).
Proof. unfold cells_of. rewrite !Nat2Z.id. apply cells_sorted_gen. Qed.

Lemma cells_length_gen W : forall n s,
  length (flat_map (fun y => map (fun x => (y, x)) (seq 0 W)) (seq s n)) = (n * W)%nat.
Proof.
  induction n as [|n IH]; intros s; simpl; auto.
  rewrite app_length, map_length, seq_length, IH. reflexivity.
Qed.

Lemma cells_of_length H W : length (cells_of (Z.of_nat H) (Z.of_nat W)) = (H * W)%nat.
Proof. unfold cells_of. rewrite !Nat2Z.id. apply cells_length_gen. Qed.

Lemma sorted_nodup l : StronglySorted cell_lt l -> NoDup l.
Proof.
  induction 1 as [|a l Hs IH Hf]; constructor; auto.
  intros Hin. rewrite Forall_forall in Hf. apply (cell_lt_irrefl a). auto.
Qed.

(* ------------------------------------------------------------------ counting *)
Lemma filter_count_drop {A} (P P' : A -> bool) (a : A) l :
  NoDup l -> In a l -> P a = true -> P' a = false -> (forall b, b <> a -> P' b = P b) ->
  (length (filter P' l) + 1 = length (filter P l))%nat.
Proof.
  induction l as [|x l IH]; intros Hnd Hin Hpa Hpa' Hoth; [contradiction|].
  inversion Hnd as [|? ? Hnotin Hnd']; subst. simpl. destruct Hin as [E|Hin].
  - subst x. rewrite Hpa, Hpa'. simpl.
    assert (E : filter P' l = filter P l).
    { apply filter_ext_in. intros b Hb. apply Hoth. intros E. subst. contradiction. }
    rewrite E. lia.
  - assert (x <> a) by (intros E; subst; contradiction).
    rewrite (Hoth x H). destruct (P x); simpl; rewrite <- (IH Hnd' Hin Hpa Hpa' Hoth); lia.
Qed.

(* ------------------------------------------------------------------ one direction of the fill *)
Definition dir_push (cond : bool) (flag : Z) (nb : nat * nat) (st : list (nat * nat)) : list (nat * nat) :=
  if cond then (if flag =? 0 then nb :: st else st) else st.

Lemma dir_push_eq (cond : bool) g yy xx flag nb st :
  (cond = true -> grid_get g yy xx = Ok flag) ->
  (if cond then match grid_get g yy xx with
                | Err e => Err e
                | Ok b => Ok (if b =? 0 then nb :: st else st)
                end
   else Ok st) = Ok (dir_push cond flag nb st).
Proof.
  intros Hg. unfold dir_push. destruct cond; auto. rewrite (Hg eq_refl). reflexivity.
Qed.

Lemma dir_push_length cond flag nb st : (length (dir_push cond flag nb st) <= S (length st))%nat.
Proof. unfold dir_push. destruct cond; [destruct (flag =? 0)|]; simpl; lia. Qed.

Lemma dir_push_incl cond flag nb st c : In c st -> In c (dir_push cond flag nb st).
Proof. unfold dir_push. destruct cond; [destruct (flag =? 0)|]; simpl; auto. Qed.

Lemma dir_push_in cond flag nb st c : In c (dir_push cond flag nb st) ->
  In c st \/ (cond = true /\ flag = 0 /\ c = nb).
Proof.
  unfold dir_push. destruct cond; auto. destruct (Z.eqb_spec flag 0); auto.
  simpl. intros [E|Hin]; auto.
Qed.

Lemma dir_push_new cond flag nb st : cond = true -> flag = 0 -> In nb (dir_push cond flag nb st).
Proof. intros -> ->. simpl. auto. Qed.

(* ------------------------------------------------------------------ the fill, relative to a room-index function *)
Section Fill.
  Variables (H W : nat).
  Variable rid : cell -> Z.
  Variable n : nat.

  Definition inb (c : cell) : Prop := (fst c < H)%nat /\ (snd c < W)%nat.
  Definition cells : list cell := cells_of (Z.of_nat H) (Z.of_nat W).

  Lemma cells_inb c : In c cells <-> inb c.
  Proof. destruct c as [y x]. unfold cells, inb. apply cells_of_in. Qed.

  (* paths inside one room *)
  Inductive path : cell -> cell -> Prop :=
    | path_refl a : inb a -> path a a
    | path_step a b c : path a b -> inb c -> adjacent b c -> rid c = rid b -> path a c.

  Hypothesis rid_range : forall c, inb c -> 0 <= rid c < Z.of_nat n.
  Hypothesis rooms_connected : forall a b, inb a -> inb b -> rid a = rid b -> path a b.

  Definition vflag (y x : nat) : Z := if rid (y, x) =? rid (y, (x + 1)%nat) then 0 else 1.
  Definition hflag (y x : nat) : Z := if rid (y, x) =? rid ((y + 1)%nat, x) then 0 else 1.
  Definition vg : list (list Z) := mk_grid H (W - 1) vflag.
  Definition hg : list (list Z) := mk_grid (H - 1) W hflag.

  Definition getc (g : list (list Z)) (c : cell) : res Z := grid_get g (fst c) (snd c).
  Definition unassigned (g : list (list Z)) (c : cell) : bool :=
    match getc g c with Ok v => v =? -1 | Err _ => false end.
  Definition U (g : list (list Z)) : nat := length (filter (unassigned g) cells).

  Lemma U_set g c k : wfg H W g -> inb c -> getc g c = Ok (-1) -> k <> -1 ->
    (U (grid_set g (fst c) (snd c) k) + 1 = U g)%nat.
  Proof.
    intros Hw Hc Hg Hk. unfold U. apply filter_count_drop with (a := c).
    - apply sorted_nodup. apply cells_of_sorted.
    - apply cells_inb; auto.
    - unfold unassigned. rewrite Hg. reflexivity.
    - unfold unassigned, getc. destruct Hc. rewrite (grid_get_set_same H W) by auto.
      apply Z.eqb_neq. auto.
    - intros b Hb. unfold unassigned, getc. rewrite grid_get_set_other; auto.
      intros E. apply Hb. destruct b as [b1 b2], c as [c1 c2]. simpl in E. congruence.
  Qed.

  (* the stack after visiting (y, x) *)
  Definition pushes (y x : nat) (st : list cell) : list cell :=
    dir_push (Z.of_nat x <? Z.of_nat W - 1) (vflag y x) (y, (x + 1)%nat)
      (dir_push (0 <? Z.of_nat x) (vflag y (x - 1)) (y, (x - 1)%nat)
         (dir_push (Z.of_nat y <? Z.of_nat H - 1) (hflag y x) ((y + 1)%nat, x)
            (dir_push (0 <? Z.of_nat y) (hflag (y - 1) x) ((y - 1)%nat, x) st))).

  Lemma fill_loop_unfold f g y x st id : inb (y, x) ->
    fill_loop (S f) (Z.of_nat H) (Z.of_nat W) vg hg g ((y, x) :: st) id =
    match grid_get g y x with
    | Err e => Err e
    | Ok v => if negb (v =? -1) then fill_loop f (Z.of_nat H) (Z.of_nat W) vg hg g st id
              else fill_loop f (Z.of_nat H) (Z.of_nat W) vg hg (grid_set g y x id) (pushes y x st) id
    end.
  Proof.
    intros [Hy Hx]. simpl in Hy, Hx. cbn [fill_loop]. destruct (grid_get g y x) as [v|]; auto.
    destruct (negb (v =? -1)); auto.
    rewrite (dir_push_eq (0 <? Z.of_nat y) hg (y - 1) x (hflag (y - 1) x)).
    2:{ intros Hc. apply Z.ltb_lt in Hc. unfold hg. apply mk_grid_get; lia. }
    rewrite (dir_push_eq (Z.of_nat y <? Z.of_nat H - 1) hg y x (hflag y x)).
    2:{ intros Hc. apply Z.ltb_lt in Hc. unfold hg. apply mk_grid_get; lia. }
    rewrite (dir_push_eq (0 <? Z.of_nat x) vg y (x - 1) (vflag y (x - 1))).
    2:{ intros Hc. apply Z.ltb_lt in Hc. unfold vg. apply mk_grid_get; lia. }
    rewrite (dir_push_eq (Z.of_nat x <? Z.of_nat W - 1) vg y x (vflag y x)).
    2:{ intros Hc. apply Z.ltb_lt in Hc. unfold vg. apply mk_grid_get; lia. }
    reflexivity.
  Qed.

  Lemma flag0 a b : (if rid a =? rid b then 0 else 1) = 0 <-> rid a = rid b.
  Proof. destruct (Z.eqb_spec (rid a) (rid b)); split; intros E; auto; try discriminate; contradiction. Qed.

  (* what gets pushed: exactly the in-bounds neighbours in the same room *)
  Lemma pushes_in y x st c : inb (y, x) -> In c (pushes y x st) ->
    In c st \/ (inb c /\ adjacent (y, x) c /\ rid c = rid (y, x)).
  Proof.
    intros [Hy Hx] Hin. simpl in Hy, Hx. unfold pushes in Hin.
    apply dir_push_in in Hin as [Hin|(Hc & Hf & E)].
    2:{ right. subst c. apply Z.ltb_lt in Hc. apply flag0 in Hf. unfold inb, adjacent; simpl.
        repeat split; auto; try lia. }
    apply dir_push_in in Hin as [Hin|(Hc & Hf & E)].
    2:{ right. subst c. apply Z.ltb_lt in Hc. apply flag0 in Hf. unfold inb, adjacent; simpl.
        replace (x - 1 + 1)%nat with x in Hf by lia. repeat split; auto; try lia. }
    apply dir_push_in in Hin as [Hin|(Hc & Hf & E)].
    2:{ right. subst c. apply Z.ltb_lt in Hc. apply flag0 in Hf. unfold inb, adjacent; simpl.
        repeat split; auto; try lia. }
    apply dir_push_in in Hin as [Hin|(Hc & Hf & E)]; auto.
    right. subst c. apply Z.ltb_lt in Hc. apply flag0 in Hf. unfold inb, adjacent; simpl.
    replace (y - 1 + 1)%nat with y in Hf by lia. repeat split; auto; try lia.
  Qed.

  Lemma pushes_incl y x st c : In c st -> In c (pushes y x st).
  Proof. intros Hin. unfold pushes. repeat apply dir_push_incl. exact Hin. Qed.

  Lemma pushes_length y x st : (length (pushes y x st) <= length st + 4)%nat.
  Proof.
    unfold pushes.
    set (s1 := dir_push (0 <? Z.of_nat y) (hflag (y - 1) x) ((y - 1)%nat, x) st).
    set (s2 := dir_push (Z.of_nat y <? Z.of_nat H - 1) (hflag y x) ((y + 1)%nat, x) s1).
    set (s3 := dir_push (0 <? Z.of_nat x) (vflag y (x - 1)) (y, (x - 1)%nat) s2).
    pose proof (dir_push_length (0 <? Z.of_nat y) (hflag (y - 1) x) ((y - 1)%nat, x) st) as L1.
    pose proof (dir_push_length (Z.of_nat y <? Z.of_nat H - 1) (hflag y x) ((y + 1)%nat, x) s1) as L2.
    pose proof (dir_push_length (0 <? Z.of_nat x) (vflag y (x - 1)) (y, (x - 1)%nat) s2) as L3.
    pose proof (dir_push_length (Z.of_nat x <? Z.of_nat W - 1) (vflag y x) (y, (x + 1)%nat) s3) as L4.
    fold s1 in L1. fold s2 in L2. fold s3 in L3.
    generalize dependent (dir_push (Z.of_nat x <? Z.of_nat W - 1) (vflag y x) (y, (x + 1)%nat) s3).
    intros s4 L4. clearbody s1 s2 s3. unfold cell in *. lia.
  Qed.

  Lemma pushes_all y x st c : inb (y, x) -> inb c -> adjacent (y, x) c -> rid c = rid (y, x) ->
    In c (pushes y x st).
  Proof.
    intros [Hy Hx] [Hcy Hcx] Hadj Hrid. destruct c as [cy cx]. simpl in *. unfold adjacent in Hadj. simpl in Hadj.
    unfold pushes.
    destruct Hadj as [[Ey [Ex|Ex]]|[Ex [Ey|Ey]]]; subst.
    - (* right *) replace (S x) with (x + 1)%nat in * by lia. apply dir_push_new.
      + apply Z.ltb_lt. lia.
      + apply flag0. auto.
    - (* left *) apply dir_push_incl. replace (cy, cx) with (cy, (S cx - 1)%nat) by (f_equal; lia). apply dir_push_new.
      + apply Z.ltb_lt. lia.
      + apply flag0. replace (S cx - 1 + 1)%nat with (S cx) by lia. replace (S cx - 1)%nat with cx by lia. auto.
    - (* down *) do 2 apply dir_push_incl. replace (S y) with (y + 1)%nat in * by lia. apply dir_push_new.
      + apply Z.ltb_lt. lia.
      + apply flag0. auto.
    - (* up *) do 3 apply dir_push_incl. replace (cy, cx) with ((S cy - 1)%nat, cx) by (f_equal; lia). apply dir_push_new.
      + apply Z.ltb_lt. lia.
      + apply flag0. replace (S cy - 1 + 1)%nat with (S cy) by lia. replace (S cy - 1)%nat with cy by lia. auto.
  Qed.

  (* ---------------------------------------------------------------- one fill *)
  Section OneFill.
    Variable k : Z.
    Variable seed : cell.
    Hypothesis Hk : 0 <= k.
    Definition R (c : cell) : Prop := inb c /\ rid c = k.
    Hypothesis Hseed : R seed.

    Lemma path_assigned g : (forall c c', R c -> getc g c = Ok k -> R c' -> adjacent c c' -> getc g c' = Ok k) ->
      forall a b, path a b -> R a -> getc g a = Ok k -> R b /\ getc g b = Ok k.
    Proof.
      intros Hclosed a b Hp. induction Hp as [a Ha|a b c Hp IH Hc Hadj Hrid]; intros Ra Hga; [split; auto|].
      destruct (IH Ra Hga) as [Rb Hgb].
      assert (Rc : R c) by (split; auto; destruct Rb; congruence).
      split; [exact Rc|]. exact (Hclosed b c Rb Hgb Rc Hadj).
    Qed.

    Lemma fill_loop_inv : forall fuel g' stack,
      wfg H W g' ->
      (forall c, R c -> getc g' c = Ok (-1) \/ getc g' c = Ok k) ->
      (forall c, In c stack -> R c) ->
      (forall c c', R c -> getc g' c = Ok k -> R c' -> adjacent c c' -> getc g' c' = Ok k \/ In c' stack) ->
      (getc g' seed = Ok k \/ In seed stack) ->
      (length stack + 4 * U g' < fuel)%nat ->
      exists g'', fill_loop fuel (Z.of_nat H) (Z.of_nat W) vg hg g' stack k = Ok g'' /\ wfg H W g'' /\
        (forall c, inb c -> rid c <> k -> getc g'' c = getc g' c) /\ (forall c, R c -> getc g'' c = Ok k).
    Proof.
      induction fuel as [|f IH]; intros g' stack Hw H3 H4 H5 H6 H7; [lia|].
      destruct stack as [|[y x] st].
      - exists g'. split; [reflexivity|]. split; [exact Hw|]. split; [auto|].
        intros c Rc. destruct H6 as [H6|[]].
        assert (Hcl : forall c c', R c -> getc g' c = Ok k -> R c' -> adjacent c c' -> getc g' c' = Ok k).
        { intros a b Ra Hga Rb Hadj. destruct (H5 a b Ra Hga Rb Hadj) as [?|[]]; auto. }
        destruct Hseed as [Hsi Hsr]. destruct Rc as [Hci Hcr].
        destruct (path_assigned g' Hcl seed c (rooms_connected seed c Hsi Hci ltac:(congruence)) (conj Hsi Hsr) H6); auto.
      - assert (Rc : R (y, x)) by (apply H4; left; auto). pose proof Rc as [Hin Hr].
        rewrite fill_loop_unfold by auto.
        change (grid_get g' y x) with (getc g' (y, x)).
        destruct (H3 _ Rc) as [Hg|Hg]; rewrite Hg.
        + (* not visited yet *)
          change (negb (-1 =? -1)) with false. cbv iota.
          set (g2 := grid_set g' y x k).
          assert (Hw2 : wfg H W g2) by (apply grid_set_wfg; auto).
          assert (Hsame : getc g2 (y, x) = Ok k).
          { unfold getc, g2. simpl. destruct Hin. apply (grid_get_set_same H W); auto. }
          assert (Hoth : forall c, c <> (y, x) -> getc g2 c = getc g' c).
          { intros c Hne. unfold getc, g2. apply grid_get_set_other. intros E. apply Hne. destruct c; simpl in *. congruence. }
          assert (HU : (U g2 + 1 = U g')%nat).
          { unfold g2. apply (U_set g' (y, x) k); auto. lia. }
          destruct (IH g2 (pushes y x st)) as (g'' & Hfl & Hw'' & Hout & Hall); auto.
          * intros c Rc'. destruct (cell_trichotomy c (y, x)) as [Hlt|[E|Hlt]].
            -- rewrite Hoth; auto. intros E; subst. apply (cell_lt_irrefl _ Hlt).
            -- subst. auto.
            -- rewrite Hoth; auto. intros E; subst. apply (cell_lt_irrefl _ Hlt).
          * intros c Hc. apply pushes_in in Hc as [Hc|(Hci & _ & Hcr)]; auto.
            -- apply H4. right; auto.
            -- split; auto. congruence.
          * intros c c' Rc1 Hg1 Rc' Hadj.
            assert (Hdec : c = (y, x) \/ c <> (y, x)).
            { destruct (cell_trichotomy c (y, x)) as [Hlt|[E|Hlt]]; auto;
                right; intros E; subst; apply (cell_lt_irrefl _ Hlt). }
            destruct Hdec as [E|Hne].
            -- subst c. right. destruct Rc' as [Hci' Hcr']. apply pushes_all; auto. congruence.
            -- rewrite Hoth in Hg1 by auto.
               destruct (H5 c c' Rc1 Hg1 Rc' Hadj) as [Hg'|[E|Hin']].
               ++ left. assert (Hdec' : c' = (y, x) \/ c' <> (y, x)).
                  { destruct (cell_trichotomy c' (y, x)) as [Hlt|[E|Hlt]]; auto;
                      right; intros E; subst; apply (cell_lt_irrefl _ Hlt). }
                  destruct Hdec' as [E|Hne']; [subst; auto|rewrite Hoth; auto].
               ++ subst c'. left; auto.
               ++ right. apply pushes_incl; auto.
          * destruct H6 as [H6|[E|Hin']].
            -- left. assert (Hdec' : seed = (y, x) \/ seed <> (y, x)).
               { destruct (cell_trichotomy seed (y, x)) as [Hlt|[E|Hlt]]; auto;
                   right; intros E; subst; apply (cell_lt_irrefl _ Hlt). }
               destruct Hdec' as [E|Hne']; [rewrite E; auto|rewrite Hoth; auto].
            -- left. rewrite <- E. auto.
            -- right. apply pushes_incl; auto.
          * pose proof (pushes_length y x st). simpl in H7. lia.
          * exists g''. split; auto. split; auto. split; auto.
            intros c Hci Hcr. rewrite Hout by auto. apply Hoth. intros E; subst. congruence.
        + (* already visited *)
          assert (Hnk : negb (k =? -1) = true) by (apply negb_true_iff, Z.eqb_neq; lia).
          rewrite Hnk.
          destruct (IH g' st) as (g'' & Hfl & Hw'' & Hout & Hall); auto.
          * intros c Hc. apply H4. right; auto.
          * intros c c' Rc1 Hg1 Rc' Hadj. destruct (H5 c c' Rc1 Hg1 Rc' Hadj) as [?|[E|?]]; auto.
            subst c'. left; auto.
          * destruct H6 as [?|[E|?]]; auto. left. rewrite <- E. auto.
          * simpl in H7. lia.
          * exists g''. auto.
    Qed.
  End OneFill.

  (* ---------------------------------------------------------------- the scan over all cells *)
  Variable heads : nat -> cell.      (* least cell of every room *)
  Hypothesis heads_ok : forall i, (i < n)%nat ->
    inb (heads i) /\ rid (heads i) = Z.of_nat i /\
    forall c, inb c -> rid c = Z.of_nat i -> c = heads i \/ cell_lt (heads i) c.
  Hypothesis heads_sorted : forall i j, (i < j < n)%nat -> cell_lt (heads i) (heads j).

  Lemma filter_length_le' {A} (f : A -> bool) l : (length (filter f l) <= length l)%nat.
  Proof. induction l; simpl; auto. destruct (f a); simpl; lia. Qed.

  Lemma cells_length : length cells = (H * W)%nat.
  Proof. apply cells_of_length. Qed.

  Lemma sorted_after {A} (Rr : A -> A -> Prop) l1 a l2 : StronglySorted Rr (l1 ++ a :: l2) -> forall b, In b l2 -> Rr a b.
  Proof.
    induction l1 as [|x l1 IH]; simpl; intros Hs b Hb.
    - inversion Hs as [|? ? _ Hf]; subst. rewrite Forall_forall in Hf. auto.
    - inversion Hs; subst. eapply IH; eauto.
  Qed.

  Definition SInv (k : nat) (g : list (list Z)) (done : list cell) : Prop :=
    wfg H W g /\
    (forall c, inb c -> getc g c = Ok (if rid c <? Z.of_nat k then rid c else -1)) /\
    (forall c, In c done -> rid c < Z.of_nat k) /\ (k <= n)%nat.

  Lemma fill_all_inv : forall todo done k g, cells = done ++ todo -> SInv k g done ->
    exists g', fill_all (Z.of_nat H) (Z.of_nat W) vg hg todo g (Z.of_nat k) = Ok (g', Z.of_nat n) /\
      wfg H W g' /\ forall c, inb c -> getc g' c = Ok (rid c).
  Proof.
    induction todo as [|[y x] todo IH]; intros done k g Hcells (Hw & H2 & H3 & Hkn).
    - rewrite app_nil_r in Hcells. subst done.
      assert (k = n).
      { destruct (Nat.eq_dec k n); auto. exfalso.
        destruct (heads_ok k ltac:(lia)) as (Hi & Hr & _).
        pose proof (H3 (heads k) (proj2 (cells_inb _) Hi)). lia. }
      subst k. exists g. simpl. split; auto. split; auto.
      intros c Hc. rewrite (H2 c Hc). pose proof (H3 c (proj2 (cells_inb _) Hc)) as Hlt.
      apply Z.ltb_lt in Hlt. rewrite Hlt. reflexivity.
    - assert (Hc : inb (y, x)). { apply cells_inb. rewrite Hcells. apply in_or_app. right. left. auto. }
      cbn [fill_all]. change (grid_get g y x) with (getc g (y, x)). rewrite (H2 _ Hc).
      destruct (Z.ltb_spec (rid (y, x)) (Z.of_nat k)) as [Hlt|Hge].
      + (* already filled *)
        pose proof (rid_range _ Hc) as Hrr.
        assert (E : (rid (y, x) =? -1) = false) by (apply Z.eqb_neq; lia). rewrite E.
        apply (IH (done ++ [(y, x)]) k g).
        * rewrite <- app_assoc. exact Hcells.
        * split; auto. split; auto. split; auto. intros c Hin. apply in_app_or in Hin as [Hin|[E'|[]]]; auto.
          subst c. auto.
      + (* a new room: it must be room k *)
        change (-1 =? -1) with true. cbv iota.
        pose proof (rid_range _ Hc) as Hrr.
        assert (Hk : (k < n)%nat) by lia.
        assert (Hrid : rid (y, x) = Z.of_nat k).
        { destruct (Z.eq_dec (rid (y, x)) (Z.of_nat k)) as [|Hne]; auto. exfalso.
          set (j := Z.to_nat (rid (y, x))). assert (Hj : (k < j < n)%nat) by (unfold j; lia).
          destruct (heads_ok k Hk) as (Hmi & Hmr & _).
          destruct (heads_ok j ltac:(lia)) as (_ & _ & Hleast).
          specialize (Hleast (y, x) Hc ltac:(unfold j; lia)).
          assert (Hm : In (heads k) cells) by (apply cells_inb; auto).
          rewrite Hcells in Hm. apply in_app_or in Hm as [Hm|[Hm|Hm]].
          - pose proof (H3 _ Hm). lia.
          - rewrite <- Hm in Hmr. lia.
          - assert (Hlt : cell_lt (y, x) (heads k)).
            { eapply sorted_after; [|exact Hm]. rewrite <- Hcells. apply cells_of_sorted. }
            pose proof (heads_sorted k j Hj) as Hkj.
            destruct Hleast as [E|Hl].
            + rewrite E in Hlt. apply (cell_lt_irrefl (heads j)). eapply cell_ltb_trans; eauto.
            + apply (cell_lt_irrefl (heads j)). eapply cell_ltb_trans; [exact Hl|]. eapply cell_ltb_trans; eauto. }
        destruct (fill_loop_inv (Z.of_nat k) (y, x) ltac:(lia) (conj Hc Hrid) (fill_fuel (Z.of_nat H) (Z.of_nat W)) g [(y, x)])
          as (g'' & Hfl & Hw'' & Hout & Hall); auto.
        * intros c [Hci Hcr]. left. rewrite (H2 c Hci). rewrite Hcr. rewrite Z.ltb_irrefl. reflexivity.
        * intros c [E|[]]. subst. split; auto.
        * intros c c' [Hci Hcr] Hg. rewrite (H2 c Hci) in Hg. rewrite Hcr, Z.ltb_irrefl in Hg. inversion Hg. lia.
        * right. left. reflexivity.
        * unfold fill_fuel. rewrite !Nat2Z.id. pose proof (filter_length_le' (unassigned g) cells) as Hle.
          fold (U g) in Hle. rewrite cells_length in Hle. simpl length. lia.
        * rewrite Hfl.
          replace (Z.of_nat k + 1) with (Z.of_nat (S k)) by lia.
          apply (IH (done ++ [(y, x)]) (S k) g'').
          -- rewrite <- app_assoc. exact Hcells.
          -- split; auto. split; [|split; [|lia]].
             ++ intros c Hci. destruct (Z.eq_dec (rid c) (Z.of_nat k)) as [E|Hne].
                ** rewrite (Hall c (conj Hci E)). rewrite E.
                   assert (Hl : (Z.of_nat k <? Z.of_nat (S k)) = true) by (apply Z.ltb_lt; lia). rewrite Hl. reflexivity.
                ** rewrite (Hout c Hci Hne), (H2 c Hci).
                   destruct (Z.ltb_spec (rid c) (Z.of_nat k)); destruct (Z.ltb_spec (rid c) (Z.of_nat (S k))); auto; lia.
             ++ intros c Hin. apply in_app_or in Hin as [Hin|[E'|[]]].
                ** pose proof (H3 c Hin). lia.
                ** subst c. lia.
  Qed.

  Theorem fill_all_correct :
    exists g, fill_all (Z.of_nat H) (Z.of_nat W) vg hg cells (neg_grid (Z.of_nat H) (Z.of_nat W)) 0 = Ok (g, Z.of_nat n) /\
      wfg H W g /\ forall c, inb c -> getc g c = Ok (rid c).
  Proof.
    apply (fill_all_inv cells [] 0%nat); auto.
    rewrite neg_grid_mk. split; [apply mk_grid_wfg|]. split; [|split; [intros c []|lia]].
    intros c [Hy Hx]. unfold getc. rewrite mk_grid_get by auto.
    pose proof (rid_range c (conj Hy Hx)). destruct (Z.ltb_spec (rid c) (Z.of_nat 0)); auto. lia.
  Qed.

  (* ---------------------------------------------------------------- after the scan *)
  Lemma redundant_ok g : (forall c, inb c -> getc g c = Ok (rid c)) ->
    forall l, (forall c, In c l -> inb c) ->
    redundant_check (Z.of_nat H) (Z.of_nat W) vg hg g l = Ok tt.
  Proof.
    intros Hg. induction l as [|[y x] l IH]; intros Hl; simpl; auto.
    assert (Hc : inb (y, x)) by (apply Hl; left; auto). destruct Hc as [Hy Hx]. simpl in Hy, Hx.
    assert (E1 : (if Z.of_nat y <? Z.of_nat H - 1
                  then match grid_get hg y x with
                       | Err e => Err e
                       | Ok b => if b =? 0 then Ok tt else
                           match grid_get g y x with
                           | Err e => Err e
                           | Ok a => match grid_get g (y + 1) x with
                                     | Err e => Err e
                                     | Ok a' => if a =? a' then Err ValueError else Ok tt
                                     end
                           end
                       end
                  else Ok tt) = Ok tt).
    { destruct (Z.ltb_spec (Z.of_nat y) (Z.of_nat H - 1)) as [Hlt|]; auto.
      unfold hg. rewrite mk_grid_get by lia. unfold hflag.
      destruct (Z.eqb_spec (rid (y, x)) (rid ((y + 1)%nat, x))) as [|Hne]; auto. cbn [Z.eqb].
      change (grid_get g y x) with (getc g (y, x)). change (grid_get g (y + 1) x) with (getc g ((y + 1)%nat, x)).
      rewrite !Hg by (unfold inb; simpl; lia). apply Z.eqb_neq in Hne. rewrite Hne. reflexivity. }
    rewrite E1.
    assert (E2 : (if Z.of_nat x <? Z.of_nat W - 1
                  then match grid_get vg y x with
                       | Err e => Err e
                       | Ok b => if b =? 0 then Ok tt else
                           match grid_get g y x with
                           | Err e => Err e
                           | Ok a => match grid_get g y (x + 1) with
                                     | Err e => Err e
                                     | Ok a' => if a =? a' then Err ValueError else Ok tt
                                     end
                           end
                       end
                  else Ok tt) = Ok tt).
    { destruct (Z.ltb_spec (Z.of_nat x) (Z.of_nat W - 1)) as [Hlt|]; auto.
      unfold vg. rewrite mk_grid_get by lia. unfold vflag.
      destruct (Z.eqb_spec (rid (y, x)) (rid (y, (x + 1)%nat))) as [|Hne]; auto. cbn [Z.eqb].
      change (grid_get g y x) with (getc g (y, x)). change (grid_get g y (x + 1)) with (getc g (y, (x + 1)%nat)).
      rewrite !Hg by (unfold inb; simpl; lia). apply Z.eqb_neq in Hne. rewrite Hne. reflexivity. }
    rewrite E2. apply IH. intros c Hin. apply Hl. right; auto.
  Qed.

  Definition room_cells_of (l : list cell) (i : nat) : list cell := filter (fun c => rid c =? Z.of_nat i) l.

  Lemma collect_inv g : (forall c, inb c -> getc g c = Ok (rid c)) ->
    forall todo done rs, (forall c, In c todo -> inb c) -> length rs = n ->
    (forall i, (i < n)%nat -> nth i rs [] = map cell_to_pv (room_cells_of done i)) ->
    exists rs', collect_rooms g todo rs = Ok rs' /\ length rs' = n /\
      forall i, (i < n)%nat -> nth i rs' [] = map cell_to_pv (room_cells_of (done ++ todo) i).
  Proof.
    intros Hg. induction todo as [|[y x] todo IH]; intros done rs Hl Hlen Hrs.
    - exists rs. rewrite app_nil_r. auto.
    - assert (Hc : inb (y, x)) by (apply Hl; left; auto). pose proof (rid_range _ Hc) as Hr.
      cbn [collect_rooms]. change (grid_get g y x) with (getc g (y, x)). rewrite (Hg _ Hc).
      assert (E : (rid (y, x) =? -1) = false) by (apply Z.eqb_neq; lia). rewrite E.
      unfold wrap_index. rewrite Hlen.
      assert (E2 : ((0 <=? rid (y, x)) && (rid (y, x) <? Z.of_nat n)) = true).
      { apply andb_true_iff. split; [apply Z.leb_le|apply Z.ltb_lt]; lia. }
      rewrite E2. set (i0 := Z.to_nat (rid (y, x))).
      destruct (IH (done ++ [(y, x)]) (set_nth rs i0 (nth i0 rs [] ++ [cell_pv y x]))) as (rs' & Hco & Hlen' & Hrs').
      + intros c Hin. apply Hl. right; auto.
      + rewrite set_nth_length. auto.
      + intros i Hi. unfold room_cells_of. rewrite filter_app. fold (room_cells_of done i). simpl.
        destruct (Nat.eq_dec i i0) as [Ei|Hne].
        * subst i. rewrite nth_set_nth_same by lia.
          assert (Er : (rid (y, x) =? Z.of_nat i0) = true) by (apply Z.eqb_eq; unfold i0; lia).
          rewrite Er. rewrite map_app. simpl. rewrite (Hrs i0 Hi). reflexivity.
        * assert (Er : (rid (y, x) =? Z.of_nat i) = false) by (apply Z.eqb_neq; unfold i0 in Hne; lia).
          rewrite Er. rewrite app_nil_r. rewrite nth_set_nth_other by auto. apply Hrs; auto.
      + exists rs'. split; auto. split; auto. intros i Hi. rewrite (Hrs' i Hi). rewrite <- app_assoc. reflexivity.
  Qed.

  Lemma list_eq_map_seq {A} (l : list A) d (f : nat -> A) :
    length l = n -> (forall i, (i < n)%nat -> nth i l d = f i) -> l = map f (seq 0 n).
  Proof.
    intros Hlen Hnth. apply (nth_ext _ _ d (f 0%nat)).
    - rewrite map_length, seq_length. auto.
    - intros i Hi. rewrite Hlen in Hi. rewrite Hnth by auto. rewrite map_nth. rewrite seq_nth by auto. reflexivity.
  Qed.

  Theorem rooms_of_borders_correct allow :
    rooms_of_borders (Z.of_nat H) (Z.of_nat W) allow vg hg
    = Ok (rooms_to_pv (map (room_cells_of cells) (seq 0 n))).
  Proof.
    unfold rooms_of_borders. fold cells.
    destruct fill_all_correct as (g & Hfa & Hw & Hg). rewrite Hfa.
    assert (Hred : (if allow then Ok tt else redundant_check (Z.of_nat H) (Z.of_nat W) vg hg g cells) = Ok tt).
    { destruct allow; auto. apply redundant_ok; auto. intros c Hc. apply cells_inb; auto. }
    rewrite Hred. rewrite Nat2Z.id.
    destruct (collect_inv g Hg cells [] (repeat [] n)) as (rs' & Hco & Hlen & Hrs).
    - intros c Hc. apply cells_inb; auto.
    - apply repeat_length.
    - intros i Hi. rewrite nth_repeat. reflexivity.
    - rewrite Hco. simpl in Hrs. f_equal. unfold rooms_to_pv. f_equal.
      rewrite (list_eq_map_seq rs' [] (fun i => map cell_to_pv (room_cells_of cells i)) Hlen Hrs).
      rewrite !map_map. reflexivity.
  Qed.
End Fill.
