(* C11 Tier 1 - model of cspuz/puzzle/nurimisaki.py::solve_nurimisaki (after fix f977eba), all board shapes:
       is_white = solver.bool_array((height, width)); solver.add_answer_key(is_white)
       graph.active_vertices_connected(solver, is_white)
       ensure(is_white[:-1, :-1] | is_white[1:, :-1] | is_white[:-1, 1:] | is_white[1:, 1:])
       ensure(~(is_white[:-1, :-1] & is_white[1:, :-1] & is_white[:-1, 1:] & is_white[1:, 1:]))
       for every cell (y, x), c = problem[y][x]:
         c == -1: ensure(is_white[y, x].then(count_true(is_white.four_neighbors(y, x)) != 1))
         else:    ensure(is_white[y, x]); ensure(count_true(is_white.four_neighbors(y, x)) == 1)
                  c != 0: one candidate per direction (up, down, left, right) in which the board has at least
                          c - 1 cells beyond (y, x): the next c - 1 cells are unshaded and the c-th, if it exists,
                          is shaded; none for c == 1;  ensure(fold_or(candidates))
   The c - 1 cells of a candidate are listed in ascending row / column order (as the Python slices do), i.e.
   reversed w.r.t. the line of sight for "up" and "left".
   The call into cspuz.graph is the model of property C04 (Graph/Avc.v::post_avc on the grid graph); on a
   board without cells it raises ValueError.
   The problem uses the encoding of Rules_nurimisaki.v ([[h; w]; grid]).  Documented alphabet of the module:
   -1 (no circle), 0 (circle), n >= 1; other negative values are outside it (the Python would read them as
   circles with a negative number) and the model rejects them.  No proofs here. *)
From Coq Require Import ZArith List Bool Arith.
From Cspuz Require Import Lib.PyErr Core.Expr Core.Program Graph.GraphModel Graph.Avc
     Puzzle.PuzzleBase Puzzle.ModelBase Puzzle.Akari.
Import ListNotations.
Local Open Scope nat_scope.

Definition wv (w : nat) (c : nat * nat) : expr := BVar (cidx w c).

Definition block_or (w y x : nat) : expr :=
  BNode OR [BNode OR [BNode OR [wv w (y, x); wv w (S y, x)]; wv w (y, S x)]; wv w (S y, S x)].
Definition block_nand (w y x : nat) : expr :=
  BNode NOT [BNode AND [BNode AND [BNode AND [wv w (y, x); wv w (S y, x)]; wv w (y, S x)]; wv w (S y, S x)]].

(* the candidate of one direction: k = c - 1 >= 1 cells beyond the circle; [asc] = the direction is listed
   in ascending order by the line of sight (down, right) *)
Definition misaki_candidate (h w y x : nat) (k : nat) (d : Z * Z) (asc : bool) : list expr :=
  let r := ray h w y x (fst d) (snd d) in
  let near := firstn k r in
  let ops := map (wv w) (if asc then near else rev near) in
  if Nat.eqb k (length r) then [BNode AND ops]
  else if Nat.ltb k (length r) then [BNode AND (ops ++ [BNode NOT [wv w (nth k r (0, 0))]])]
  else [].
Definition misaki_candidates (h w y x : nat) (c : Z) : list expr :=
  if (c =? 1)%Z then []
  else let k := Z.to_nat c - 1 in
       misaki_candidate h w y x k ((-1)%Z, 0%Z) false ++ misaki_candidate h w y x k (1%Z, 0%Z) true ++
       misaki_candidate h w y x k (0%Z, (-1)%Z) false ++ misaki_candidate h w y x k (0%Z, 1%Z) true.
Definition fold_or_nodes (l : list expr) : expr :=
  match l with [] => BNode BOOL_CONSTANT [PyBool false] | _ => BNode OR l end.

Definition misaki_cell (h w : nat) (grid : list Z) (c : nat * nat) : list expr :=
  let '(y, x) := c in
  let v := at2 grid w y x in
  let nb := ct_vars (map (cidx w) (nbr4 h w y x)) in
  if (v <? 0)%Z then [BNode IMP [wv w c; BNode NE [nb; PyInt 1]]]
  else wv w c :: BNode EQ [nb; PyInt 1] ::
       (if (v =? 0)%Z then [] else [fold_or_nodes (misaki_candidates h w y x v)]).

Definition nurimisaki_constraints (h w : nat) (grid : list Z) : list expr :=
  map (fun '(y, x) => block_or w y x) (cells (h - 1) (w - 1)) ++
  map (fun '(y, x) => block_nand w y x) (cells (h - 1) (w - 1)) ++
  flat_map (misaki_cell h w grid) (cells h w).

Definition solve_nurimisaki_model (pb : problem) : res state :=
  let h := dim pb 0 in let w := dim pb 1 in
  if existsb (fun v => (v <? -1)%Z) (sec pb 1) then Err ValueError
  else
  match post_avc (bool_grid_state (h * w) []) (map BVar (seq 0 (h * w))) (grid_graph h w) false false with
  | Ok st1 => Ok (ensure st1 (nurimisaki_constraints h w (sec pb 1)))
  | Err e => Err e
  end.
