(* C07: generic facts - nested induction on expr, independence of an expression
   from the variables it does not mention *)
From Coq Require Import ZArith List Bool Arith Lia.
From Cspuz Require Import Core.Expr Core.Program.
Import ListNotations.
Open Scope nat_scope.

Section ExprInd.
  Variable P : expr -> Prop.
  Hypothesis HPyBool : forall b, P (PyBool b).
  Hypothesis HPyInt : forall z, P (PyInt z).
  Hypothesis HPyNone : P PyNone.
  Hypothesis HBVar : forall i, P (BVar i).
  Hypothesis HIVar : forall i lo hi, P (IVar i lo hi).
  Hypothesis HBNode : forall o args, Forall P args -> P (BNode o args).
  Hypothesis HINode : forall o args, Forall P args -> P (INode o args).

  Fixpoint vg_expr_ind (e : expr) : P e :=
    match e with
    | PyBool b => HPyBool b
    | PyInt z => HPyInt z
    | PyNone => HPyNone
    | BVar i => HBVar i
    | IVar i lo hi => HIVar i lo hi
    | BNode o args =>
        HBNode o args ((fix go (l : list expr) : Forall P l :=
                          match l with [] => Forall_nil P | x :: r => Forall_cons x (vg_expr_ind x) (go r) end) args)
    | INode o args =>
        HINode o args ((fix go (l : list expr) : Forall P l :=
                          match l with [] => Forall_nil P | x :: r => Forall_cons x (vg_expr_ind x) (go r) end) args)
    end.
End ExprInd.

Lemma vg_max_id_arg a args :
  In a args -> max_id a <= fold_right (fun a m => Nat.max (max_id a) m) 0 args.
Proof.
  induction args as [|x r IH]; simpl; [intros []|].
  intros [->|H]; [lia|]. specialize (IH H). lia.
Qed.

Lemma vg_eval_agree gsem k e1 e2 e :
  agree_below k e1 e2 -> max_id e <= k -> eval gsem e1 e = eval gsem e2 e.
Proof.
  intros Hag. induction e as [b|z| |i|i lo hi|o args IH|o args IH] using vg_expr_ind;
    intros Hm; try reflexivity.
  - simpl in *. destruct (Hag i) as [H _]; [lia|]. rewrite H. reflexivity.
  - simpl in *. destruct (Hag i) as [_ H]; [lia|]. rewrite H. reflexivity.
  - cbn [eval]. f_equal. apply map_ext_in. intros a Ha.
    rewrite Forall_forall in IH. apply IH; [exact Ha|].
    pose proof (vg_max_id_arg a args Ha). simpl in Hm. lia.
  - cbn [eval]. f_equal. apply map_ext_in. intros a Ha.
    rewrite Forall_forall in IH. apply IH; [exact Ha|].
    pose proof (vg_max_id_arg a args Ha). simpl in Hm. lia.
Qed.

Lemma agree_below_refl k e : agree_below k e e.
Proof. intros i _. split; reflexivity. Qed.

Lemma agree_below_trans k e1 e2 e3 : agree_below k e1 e2 -> agree_below k e2 e3 -> agree_below k e1 e3.
Proof. intros H1 H2 i Hi. destruct (H1 i Hi), (H2 i Hi). split; congruence. Qed.

Lemma agree_below_le k k' e1 e2 : k <= k' -> agree_below k' e1 e2 -> agree_below k e1 e2.
Proof. intros Hk H i Hi. apply H. lia. Qed.
