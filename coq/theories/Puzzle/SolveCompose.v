(* C11: composition of a Tier-1 theorem (the answer-key readings of the models of the posted program are
   exactly the rule-obeying answers) with property C02's theorem about Solver.solve (solve_exact: the
   verdict is "no solution" exactly when the program has no model, and an answer key is reported decided
   with value v exactly when every model gives it v).  The result is C11's statement in full: solve_<p>
   reports a solution exactly when a rule-obeying grid exists, and the cells it reports as decided are
   exactly the cells on which all rule-obeying grids agree, with the agreed value.

   The Tier-1 theorems are stated for the evaluator [gsem] of the graph property they compose with
   (no_graph, gsem_avc, division_gsem); programs the public constructors build ([wt]) contain no native
   graph operator, so the choice of [gsem] is immaterial (eval_gsem_irrelevant). *)
From Coq Require Import ZArith List Bool Arith Lia.
From Cspuz Require Import Lib.PyErr Core.Expr Core.Program Backend.Z3 Backend.Z3Oracle Backend.ExprFacts
     Backend.Z3SolveProofs Backend.SolveLoop Backend.SolveLoopProofs Backend.SolveZ3Proofs
     Puzzle.PuzzleBase Puzzle.SatAbs.
Import ListNotations.

Notation b2z := PuzzleBase.b2z.

(* ---------------------------------------------------------------- the evaluator parameter is immaterial *)
Lemma eval_gsem_irrelevant gsem : forall e b, wt b e = true -> forall en, eval gsem en e = eval no_graph en e.
Proof.
  induction e as [c|z| |i|i lo hi|o args IH|o args IH] using expr_nested_ind; intros b W en; simpl in *;
    try reflexivity.
  - assert (Hmap : forall bb, forallb (wt bb) args = true -> map (eval gsem en) args = map (eval no_graph en) args).
    { intros bb F. rewrite forallb_forall in F. apply map_ext_in. intros a Ia.
      rewrite Forall_forall in IH. exact (IH a Ia bb (F a Ia) en). }
    destruct b; simpl in W; [|discriminate].
    destruct o; try discriminate; simpl.
    + destruct args as [|[c| | | | | |] [|]]; try discriminate. reflexivity.
    + apply andb_true_iff in W; destruct W as [_ W]. rewrite (Hmap _ W). reflexivity.
    + apply andb_true_iff in W; destruct W as [_ W]. rewrite (Hmap _ W). reflexivity.
    + apply andb_true_iff in W; destruct W as [_ W]. rewrite (Hmap _ W). reflexivity.
    + apply andb_true_iff in W; destruct W as [_ W]. rewrite (Hmap _ W). reflexivity.
    + apply andb_true_iff in W; destruct W as [_ W]. rewrite (Hmap _ W). reflexivity.
    + apply andb_true_iff in W; destruct W as [_ W]. rewrite (Hmap _ W). reflexivity.
    + apply andb_true_iff in W; destruct W as [_ W]. rewrite (Hmap _ W). reflexivity.
    + rewrite (Hmap _ W). reflexivity.
    + rewrite (Hmap _ W). reflexivity.
    + apply andb_true_iff in W; destruct W as [_ W]. rewrite (Hmap _ W). reflexivity.
    + apply andb_true_iff in W; destruct W as [_ W]. rewrite (Hmap _ W). reflexivity.
    + apply andb_true_iff in W; destruct W as [_ W]. rewrite (Hmap _ W). reflexivity.
    + rewrite (Hmap _ W). reflexivity.
  - assert (Hmap : forall bb, forallb (wt bb) args = true -> map (eval gsem en) args = map (eval no_graph en) args).
    { intros bb F. rewrite forallb_forall in F. apply map_ext_in. intros a Ia.
      rewrite Forall_forall in IH. exact (IH a Ia bb (F a Ia) en). }
    destruct b; simpl in W; [discriminate|].
    destruct o; try discriminate; simpl.
    + destruct args as [|[c|z| | | | |] [|]]; try discriminate. reflexivity.
    + apply andb_true_iff in W; destruct W as [_ W]. rewrite (Hmap _ W). reflexivity.
    + apply andb_true_iff in W; destruct W as [_ W]. rewrite (Hmap _ W). reflexivity.
    + apply andb_true_iff in W; destruct W as [_ W]. rewrite (Hmap _ W). reflexivity.
    + destruct args as [|c [|t [|f [|]]]]; try discriminate.
      apply andb_true_iff in W; destruct W as [W Wf]. apply andb_true_iff in W; destruct W as [Wc Wt].
      rewrite Forall_forall in IH. simpl.
      rewrite (IH c (or_introl eq_refl) true Wc en), (IH t (or_intror (or_introl eq_refl)) false Wt en),
              (IH f (or_intror (or_intror (or_introl eq_refl))) false Wf en). reflexivity.
Qed.

Lemma model_gsem_irrelevant gsem st : wf_state st -> forall en, model_of gsem en st <-> model_of no_graph en st.
Proof.
  intros W en. unfold model_of, satisfies.
  assert (E : forallb (holds gsem en) (Program.cons st) = forallb (holds no_graph en) (Program.cons st)).
  { unfold wf_state, wf_cons in W. rewrite forallb_forall in W.
    induction (Program.cons st) as [|c r IH]; [reflexivity|]. simpl.
    assert (Wc := W c (or_introl eq_refl)). apply andb_true_iff in Wc. destruct Wc as [Wc _].
    unfold holds at 1 3. rewrite (eval_gsem_irrelevant gsem c true Wc en).
    rewrite IH; [reflexivity|]. intros x Hx. apply W. right. exact Hx. }
  rewrite E. tauto.
Qed.

(* ---------------------------------------------------------------- values as the integers an answer lists *)
Definition zval (v : value) : Z := match v with VB b => b2z b | VI z => z end.

Lemma read_var_val st en i d : nth_error (vars st) i = Some d -> read_var st en i = zval (val_of en d i).
Proof. intros E. unfold read_var. rewrite E. destruct d; reflexivity. Qed.

Lemma zval_val_inj en1 en2 d i : zval (val_of en1 d i) = zval (val_of en2 d i) -> val_of en1 d i = val_of en2 d i.
Proof.
  destruct d; simpl; intros E; [|congruence].
  destruct (eb en1 i), (eb en2 i); simpl in E; try reflexivity; discriminate.
Qed.

Lemma nth_error_reads st en ids k i : nth_error ids k = Some i ->
  nth_error (reads st en ids) k = Some (read_var st en i).
Proof. intros E. unfold reads. rewrite nth_error_map, E. reflexivity. Qed.

(* ---------------------------------------------------------------- the composition *)
Section Compose.
  Variable oracle : list zterm -> option zmodel.
  Hypothesis oracle_sound : oracle_sound_on oracle.
  Hypothesis oracle_complete : oracle_complete_on oracle.

  Variable gsem : op -> list (option value) -> option bool.
  Variable st : state.
  Variable ids : list nat.
  Variable rules : list Z -> bool.

  Hypothesis W : wf_state st.
  Hypothesis K : wf_keys st.
  (* the answer is read on answer keys *)
  Hypothesis ids_keys : forall i, In i ids -> nth_error (keys st) i = Some true.
  (* the Tier-1 theorem of the module, as it is stated in Props/C11.v *)
  Hypothesis exact : forall ans,
    (exists en, model_of gsem en st /\ reads st en ids = ans) <-> rules ans = true.

  Lemma exact_ng ans : (exists en, model_of no_graph en st /\ reads st en ids = ans) <-> rules ans = true.
  Proof.
    rewrite <- exact. split; intros [en [M R]]; exists en; split; try exact R;
      apply (model_gsem_irrelevant gsem st W en); exact M.
  Qed.

  Lemma id_decl i : In i ids -> exists d, nth_error (vars st) i = Some d.
  Proof.
    intros Hi. pose proof (ids_keys i Hi) as Hk.
    assert (L : (i < length (keys st))%nat) by (apply nth_error_Some; congruence).
    unfold wf_keys in K. rewrite K in L.
    destruct (nth_error (vars st) i) eqn:E; [eauto|]. apply nth_error_None in E. lia.
  Qed.

  Theorem solve_puzzle_exact :
    exists r, solve oracle st = Ok r /\
      match r with
      | Unsat => forall ans, rules ans = false
      | Sat sol =>
          (exists ans, rules ans = true) /\
          forall k i, nth_error ids k = Some i ->
            exists a, nth_error sol i = Some a /\
              (* reported decided with value z  <->  every rule-obeying answer has z at this position *)
              (forall z, (exists v, a = Some v /\ zval v = z) <->
                         (forall ans, rules ans = true -> nth_error ans k = Some z)) /\
              (* reported undecided  <->  two rule-obeying answers differ at this position *)
              (a = None <-> exists a1 a2, rules a1 = true /\ rules a2 = true /\ nth_error a1 k <> nth_error a2 k)
      | OutOfFuel => False
      end.
  Proof.
    destruct (solve_exact_z3 oracle oracle_sound oracle_complete st W K) as [r [Hr Hspec]].
    exists r. split; [exact Hr|]. destruct r as [|sol|]; [| |exact Hspec].
    - intros ans. destruct (rules ans) eqn:E; [|reflexivity].
      apply exact_ng in E. destruct E as [en [M _]]. exfalso. apply Hspec. exists en. exact M.
    - destruct Hspec as [[en0 M0] Hkeys]. split.
      + exists (reads st en0 ids). apply exact_ng. exists en0. split; [exact M0|reflexivity].
      + intros k i Hk.
        assert (Hin : In i ids) by (eapply nth_error_In; exact Hk).
        destruct (id_decl i Hin) as [d Hd].
        destruct (Hkeys i d Hd (ids_keys i Hin)) as [a [Ha [Hsome Hnone]]].
        exists a. split; [exact Ha|]. split.
        * intros z. split.
          -- intros [v [Ev Ez]] ans Hans. apply exact_ng in Hans. destruct Hans as [en [M R]]. subst ans.
             rewrite (nth_error_reads st en ids k i Hk), (read_var_val st en i d Hd).
             destruct (Hsome v) as [H1 _]. rewrite (H1 Ev en M). rewrite Ez. reflexivity.
          -- intros Hall.
             assert (E0 : read_var st en0 i = z).
             { assert (R0 : rules (reads st en0 ids) = true) by (apply exact_ng; exists en0; split; [exact M0|reflexivity]).
               pose proof (Hall _ R0) as H0. rewrite (nth_error_reads st en0 ids k i Hk) in H0. congruence. }
             exists (val_of en0 d i). split.
             ++ apply Hsome. intros en M.
                apply zval_val_inj. rewrite <- !(read_var_val st _ i d Hd). rewrite E0.
                assert (R : rules (reads st en ids) = true) by (apply exact_ng; exists en; split; [exact M|reflexivity]).
                pose proof (Hall _ R) as H1. rewrite (nth_error_reads st en ids k i Hk) in H1. congruence.
             ++ rewrite <- (read_var_val st en0 i d Hd). exact E0.
        * split.
          -- intros En. destruct (proj1 Hnone En) as [e1 [e2 [M1 [M2 Hne]]]].
             exists (reads st e1 ids), (reads st e2 ids).
             split; [apply exact_ng; exists e1; split; [exact M1|reflexivity]|].
             split; [apply exact_ng; exists e2; split; [exact M2|reflexivity]|].
             rewrite !(nth_error_reads st _ ids k i Hk), !(read_var_val st _ i d Hd).
             intros E. apply Hne. apply zval_val_inj. congruence.
          -- intros [a1 [a2 [R1 [R2 Hne]]]]. apply Hnone.
             apply exact_ng in R1. apply exact_ng in R2.
             destruct R1 as [e1 [M1 E1]]. destruct R2 as [e2 [M2 E2]]. subst a1 a2.
             exists e1, e2. split; [exact M1|]. split; [exact M2|].
             intros E. apply Hne.
             rewrite !(nth_error_reads st _ ids k i Hk), !(read_var_val st _ i d Hd). rewrite E. reflexivity.
  Qed.
End Compose.
