(* C04: on every well-formed input the auxiliary-variable encoding raises
   nothing (so the hypothesis "post_avc ... = Ok st'" of avc_exact is met). *)
From Coq Require Import ZArith List Bool Arith Lia.
From Cspuz Require Import Lib.PyErr Core.Expr Core.Program Core.Build
  Graph.GraphModel Graph.ReachProofs Graph.Avc Graph.AvcCert Graph.AvcSem.
Import ListNotations.
Local Open Scope nat_scope.

Lemma nth_res_ok {A} (l : list A) i : i < length l -> exists x, nth_res l i = Ok x.
Proof.
  intros H. unfold nth_res. destruct (nth_error l i) eqn:E; [eexists; reflexivity|].
  apply nth_error_None in E. lia.
Qed.

Lemma nth_res_in {A} (l : list A) i x : nth_res l i = Ok x -> In x l.
Proof.
  unfold nth_res. destruct (nth_error l i) eqn:E; intros H; inversion H; subst.
  eapply nth_error_In; exact E.
Qed.

Lemma count_true_go_ok l : forall ops c,
  (forall x, In x l -> is_bool_expr_like x = true) -> exists r, count_true_go l ops c = Ok r.
Proof.
  induction l as [|x l IH]; intros ops c H; simpl; [eexists; reflexivity|].
  pose proof (H x (or_introl eq_refl)) as Hx.
  destruct x; simpl in Hx; try discriminate; apply IH; intros; apply H; right; assumption.
Qed.

Lemma count_true_ok l :
  (forall x, In x l -> is_bool_expr_like x = true) -> exists ct, count_true l = Ok ct.
Proof.
  intros H. unfold count_true. destruct (count_true_go_ok l [] 0%Z H) as [[ops c] Hr]. rewrite Hr.
  destruct (if (0 <? c)%Z then ops ++ [PyInt c] else ops); eexists; reflexivity.
Qed.

Lemma mapM_ok_shape {A B} (f : A -> res B) (Q : B -> Prop) l :
  (forall x, In x l -> exists y, f x = Ok y /\ Q y) ->
  exists r, mapM f l = Ok r /\ forall y, In y r -> Q y.
Proof.
  induction l as [|a l IH]; intros H; simpl.
  - exists []. split; [reflexivity|intros y []].
  - destruct (H a (or_introl eq_refl)) as [y [Hy Qy]]. rewrite Hy. simpl.
    destruct IH as [r [Hr Qr]]; [intros; apply H; right; assumption|]. rewrite Hr. simpl.
    exists (y :: r). split; [reflexivity|]. intros z [<-|Hz]; [exact Qy|apply Qr; exact Hz].
Qed.

Lemma foldM_ok {A B} (f : A -> B -> res A) l :
  (forall a x, In x l -> exists a', f a x = Ok a') -> forall a, exists a', foldM f a l = Ok a'.
Proof.
  induction l as [|x l IH]; intros H a; simpl; [eexists; reflexivity|].
  destruct (H a x (or_introl eq_refl)) as [a' Ha]. rewrite Ha. simpl.
  apply IH. intros; apply H; right; assumption.
Qed.

Section Total.
  Variables (acts : list expr) (g : graph).
  Hypothesis Hwf : wf_graph g = true.
  Hypothesis Hlen : nv g <= length acts.
  Hypothesis Hbool : forall a, In a acts -> is_bool_expr_like a = true.

  Variables (ranks roots : list expr).
  Hypothesis Hranks : length ranks = nv g.
  Hypothesis Hroots : length roots = nv g.
  Hypothesis Hroots_bool : forall r, In r roots -> is_bool_expr_like r = true.

  Lemma post_ne_ok i inc : i < nv g -> (forall j k, In (j, k) inc -> j < nv g) ->
    forall st, exists st', post_ne st ranks i inc = Ok st'.
  Proof.
    intros Hi. induction inc as [|[j k] inc IH]; intros Hinc st; simpl; [eexists; reflexivity|].
    assert (Hrest : forall j0 k0, In (j0, k0) inc -> j0 < nv g) by (intros; eapply Hinc; right; eassumption).
    destruct (Nat.ltb i j); [|apply IH; exact Hrest].
    destruct (nth_res_ok ranks j) as [rj Hrj]; [rewrite Hranks; apply (Hinc j k); left; reflexivity|].
    destruct (nth_res_ok ranks i) as [ri Hri]; [rewrite Hranks; exact Hi|].
    rewrite Hrj, Hri. simpl. apply IH. exact Hrest.
  Qed.

  Lemma post_vertex_ok acyclic st i :
    i < nv g -> exists st', post_vertex acyclic ranks roots acts g st i = Ok st'.
  Proof.
    intros Hi. unfold post_vertex.
    assert (Hinc : forall j k, In (j, k) (incident g i) -> j < nv g).
    { intros j k H. apply (incident_lt g i j k Hwf H). }
    destruct (mapM_ok_shape (less_rank ranks acts i) (fun e => is_bool_expr_like e = true) (incident g i))
      as [less [Hless Hshape]].
    { intros [j k] Hin. unfold less_rank. simpl fst.
      destruct (nth_res_ok ranks j) as [rj Hrj]; [rewrite Hranks; eapply Hinc; exact Hin|].
      destruct (nth_res_ok ranks i) as [ri Hri]; [rewrite Hranks; exact Hi|].
      destruct (nth_res_ok acts j) as [aj Haj]; [specialize (Hinc j k Hin); lia|].
      rewrite Hrj, Hri, Haj. simpl. unfold py_and. rewrite (Hbool aj (nth_res_in _ _ _ Haj)).
      eexists. split; reflexivity. }
    rewrite Hless. simpl.
    assert (Hst1 : exists st1, (if acyclic then post_ne st ranks i (incident g i) else Ok st) = Ok st1).
    { destruct acyclic; [apply post_ne_ok; assumption|eexists; reflexivity]. }
    destruct Hst1 as [st1 Hst1]. rewrite Hst1. simpl.
    destruct (nth_res_ok acts i) as [ai Hai]; [lia|]. rewrite Hai. simpl.
    destruct (nth_res_ok roots i) as [ri Hri]; [rewrite Hroots; exact Hi|]. rewrite Hri. simpl.
    destruct (count_true_ok (less ++ [ri])) as [ct Hct].
    { intros x Hx. apply in_app_iff in Hx. destruct Hx as [Hx|[<-|[]]]; [apply Hshape; exact Hx|].
      apply Hroots_bool. eapply nth_res_in; exact Hri. }
    rewrite Hct. simpl. unfold py_then. rewrite (Hbool ai (nth_res_in _ _ _ Hai)).
    destruct acyclic; simpl; eexists; reflexivity.
  Qed.
End Total.

Theorem post_avc_succeeds st acts g acyclic :
  wf_graph g = true -> 1 <= nv g -> nv g <= length acts ->
  (forall a, In a acts -> is_bool_expr_like a = true) ->
  exists st', post_avc st acts g acyclic false = Ok st'.
Proof.
  intros Hwf Hn Hlen Hbool. unfold post_avc. simpl andb. cbv iota. unfold int_array.
  destruct (Z.ltb_spec (Z.of_nat (nv g) - 1) 0); [lia|]. simpl bind.
  destruct (int_vars st (nv g) 0 (Z.of_nat (nv g) - 1)) as [st1 ranks] eqn:E1.
  unfold bool_array. destruct (bool_vars st1 (nv g)) as [st2 roots] eqn:E2.
  apply int_vars_spec in E1. destruct E1 as [Hr _]. apply bool_vars_spec in E2. destruct E2 as [Ho _].
  assert (Hrl : length ranks = nv g) by (rewrite Hr, map_length, seq_length; reflexivity).
  assert (Hol : length roots = nv g) by (rewrite Ho, map_length, seq_length; reflexivity).
  assert (Hob : forall r, In r roots -> is_bool_expr_like r = true).
  { intros r Hin. rewrite Ho in Hin. apply in_map_iff in Hin. destruct Hin as [k [<- _]]. reflexivity. }
  destruct (foldM_ok (post_vertex acyclic ranks roots acts g) (seq 0 (nv g))) with (a := st2) as [st3 H3].
  { intros a i Hi. apply in_seq in Hi. apply post_vertex_ok; try assumption. lia. }
  rewrite H3. simpl. destruct (count_true_ok roots Hob) as [ct Hct]. rewrite Hct. simpl.
  eexists; reflexivity.
Qed.
