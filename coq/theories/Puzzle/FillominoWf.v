(* C11: the program of solve_fillomino is well formed on every board; composition with C02 (solve_reports). *)
From Coq Require Import ZArith List Bool Arith Lia.
From Cspuz Require Import Lib.PyErr Core.Expr Core.Program Graph.GraphModel
     Graph.VarGroups Graph.VarGroupsEval Graph.VarGroupsMain Graph.VarGroupsSized
     Backend.Z3 Backend.Z3Oracle Backend.Z3SolveProofs Backend.SolveLoop Backend.SolveZ3Proofs
     Puzzle.PuzzleBase Puzzle.ModelBase Puzzle.ModelLemmas Puzzle.SatAbs Puzzle.SolveCompose Puzzle.WfLemmas
     Puzzle.VarGroupsWf Puzzle.Rules_fillomino Puzzle.Fillomino Puzzle.FillominoProofs.
Import ListNotations.
Local Open Scope nat_scope.

Section F.
  Variables h w : nat.
  Let n := h * w.
  (* the size grid, the horizontal borders, the vertical borders *)
  Definition fl_vars : list vdecl :=
    repeat (DInt 1 (Z.of_nat n)) n ++ repeat DBool ((h - 1) * w) ++ repeat DBool (h * (w - 1)).
  Let vs := fl_vars.

  Lemma ok_fl_size v : v < n -> ok vs false (fl_size n v) = true.
  Proof. intros H. unfold fl_size, vs, fl_vars. apply (ok_ivar_block []). simpl. lia. Qed.
  Lemma ok_fl_hor j : j < (h - 1) * w -> ok vs true (BVar (n + j)) = true.
  Proof. intros H. unfold vs, fl_vars. apply ok_bvar_block. rewrite repeat_length. lia. Qed.
  Lemma ok_fl_ver j : j < h * (w - 1) -> ok vs true (BVar (n + ((h - 1) * w + j))) = true.
  Proof.
    intros H. unfold vs, fl_vars. rewrite app_assoc. rewrite <- (app_nil_r (repeat DBool (h * (w - 1)))).
    apply ok_bvar_block. rewrite app_length, !repeat_length. lia.
  Qed.

  Lemma fl_constraints_ok given : forallb (ok vs true) (fl_constraints h w given) = true.
  Proof.
    unfold fl_constraints. cbv zeta. fold n. rewrite !forallb_app, !forallb_map, forallb_flat_map.
    apply andb_true_intro; split; [|apply andb_true_intro; split].
    - apply forallb_cells. intros y x Hy Hx. rewrite ok_iff, ok_ne.
      replace ((h - 1) * w + y * (w - 1) + x) with ((h - 1) * w + (y * (w - 1) + x)) by lia.
      rewrite ok_fl_ver by nia. rewrite !ok_fl_size by (unfold n; nia). reflexivity.
    - apply forallb_cells. intros y x Hy Hx. rewrite ok_iff, ok_ne.
      rewrite ok_fl_hor by nia. rewrite !ok_fl_size by (unfold n; nia). reflexivity.
    - apply forallb_cells. intros y x Hy Hx. cbv zeta. destruct (1 <=? _)%Z; [|reflexivity].
      cbn [forallb]. rewrite ok_eq, ok_pyint, !andb_true_r. apply ok_fl_size. unfold n. nia.
  Qed.
End F.

Lemma fillomino_model_shape pb st : solve_fillomino_model pb = Ok st ->
  (wf_state st /\ wf_keys st) /\ exists r, keys st = repeat true (dim pb 0 * dim pb 1) ++ r.
Proof.
  unfold solve_fillomino_model. cbv zeta. set (h := dim pb 0). set (w := dim pb 1). set (n := h * w).
  unfold int_array. destruct (Z.of_nat n <? 1)%Z; [discriminate|]. rewrite int_vars_spec.
  unfold bool_array. rewrite !bool_vars_spec.
  change (next_id empty_state) with 0.
  set (st0k := {| vars := vars (add_decls empty_state (repeat (DInt 1 (Z.of_nat n)) n)); keys := repeat true n;
                  cons := Program.cons (add_decls empty_state (repeat (DInt 1 (Z.of_nat n)) n)) |}).
  set (st2 := add_decls (add_decls st0k (repeat DBool ((h - 1) * w))) (repeat DBool (h * (w - 1)))).
  set (f := {| fh := h; fw := w; fhor := bvars (next_id st0k) ((h - 1) * w);
               fver := bvars (next_id (add_decls st0k (repeat DBool ((h - 1) * w)))) (h * (w - 1)) |}).
  destruct (division_connected_variable_groups_with_borders st2 _ (BFrame f) None None false) as [st3|] eqn:E; [|discriminate].
  destruct (Nat.ltb _ _); [discriminate|].
  intros H. inversion H; subst st; clear H.
  assert (V2 : vars st2 = fl_vars h w) by (unfold st2, st0k, fl_vars; cbn [vars add_decls empty_state app]; rewrite <- app_assoc; reflexivity).
  assert (N0 : next_id st0k = n) by (unfold next_id, st0k; cbn [vars add_decls empty_state app]; apply repeat_length).
  assert (N1 : next_id (add_decls st0k (repeat DBool ((h - 1) * w))) = n + (h - 1) * w)
    by (rewrite next_id_add_decls, N0, repeat_length; reflexivity).
  assert (Ky2 : keys st2 = repeat true n ++ repeat false ((h - 1) * w) ++ repeat false (h * (w - 1))).
  { unfold st2, st0k. cbn [keys add_decls]. rewrite !repeat_length, <- app_assoc. reflexivity. }
  destruct (with_borders_frame_wf _ _ _ _ _ _ _ E) as [[W3 K3] [V3 Ky3]].
  - discriminate.
  - reflexivity.
  - unfold wf_keys. rewrite V2, Ky2. unfold fl_vars. rewrite !app_length, !repeat_length. reflexivity.
  - apply opt_ok_of_ok. rewrite V2. apply ok_ivars_nth. intros i Hi. unfold fl_vars. fold n. set (a := (h - 1) * w) in *. set (b := h * (w - 1)) in *. nth_block.
  - apply frame_borders_ok; cbn [fhor fver fh fw f]; rewrite ?V2, ?N0, ?N1.
    + apply ok_bvars_nth. intros i Hi. unfold fl_vars. fold n. set (a := (h - 1) * w) in *. set (b := h * (w - 1)) in *. nth_block.
    + apply ok_bvars_nth. intros i Hi. unfold fl_vars. fold n. set (a := (h - 1) * w) in *. set (b := h * (w - 1)) in *. nth_block.
    + unfold bvars. rewrite map_length, seq_length. reflexivity.
    + unfold bvars. rewrite map_length, seq_length. reflexivity.
  - split.
    + eapply wf_ensure_prefix; [split; [exact W3|exact K3]| |apply fl_constraints_ok]. rewrite V3, V2. reflexivity.
    + eexists. cbn [keys ensure]. rewrite Ky3, Ky2, <- !app_assoc. reflexivity.
Qed.

Lemma fillomino_model_wf pb st : solve_fillomino_model pb = Ok st -> wf_state st /\ wf_keys st.
Proof. intros H. exact (proj1 (fillomino_model_shape pb st H)). Qed.

Theorem fillomino_solve_reports : forall oracle, oracle_sound_on oracle -> oracle_complete_on oracle ->
  forall h w given st,
  solve_fillomino_model [[Z.of_nat h; Z.of_nat w]; given] = Ok st ->
  solve_reports oracle st (seq 0 (h * w)) (rules_fillomino [[Z.of_nat h; Z.of_nat w]; given]).
Proof.
  intros oracle Os Oc h w given st Hst.
  apply (solve_reports_intro oracle no_graph); try assumption.
  - exact (fillomino_model_wf _ _ Hst).
  - destruct (fillomino_model_shape _ _ Hst) as [_ [r Hk]]. rewrite dim2_0, dim2_1 in Hk. rewrite Hk.
    intros i. apply keys_prefix.
  - intros ans. exact (fillomino_exact h w given st ans Hst).
Qed.
