(* C06 -- the executable specification (extracted, used by the harness to
   validate the specification against an independent oracle) is equivalent to
   the relational one. *)
From Coq Require Import List Bool Arith Lia.
From Cspuz Require Import Graph.GraphModel Graph.ReachProofs Graph.Cycle.
Import ListNotations.
Open Scope nat_scope.

Lemma no_active_b_spec g A : no_active_b g A = true <-> no_active g A.
Proof.
  unfold no_active_b, no_active. rewrite forallb_forall. split.
  - intros H k Hk. apply negb_true_iff. apply H. apply in_seq. lia.
  - intros H k Hk. apply in_seq in Hk. apply negb_true_iff. apply H. lia.
Qed.

Lemma visited_filter g A v :
  In v (filter (visited g A) (seq 0 (nv g))) <-> v < nv g /\ 0 < degree g A v.
Proof.
  rewrite filter_In, in_seq. unfold visited. rewrite Nat.ltb_lt. split; intros [H1 H2]; split; lia.
Qed.

Lemma edge_connected_b_spec g A :
  wf_graph g = true -> (edge_connected_b g A = true <-> edge_connected g A).
Proof.
  intros Hwf. unfold edge_connected_b, edge_connected.
  destruct (filter (visited g A) (seq 0 (nv g))) as [|s l] eqn:Hf.
  - split; [|reflexivity]. intros _ u v Hu Hv Hdu Hdv. exfalso.
    assert (H : In u (filter (visited g A) (seq 0 (nv g)))) by (apply visited_filter; split; assumption).
    rewrite Hf in H. destruct H.
  - assert (Hs : In s (filter (visited g A) (seq 0 (nv g)))) by (rewrite Hf; left; reflexivity).
    apply visited_filter in Hs. destruct Hs as [Hs Hds].
    rewrite forallb_forall. split.
    + intros H u v Hu Hv Hdu Hdv.
      assert (Hin : forall x, x < nv g -> 0 < degree g A x -> reach g all_vertices_ok A s x).
      { intros x Hx Hdx.
        assert (Hxl : In x (s :: l)) by (rewrite <- Hf; apply visited_filter; split; assumption).
        destruct Hxl as [<-|Hxl]; [apply reach_refl; reflexivity|].
        apply component_sound. apply mem_In. apply H. exact Hxl. }
      apply reach_trans with s; [apply reach_sym|]; apply Hin; assumption.
    + intros H x Hx. apply mem_In.
      assert (Hx' : In x (filter (visited g A) (seq 0 (nv g)))) by (rewrite Hf; right; exact Hx).
      apply visited_filter in Hx'.
      destruct Hx' as [Hx' Hdx]. apply component_complete; [exact Hwf|exact Hs|].
      apply H; assumption.
Qed.

Lemma forallb_seq (p : nat -> bool) n : forallb p (seq 0 n) = true <-> forall v, v < n -> p v = true.
Proof.
  rewrite forallb_forall. split; intros H v Hv; apply H; [apply in_seq; lia|apply in_seq in Hv; lia].
Qed.

Theorem single_cycle_b_spec g A :
  wf_graph g = true -> (single_cycle_b g A = true <-> single_cycle g A).
Proof.
  intros Hwf. unfold single_cycle_b, single_cycle.
  rewrite orb_true_iff, andb_true_iff, no_active_b_spec, (edge_connected_b_spec g A Hwf), forallb_seq.
  split; (intros [H|[H1 H2]]; [left; exact H|right; split; [|exact H2]]); intros v Hv; specialize (H1 v Hv).
  - apply orb_true_iff in H1. destruct H1 as [H1|H1]; apply Nat.eqb_eq in H1; auto.
  - apply orb_true_iff. destruct H1 as [H1|H1]; rewrite H1; auto.
Qed.

Theorem single_path_b_spec g A :
  wf_graph g = true -> (single_path_b g A = true <-> single_path g A).
Proof.
  intros Hwf. unfold single_path_b, single_path, simple_path_b, simple_path.
  rewrite orb_true_iff, !andb_true_iff, no_active_b_spec, (edge_connected_b_spec g A Hwf), forallb_seq,
    Nat.eqb_eq.
  split; (intros [H|[[H1 H2] H3]] || intros [H|[H1 [H2 H3]]]); try (left; exact H); right.
  - split; [|split; assumption]. intros v Hv. apply Nat.leb_le. apply H1; exact Hv.
  - split; [split|]; try assumption. intros v Hv. apply Nat.leb_le. apply H1; exact Hv.
Qed.
