(* C11 Tier 1 - yinyang, the planarity part (1): on an h x w grid coloured black / white such that the black cells
   are orthogonally connected and the white cells are orthogonally connected, no 2x2 block is a checkerboard
   (yy_checker_down: black on the main diagonal; the other orientation is the same statement with the colours
   exchanged, YinyangAuxProofs.v).  Every h and w.
   Proof (crossing parity, as in Graph/NotAdjPlanarB.v, here for walks whose steps are king moves): for a walk l
   through black cells let E(y, x) be the parity of the number of its steps between rows y and y+1 whose midpoint
   lies left of column x.  E does not change between two horizontally adjacent cells off the walk, and
   E(y, x) + E(y+1, x) is the parity of the number of steps entering the part of row y+1 left of x: 0 for a closed
   walk; for a walk between two border cells a correction C that depends on the two ends only (NotAdjPlanarB.ce')
   restores the rule.  Hence G = E + C is constant on every connected set of white cells (y_white_same).
   A black orthogonal path from the black cell (y, x) to the black cell (y+1, x+1), closed by the diagonal step, gives
   G different values on the white cells (y, x+1) and (y+1, x) (yG_witness).
   The walks between two border cells are used in YinyangBorder.v.
   Stdlib only; reuses the counting lemmas (cnt, steps_ok) and the correction of NotAdjPlanarB.v. *)
From Coq Require Import ZArith List Bool Arith Lia.
From Cspuz Require Import Graph.GraphModel Graph.ReachProofs Graph.Avc Graph.AvcProofs
  Graph.NotAdj Graph.NotAdjForest Graph.NotAdjDiag Graph.NotAdjPlanarGrid Graph.NotAdjPlanarB.
Import ListNotations.
Local Open Scope nat_scope.

(* ------------------------------------------------------------------------ *)
(* arithmetic of one king step (ya, xa) -- (yb, xb)                          *)

Definition kstep (ya xa yb xb : nat) : Prop :=
  (yb = ya \/ yb = ya + 1 \/ ya = yb + 1) /\ (xb = xa \/ xb = xa + 1 \/ xa = xb + 1).

Ltac ksplit K := destruct K as [[?|[?|?]] [?|[?|?]]]; subst.

Lemma pe_vertical_k ya xa yb xb y x :
  kstep ya xa yb xb -> ~ (ya = S y /\ xa = x) -> ~ (yb = S y /\ xb = x) ->
  xorb (pe ya xa yb xb y x) (pe ya xa yb xb (S y) x) =
  xorb ((ya =? S y) && (xa <? x)) ((yb =? S y) && (xb <? x)).
Proof. intros K Ha Hb. unfold pe. ksplit K; bsolve. Qed.

Lemma pe_horizontal_k ya xa yb xb y x :
  kstep ya xa yb xb ->
  ~ (ya = y /\ xa = x) -> ~ (yb = y /\ xb = x) -> ~ (ya = y /\ xa = S x) -> ~ (yb = y /\ xb = S x) ->
  pe ya xa yb xb y x = pe ya xa yb xb y (S x).
Proof. intros K Ha Hb Ha' Hb'. unfold pe. ksplit K; bsolve. Qed.

Lemma pe_witness_k ya xa yb xb y x :
  kstep ya xa yb xb ->
  ~ (ya = y /\ xa = S x) -> ~ (yb = y /\ xb = S x) -> ~ (ya = S y /\ xa = x) -> ~ (yb = S y /\ xb = x) ->
  xorb (pe ya xa yb xb y (S x)) (pe ya xa yb xb y x) = ispq y x (S y) (S x) ya xa yb xb.
Proof. intros K Ha Hb Ha' Hb'. unfold pe, ispq. ksplit K; bsolve. Qed.

(* border cells: the parity E in closed form *)
Lemma pe_left ya xa yb xb y : pe ya xa yb xb y 0 = false.
Proof. unfold pe. rewrite andb_false_r. reflexivity. Qed.

Lemma pe_bottom h ya xa yb xb y x : ya < h -> yb < h -> S y = h -> pe ya xa yb xb y x = false.
Proof. intros Ha Hb Hy. unfold pe. bsolve. Qed.

Lemma pe_right w ya xa yb xb y x :
  kstep ya xa yb xb -> xa < w -> xb < w -> S x = w ->
  ~ (ya = y /\ xa = x) -> ~ (yb = y /\ xb = x) ->
  pe ya xa yb xb y x = xorb (ya <=? y) (yb <=? y).
Proof.
  intros K Ha Hb Hx Na Nb. unfold pe. ksplit K;
  repeat match goal with
  | |- context [Nat.eqb ?a ?b] => destruct (Nat.eqb_spec a b); cbn [xorb andb orb negb]; try reflexivity
  | |- context [Nat.ltb ?a ?b] => destruct (Nat.ltb_spec a b); cbn [xorb andb orb negb]; try reflexivity
  | |- context [Nat.leb ?a ?b] => destruct (Nat.leb_spec a b); cbn [xorb andb orb negb]; try reflexivity
  end; try lia.
Qed.

Lemma pe_top ya xa yb xb x :
  kstep ya xa yb xb -> ~ (ya = 0 /\ xa = x) -> ~ (yb = 0 /\ xb = x) ->
  pe ya xa yb xb 0 x = xorb ((ya =? 0) && (xa <? x)) ((yb =? 0) && (xb <? x)).
Proof. intros K Na Nb. unfold pe. ksplit K; bsolve. Qed.

(* ------------------------------------------------------------------------ *)

Section YY.
  Variables h w : nat.
  Variable blk : nat -> bool.
  Let n := h * w.
  Let G := grid_graph h w.
  Notation c := (cell w).
  Notation cy := (cell_y w).
  Notation cx := (cell_x w).

  Definition kadj (a b : nat) : Prop := kstep (cy a) (cx a) (cy b) (cx b).
  (* a step of a king-move walk through black cells *)
  Definition Qk (a b : nat) : Prop := a < n /\ b < n /\ kadj a b /\ blk a = true /\ blk b = true.

  Section Walk.
    Variable l : list nat.
    Hypothesis Hl : steps_ok Qk l.
    Hypothesis Hne : l <> [].
    Let s := hd 0 l.
    Let t := last l 0.
    Hypothesis Hends :
      s = t \/ (s < n /\ t < n /\ blk s = true /\ blk t = true /\
                on_border h w s = true /\ on_border h w t = true).

    Definition yE (y x : nat) : bool := cnt (Pe w y x) l.
    Definition yC (y x : nat) : bool := if s =? t then false else xorb (ce h w s y x) (ce h w t y x).
    Definition yG (y x : nat) : bool := xorb (yE y x) (yC y x).

    Lemma yE_vertical y x : x < w -> blk (c (S y) x) = false ->
      xorb (yE y x) (yE (S y) x) = xorb (Srow w (S y) x s) (Srow w (S y) x t).
    Proof.
      intros Hx Hc. unfold yE. rewrite <- cnt_xor. unfold s, t. rewrite <- (cnt_cross (Srow w (S y) x) l Hne).
      apply (cnt_ext Qk); [exact Hl|]. intros a b [Ha [Hb [K [Aa Ab]]]].
      unfold Pe, Srow. apply pe_vertical_k; [exact K| |].
      - apply (off_cell h w blk a (S y) x Ha Aa Hc).
      - apply (off_cell h w blk b (S y) x Hb Ab Hc).
    Qed.

    Lemma yE_horizontal y x : blk (c y x) = false -> blk (c y (S x)) = false -> yE y x = yE y (S x).
    Proof.
      intros H1 H2. unfold yE. apply (cnt_ext Qk); [exact Hl|]. intros a b [Ha [Hb [K [Aa Ab]]]].
      unfold Pe. apply pe_horizontal_k; [exact K| | | |].
      - apply (off_cell h w blk a y x Ha Aa H1).
      - apply (off_cell h w blk b y x Hb Ab H1).
      - apply (off_cell h w blk a y (S x) Ha Aa H2).
      - apply (off_cell h w blk b y (S x) Hb Ab H2).
    Qed.

    Lemma yE_witness y x : S x < w -> blk (c y (S x)) = false -> blk (c (S y) x) = false ->
      xorb (yE y (S x)) (yE y x) = cnt (isPQ (c y x) (c (S y) (S x))) l.
    Proof.
      intros Hx H1 H2. unfold yE. rewrite <- cnt_xor.
      apply (cnt_ext Qk); [exact Hl|]. intros a b [Ha [Hb [K [Aa Ab]]]].
      rewrite (isPQ_coords h w _ _ a b y x (S y) (S x) Ha Hb ltac:(lia) Hx eq_refl eq_refl).
      unfold Pe. apply pe_witness_k; [exact K| | | |].
      - apply (off_cell h w blk a y (S x) Ha Aa H1).
      - apply (off_cell h w blk b y (S x) Hb Ab H1).
      - apply (off_cell h w blk a (S y) x Ha Aa H2).
      - apply (off_cell h w blk b (S y) x Hb Ab H2).
    Qed.

    Lemma yC_vertical y x : S y < h -> x < w -> blk (c (S y) x) = false ->
      xorb (yC y x) (yC (S y) x) = xorb (Srow w (S y) x s) (Srow w (S y) x t).
    Proof.
      intros Hy Hx Hc. unfold yC. destruct (Nat.eqb_spec s t) as [Est|Est].
      - rewrite Est. destruct (Srow w (S y) x t); reflexivity.
      - destruct Hends as [Hst|[Hs [Ht [As [At [Bs Bt]]]]]]; [contradiction|].
        rewrite <- (ce_V h w blk s y x Hs As Bs Hy Hx Hc), <- (ce_V h w blk t y x Ht At Bt Hy Hx Hc).
        destruct (ce h w s y x), (ce h w t y x), (ce h w s (S y) x), (ce h w t (S y) x); reflexivity.
    Qed.

    Lemma yC_horizontal y x : y < h -> S x < w ->
      (S y < h \/ (blk (c y x) = false /\ blk (c y (S x)) = false)) -> yC y x = yC y (S x).
    Proof.
      intros Hy Hx Hc. unfold yC. destruct (Nat.eqb_spec s t) as [Est|Est]; [reflexivity|].
      destruct Hends as [Hst|[Hs [Ht [As [At [Bs Bt]]]]]]; [contradiction|].
      rewrite (ce_H h w blk s y x Hs As Bs Hy Hx Hc), (ce_H h w blk t y x Ht At Bt Hy Hx Hc). reflexivity.
    Qed.

    Lemma yG_horizontal y x : y < h -> S x < w -> blk (c y x) = false -> blk (c y (S x)) = false ->
      yG y x = yG y (S x).
    Proof.
      intros Hy Hx H1 H2. unfold yG. rewrite (yE_horizontal y x H1 H2).
      rewrite (yC_horizontal y x Hy Hx (or_intror (conj H1 H2))). reflexivity.
    Qed.

    Lemma yG_vertical y x : S y < h -> x < w -> blk (c (S y) x) = false -> yG y x = yG (S y) x.
    Proof.
      intros Hy Hx Hc. unfold yG.
      pose proof (yE_vertical y x Hx Hc) as HE. pose proof (yC_vertical y x Hy Hx Hc) as HC.
      destruct (yE y x), (yE (S y) x), (yC y x), (yC (S y) x), (Srow w (S y) x s), (Srow w (S y) x t);
        simpl in *; congruence.
    Qed.

    Definition yGi (p : nat) : bool := yG (cy p) (cx p).

    Lemma yGi_cell y x : x < w -> yGi (c y x) = yG y x.
    Proof. intros Hx. unfold yGi. rewrite (cy_cell w y x Hx), (cx_cell w y x Hx). reflexivity. Qed.

    Lemma yGi_reach u v : reach G (inactive blk) all_edges_ok u v -> u < n -> v < n /\ yGi u = yGi v.
    Proof.
      intros Hr Hu. induction Hr as [u Hvu|u v z Hr IH Hz Hwz].
      - split; [exact Hu|reflexivity].
      - destruct (IH Hu) as [Hv HG]. pose proof (reach_vok_end _ _ _ _ _ Hr) as Hwv.
        destruct (cell_coords h w v Hv) as [Hy [Hx Ev]].
        assert (Av : blk (c (cy v) (cx v)) = false).
        { rewrite <- Ev. unfold inactive in Hwv. apply negb_true_iff in Hwv. exact Hwv. }
        assert (Az : blk z = false) by (unfold inactive in Hwz; apply negb_true_iff in Hwz; exact Hwz).
        rewrite Ev in Hz. apply (grid_nbrs_coords h w _ _ z Hy Hx) in Hz. rewrite HG.
        change (yGi v) with (yG (cy v) (cx v)).
        destruct Hz as [[H1 ->]|[[H1 ->]|[[x' [H1 ->]]|[y' [H1 ->]]]]].
        + split; [apply cell_lt; lia|]. rewrite (yGi_cell _ _ H1). apply yG_horizontal; assumption.
        + split; [apply cell_lt; lia|]. rewrite (yGi_cell _ _ Hx). apply yG_vertical; assumption.
        + assert (Hx' : x' < w) by lia.
          split; [apply cell_lt; lia|]. rewrite (yGi_cell _ _ Hx'). rewrite H1 in *. symmetry.
          apply yG_horizontal; try assumption.
        + split; [apply cell_lt; lia|]. rewrite (yGi_cell _ _ Hx). rewrite H1 in *. symmetry.
          apply yG_vertical; try assumption.
    Qed.

    (* the two white cells flanking the diagonal pair (y, x) -- (y+1, x+1) *)
    Lemma yG_witness y x : S y < h -> S x < w ->
      blk (c y (S x)) = false -> blk (c (S y) x) = false ->
      xorb (yG y (S x)) (yG (S y) x) = cnt (isPQ (c y x) (c (S y) (S x))) l.
    Proof.
      intros Hy Hx HA HB. unfold yG.
      pose proof (yE_witness y x Hx HA HB) as H1.
      pose proof (yE_vertical y x ltac:(lia) HB) as H2.
      pose proof (yC_horizontal y x ltac:(lia) Hx (or_introl Hy)) as H3.
      pose proof (yC_vertical y x Hy ltac:(lia) HB) as H4.
      rewrite <- H1, <- H3.
      destruct (yE y (S x)), (yE y x), (yE (S y) x), (yC y x), (yC (S y) x), (Srow w (S y) x s), (Srow w (S y) x t);
        simpl in *; congruence.
    Qed.

    Hypothesis Hconn : connected G (inactive blk).

    Lemma y_white_same A B : A < n -> B < n -> blk A = false -> blk B = false -> yGi A = yGi B.
    Proof.
      intros HA HB WA WB.
      assert (Hr : reach G (inactive blk) all_edges_ok A B).
      { apply Hconn; try assumption; unfold inactive; [rewrite WA|rewrite WB]; reflexivity. }
      apply (yGi_reach A B Hr HA).
    Qed.
  End Walk.

  (* ---- orthogonal walks through black cells as lists (in reverse order) *)
  Definition Qo (a b : nat) : Prop :=
    a < n /\ b < n /\ In a (nbrs G all_edges_ok b) /\ blk a = true /\ blk b = true.

  Lemma reach_list u v : reach G blk all_edges_ok u v -> u < n ->
    exists l, l <> [] /\ hd 0 l = v /\ last l 0 = u /\ v < n /\ steps_ok Qo l.
  Proof.
    induction 1 as [v Hv|u v z Hr IH Hz Hbz]; intros Hu.
    - exists [v]. repeat split; try assumption; try reflexivity. discriminate.
    - destruct (IH Hu) as [l [Hne [Hhd [Hlast [Hvn Hs]]]]].
      assert (Hzn : z < n) by (destruct (nbrs_lt G all_edges_ok v z (grid_wf h w) Hz) as [_ H]; exact H).
      exists (z :: l). destruct l as [|v' r]; [congruence|]. simpl in Hhd. subst v'.
      split; [discriminate|]. split; [reflexivity|]. split; [exact Hlast|]. split; [exact Hzn|].
      split; [|exact Hs]. split; [exact Hzn|]. split; [exact Hvn|]. split; [exact Hz|]. split; [exact Hbz|].
      apply (reach_vok_end _ _ _ _ _ Hr).
  Qed.

  Lemma Qo_coords a b : Qo a b ->
    (cy a = cy b /\ (cx a = cx b + 1 \/ cx b = cx a + 1)) \/
    (cx a = cx b /\ (cy a = cy b + 1 \/ cy b = cy a + 1)).
  Proof.
    intros [Ha [Hb [Hin _]]]. destruct (cell_coords h w b Hb) as [Hy [Hx Eb]].
    rewrite Eb in Hin. apply (grid_nbrs_coords h w _ _ a Hy Hx) in Hin.
    destruct Hin as [[H1 ->]|[[H1 ->]|[[x' [H1 ->]]|[y' [H1 ->]]]]].
    - rewrite (cy_cell w _ _ H1), (cx_cell w _ _ H1). left. lia.
    - rewrite (cy_cell w _ _ Hx), (cx_cell w _ _ Hx). right. lia.
    - assert (Hx' : x' < w) by lia. rewrite (cy_cell w _ _ Hx'), (cx_cell w _ _ Hx'). left. lia.
    - rewrite (cy_cell w _ _ Hx), (cx_cell w _ _ Hx). right. lia.
  Qed.

  Lemma Qo_Qk a b : Qo a b -> Qk a b.
  Proof.
    intros H. pose proof (Qo_coords a b H) as Hc. destruct H as [Ha [Hb [_ [Aa Ab]]]].
    split; [exact Ha|]. split; [exact Hb|]. split; [|split; assumption].
    unfold kadj, kstep. lia.
  Qed.

  Lemma Qo_not_diag y x a b : S x < w -> Qo a b -> isPQ (c y x) (c (S y) (S x)) a b = false.
  Proof.
    intros Hx H. pose proof (Qo_coords a b H) as Hc. destruct H as [Ha [Hb _]].
    rewrite (isPQ_coords h w _ _ a b y x (S y) (S x) Ha Hb ltac:(lia) Hx eq_refl eq_refl).
    unfold ispq. bsolve.
  Qed.

  Hypothesis HcB : connected G blk.
  Hypothesis HcW : connected G (inactive blk).

  (* (1), orientation "black on the main diagonal" *)
  Theorem yy_checker_down y x : S y < h -> S x < w ->
    blk (c y x) = true -> blk (c (S y) (S x)) = true ->
    blk (c y (S x)) = false -> blk (c (S y) x) = false -> False.
  Proof.
    intros Hy Hx BA BD WB WC.
    assert (HA : c y x < n) by (apply cell_lt; lia).
    assert (HD : c (S y) (S x) < n) by (apply cell_lt; lia).
    assert (Hr : reach G blk all_edges_ok (c y x) (c (S y) (S x))) by (apply HcB; assumption).
    destruct (reach_list _ _ Hr HA) as [l [Hne [Hhd [Hlast [_ Hs]]]]].
    set (l' := c y x :: l).
    assert (Hl' : steps_ok Qk l').
    { unfold l'. destruct l as [|d r]; [congruence|]. simpl in Hhd. subst d. split.
      - split; [exact HA|]. split; [exact HD|]. split; [|split; assumption].
        unfold kadj, kstep. rewrite (cy_cell w y x ltac:(lia)), (cx_cell w y x ltac:(lia)),
          (cy_cell w (S y) (S x) Hx), (cx_cell w (S y) (S x) Hx). lia.
      - apply (steps_ok_impl _ _ _ Qo_Qk Hs). }
    assert (Hne' : l' <> []) by discriminate.
    assert (Hends : hd 0 l' = last l' 0 \/
                    (hd 0 l' < n /\ last l' 0 < n /\ blk (hd 0 l') = true /\ blk (last l' 0) = true /\
                     on_border h w (hd 0 l') = true /\ on_border h w (last l' 0) = true)).
    { left. unfold l'. destruct l as [|d r]; [congruence|]. simpl hd.
      change (last (c y x :: d :: r) 0) with (last (d :: r) 0). symmetry. exact Hlast. }
    pose proof (yG_witness l' Hl' Hne' Hends y x Hy Hx WB WC) as HG.
    assert (Hcnt : cnt (isPQ (c y x) (c (S y) (S x))) l' = true).
    { unfold l'. destruct l as [|d r]; [congruence|]. simpl in Hhd. subst d.
      change (xorb (isPQ (c y x) (c (S y) (S x)) (c y x) (c (S y) (S x)))
                   (cnt (isPQ (c y x) (c (S y) (S x))) (c (S y) (S x) :: r)) = true).
      assert (E1 : isPQ (c y x) (c (S y) (S x)) (c y x) (c (S y) (S x)) = true)
        by (unfold isPQ; rewrite !Nat.eqb_refl; reflexivity).
      rewrite E1, (cnt_false Qo _ _ Hs); [reflexivity|]. intros a b Hab. apply Qo_not_diag; assumption. }
    rewrite Hcnt in HG.
    pose proof (y_white_same l' Hl' Hne' Hends HcW (c y (S x)) (c (S y) x)
                  ltac:(apply cell_lt; lia) ltac:(apply cell_lt; lia) WB WC) as HS.
    rewrite (yGi_cell l' y (S x) Hx), (yGi_cell l' (S y) x ltac:(lia)) in HS. rewrite HS in HG.
    destruct (yG l' (S y) x); discriminate.
  Qed.
End YY.
