(* C14 — lattice geometry (specification vocabulary) and the model of
   cspuz/grid_frame.py (BoolGridFrame, BoolInnerGridFrame) and of
   cspuz/graph.py::_from_grid_frame.  No proofs in this file. *)
From Coq Require Import ZArith List Bool.
From Cspuz Require Import Lib.PyErr Array.Slice Graph.GraphModel.
Import ListNotations.
Open Scope Z_scope.
Open Scope res_scope.

(* ---------------------------------------------------------------- geometry *)
(* Independent of any array layout.  A frame of h x w cells has lattice points
   (y, x), 0 <= y <= h, 0 <= x <= w, and cells (y, x), 0 <= y < h, 0 <= x < w;
   cell (y, x) has the corners (y, x), (y, x+1), (y+1, x), (y+1, x+1). *)

Definition lpoint := (Z * Z)%type.
Definition lcell := (Z * Z)%type.

(* unit segments of the lattice, named by their upper/left end *)
Inductive segment := SegH (y x : Z) | SegV (y x : Z).

Definition ends (s : segment) : lpoint * lpoint :=
  match s with
  | SegH y x => ((y, x), (y, x + 1))
  | SegV y x => ((y, x), (y + 1, x))
  end.

Definition point_in (h w : Z) (p : lpoint) : bool :=
  let '(y, x) := p in (0 <=? y) && (y <=? h) && (0 <=? x) && (x <=? w).
Definition cell_in (h w : Z) (c : lcell) : bool :=
  let '(y, x) := c in (0 <=? y) && (y <? h) && (0 <=? x) && (x <? w).

(* a segment belongs to the frame when both its ends are lattice points of it *)
Definition seg_in (h w : Z) (s : segment) : bool :=
  let '(p, q) := ends s in point_in h w p && point_in h w q.

Definition opt_cell (h w : Z) (c : lcell) : option lcell :=
  if cell_in h w c then Some c else None.

(* the cells on the two sides of a segment (above/below, left/right); None
   where the segment lies on the outer border of the h x w frame *)
Definition sides (h w : Z) (s : segment) : option lcell * option lcell :=
  match s with
  | SegH y x => (opt_cell h w (y - 1, x), opt_cell h w (y, x))
  | SegV y x => (opt_cell h w (y, x - 1), opt_cell h w (y, x))
  end.

(* doubled coordinates of the midpoint of a segment: the sum of its ends *)
Definition mid (s : segment) : Z * Z :=
  let '((y1, x1), (y2, x2)) := ends s in (y1 + y2, x1 + x2).

Definition incident_pt (s : segment) (p : lpoint) : Prop :=
  fst (ends s) = p \/ snd (ends s) = p.
Definition side_of (h w : Z) (s : segment) (c : lcell) : Prop :=
  fst (sides h w s) = Some c \/ snd (sides h w s) = Some c.

(* row-major numbering of the lattice points of a frame of width w, and of the
   cells of a board of width W (the vertex numbering of the inferred graphs) *)
Definition point_id (w : Z) (p : lpoint) : Z := fst p * (w + 1) + snd p.
Definition cell_id (W : Z) (c : lcell) : Z := fst c * W + snd c.

(* ------------------------------------------------------------------ arrays *)

Record arr2 (A : Type) := { sh_h : Z; sh_w : Z; adata : list A }.
Arguments sh_h {A} a.
Arguments sh_w {A} a.
Arguments adata {A} a.

(* BoolArray2D.__getitem__((y, x)) with two ints (array.py, modelled in Slice.v) *)
Definition arr_get {A} (a : arr2 A) (y x : Z) : res A :=
  let* r := getitem2 (sh_h a) (sh_w a) (adata a) (K2 (KInt y) (KInt x)) in
  match r with RScalar v => Ok v | _ => Err OtherError end.

(* Solver.bool_array((sh, sw)) : ids next, next+1, ... ; range(size) is empty
   for size <= 0, and Array2D.__init__ raises ValueError when len(data) != size *)
Definition bool_array (next sh sw : Z) : res (arr2 Z * Z) :=
  let size := sh * sw in
  let vars := zseq next (Z.to_nat size) in
  if py_len vars =? size
  then Ok ({| sh_h := sh; sh_w := sw; adata := vars |}, next + py_len vars)
  else Err ValueError.

(* ------------------------------------------------------------------ frames *)

Record frame (A : Type) := { fh : Z; fw : Z; hor : arr2 A; ver : arr2 A }.
Arguments fh {A} f.
Arguments fw {A} f.
Arguments hor {A} f.
Arguments ver {A} f.

Record iframe (A : Type) := { ih : Z; iw : Z; ihor : arr2 A; iver : arr2 A }.
Arguments ih {A} i.
Arguments iw {A} i.
Arguments ihor {A} i.
Arguments iver {A} i.

(* BoolGridFrame.__init__ without arrays: horizontal first, then vertical *)
Definition new_frame (next h w : Z) : res (frame Z * Z) :=
  let* '(hz, n1) := bool_array next (h + 1) w in
  let* '(vt, n2) := bool_array n1 h (w + 1) in
  Ok ({| fh := h; fw := w; hor := hz; ver := vt |}, n2).

(* BoolInnerGridFrame.__init__ without arrays *)
Definition new_inner (next h w : Z) : res (iframe Z * Z) :=
  let* '(hz, n1) := bool_array next (h - 1) w in
  let* '(vt, n2) := bool_array n1 h (w - 1) in
  Ok ({| ih := h; iw := w; ihor := hz; iver := vt |}, n2).

(* BoolGridFrame.__getitem__((y, x)) *)
Definition getitem {A} (f : frame A) (y x : Z) : res A :=
  if negb ((0 <=? y) && (y <=? fh f * 2) && (0 <=? x) && (x <=? fw f * 2)) then Err IndexError
  else if (y mod 2 =? 0) && (x mod 2 =? 1) then arr_get (hor f) (y / 2) (x / 2)
  else if (y mod 2 =? 1) && (x mod 2 =? 0) then arr_get (ver f) (y / 2) (x / 2)
  else Err IndexError.

(* all_edges() / __iter__ : itertools.chain(horizontal, vertical) *)
Definition all_edges {A} (f : frame A) : list A := adata (hor f) ++ adata (ver f).
Definition iter {A} (f : frame A) : list A := adata (hor f) ++ adata (ver f).

(* the four ways cell_neighbors / vertex_neighbors can be called with ints *)
Inductive nargs :=
  | ATuple (y x : Z)          (* f((y, x))      *)
  | ATwo (y x : Z)            (* f(y, x)        *)
  | AInt (y : Z)              (* f(y)           *)
  | ATupleInt (y x x' : Z).   (* f((y, x), x')  *)

Definition unpack_args (a : nargs) : res (Z * Z) :=
  match a with
  | ATuple y x => Ok (y, x)
  | ATwo y x => Ok (y, x)
  | AInt _ => Err TypeError
  | ATupleInt _ _ _ => Err TypeError
  end.

Definition cell_neighbors {A} (f : frame A) (a : nargs) : res (list A) :=
  let* '(y2, x2) := unpack_args a in
  if negb ((0 <=? y2) && (y2 <? fh f) && (0 <=? x2) && (x2 <? fw f)) then Err IndexError
  else
    let* e1 := arr_get (hor f) y2 x2 in
    let* e2 := arr_get (hor f) (y2 + 1) x2 in
    let* e3 := arr_get (ver f) y2 x2 in
    let* e4 := arr_get (ver f) y2 (x2 + 1) in
    Ok [e1; e2; e3; e4].

Definition opt_get {A} (c : bool) (r : res A) : res (list A) :=
  if c then (let* e := r in Ok [e]) else Ok [].

Definition vertex_neighbors {A} (f : frame A) (a : nargs) : res (list A) :=
  let* '(y2, x2) := unpack_args a in
  if negb ((0 <=? y2) && (y2 <=? fh f) && (0 <=? x2) && (x2 <=? fw f)) then Err IndexError
  else
    let* r1 := opt_get (0 <? y2) (arr_get (ver f) (y2 - 1) x2) in
    let* r2 := opt_get (y2 <? fh f) (arr_get (ver f) y2 x2) in
    let* r3 := opt_get (0 <? x2) (arr_get (hor f) y2 (x2 - 1)) in
    let* r4 := opt_get (x2 <? fw f) (arr_get (hor f) y2 x2) in
    Ok (r1 ++ r2 ++ r3 ++ r4).

(* BoolGridFrame.dual / BoolInnerGridFrame.dual : swap the two arrays *)
Definition dual {A} (f : frame A) : iframe A :=
  {| ih := fh f + 1; iw := fw f + 1; ihor := ver f; iver := hor f |}.
Definition idual {A} (i : iframe A) : frame A :=
  {| fh := ih i - 1; fw := iw i - 1; hor := iver i; ver := ihor i |}.
(* BoolInnerGridFrame.__iter__ = iter(self.dual()) *)
Definition iiter {A} (i : iframe A) : list A := iter (idual i).

(* ------------------------------------------------- graph.py::_from_grid_frame *)

(* [(y, x) for y in range(n) for x in range(m)] *)
Definition zrange (n : Z) : list Z := zseq 0 (Z.to_nat n).
Definition grid_points (n m : Z) : list (Z * Z) :=
  flat_map (fun y => map (fun x => (y, x)) (zrange m)) (zrange n).

(* the body of the double loop at lattice point (y, x): the (variable, graph
   edge) pairs appended there, in order *)
Definition fgf_at {A} (f : frame A) (y x : Z) : res (list (A * (Z * Z))) :=
  let h := fh f in let w := fw f in
  let* a := opt_get (negb (y =? h))
              (let* e := getitem f (y * 2 + 1) (x * 2) in
               Ok (e, (y * (w + 1) + x, (y + 1) * (w + 1) + x))) in
  let* b := opt_get (negb (x =? w))
              (let* e := getitem f (y * 2) (x * 2 + 1) in
               Ok (e, (y * (w + 1) + x, y * (w + 1) + (x + 1)))) in
  Ok (a ++ b).

Definition zedge_to_nat (e : Z * Z) : nat * nat := (Z.to_nat (fst e), Z.to_nat (snd e)).

(* returns (edges, Graph); Graph.add_edge never raises here: both vertex numbers
   lie in [0, (h+1)*(w+1)) whenever the loop body is reached *)
Definition from_grid_frame {A} (f : frame A) : res (list A * graph) :=
  let h := fh f in let w := fw f in
  let* ll := mapM (fun p => fgf_at f (fst p) (snd p)) (grid_points (h + 1) (w + 1)) in
  let l := concat ll in
  Ok (map fst l, {| nv := Z.to_nat ((h + 1) * (w + 1)); edges := map (fun p => zedge_to_nat (snd p)) l |}).

(* ------------------------------------------------ what "represents" means *)
(* An array is the 2-D array whose [y][x] element is g y x: its data is the
   concatenation of the rows [g y 0, ..., g y (sw-1)], y = 0 .. sh-1 (how a list
   of lists is flattened by array.py::_flatten). *)
Definition rows_of {A} (sh sw : Z) (g : Z -> Z -> A) : list A :=
  flat_map (fun y => map (g y) (zrange sw)) (zrange sh).
Definition arr_of_fun {A} (sh sw : Z) (g : Z -> Z -> A) (a : arr2 A) : Prop :=
  sh_h a = sh /\ sh_w a = sw /\ adata a = rows_of sh sw g.

(* frame f of h x w cells carries, on every segment s of the lattice, the
   variable lab s: horizontal[y][x] lies on SegH y x, vertical[y][x] on SegV y x *)
Definition frame_of {A} (h w : Z) (lab : segment -> A) (f : frame A) : Prop :=
  fh f = h /\ fw f = w /\
  arr_of_fun (h + 1) w (fun y x => lab (SegH y x)) (hor f) /\
  arr_of_fun h (w + 1) (fun y x => lab (SegV y x)) (ver f).

(* inner frame of a board of H x W cells: horizontal[y][x] is the border between
   cells (y, x) and (y+1, x), i.e. the segment SegH (y+1) x of the H x W frame;
   vertical[y][x] the border between (y, x) and (y, x+1), i.e. SegV y (x+1) *)
Definition iframe_of {A} (H W : Z) (lab : segment -> A) (i : iframe A) : Prop :=
  ih i = H /\ iw i = W /\
  arr_of_fun (H - 1) W (fun y x => lab (SegH (y + 1) x)) (ihor i) /\
  arr_of_fun H (W - 1) (fun y x => lab (SegV y (x + 1))) (iver i).

(* the labelling produced by the public constructor: allocation order *)
Definition new_frame_lab (next h w : Z) (s : segment) : Z :=
  match s with
  | SegH y x => next + (y * w + x)
  | SegV y x => next + (h + 1) * w + (y * (w + 1) + x)
  end.
Definition new_inner_lab (next H W : Z) (s : segment) : Z :=
  match s with
  | SegH y x => next + ((y - 1) * W + x)
  | SegV y x => next + (H - 1) * W + (y * (W - 1) + (x - 1))
  end.

(* the segment of the primal frame that joins, as lattice points, the two cells
   a segment of the dual (inner) frame separates -- and back *)
Definition primal_seg (sd : segment) : segment :=
  match sd with SegH y x => SegV (y - 1) x | SegV y x => SegH y (x - 1) end.
Definition dual_seg (sp : segment) : segment :=
  match sp with SegV y x => SegH (y + 1) x | SegH y x => SegV y (x + 1) end.
