(* C10 runner: I/O only.
   X <h> <w> <sc> <prim> <state> H <expr list> V <expr list>
        -> post_crossable on the given frame
   F <h> <w> <sc> <prim> <state>
        -> new_frame (BoolGridFrame(solver, h, w)) then post_crossable
   G <H> <W>  -> the auxiliary graph: n : a b a b ...
   S <h> <w> <sc> <hbits> <vbits> -> crossable_spec_b, visited bits, crossing bits
   reply:  OK <state> P <expr list> Q <expr list>   |   E <code> *)
open Model
open Zutil

let flag s = (s = "1")
let err e = "E " ^ string_of_int (int_of_nat (pyerr_code e))

let show_res = function
  | Err e -> err e
  | Ok (st, (p, q)) ->
      "OK " ^ Exprio.show_state st ^ " P " ^ Exprio.show_expr_list p ^ " Q " ^ Exprio.show_expr_list q

let handle toks = match toks with
  | "X" :: h :: w :: sc :: prim :: rest ->
      let (st, r) = Exprio.parse_state rest in
      (match r with
       | "H" :: r ->
           let (hz, r) = Exprio.parse_expr_list r in
           (match r with
            | "V" :: r ->
                let (vt, _) = Exprio.parse_expr_list r in
                let fr = { fh = nat_of_int (int_of_string h); fw = nat_of_int (int_of_string w); hor = hz; ver = vt } in
                show_res (post_crossable st fr (flag sc) (flag prim))
            | _ -> "EXN expected V")
       | _ -> "EXN expected H")
  | "F" :: h :: w :: sc :: prim :: rest ->
      let (st, _) = Exprio.parse_state rest in
      let (st1, fr) = new_frame st (nat_of_int (int_of_string h)) (nat_of_int (int_of_string w)) in
      show_res (post_crossable st1 fr (flag sc) (flag prim))
  | "G" :: h :: w :: _ ->
      let g = split_graph (nat_of_int (int_of_string h)) (nat_of_int (int_of_string w)) in
      string_of_int (int_of_nat g.nv) ^ " :" ^
      String.concat "" (List.map (fun (a, b) -> " " ^ string_of_int (int_of_nat a) ^ " " ^ string_of_int (int_of_nat b)) g.edges)
  | "S" :: h :: w :: sc :: hb :: vb :: _ ->
      (* the executable specification on a pattern given as two bit strings ("-" = empty) *)
      let bits s = if s = "-" then [] else List.init (String.length s) (fun i -> s.[i] = '1') in
      let h = nat_of_int (int_of_string h) and w = nat_of_int (int_of_string w) in
      let act = act_of_bits w (bits hb) (bits vb) in
      let (p, q) = outputs_b h w act in
      let show l = String.concat "" (List.map (fun b -> if b then "1" else "0") l) in
      (if crossable_spec_b h w act (flag sc) then "1" else "0") ^ " " ^ show p ^ " " ^ show q
  | _ -> "EXN bad request"

let () = main_loop handle
