(* C07: the primitive route - operand layout of Op.GRAPH_DIVISION *)
From Coq Require Import ZArith List Bool Arith Lia.
From Cspuz Require Import Lib.PyErr Core.Expr Core.Program Core.Build Graph.GraphModel Graph.VarGroups.
Import ListNotations.
Open Scope nat_scope.

Lemma as_nat_zn n : as_nat (PyInt (zn n)) = Some n.
Proof.
  unfold as_nat, zn. destruct (Z.leb_spec 0 (Z.of_nat n)); [|lia]. now rewrite Nat2Z.id.
Qed.

Local Arguments as_nat : simpl never.
Local Arguments zn : simpl never.

Lemma flat_edges_length g : length (flat_edges g) = 2 * length (edges g).
Proof.
  unfold flat_edges. induction (edges g) as [|[u v] r IH]; simpl; [reflexivity|]. rewrite IH. lia.
Qed.

Lemma flat_edges_decode es :
  all_some_nat (map as_nat (flat_map (fun '(u, v) => [PyInt (zn u); PyInt (zn v)]) es)) =
  Some (flat_map (fun '(u, v) => [u; v]) es).
Proof.
  induction es as [|[u v] r IH]; simpl; [reflexivity|].
  rewrite !as_nat_zn, IH. reflexivity.
Qed.

Lemma pairs_of_flat (es : list (nat * nat)) : pairs_of (flat_map (fun '(u, v) => [u; v]) es) = es.
Proof. induction es as [|[u v] r IH]; simpl; [reflexivity|]. now rewrite IH. Qed.

Lemma firstn_app_exact {A} (l1 l2 : list A) n : length l1 = n -> firstn n (l1 ++ l2) = l1.
Proof. intros <-. rewrite firstn_app, Nat.sub_diag, firstn_all. simpl. apply app_nil_r. Qed.

Lemma skipn_app_exact {A} (l1 l2 : list A) n : length l1 = n -> skipn n (l1 ++ l2) = l2.
Proof. intros <-. rewrite skipn_app, Nat.sub_diag, skipn_all. reflexivity. Qed.

Lemma decode_gdiv_operands g sizes bd :
  length sizes = nv g -> length bd = length (edges g) ->
  decode_gdiv (gdiv_operands g sizes bd) = Some (g, sizes, bd).
Proof.
  intros Hs Hb. unfold decode_gdiv, gdiv_operands. simpl.
  rewrite !as_nat_zn.
  assert (Hlen : length (sizes ++ flat_edges g ++ bd) = nv g + 2 * length (edges g) + length (edges g)).
  { rewrite !app_length, flat_edges_length. lia. }
  rewrite Hlen, Nat.eqb_refl.
  rewrite (firstn_app_exact sizes _ (nv g) Hs), (skipn_app_exact sizes _ (nv g) Hs).
  rewrite (firstn_app_exact (flat_edges g) bd), (skipn_app_exact (flat_edges g) bd)
    by apply flat_edges_length.
  unfold flat_edges. rewrite flat_edges_decode, pairs_of_flat. destruct g; reflexivity.
Qed.

Lemma post_with_borders_primitive st g sizes bd :
  length sizes = nv g -> length bd = length (edges g) ->
  post_with_borders st g sizes bd true = Ok (ensure st [BNode G_DIV (gdiv_operands g sizes bd)]).
Proof.
  intros Hs Hb. unfold post_with_borders. rewrite Hs, Hb, !Nat.eqb_refl. reflexivity.
Qed.
