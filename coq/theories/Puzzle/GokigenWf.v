(* C11: the program of solve_gokigen is well formed on every board; composition with C02 (solve_reports). *)
From Coq Require Import ZArith List Bool Arith Lia.
From Cspuz Require Import Lib.PyErr Core.Expr Core.Program Graph.GraphModel Graph.Acyclic
     Backend.Z3 Backend.Z3Oracle Backend.Z3SolveProofs Backend.SolveLoop Backend.SolveZ3Proofs
     Puzzle.PuzzleBase Puzzle.ModelBase Puzzle.ModelLemmas Puzzle.SatAbs Puzzle.SolveCompose Puzzle.WfLemmas
     Puzzle.Rules_gokigen Puzzle.Gokigen Puzzle.GokigenForest Puzzle.GokigenProofs.
Import ListNotations.
Local Open Scope nat_scope.

Section G.
  Variables h w : nat.
  Let vs := repeat DBool (h * w).

  Lemma ok_gk_var y x : y < h -> x < w -> ok vs true (gk_var w (y, x)) = true.
  Proof. intros Hy Hx. unfold gk_var. apply ok_cell; assumption. Qed.
  Lemma ok_gk_nvar y x : y < h -> x < w -> ok vs true (gk_nvar w (y, x)) = true.
  Proof. intros Hy Hx. unfold gk_nvar. rewrite ok_not. apply ok_cell; assumption. Qed.

  Lemma gk_flags_ok : forallb (ok vs true) (gk_flags h w) = true.
  Proof.
    unfold gk_flags. rewrite forallb_flat_map. apply forallb_cells. intros y x Hy Hx.
    cbn [forallb]. rewrite ok_gk_var, ok_gk_nvar by assumption. reflexivity.
  Qed.

  Lemma gk_related_ok y x : y <= h -> x <= w -> forallb (ok vs true) (gk_related h w y x) = true.
  Proof.
    intros Hy Hx. unfold gk_related. rewrite !forallb_app.
    repeat (apply andb_true_intro; split);
      match goal with |- forallb _ (if ?c then _ else _) = true => destruct c eqn:E; [|reflexivity] end;
      apply andb_true_iff in E; destruct E as [E1 E2]; apply Nat.ltb_lt in E1; apply Nat.ltb_lt in E2;
      cbn [forallb]; rewrite ?ok_gk_var, ?ok_gk_nvar by lia; reflexivity.
  Qed.

  Lemma ok_gk_count l : forallb (ok vs true) l = true -> ok vs false (gk_count l) = true.
  Proof.
    intros H. unfold gk_count. destruct l as [|a r] eqn:E; [reflexivity|]. rewrite <- E in *.
    rewrite ok_add_map by (subst; discriminate). rewrite forallb_forall in H. apply forallb_In. intros e He.
    rewrite ok_cond. auto.
  Qed.

  Lemma gk_clues_ok clue : forallb (ok vs true) (gk_clues h w clue) = true.
  Proof.
    unfold gk_clues. rewrite forallb_flat_map. apply forallb_cells. intros y x Hy Hx. unfold gk_clue. cbv zeta.
    destruct (_ <? 0)%Z; [reflexivity|]. autorewrite with okdb. apply ok_gk_count. apply gk_related_ok; simpl; lia.
  Qed.
End G.

Lemma gokigen_model_shape pb st : solve_gokigen_model pb = Ok st ->
  (wf_state st /\ wf_keys st) /\ exists r, keys st = repeat true (dim pb 0 * dim pb 1) ++ r.
Proof.
  unfold solve_gokigen_model. set (h := dim pb 0). set (w := dim pb 1). cbv zeta.
  destruct (post_acyclic _ _ _) as [st1|] eqn:E; [|discriminate].
  destruct (Nat.ltb _ _); [discriminate|].
  intros H. inversion H; subst st; clear H.
  destruct (post_acyclic_wf _ _ _ _ E) as [WK [Hv Hk]].
  - reflexivity.
  - unfold wf_keys; simpl. rewrite !repeat_length. reflexivity.
  - simpl. apply gk_flags_ok.
  - split.
    + eapply wf_ensure_prefix; [exact WK|exact Hv|]. simpl. apply gk_clues_ok.
    + eexists. simpl. rewrite Hk. reflexivity.
Qed.

Lemma gokigen_model_wf pb st : solve_gokigen_model pb = Ok st -> wf_state st /\ wf_keys st.
Proof. intros H. exact (proj1 (gokigen_model_shape pb st H)). Qed.

Theorem gokigen_solve_reports : forall oracle, oracle_sound_on oracle -> oracle_complete_on oracle ->
  forall h w clue st,
  solve_gokigen_model [[Z.of_nat h; Z.of_nat w]; clue] = Ok st ->
  solve_reports oracle st (seq 0 (h * w)) (rules_gokigen [[Z.of_nat h; Z.of_nat w]; clue]).
Proof.
  intros oracle Os Oc h w clue st Hst.
  apply (solve_reports_intro oracle no_graph); try assumption.
  - exact (gokigen_model_wf _ _ Hst).
  - destruct (gokigen_model_shape _ _ Hst) as [_ [r Hk]]. rewrite dim2_0, dim2_1 in Hk. rewrite Hk.
    intros i. apply keys_prefix.
  - intros ans. exact (gokigen_exact h w clue st ans Hst).
Qed.
