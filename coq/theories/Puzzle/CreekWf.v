(* C11: the program of solve_creek is well formed on every board; composition with C02 (solve_reports). *)
From Coq Require Import ZArith List Bool Arith Lia.
From Cspuz Require Import Lib.PyErr Core.Expr Core.Program Graph.GraphModel Graph.Avc
     Backend.Z3 Backend.Z3Oracle Backend.Z3SolveProofs Backend.SolveLoop Backend.SolveZ3Proofs
     Puzzle.PuzzleBase Puzzle.ModelBase Puzzle.ModelLemmas Puzzle.SatAbs Puzzle.SolveCompose Puzzle.WfLemmas
     Puzzle.Rules_creek Puzzle.Creek Puzzle.CreekProofs.
Import ListNotations.
Local Open Scope nat_scope.

Lemma ok_ct_not_vars vs ids : (forall i, In i ids -> ok vs true (BVar i) = true) -> ok vs false (ct_not_vars ids) = true.
Proof.
  intros H. unfold ct_not_vars. destruct ids as [|i r] eqn:E; [reflexivity|]. rewrite <- E in *.
  rewrite ok_add_map by (subst; discriminate). apply forallb_In. intros k Hk.
  rewrite ok_cond, ok_not. auto.
Qed.

Lemma creek_clues_ok h w clue : forallb (ok (repeat DBool (h * w)) true) (creek_clues h w clue) = true.
Proof.
  unfold creek_clues. rewrite forallb_flat_map. apply forallb_cells. intros py px _ _.
  destruct (0 <=? at2 clue (S w) py px)%Z; [|reflexivity]. autorewrite with okdb.
  apply ok_ct_not_vars. intros i Hi. apply in_map_iff in Hi. destruct Hi as [[y x] [<- Hc]].
  unfold touching in Hc. apply filter_In in Hc. destruct Hc as [Hc _]. apply cells_in in Hc.
  apply ok_cell; tauto.
Qed.

Lemma creek_model_shape pb st : solve_creek_model pb = Ok st ->
  (wf_state st /\ wf_keys st) /\ exists r, keys st = repeat true (dim pb 0 * dim pb 1) ++ r.
Proof.
  unfold solve_creek_model. set (h := dim pb 0). set (w := dim pb 1).
  destruct (post_avc _ _ _ false false) as [st1|] eqn:E; [|discriminate].
  intros H. inversion H; subst st; clear H.
  destruct (post_avc_wf _ _ _ _ _ E) as [WK [Hv Hk]].
  - reflexivity.
  - unfold wf_keys; simpl. rewrite !repeat_length. reflexivity.
  - simpl. apply ok_grid_vars.
  - split.
    + eapply wf_ensure_prefix; [exact WK|exact Hv|]. simpl. apply creek_clues_ok.
    + eexists. simpl. rewrite Hk. reflexivity.
Qed.

Lemma creek_model_wf pb st : solve_creek_model pb = Ok st -> wf_state st /\ wf_keys st.
Proof. intros H. exact (proj1 (creek_model_shape pb st H)). Qed.

Theorem creek_solve_reports : forall oracle, oracle_sound_on oracle -> oracle_complete_on oracle ->
  forall h w clue st,
  solve_creek_model [[Z.of_nat h; Z.of_nat w]; clue] = Ok st ->
  solve_reports oracle st (seq 0 (h * w)) (rules_creek [[Z.of_nat h; Z.of_nat w]; clue]).
Proof.
  intros oracle Os Oc h w clue st Hst.
  apply (solve_reports_intro oracle gsem_avc); try assumption.
  - exact (creek_model_wf _ _ Hst).
  - destruct (creek_model_shape _ _ Hst) as [_ [r Hk]]. rewrite dim2_0, dim2_1 in Hk. rewrite Hk.
    intros i. apply keys_prefix.
  - intros ans. exact (creek_exact h w clue st ans Hst).
Qed.
