(* C11 Tier 1 - model of cspuz/puzzle/fillomino.py::solve_fillomino(height, width, problem) with
   checkered=False (the default; the plug-in never passes it), all board shapes:
       size = solver.int_array((height, width), 1, height * width); solver.add_answer_key(size)
       border = graph.BoolInnerGridFrame(solver, height, width)
           # horizontal = bool_array((height - 1, width)), then vertical = bool_array((height, width - 1))
       graph.division_connected_variable_groups_with_borders(solver, group_size=size, is_border=border)
       solver.ensure(border.vertical == (size[:, :-1] != size[:, 1:]))
       solver.ensure(border.horizontal == (size[:-1, :] != size[1:, :]))
       for y, x in row-major order: if problem[y][x] >= 1: solver.ensure(size[y, x] == problem[y][x])
   The call into cspuz.graph is the model of property C07 (Graph/VarGroups.v::
   division_connected_variable_groups_with_borders, inner-frame form, use_graph_primitive=None and
   config.use_graph_division_primitive False for the z3 backend the capture harness runs with: the
   auxiliary-variable encoding group_id / rank / is_root / is_active_edge / downstream_size / total_size).
   The answer keys are the size variables, ids 0 .. h*w-1, declared first; the border variables
   (ids h*w .. h*w + (h-1)*w + h*(w-1) - 1) and the variables of the connectivity encoding are existential.
   On a board without cells the Python raises ValueError in int_array (domain 1 .. 0), before anything else.
   The problem uses the encoding of Rules_fillomino.v ([[h; w]; given row-major]); every integer is a legal
   cell value (n >= 1 a given number, anything else empty).  A clue list with fewer than h*w entries stands
   for a nested list with a missing / short last row: the Python raises IndexError in the clue loop (after the
   graph call, which cannot fail on a board with a cell).
   No proofs here. *)
From Coq Require Import ZArith List Bool Arith.
From Cspuz Require Import Lib.PyErr Core.Expr Core.Program Graph.GraphModel Graph.VarGroups
     Puzzle.PuzzleBase Puzzle.ModelBase.
Import ListNotations.
Local Open Scope nat_scope.

(* size[y, x] as a flat index *)
Definition fl_size (n : nat) (v : nat) : expr := IVar v 1 (Z.of_nat n).

(* the constraints posted after the graph call; border variable j (0-based among the frame's variables:
   first the (h-1)*w horizontal ones, then the h*(w-1) vertical ones) has id h*w + j *)
Definition fl_constraints (h w : nat) (given : list Z) : list expr :=
  let n := h * w in
  map (fun '(y, x) => BNode IFF [BVar (n + ((h - 1) * w + y * (w - 1) + x));
                                 BNode NE [fl_size n (y * w + x); fl_size n (y * w + S x)]]) (cells h (w - 1)) ++
  map (fun '(y, x) => BNode IFF [BVar (n + (y * w + x));
                                 BNode NE [fl_size n (y * w + x); fl_size n (S y * w + x)]]) (cells (h - 1) w) ++
  flat_map (fun '(y, x) => let c := at2 given w y x in
                           if (1 <=? c)%Z then [BNode EQ [fl_size n (y * w + x); PyInt c]] else []) (cells h w).

Definition solve_fillomino_model (pb : problem) : res state :=
  let h := dim pb 0 in let w := dim pb 1 in let given := sec pb 1 in
  let n := h * w in
  match int_array empty_state n 1 (Z.of_nat n) with
  | Err e => Err e
  | Ok (st0, size) =>
      (* add_answer_key(size) *)
      let st0k := {| vars := vars st0; keys := repeat true n; cons := cons st0 |} in
      let '(st1, hor) := bool_array st0k ((h - 1) * w) in
      let '(st2, ver) := bool_array st1 (h * (w - 1)) in
      match division_connected_variable_groups_with_borders st2 (GArr2 h w size)
              (BFrame {| fh := h; fw := w; fhor := hor; fver := ver |}) None None false with
      | Err e => Err e
      | Ok st3 =>
          if Nat.ltb (length given) n then Err IndexError
          else Ok (ensure st3 (fl_constraints h w given))
      end
  end.
