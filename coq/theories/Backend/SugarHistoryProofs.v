(* The description after any history of add_constraint calls on one backend
   object is the description of the concatenation of everything posted. *)
From Coq Require Import ZArith List Bool String Ascii.
From Cspuz Require Import Lib.PyErr Core.Expr Core.Program Backend.SugarText Gen.SugarOps Backend.Sugar
  Backend.SugarReply Backend.SugarSpec Backend.SugarDescProofs Backend.SugarHistory.
Import ListNotations.
Open Scope string_scope.

Lemma mapM_app {A B} (f : A -> res B) a b :
  mapM f (a ++ b) = bind (mapM f a) (fun x => bind (mapM f b) (fun y => Ok (x ++ y)%list)).
Proof.
  induction a as [|h t IH]; simpl.
  - destruct (mapM f b); reflexivity.
  - destruct (f h); simpl; [|reflexivity]. rewrite IH.
    destruct (mapM f t); simpl; [|reflexivity].
    destruct (mapM f b); reflexivity.
Qed.

Lemma add_all_spec : forall ps b,
  add_all b ps =
  bind (constraint_lines (posted ps))
       (fun l => Ok {| o_vars := o_vars b; o_lines := o_lines b ++ l |}).
Proof.
  induction ps as [|p r IH]; intros b.
  - simpl. rewrite app_nil_r. destruct b; reflexivity.
  - change (posted (p :: r)) with ((match p with PList cs => cs | POne c => [c] end) ++ posted r)%list.
    unfold constraint_lines in *. rewrite mapM_app. simpl add_all.
    destruct p as [cs|c]; simpl.
    + unfold constraint_lines. destruct (mapM print_expr cs) as [l|e]; simpl; [|reflexivity].
      rewrite IH. simpl. destruct (mapM print_expr (posted r)); simpl; [|reflexivity].
      rewrite app_assoc. reflexivity.
    + destruct (print_expr c) as [s|e]; simpl; [|reflexivity].
      rewrite IH. simpl. destruct (mapM print_expr (posted r)); simpl; [|reflexivity].
      rewrite <- app_assoc. reflexivity.
Qed.

(* posting in several calls = posting the concatenation in one call; errors included *)
Theorem history_description_eq : forall k vs ps mode,
  history_description k vs ps mode = description_k k vs (posted ps) mode.
Proof.
  intros k vs ps mode. unfold history_description. rewrite add_all_spec. simpl.
  unfold description_k, describe_k, description, describe.
  destruct (constraint_lines (posted ps)) as [l|e]; simpl.
  - destruct mode as [ks|]; simpl; [|reflexivity].
    destruct (native_deduction k); reflexivity.
  - destruct mode as [ks|]; simpl; [|reflexivity].
    destruct (native_deduction k); reflexivity.
Qed.

(* every description of the refinement loop carries the whole constraint list
   and every clause posted so far *)
Theorem loop_description_eq : forall vs cs clauses,
  loop_description vs cs clauses = description vs (cs ++ clauses)%list None.
Proof.
  intros. unfold loop_description. rewrite history_description_eq. simpl.
  f_equal. f_equal. induction clauses as [|c r IH]; simpl; [reflexivity|]. f_equal. exact IH.
Qed.

(* a later call never sees less than an earlier one: the lines of the earlier
   description are a prefix (answer-finder mode) *)
Theorem history_monotone : forall vs ps p b b',
  add_all (new_backend vs) ps = Ok b -> add_constraint b p = Ok b' ->
  exists more, o_lines b' = (o_lines b ++ more)%list /\ o_vars b' = o_vars b.
Proof.
  intros vs ps p b b' _ H. destruct p as [cs|c]; simpl in H.
  - destruct (constraint_lines cs) as [l|e]; simpl in H; [|discriminate].
    inversion H; subst; simpl. exists l. split; reflexivity.
  - destruct (print_expr c) as [s|e]; simpl in H; [|discriminate].
    inversion H; subst; simpl. exists [s]. split; reflexivity.
Qed.

(* so every description of a history, read the way loadProblem reads it, declares
   exactly the variables and its constraints mean exactly what everything posted
   so far means *)
Theorem history_description_faithful : forall gsem k vs ps mode text,
  (native_deduction k = true \/ mode = None) ->
  Forall (fun c => wts true c = true) (posted ps) ->
  history_description k vs ps mode = Ok text ->
  exists jp, java_load text = Some jp /\
    sugar_decls (j_problem jp) = map (fun v => Some (sdecl_of v)) vs /\
    j_keys jp = option_map (fun ks => key_list (names_of_keys vs ks)) mode /\
    forall en, map (sugar_sem gsem (name_env en)) (sugar_constraints (j_problem jp)) =
               map (eval gsem en) (posted ps).
Proof.
  intros gsem k vs ps mode text Hk Hwt H. rewrite history_description_eq in H.
  assert (Hd : description vs (posted ps) mode = Ok text).
  { unfold description_k in H. destruct mode as [ks|]; [|exact H].
    destruct Hk as [Hk|Hk]; [rewrite Hk in H; exact H|discriminate]. }
  destruct (description_faithful gsem vs (posted ps) mode text Hwt Hd) as (jp & Hl & Hdecl & _ & _ & Hkeys & Hsem).
  exists jp. repeat split; assumption.
Qed.

Theorem loop_description_faithful : forall gsem vs cs clauses text,
  Forall (fun c => wts true c = true) (cs ++ clauses)%list ->
  loop_description vs cs clauses = Ok text ->
  exists jp, java_load text = Some jp /\
    sugar_decls (j_problem jp) = map (fun v => Some (sdecl_of v)) vs /\ j_keys jp = None /\
    forall en, map (sugar_sem gsem (name_env en)) (sugar_constraints (j_problem jp)) =
               map (eval gsem en) (cs ++ clauses)%list.
Proof.
  intros gsem vs cs clauses text Hwt H. rewrite loop_description_eq in H.
  destruct (description_faithful gsem vs (cs ++ clauses)%list None text Hwt H) as (jp & Hl & Hdecl & _ & _ & Hkeys & Hsem).
  exists jp. repeat split; assumption.
Qed.
