(* C11 Tier 1 - model of cspuz/puzzle/akari.py::solve_akari, all board shapes:
       has_light = solver.bool_array((height, width)); solver.add_answer_key(has_light)
       for every white cell that starts a vertical (horizontal) run of white cells:
           ensure(count_true([has_light[p] for p in run]) <= 1)
       for every cell:
           white: ensure(fold_or([has_light[p] for p in sight]))      sight = the cell, then the white cells seen
                                                                      upwards, downwards, to the left, to the right
           black: ensure(~has_light[y, x]); with a number n >= 0:
                  ensure(count_true([has_light[p] for p in white orthogonal neighbours (up, down, left, right)]) == n)
   The run constraints are generated here column by column / row by row (the Python generates them cell by
   cell): the posted constraints are the same as a multiset, which is what the capture tie compares.
   The problem uses the encoding of Rules_akari.v ([[h; w]; grid], < -1 white, -1 black, n >= 0 numbered black).
   No proofs here. *)
From Coq Require Import ZArith List Bool Arith.
From Cspuz Require Import Lib.PyErr Core.Expr Core.Program Puzzle.PuzzleBase Puzzle.ModelBase.
Import ListNotations.
Local Open Scope nat_scope.

Definition akari_white (grid : list Z) (w : nat) (c : nat * nat) : bool :=
  (at2 grid w (fst c) (snd c) <? -1)%Z.

Definition dirs4 : list (Z * Z) := [((-1)%Z, 0%Z); (1%Z, 0%Z); (0%Z, (-1)%Z); (0%Z, 1%Z)].

(* the white cells seen from (y, x): upwards, downwards, to the left, to the right, nearest first *)
Definition akari_seen (h w : nat) (grid : list Z) (y x : nat) : list (nat * nat) :=
  flat_map (fun '(dy, dx) => take_while (akari_white grid w) (ray h w y x dy dx)) dirs4.

(* one "at most one light" constraint per maximal run of white cells of a line (a column top to bottom or
   a row left to right); [prev] tells whether the previous cell of the line is white *)
Fixpoint run_constraints (grid : list Z) (w : nat) (prev : bool) (line : list (nat * nat)) : list expr :=
  match line with
  | [] => []
  | c :: r =>
      (if akari_white grid w c && negb prev
       then [BNode LE [ct_vars (map (cidx w) (take_while (akari_white grid w) line)); PyInt 1]] else []) ++
      run_constraints grid w (akari_white grid w c) r
  end.

Definition column (h x : nat) : list (nat * nat) := map (fun y => (y, x)) (seq 0 h).
Definition row (w y : nat) : list (nat * nat) := map (fun x => (y, x)) (seq 0 w).

Definition akari_cell (h w : nat) (grid : list Z) (c : nat * nat) : list expr :=
  let '(y, x) := c in
  if akari_white grid w c then [BNode OR (map (fun p => BVar (cidx w p)) ((y, x) :: akari_seen h w grid y x))]
  else BNode NOT [BVar (cidx w c)] ::
       (let n := at2 grid w y x in
        if (0 <=? n)%Z
        then [BNode EQ [ct_vars (map (cidx w) (filter (akari_white grid w) (nbr4 h w y x))); PyInt n]] else []).

Definition akari_constraints (h w : nat) (grid : list Z) : list expr :=
  flat_map (fun x => run_constraints grid w false (column h x)) (seq 0 w) ++
  flat_map (fun y => run_constraints grid w false (row w y)) (seq 0 h) ++
  flat_map (akari_cell h w grid) (cells h w).

Definition solve_akari_model (pb : problem) : res state :=
  let h := dim pb 0 in let w := dim pb 1 in
  Ok (bool_grid_state (h * w) (akari_constraints h w (sec pb 1))).
