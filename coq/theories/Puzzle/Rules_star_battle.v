(* C11 rule specification - Star Battle.
   Published rules (puzz.link, "Star Battle"):
     1. Place stars in some cells so that every row, every column and every
        region contains exactly k stars.
     2. Stars cannot be adjacent to each other, not even diagonally.

   problem = [[n; k]; region]   region: n*n region ids 0..n-1 row-major
   answer  = n*n cells row-major, 1 = star *)
From Coq Require Import ZArith List Bool Arith.
From Cspuz Require Import Puzzle.PuzzleBase.
Import ListNotations.

Definition rules_star_battle (pb : problem) (ans : answer) : bool :=
  let n := dim pb 0 in let k := dim pb 1 in
  let region := sec pb 1 in
  let star := fun '(y, x) => isb (at2 ans n y x) in
  let cs := cells n n in
  Nat.eqb (length ans) (n * n) && forallb is01 ans &&
  forallb (fun i =>
     Nat.eqb (count (fun x => star (i, x)) (seq 0 n)) k &&
     Nat.eqb (count (fun y => star (y, i)) (seq 0 n)) k &&
     Nat.eqb (count (fun '(y, x) => (at2 region n y x =? Z.of_nat i)%Z && star (y, x)) cs) k) (seq 0 n) &&
  forallb (fun '(y, x) =>
     negb (star (y, x)) ||
     forallb (fun '(y', x') =>
        (Nat.eqb y y' && Nat.eqb x x') || Nat.ltb 1 (y - y' + (y' - y)) || Nat.ltb 1 (x - x' + (x' - x)) ||
        negb (star (y', x'))) cs) cs.

Definition answers_star_battle (pb : problem) : list answer :=
  all_answers (bool_doms (dim pb 0 * dim pb 0)).
