(* C11: the hypotheses of SolveCompose.solve_puzzle_exact are satisfiable - they hold for the program
   solve_slitherlink posts on a 2x1 board with the clues [3; -1] (slitherlink_exact supplies [exact]),
   for the brute-force oracle of property C02 (which meets both oracle hypotheses). *)
From Coq Require Import ZArith List Bool Arith.
From Cspuz Require Import Lib.PyErr Core.Expr Core.Program Backend.Z3 Backend.Z3Oracle Backend.Z3OracleProofs
     Backend.Z3SolveProofs Backend.SolveLoop Backend.SolveZ3Proofs
     Puzzle.PuzzleBase Puzzle.SatAbs Puzzle.SolveCompose
     Puzzle.Rules_slitherlink Puzzle.Slitherlink Puzzle.SlitherlinkProofs.
Import ListNotations.

Definition ex_pb : problem := [[2%Z; 1%Z]; [3%Z; (-1)%Z]].
Definition ex_ids : list nat := seq 0 (S 2 * 1 + 2 * S 1).

Lemma ex_model_ok : exists st, solve_slitherlink_model ex_pb = Ok st.
Proof. vm_compute. eexists. reflexivity. Qed.

Example solve_puzzle_exact_nonvacuous :
  forall st, solve_slitherlink_model ex_pb = Ok st ->
  wf_state st /\ wf_keys st /\ (forall i, In i ex_ids -> nth_error (keys st) i = Some true) /\
  (forall ans, (exists en, model_of no_graph en st /\ reads st en ex_ids = ans) <-> rules_slitherlink ex_pb ans = true) /\
  exists r, solve bf_oracle st = Ok r /\ r <> OutOfFuel.
Proof.
  intros st Hst.
  assert (Wf : wf_state st).
  { unfold wf_state, wf_cons. vm_compute in Hst. injection Hst as <-. vm_compute. reflexivity. }
  assert (Kf : wf_keys st).
  { unfold wf_keys. vm_compute in Hst. injection Hst as <-. vm_compute. reflexivity. }
  assert (Ik : forall i, In i ex_ids -> nth_error (keys st) i = Some true).
  { vm_compute in Hst. injection Hst as <-. intros i Hi. unfold ex_ids in Hi. simpl in Hi.
    repeat (destruct Hi as [<-|Hi]; [vm_compute; reflexivity|]). destruct Hi. }
  assert (Ex : forall ans, (exists en, model_of no_graph en st /\ reads st en ex_ids = ans) <-> rules_slitherlink ex_pb ans = true).
  { intros ans. exact (slitherlink_exact 2 1 [3%Z; (-1)%Z] st ans Hst). }
  split; [exact Wf|]. split; [exact Kf|]. split; [exact Ik|]. split; [exact Ex|].
  destruct (solve_puzzle_exact bf_oracle bf_oracle_sound bf_oracle_complete no_graph st ex_ids
              (rules_slitherlink ex_pb) Wf Kf Ik Ex) as [r [Hr Hm]].
  exists r. split; [exact Hr|]. intros E. subst r. exact Hm.
Qed.
