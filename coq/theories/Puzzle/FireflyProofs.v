(* C11 Tier 1 - firefly (Hotaru Beam): for every board shape and every firefly layout with at least one firefly,
   the program posted by solve_firefly (model Firefly.v: has_line = line_ul | line_dr oriented segments, one ignored
   segment, ranks that descend along the orientation, per point the flow / turn-counter constraints) has a model
   reading as [ans] on has_line exactly when [ans] obeys Rules_firefly.  No helper of cspuz.graph is involved: the
   module's own connectivity encoding ("unicyclic = connected") is proved equivalent to the connectivity rule here.
     model -> rules  (FireflySound.v): the orientation makes the drawn segments a functional graph; ranks that descend
       except across one segment force every orbit into one cycle, beams cannot enter a firefly-free cycle, hence
       every beam reaches a firefly within height*width steps, every segment lies on a beam, and all points on lines
       hang together (FireflyFun.v, FireflyNet.v);
     rules -> model  (FireflyBeams.v): orient every segment along the beam that covers it (no segment is covered in
       both directions), label beams of numbered fireflies by the turns still to come and the others by
       "unknown", ignore the segment leaving a point of the cycle and rank every point by its distance to it.
   Hypothesis: the board carries at least one firefly.  On boards without firefly the program admits every single
   closed loop besides the empty drawing (and nothing on the 1 x 1 board), while by the rules only the empty
   drawing is a solution - a deviation of the module on a degenerate class, reported with the check; the theorem does not hold
   there and is not claimed. *)
From Coq Require Import ZArith List Bool Arith Lia.
From Cspuz Require Import Lib.PyErr Core.Expr Core.Program Graph.GraphModel
     Puzzle.PuzzleBase Puzzle.SatAbs Puzzle.ModelBase Puzzle.ModelLemmas
     Puzzle.Rules_firefly Puzzle.Firefly Puzzle.FireflyFun Puzzle.FireflyGeo Puzzle.FireflySem Puzzle.FireflyNet
     Puzzle.FireflySound Puzzle.FireflyWalk Puzzle.FireflyBeams.
Import ListNotations.
Local Open Scope nat_scope.

(* some lattice point carries a firefly *)
Definition firefly_present (h w : nat) (dir : list Z) : bool :=
  existsb (fun '(y, x) => ff_is dir w y x) (cells h w).

Lemma firefly_present_spec h w dir :
  firefly_present (S h) (S w) dir = true <-> exists p, gvalid h w p /\ ff_is dir (S w) (fst p) (snd p) = true.
Proof.
  unfold firefly_present. rewrite existsb_exists. split.
  - intros [[y x] [Hc Hf]]. apply cells_in in Hc. exists (y, x). split; [split; cbn [fst snd]; lia|exact Hf].
  - intros [[y x] [[Hy Hx] Hf]]. cbn [fst snd] in *. exists (y, x). split; [apply cells_in; lia|exact Hf].
Qed.

Theorem firefly_complete h w dir num ans :
  (exists p, gvalid h w p /\ ff_is dir (S w) (fst p) (snd p) = true) ->
  rules_firefly [[Z.of_nat (S h); Z.of_nat (S w)]; dir; num] ans = true ->
  exists en, model_of no_graph en (firefly_state (S h) (S w) dir num) /\
             reads (firefly_state (S h) (S w) dir num) en (seq 0 (ff_E (S h) (S w))) = ans.
Proof.
  intros [F0 [HF0 Hfly0]]. unfold rules_firefly.
  change (sec [[Z.of_nat (S h); Z.of_nat (S w)]; dir; num] 1) with dir.
  change (sec [[Z.of_nat (S h); Z.of_nat (S w)]; dir; num] 2) with num.
  destruct (ff_dims (S h) (S w) [dir; num]) as [-> ->].
  cbv zeta. change (fun k => isb (getz ans k)) with (onA ans).
  rewrite !andb_true_iff. intros [[[[[Hlen H01] R2] R3] R4] R5]. apply Nat.eqb_eq in Hlen.
  pose proof (cL_F0 h w dir ans F0 HF0 Hfly0) as LF0.
  destruct (ff_periodic_point pt (cnxt h w dir ans) (cL h w dir ans) (cL_closed h w dir num ans R3)
              (gidx w) (S h * S w) (cL_idx_lt h w dir ans) (cL_idx_inj h w dir ans) F0 LF0) as [i [per [Hper [_ Hc]]]].
  set (c := ff_iter pt (cnxt h w dir ans) i F0) in *.
  assert (Lc : cL h w dir ans c) by (apply ff_iter_L; [apply (cL_closed h w dir num ans R3)|exact LF0]).
  exists (cen h w dir num ans c). split.
  - apply (cen_model h w dir num ans R3 R4 R5 c per Lc Hper Hc).
  - apply (cen_reads h w dir num ans c per Hper Hlen H01).
Qed.

Theorem firefly_exact h w dir num st ans :
  firefly_present h w dir = true ->
  solve_firefly_model [[Z.of_nat h; Z.of_nat w]; dir; num] = Ok st ->
  ((exists en, model_of no_graph en st /\ reads st en (seq 0 (h * (w - 1) + (h - 1) * w)) = ans)
   <-> rules_firefly [[Z.of_nat h; Z.of_nat w]; dir; num] ans = true).
Proof.
  intros Hpres. unfold solve_firefly_model.
  change (sec [[Z.of_nat h; Z.of_nat w]; dir; num] 1) with dir.
  change (sec [[Z.of_nat h; Z.of_nat w]; dir; num] 2) with num.
  change (sec [[Z.of_nat h; Z.of_nat w]; dir; num] 0) with [Z.of_nat h; Z.of_nat w].
  change (getz [Z.of_nat h; Z.of_nat w] 0) with (Z.of_nat h).
  change (getz [Z.of_nat h; Z.of_nat w] 1) with (Z.of_nat w).
  destruct (ff_dims h w [dir; num]) as [-> ->].
  destruct ((Z.of_nat h <=? 0) || (Z.of_nat w <=? 0))%Z eqn:Hd; [discriminate|].
  apply orb_false_iff in Hd. destruct Hd as [Hh Hw]. apply Z.leb_gt in Hh, Hw.
  destruct h as [|h]; [lia|]. destruct w as [|w]; [lia|].
  destruct (Nat.ltb (length dir) (S h * S w) || Nat.ltb (length num) (S h * S w)); [discriminate|].
  intros Hst. inversion Hst; subst st. clear Hst.
  apply firefly_present_spec in Hpres.
  change (S h * (S w - 1) + (S h - 1) * S w) with (ff_E (S h) (S w)).
  split.
  - intros [en [Hm Hr]]. rewrite <- Hr.
    replace (reads (firefly_state (S h) (S w) dir num) en (seq 0 (ff_E (S h) (S w))))
      with (map (fun i => b2z (eb en i)) (seq 0 (ff_E (S h) (S w)))); [apply firefly_sound; assumption|].
    unfold reads. apply map_ext_in. intros i Hi. apply in_seq in Hi. unfold read_var, firefly_state. cbn [vars].
    rewrite nth_error_app1 by (rewrite repeat_length; lia).
    rewrite (nth_error_nth' _ DBool) by (rewrite repeat_length; lia). rewrite nth_repeat. reflexivity.
  - intros Hr. apply firefly_complete; assumption.
Qed.

(* the model accepts every board with height, width >= 1 and enough clue entries *)
Lemma firefly_model_total h w dir num :
  1 <= h -> 1 <= w -> h * w <= length dir -> h * w <= length num ->
  exists st, solve_firefly_model [[Z.of_nat h; Z.of_nat w]; dir; num] = Ok st.
Proof.
  intros Hh Hw Hd Hn. unfold solve_firefly_model.
  change (sec [[Z.of_nat h; Z.of_nat w]; dir; num] 1) with dir.
  change (sec [[Z.of_nat h; Z.of_nat w]; dir; num] 2) with num.
  change (sec [[Z.of_nat h; Z.of_nat w]; dir; num] 0) with [Z.of_nat h; Z.of_nat w].
  change (getz [Z.of_nat h; Z.of_nat w] 0) with (Z.of_nat h).
  change (getz [Z.of_nat h; Z.of_nat w] 1) with (Z.of_nat w).
  destruct (ff_dims h w [dir; num]) as [-> ->].
  replace ((Z.of_nat h <=? 0) || (Z.of_nat w <=? 0))%Z with false
    by (symmetry; apply orb_false_iff; split; apply Z.leb_gt; lia).
  replace (Nat.ltb (length dir) (h * w)) with false by (symmetry; apply Nat.ltb_ge; exact Hd).
  replace (Nat.ltb (length num) (h * w)) with false by (symmetry; apply Nat.ltb_ge; exact Hn).
  eexists. reflexivity.
Qed.

(* the hypotheses of firefly_exact are satisfiable: 2 x 2 points, one firefly in the corner with its dot to the
   right and the number 3 *)
Example firefly_model_ok :
  firefly_present 2 2 [4; 0; 0; 0]%Z = true /\
  exists st, solve_firefly_model [[2; 2]; [4; 0; 0; 0]; [3; 0; 0; 0]]%Z = Ok st.
Proof.
  split; [reflexivity|]. apply (firefly_model_total 2 2 [4; 0; 0; 0]%Z [3; 0; 0; 0]%Z); simpl; lia.
Qed.

(* 2 x 2 points, segments in the order top, bottom, left, right.  One firefly in the top left corner, dot to the
   right: its beam runs round the square and returns to it after 3 turns - the unique answer for the numbers 3 and
   '?', none for 2, and the top segment alone is a dead end; two fireflies facing each other would join dot to dot;
   a second firefly in the top right corner with its dot downwards ends the first beam (0 turns) and sends its own
   round the other three sides (2 turns); without firefly only the empty drawing obeys the rules (the square does not) *)
Example firefly_rules_small :
  rules_firefly [[2; 2]; [4; 0; 0; 0]; [3; 0; 0; 0]]%Z [1; 1; 1; 1]%Z = true /\
  rules_firefly [[2; 2]; [4; 0; 0; 0]; [-1; 0; 0; 0]]%Z [1; 1; 1; 1]%Z = true /\
  rules_firefly [[2; 2]; [4; 0; 0; 0]; [2; 0; 0; 0]]%Z [1; 1; 1; 1]%Z = false /\
  rules_firefly [[2; 2]; [4; 0; 0; 0]; [3; 0; 0; 0]]%Z [1; 0; 0; 0]%Z = false /\
  rules_firefly [[2; 2]; [4; 3; 0; 0]; [0; 0; 0; 0]]%Z [1; 0; 0; 0]%Z = false /\
  rules_firefly [[2; 2]; [4; 2; 0; 0]; [0; 2; 0; 0]]%Z [1; 1; 1; 1]%Z = true /\
  rules_firefly [[2; 2]; [0; 0; 0; 0]; [0; 0; 0; 0]]%Z [0; 0; 0; 0]%Z = true /\
  rules_firefly [[2; 2]; [0; 0; 0; 0]; [0; 0; 0; 0]]%Z [1; 1; 1; 1]%Z = false.
Proof. vm_compute. repeat split. Qed.

(* exactly the boards on which the Python does not raise *)
Theorem firefly_model_defined h w dir num :
  (exists st, solve_firefly_model [[Z.of_nat h; Z.of_nat w]; dir; num] = Ok st) <->
  (1 <= h /\ 1 <= w /\ h * w <= length dir /\ h * w <= length num).
Proof.
  split.
  - intros [st Hst]. unfold solve_firefly_model in Hst.
    change (sec [[Z.of_nat h; Z.of_nat w]; dir; num] 1) with dir in Hst.
    change (sec [[Z.of_nat h; Z.of_nat w]; dir; num] 2) with num in Hst.
    change (sec [[Z.of_nat h; Z.of_nat w]; dir; num] 0) with [Z.of_nat h; Z.of_nat w] in Hst.
    change (getz [Z.of_nat h; Z.of_nat w] 0) with (Z.of_nat h) in Hst.
    change (getz [Z.of_nat h; Z.of_nat w] 1) with (Z.of_nat w) in Hst.
    destruct (ff_dims h w [dir; num]) as [E0 E1]. rewrite E0, E1 in Hst.
    destruct ((Z.of_nat h <=? 0) || (Z.of_nat w <=? 0))%Z eqn:Hd; [discriminate|].
    apply orb_false_iff in Hd. destruct Hd as [Hh Hw]. apply Z.leb_gt in Hh, Hw.
    destruct (Nat.ltb (length dir) (h * w)) eqn:L1; [discriminate|].
    destruct (Nat.ltb (length num) (h * w)) eqn:L2; [discriminate|].
    apply Nat.ltb_ge in L1, L2. lia.
  - intros [Hh [Hw [Hd Hn]]]. apply firefly_model_total; assumption.
Qed.

(* why firefly_exact needs firefly_present: 2 x 2 points without firefly.  The program of solve_firefly has a model that
   draws the square (oriented clockwise, the top segment ignored, every turn counter "unknown"), although by the rules
   only the empty drawing is a solution of a board without firefly *)
Example firefly_no_firefly_deviation :
  let pb := [[2; 2]; [0; 0; 0; 0]; [0; 0; 0; 0]]%Z in
  let en := {| eb := fun i => match i with 0 | 1 | 2 | 3 | 5 | 6 | 8 | 11 | 12 => true | _ => false end;
               ei := fun i => match i with 17 => 3%Z | 19 => 2%Z | 18 => 1%Z | 20 | 21 | 22 | 23 => 1%Z | _ => 0%Z end |} in
  exists st, solve_firefly_model pb = Ok st /\
             in_bounds en st = true /\ satisfies no_graph en st = true /\
             reads st en (seq 0 4) = [1; 1; 1; 1]%Z /\
             rules_firefly pb [1; 1; 1; 1]%Z = false /\ rules_firefly pb [0; 0; 0; 0]%Z = true.
Proof. cbv zeta. eexists. split; [reflexivity|]. vm_compute. repeat split. Qed.
