"""C11 plug-in: gokigen (solve_gokigen(height, width, problem)); problem is (h+1) x (w+1), -1 = no clue."""
import c11lib as L

NAME = "gokigen"
MODULE = "cspuz.puzzle.gokigen"
FUNC = "solve_gokigen"
VALUES = [-1, 0, 1, 2, 3, 4]
TIER1 = ("Gokigen", "solve_gokigen_model")


def call(mod, pb):
    return mod.solve_gokigen(pb["h"], pb["w"], pb["grid"])


def ncand(pb):
    return 2 ** (pb['h'] * pb['w'])


def encode(pb):
    return [[pb["h"], pb["w"]], L.flat(pb["grid"])]


def families(tier, rng):
    th = tier == "thorough"
    for g in L.all_grids(2, 2, VALUES):
        yield {"h": 1, "w": 1, "grid": g}
    for (h, w) in [(1, 2), (2, 1)]:
        gs = L.all_grids(h + 1, w + 1, VALUES)
        for g in (gs if th else L.sample(rng, gs, 150)):
            yield {"h": h, "w": w, "grid": g}
    for (h, w) in [(2, 2), (1, 3), (3, 1), (2, 3), (3, 2), (3, 3), (2, 4), (4, 3)]:
        for _ in range(300 if th else 30):
            yield {"h": h, "w": w, "grid": L.random_grid(rng, h + 1, w + 1, VALUES, 0.7)}


def tier2(tier, rng):
    th = tier == "thorough"
    for g in L.sample(rng, L.all_grids(2, 2, VALUES), 60 if th else 8):
        yield {"h": 1, "w": 1, "grid": g}
    for (h, w) in [(1, 2), (2, 1)]:
        for _ in range(10 if th else 2):
            yield {"h": h, "w": w, "grid": L.random_grid(rng, h + 1, w + 1, VALUES, 0.7)}


def tier1_problems(tier, rng):
    """program-capture tie: every clue layout of the tiniest boards (values -1..5, i.e. at and beyond the largest
    possible count), samples of all layouts of boards with <= 6 cells in both orientations, random larger and
    non-square boards up to 7x7 / 1xN / Nx1 with clue values from -3 to 6 (other negatives than -1 also mean
    "no clue"), boards without cells, and malformed clue grids (missing trailing rows / entries: IndexError)"""
    th = tier == "thorough"
    vals = [-1, 0, 1, 2, 3, 4, 5]
    for g in L.all_grids(2, 2, vals):
        yield {"h": 1, "w": 1, "grid": g}
    for (h, w) in [(1, 2), (2, 1), (1, 3), (3, 1), (2, 2), (1, 4), (4, 1), (1, 5), (5, 1), (2, 3), (3, 2), (1, 6), (6, 1)]:
        for _ in range(120 if th else 25):
            yield {"h": h, "w": w, "grid": [[rng.choice(vals) for _ in range(w + 1)] for _ in range(h + 1)]}
    wide = [-3, -2, -1, 0, 1, 2, 3, 4, 5, 6]
    for (h, w) in [(3, 3), (2, 5), (5, 2), (4, 4), (3, 6), (6, 5), (1, 7), (7, 1), (7, 7), (4, 7), (7, 3), (5, 5)]:
        for p in [0.2, 0.5, 0.8] * (3 if th else 1):
            yield {"h": h, "w": w, "grid": L.random_grid(rng, h + 1, w + 1, VALUES, p)}
        yield {"h": h, "w": w, "grid": [[rng.choice(wide) for _ in range(w + 1)] for _ in range(h + 1)]}
    for (h, w) in [(0, 0), (0, 1), (1, 0), (0, 3), (3, 0)]:
        for _ in range(3):
            yield {"h": h, "w": w, "grid": [[rng.choice(vals) for _ in range(w + 1)] for _ in range(h + 1)]}
    # malformed: the clue grid lacks its last row(s) or the last entries of its last row
    for (h, w) in [(1, 1), (2, 3), (3, 2), (0, 2), (4, 4)]:
        full = [[rng.choice(VALUES) for _ in range(w + 1)] for _ in range(h + 1)]
        yield {"h": h, "w": w, "grid": full[:-1]}
        yield {"h": h, "w": w, "grid": full[:-1] + [full[-1][:-1]]}
        yield {"h": h, "w": w, "grid": []}
