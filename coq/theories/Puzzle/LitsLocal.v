(* C11 Tier 1 - lits: the local part.  The predicate [lits_sem] the posted constraints evaluate to (LitsSem.v) can be
   satisfied by some values of the auxiliary variables num_straight / has_t (within their declared bounds) exactly when
   the black cells obey the local rules of Rules_lits.v (a tetromino in every room, no 2x2, no two equal tetrominoes
   touching). *)
From Coq Require Import ZArith List Bool Arith Lia.
From Cspuz Require Import Core.Expr Puzzle.PuzzleBase Puzzle.ModelBase Puzzle.ModelLemmas Puzzle.AkariLemmas
     Puzzle.Rules_norinori Puzzle.Norinori Puzzle.NurimisakiProofs Puzzle.HeyawakeProofs
     Puzzle.Rules_lits Puzzle.Lits Puzzle.LitsShapes Puzzle.LitsClassify Puzzle.LitsSem.
Import ListNotations.
Local Open Scope nat_scope.

(* ------------------------------------------------------------------ list facts *)
Lemma filter_filter2 {A} (f g : A -> bool) l : filter f (filter g l) = filter (fun x => g x && f x) l.
Proof. induction l as [|a r IH]; simpl; [reflexivity|]. destruct (g a); simpl; [destruct (f a)|]; rewrite IH; reflexivity. Qed.
Lemma forallb_filter_imp {A} (f g : A -> bool) l : forallb (fun x => negb (f x) || g x) l = forallb g (filter f l).
Proof. induction l as [|a r IH]; simpl; [reflexivity|]. destruct (f a); simpl; rewrite IH; reflexivity. Qed.
Lemma sumn_filter {A} (f : A -> bool) (g : A -> nat) l :
  sumn (map (fun x => if f x then g x else 0) l) = sumn (map g (filter f l)).
Proof. induction l as [|a r IH]; simpl; [reflexivity|]. destruct (f a); simpl; rewrite IH; reflexivity. Qed.
Lemma sumn_b2n {A} (g : A -> bool) l : sumn (map (fun x => b2n (g x)) l) = count g l.
Proof. unfold count. induction l as [|a r IH]; simpl; [reflexivity|]. destruct (g a); simpl; rewrite IH; reflexivity. Qed.
Lemma existsb_leb1 {A} (f : A -> bool) l : existsb f l = Nat.leb 1 (count f l).
Proof. rewrite existsb_count. destruct (count f l); reflexivity. Qed.
Lemma count_single {A} (f g : A -> bool) a : count f (filter g [a]) = b2n (g a && f a).
Proof. unfold count. simpl. destruct (g a); simpl; [destruct (f a)|]; reflexivity. Qed.

(* ------------------------------------------------------------------ one room *)
Section Bridge.
  Variables (h w : nat) (region : list Z) (lit : nat * nat -> bool) (i : nat).
  Let inb := in_block region w i.
  Let R := region_cells h w region i.
  Definition blackset : list (nat * nat) := filter (fun c => inb c && lit c) (cells h w).
  Let B := blackset.

  Lemma R_filter : R = filter inb (cells h w).
  Proof. unfold R, region_cells. apply filter_ext. intros [y x]. reflexivity. Qed.
  Lemma B_filter : B = filter lit R.
  Proof. rewrite R_filter, filter_filter2. reflexivity. Qed.
  Lemma R_in c : In c R -> fst c < h /\ snd c < w.
  Proof. rewrite R_filter. intros H. apply filter_In in H. destruct H as [H _]. destruct c. apply cells_in in H. exact H. Qed.
  Lemma B_in_R c : In c B -> In c R.
  Proof. rewrite B_filter. intros H. apply filter_In in H. apply H. Qed.
  Lemma has_B c : has B c = Nat.ltb (fst c) h && Nat.ltb (snd c) w && inb c && lit c.
  Proof.
    apply eq_true_iff_eq. rewrite has_In. unfold B, blackset. rewrite filter_In. destruct c as [y x].
    rewrite cells_in, !andb_true_iff, !Nat.ltb_lt. simpl. tauto.
  Qed.

  Section Cell.
    Variables (y x : nat).
    Hypotheses (Hy : y < h) (Hx : x < w).
    Lemma upN_B : upN B (y, x) = Nat.ltb 0 y && (inb (y - 1, x) && lit (y - 1, x)).
    Proof.
      unfold upN. cbn [fst snd]. rewrite has_B. cbn [fst snd].
      destruct (Nat.ltb_spec (y - 1) h); [|lia]. destruct (Nat.ltb_spec x w); [|lia]. reflexivity.
    Qed.
    Lemma downN_B : downN B (y, x) = Nat.ltb (S y) h && (inb (S y, x) && lit (S y, x)).
    Proof.
      change (downN B (y, x)) with (has B (S y, x)). rewrite has_B. cbn [fst snd].
      destruct (Nat.ltb_spec x w); [|lia]. rewrite andb_true_r, andb_assoc. reflexivity.
    Qed.
    Lemma leftN_B : leftN B (y, x) = Nat.ltb 0 x && (inb (y, x - 1) && lit (y, x - 1)).
    Proof.
      unfold leftN. cbn [fst snd]. rewrite has_B. cbn [fst snd].
      destruct (Nat.ltb_spec (x - 1) w); [|lia]. destruct (Nat.ltb_spec y h); [|lia]. reflexivity.
    Qed.
    Lemma rightN_B : rightN B (y, x) = Nat.ltb (S x) w && (inb (y, S x) && lit (y, S x)).
    Proof.
      change (rightN B (y, x)) with (has B (y, S x)). rewrite has_B. cbn [fst snd].
      destruct (Nat.ltb_spec y h); [|lia]. rewrite andb_assoc. reflexivity.
    Qed.

    Lemma nsb_count : count lit (lits_nsb h w region i (y, x)) = nbcount B (y, x).
    Proof.
      unfold lits_nsb, nbr4, nbcount. cbn [fst snd]. rewrite !filter_app, !count_app.
      rewrite upN_B, downN_B, leftN_B, rightN_B. fold inb.
      destruct (Nat.ltb 0 y), (Nat.ltb (S y) h), (Nat.ltb 0 x), (Nat.ltb (S x) w); cbn [andb];
        rewrite ?count_single; cbn [filter count length b2n]; lia.
    Qed.
    Lemma dr_count :
      count (fun c' => lit (y, x) && lit c') (filter inb (lits_dr h w (y, x))) =
      if lit (y, x) then b2n (downN B (y, x)) + b2n (rightN B (y, x)) else 0.
    Proof.
      unfold lits_dr. cbn [fst snd]. rewrite filter_app, count_app, downN_B, rightN_B.
      destruct (Nat.ltb (S y) h), (Nat.ltb (S x) w); cbn [andb]; rewrite ?count_single;
        destruct (lit (y, x)); cbn [andb filter count length b2n]; rewrite ?andb_false_r; cbn [b2n]; lia.
    Qed.
    Lemma straight_B : straight_sem h w region lit i (y, x) = lit (y, x) && straightN B (y, x).
    Proof.
      unfold straight_sem, straightN. rewrite upN_B, downN_B, leftN_B, rightN_B. fold inb.
      destruct (Nat.ltb 0 y), (Nat.ltb (S y) h), (Nat.ltb 0 x), (Nat.ltb (S x) w); cbn [andb orb];
        rewrite ?andb_false_r; cbn [orb];
        destruct (lit (y, x)); cbn [andb orb]; rewrite ?andb_false_r; cbn [andb orb]; try reflexivity;
        destruct (inb (y - 1, x)), (inb (S y, x)), (inb (y, x - 1)), (inb (y, S x)); cbn [andb orb];
        rewrite ?andb_false_r, ?andb_true_r; try reflexivity.
    Qed.
  End Cell.

  Definition blk_abs (nsv : nat -> Z) (htv : nat -> bool) : bool :=
    Nat.eqb (length B) 4 && cond_b B && Nat.eqb (pairs_n B) 3 && (nsv i =? Z.of_nat (straight_n B))%Z &&
    Bool.eqb (htv i) (existsb (t_at B) R).

  Lemma blk_sem_abs nsv htv : blk_sem h w region lit nsv htv i = blk_abs nsv htv.
  Proof.
    unfold blk_sem, blk_abs. fold R. fold inb.
    assert (P1 : count lit R = length B) by (rewrite B_filter; reflexivity).
    assert (P2 : forallb (fun c => negb (lit c) || existsb lit (lits_nsb h w region i c)) R = cond_b B).
    { rewrite forallb_filter_imp. unfold cond_b. rewrite B_filter. apply forallb_ext_in. intros [y x] Hc.
      apply filter_In in Hc. destruct Hc as [Hc _]. apply R_in in Hc. destruct Hc as [Hy Hx].
      rewrite existsb_leb1, (nsb_count y x Hy Hx), <- B_filter. reflexivity. }
    assert (P3 : sumn (map (fun c => count (fun c' => lit c && lit c') (filter inb (lits_dr h w c))) R) = pairs_n B).
    { rewrite (sumn_ext_in _ (fun c => if lit c then b2n (downN B c) + b2n (rightN B c) else 0) R).
      - rewrite sumn_filter, <- B_filter. reflexivity.
      - intros [y x] Hc. apply R_in in Hc. destruct Hc as [Hy Hx]. apply (dr_count y x Hy Hx). }
    assert (P4 : sumn (map (fun c => b2n (straight_sem h w region lit i c)) R) = straight_n B).
    { rewrite (sumn_ext_in _ (fun c => if lit c then b2n (straightN B c) else 0) R).
      - rewrite sumn_filter, sumn_b2n, <- B_filter. reflexivity.
      - intros [y x] Hc. apply R_in in Hc. destruct Hc as [Hy Hx]. rewrite (straight_B y x Hy Hx).
        destruct (lit (y, x)); reflexivity. }
    assert (P5 : existsb (fun c => Nat.leb 3 (count lit (lits_nsb h w region i c))) R = existsb (t_at B) R).
    { apply existsb_ext_in. intros [y x] Hc. apply R_in in Hc. destruct Hc as [Hy Hx].
      rewrite (nsb_count y x Hy Hx). reflexivity. }
    rewrite P1, P2, P3, P4, P5. reflexivity.
  Qed.

  Lemma B_sorted : sorted_rm B.
  Proof. apply sorted_filter. apply sorted_cells. Qed.

  (* the room holds a translated tetromino that is not the square: the constraints of the room say that
     num_straight / has_t carry the kind of its shape *)
  Lemma blk_abs_of_tet a b ts nsv htv :
    In ts tetrominoes -> snd ts <> 4 -> B = map (shift a b) (fst ts) ->
    snd ts <= 3 /\
    (blk_abs nsv htv = true <-> nsv i = Z.of_nat (ns_of (snd ts)) /\ htv i = ht_of (snd ts)).
  Proof.
    intros Hin Hs HB. destruct (tet_facts a b ts Hin Hs) as [F1 [F2 [F3 [F4 [F5 [F6 F7]]]]]].
    rewrite <- HB in F1, F2, F3, F4, F6, F7. split; [exact F5|].
    assert (HT : existsb (t_at B) R = ht_of (snd ts)).
    { destruct (ht_of (snd ts)) eqn:E.
      - destruct (F7 eq_refl) as [c [Hc Tc]]. apply existsb_exists. exists c. split; [apply B_in_R; exact Hc|exact Tc].
      - destruct (existsb (t_at B) R) eqn:X; [|reflexivity]. apply existsb_exists in X. destruct X as [c [_ Tc]].
        apply F6 in Tc. discriminate. }
    unfold blk_abs. rewrite F1, F2, F3, F4, HT. cbn [Nat.eqb andb]. rewrite andb_true_iff, Z.eqb_eq.
    split; intros [H1 H2]; (split; [exact H1|]).
    - apply eqb_prop. exact H2.
    - rewrite H2. apply eqb_reflx.
  Qed.

  (* the constraints of the room force a translated tetromino *)
  Lemma blk_abs_classify nsv htv : blk_abs nsv htv = true ->
    exists a b ts, In ts tetrominoes /\ snd ts <> 4 /\ B = map (shift a b) (fst ts).
  Proof.
    unfold blk_abs. intros H.
    apply andb_true_iff in H. destruct H as [H _]. apply andb_true_iff in H. destruct H as [H _].
    apply andb_true_iff in H. destruct H as [H H3]. apply andb_true_iff in H. destruct H as [H1 H2].
    apply Nat.eqb_eq in H1. apply Nat.eqb_eq in H3. pose proof B_sorted as S.
    destruct B as [|p1 [|p2 [|p3 [|p4 [|p5 r]]]]]; try discriminate H1.
    cbn [sorted_rm] in S. destruct S as [S1 [S2 [S3 _]]].
    apply classify; try exact H2; try exact H3.
    - apply S1. simpl. auto.
    - apply S1. simpl. auto.
    - apply S1. simpl. auto.
    - apply S2. simpl. auto.
    - apply S2. simpl. auto.
    - apply S3. simpl. auto.
  Qed.
End Bridge.

(* ------------------------------------------------------------------ the four kinds are told apart *)
Lemma kinds_differ a b : a <= 3 -> b <= 3 ->
  (negb (Z.of_nat (ns_of a) =? Z.of_nat (ns_of b))%Z || xorb (ht_of a) (ht_of b)) = negb (Nat.eqb a b).
Proof.
  intros Ha Hb.
  destruct a as [|[|[|[|a]]]]; try lia; destruct b as [|[|[|[|b]]]]; try lia; reflexivity.
Qed.
Lemma adj_step (a c m : bool) : a = true -> c = true -> negb (a && c) || m = true -> m = true.
Proof. intros -> ->. exact (fun H => H). Qed.
Lemma ns_of_le s : ns_of s <= 2.
Proof. destruct s as [|[|[|s]]]; simpl; lia. Qed.

(* ------------------------------------------------------------------ the local rules *)
Section Local.
  Variables (h w : nat) (region : list Z) (k : nat) (lit : nat * nat -> bool).

  Definition shapeR (i : nat) : option nat :=
    shape_of (filter (fun '(y, x) => (at2 region w y x =? Z.of_nat i)%Z && lit (y, x)) (cells h w)).
  Definition rules_local : bool :=
    forallb (fun i => match shapeR i with Some _ => true | None => false end) (seq 0 k) &&
    negb (has_2x2 h w (fun y x => lit (y, x))) &&
    forallb (fun '(y, x) => forallb (fun '(y', x') =>
       negb (lit (y, x) && lit (y', x') && negb (at2 region w y x =? at2 region w y' x')%Z) ||
       match shapeR (zn (at2 region w y x)), shapeR (zn (at2 region w y' x')) with
       | Some a, Some b => negb (Nat.eqb a b)
       | _, _ => false
       end) (nbr4 h w y x)) (cells h w).

  Lemma shapeR_B i : shapeR i = shape_of (blackset h w region lit i).
  Proof. unfold shapeR, blackset. f_equal. apply filter_ext. intros [y x]. reflexivity. Qed.

  Lemma no2_forms :
    forallb (no2_sem lit) (cells (h - 1) (w - 1)) = negb (has_2x2 h w (fun y x => lit (y, x))).
  Proof.
    unfold has_2x2. rewrite negb_existsb. apply forallb_ext_in. intros [y x] _. unfold no2_sem.
    destruct (lit (y, x)), (lit (S y, x)), (lit (y, S x)), (lit (S y, S x)); reflexivity.
  Qed.

  Lemma forallb_adj (G : nat -> nat -> nat -> nat -> bool) :
    forallb (fun '(y, x) => forallb (fun '(y', x') => G y x y' x') (nbr4 h w y x)) (cells h w) = true <->
    (forall y x y' x', y < h -> x < w -> In (y', x') (nbr4 h w y x) -> G y x y' x' = true).
  Proof.
    rewrite forallb_forall. split.
    - intros H y x y' x' Hy Hx Hn. specialize (H (y, x) (proj2 (cells_in h w y x) (conj Hy Hx))).
      cbn beta iota in H. rewrite forallb_forall in H. apply (H (y', x') Hn).
    - intros H [y x] Hc. apply cells_in in Hc. apply forallb_forall. intros [y' x'] Hn. apply H; tauto.
  Qed.

  Hypothesis Hreg : forall y x, y < h -> x < w -> (0 <= at2 region w y x)%Z /\ zn (at2 region w y x) < k.

  (* a room whose black cells form the square contradicts the 2x2 rule *)
  Lemma square_2x2 i a b ts :
    In ts tetrominoes -> snd ts = 4 -> blackset h w region lit i = map (shift a b) (fst ts) ->
    has_2x2 h w (fun y x => lit (y, x)) = true.
  Proof.
    intros Hin Hs HB. destruct (tet_square a b ts Hin Hs) as [I1 [I2 [I3 I4]]]. rewrite <- HB in I1, I2, I3, I4.
    assert (F : forall c, In c (blackset h w region lit i) -> fst c < h /\ snd c < w /\ lit c = true).
    { intros c Hc. apply has_In in Hc. rewrite has_B in Hc.
      apply andb_true_iff in Hc. destruct Hc as [Hc L]. apply andb_true_iff in Hc. destruct Hc as [Hc _].
      apply andb_true_iff in Hc. destruct Hc as [Hy Hx]. apply Nat.ltb_lt in Hy. apply Nat.ltb_lt in Hx. auto. }
    apply F in I1. apply F in I2. apply F in I3. apply F in I4. cbn [fst snd] in *.
    unfold has_2x2. apply existsb_exists. exists (a, b). split; [apply cells_in; lia|].
    destruct I1 as [_ [_ ->]], I2 as [_ [_ ->]], I3 as [_ [_ ->]], I4 as [_ [_ ->]]. reflexivity.
  Qed.

  (* what the rules say about one room *)
  Lemma room_of_shape i s nsv htv :
    has_2x2 h w (fun y x => lit (y, x)) = false -> shapeR i = Some s ->
    s <= 3 /\ (blk_abs h w region lit i nsv htv = true <-> nsv i = Z.of_nat (ns_of s) /\ htv i = ht_of s).
  Proof.
    intros H2 Hs. rewrite shapeR_B in Hs. destruct (shape_of_inv _ _ Hs) as [a [b [ts [Hin [E HB]]]]].
    assert (N4 : snd ts <> 4).
    { intros E4. rewrite (square_2x2 i a b ts Hin E4 HB) in H2. discriminate. }
    subst s. apply (blk_abs_of_tet h w region lit i a b ts nsv htv Hin N4 HB).
  Qed.
  (* what the constraints say about one room *)
  Lemma shape_of_room i nsv htv :
    blk_abs h w region lit i nsv htv = true ->
    exists s, shapeR i = Some s /\ s <= 3 /\ nsv i = Z.of_nat (ns_of s) /\ htv i = ht_of s.
  Proof.
    intros H. destruct (blk_abs_classify h w region lit i nsv htv H) as [a [b [ts [Hin [N4 HB]]]]].
    destruct (blk_abs_of_tet h w region lit i a b ts nsv htv Hin N4 HB) as [L3 Hk].
    exists (snd ts). split; [|split; [exact L3|apply Hk; exact H]].
    rewrite shapeR_B, HB. apply shape_of_tet. exact Hin.
  Qed.

  Theorem lits_local :
    (exists nsv htv, (forall i, i < k -> (0 <= nsv i <= 2)%Z) /\ lits_sem h w region k lit nsv htv = true)
    <-> rules_local = true.
  Proof.
    unfold lits_sem, rules_local. rewrite no2_forms. split.
    - (* the constraints imply the rules *)
      intros [nsv [htv [_ H]]].
      apply andb_true_iff in H. destruct H as [H HB]. apply andb_true_iff in H. destruct H as [H2 HK].
      rewrite forallb_forall in HK.
      assert (Kind : forall i, i < k -> exists s, shapeR i = Some s /\ s <= 3 /\ nsv i = Z.of_nat (ns_of s) /\ htv i = ht_of s).
      { intros i Hi. apply (shape_of_room i nsv htv). rewrite <- blk_sem_abs. apply HK. apply in_seq. lia. }
      rewrite H2, andb_true_r. apply andb_true_iff. split.
      + apply forallb_forall. intros i Hi. apply in_seq in Hi. destruct (Kind i ltac:(lia)) as [s [-> _]]. reflexivity.
      + rewrite forallb_forall in HB.
        assert (Pair : forall y x y' x', y < h -> x < w -> y' < h -> x' < w ->
                  differ_sem nsv htv (zn (at2 region w y x)) (zn (at2 region w y' x')) = true ->
                  match shapeR (zn (at2 region w y x)), shapeR (zn (at2 region w y' x')) with
                  | Some a, Some b => negb (Nat.eqb a b)
                  | _, _ => false
                  end = true).
        { intros y x y' x' Hy Hx Hy' Hx' D.
          destruct (Kind _ (proj2 (Hreg y x Hy Hx))) as [s [-> [Ls [Ns Ts]]]].
          destruct (Kind _ (proj2 (Hreg y' x' Hy' Hx'))) as [s' [-> [Ls' [Ns' Ts']]]].
          unfold differ_sem in D. rewrite Ns, Ns', Ts, Ts', (kinds_differ s s' Ls Ls') in D. exact D. }
        assert (Dsym : forall i j, differ_sem nsv htv i j = differ_sem nsv htv j i).
        { intros i j. unfold differ_sem. rewrite (Z.eqb_sym (nsv i)), (xorb_comm (htv i)). reflexivity. }
        apply forallb_forall. intros [y x] Hc. apply cells_in in Hc. destruct Hc as [Hy Hx].
        apply forallb_forall. intros [y' x'] Hn. pose proof (nbr4_in h w y x y' x' Hy Hx Hn) as [Hy' Hx'].
        destruct (lit (y, x) && lit (y', x') && negb (at2 region w y x =? at2 region w y' x')%Z) eqn:G; [|reflexivity].
        cbn [negb orb]. apply andb_true_iff in G. destruct G as [G Gr]. apply andb_true_iff in G. destruct G as [G1 G2].
        apply (Pair y x y' x' Hy Hx Hy' Hx').
        apply nbr4_cases in Hn. destruct Hn as [[H0 [-> ->]]|[[H0 [-> ->]]|[[H0 [-> ->]]|[H0 [-> ->]]]]].
        * specialize (HB (y - 1, x) ltac:(apply cells_in; lia)). unfold border_sem in HB.
          apply andb_true_iff in HB. destruct HB as [HB _]. replace (S (y - 1)) with y in HB by lia.
          destruct (Nat.ltb_spec y h); [|lia]. rewrite (Z.eqb_sym (at2 region w (y - 1) x)), Gr, G1, G2 in HB.
          cbn [andb negb orb implb] in HB. rewrite Dsym. exact HB.
        * specialize (HB (y, x) ltac:(apply cells_in; lia)). unfold border_sem in HB.
          apply andb_true_iff in HB. destruct HB as [HB _].
          destruct (Nat.ltb_spec (S y) h); [|lia]. rewrite Gr, G1, G2 in HB. cbn [andb negb orb implb] in HB. exact HB.
        * specialize (HB (y, x - 1) ltac:(apply cells_in; lia)). unfold border_sem in HB.
          apply andb_true_iff in HB. destruct HB as [_ HB]. replace (S (x - 1)) with x in HB by lia.
          destruct (Nat.ltb_spec x w); [|lia]. rewrite (Z.eqb_sym (at2 region w y (x - 1))), Gr, G1, G2 in HB.
          cbn [andb negb orb implb] in HB. rewrite Dsym. exact HB.
        * specialize (HB (y, x) ltac:(apply cells_in; lia)). unfold border_sem in HB.
          apply andb_true_iff in HB. destruct HB as [_ HB].
          destruct (Nat.ltb_spec (S x) w); [|lia]. rewrite Gr, G1, G2 in HB. cbn [andb negb orb implb] in HB. exact HB.
    - (* the rules imply the constraints, for the kinds of the shapes *)
      intros H.
      apply andb_true_iff in H. destruct H as [H HA]. apply andb_true_iff in H. destruct H as [HS H2].
      rewrite forallb_forall in HS. apply negb_true_iff in H2.
      set (nsv := fun i => match shapeR i with Some s => Z.of_nat (ns_of s) | None => 0%Z end).
      set (htv := fun i => match shapeR i with Some s => ht_of s | None => false end).
      exists nsv, htv. split.
      { intros i _. unfold nsv. destruct (shapeR i) as [s|]; [|lia]. pose proof (ns_of_le s). lia. }
      rewrite H2. cbn [negb andb].
      assert (Kind : forall i, i < k -> exists s, shapeR i = Some s /\ s <= 3).
      { intros i Hi. specialize (HS i ltac:(apply in_seq; lia)). destruct (shapeR i) as [s|] eqn:E; [|discriminate].
        exists s. split; [reflexivity|]. apply (room_of_shape i s nsv htv H2 E). }
      apply andb_true_iff. split.
      + apply forallb_forall. intros i Hi. apply in_seq in Hi. rewrite blk_sem_abs.
        destruct (Kind i ltac:(lia)) as [s [E _]]. apply (room_of_shape i s nsv htv H2 E).
        unfold nsv, htv. rewrite E. split; reflexivity.
      + pose proof (proj1 (forallb_adj (fun y x y' x' =>
                 negb (lit (y, x) && lit (y', x') && negb (at2 region w y x =? at2 region w y' x')%Z) ||
                 match shapeR (zn (at2 region w y x)), shapeR (zn (at2 region w y' x')) with
                 | Some a, Some b => negb (Nat.eqb a b)
                 | _, _ => false
                 end)) HA) as HA'. clear HA.
        assert (Pair : forall y x y' x', y < h -> x < w -> In (y', x') (nbr4 h w y x) ->
                  negb (at2 region w y x =? at2 region w y' x')%Z = true ->
                  implb (lit (y, x) && lit (y', x'))
                        (differ_sem nsv htv (zn (at2 region w y x)) (zn (at2 region w y' x'))) = true).
        { intros y x y' x' Hy Hx Hn Gr. pose proof (nbr4_in h w y x y' x' Hy Hx Hn) as [Hy' Hx'].
          destruct (lit (y, x) && lit (y', x')) eqn:G; [|reflexivity]. cbn [implb].
          pose proof (adj_step _ _ _ G Gr (HA' y x y' x' Hy Hx Hn)) as HA.
          destruct (Kind _ (proj2 (Hreg y x Hy Hx))) as [s [E Ls]].
          destruct (Kind _ (proj2 (Hreg y' x' Hy' Hx'))) as [s' [E' Ls']].
          rewrite E, E' in HA. unfold differ_sem, nsv, htv. rewrite E, E'. rewrite (kinds_differ s s' Ls Ls'). exact HA. }
        apply forallb_forall. intros [y x] Hc. apply cells_in in Hc. destruct Hc as [Hy Hx].
        unfold border_sem. apply andb_true_iff. split.
        * destruct (Nat.ltb_spec (S y) h) as [L|L]; [|reflexivity]. cbn [andb].
          destruct (negb (at2 region w y x =? at2 region w (S y) x)%Z) eqn:Gr; [|reflexivity]. cbn [negb orb].
          apply (Pair y x (S y) x Hy Hx); [|exact Gr]. apply nbr4_cases. right. left. auto.
        * destruct (Nat.ltb_spec (S x) w) as [L|L]; [|reflexivity]. cbn [andb].
          destruct (negb (at2 region w y x =? at2 region w y (S x))%Z) eqn:Gr; [|reflexivity]. cbn [negb orb].
          apply (Pair y x y (S x) Hy Hx); [|exact Gr]. apply nbr4_cases. right. right. right. auto.
  Qed.
End Local.
