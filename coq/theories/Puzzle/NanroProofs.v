(* C11 Tier 1 - nanro: for every board shape, room layout and layout of given numbers, the program posted by solve_nanro
   (model Nanro.v: has_num <-> answer != 0 per cell, the connectivity helper of property C04 on has_num, the per-room
   counters `nonempty` declared after it, and the room / given-number / 2x2 / room-border constraints) has a model whose
   answer-key variables (the cell values, ids h*w .. 2*h*w-1) read as [ans] exactly when [ans] obeys Rules_nanro.
   has_num, the ranks / root flags and the counters are existential: from a rule-obeying grid has_num is set to "the cell
   carries a number", the counters to the number of numbered cells of each room, the ranks and root flag to the
   certificate of C04 (NanroCompose.avc_mid_*: the connectivity call sits in the middle of the program). *)
From Coq Require Import ZArith List Bool Arith Lia.
From Cspuz Require Import Lib.PyErr Core.Expr Core.Program Graph.GraphModel Graph.ReachProofs
     Graph.Avc Graph.AvcCert Graph.AvcSem Graph.AvcProofs Graph.AvcTotal
     Puzzle.PuzzleBase Puzzle.SatAbs Puzzle.ModelBase Puzzle.ModelLemmas Puzzle.CreekProofs Puzzle.HeyawakeLemmas
     Puzzle.ViewCompose Puzzle.Rules_norinori Puzzle.Norinori
     Puzzle.Rules_nanro Puzzle.Nanro Puzzle.NanroSem Puzzle.NanroCompose.
Import ListNotations.
Local Open Scope nat_scope.

(* ------------------------------------------------------------------ small list facts *)
Lemma nr_seq_as_map a n : seq a n = map (fun j => a + j) (seq 0 n).
Proof.
  revert a. induction n as [|n IH]; intros a; [reflexivity|].
  simpl. f_equal; [lia|]. rewrite (IH (S a)), <- seq_shift, map_map. apply map_ext. intros j. lia.
Qed.

Lemma nr_cells_cidx h w : map (cidx w) (cells h w) = seq 0 (h * w).
Proof.
  unfold cells. induction h as [|h IH]; [reflexivity|].
  rewrite seq_S, flat_map_app, map_app, IH. simpl flat_map. rewrite app_nil_r, map_map.
  replace (S h * w) with (h * w + w) by lia. rewrite seq_app. f_equal.
  rewrite (nr_seq_as_map (0 + h * w) w). apply map_ext. intros x. unfold cidx; simpl. lia.
Qed.

Lemma nr_cells_length h w : length (cells h w) = h * w.
Proof. rewrite <- (map_length (cidx w)), nr_cells_cidx. apply seq_length. Qed.

Lemma nr_count_le {A} (f : A -> bool) l : count f l <= length l.
Proof. unfold count. induction l as [|a r IH]; simpl; [lia|]. destruct (f a); simpl; lia. Qed.

Lemma nr_forallb_filter {A} (f g : A -> bool) l : forallb f (filter g l) = forallb (fun x => negb (g x) || f x) l.
Proof. induction l as [|a r IH]; simpl; [reflexivity|]. destruct (g a); simpl; rewrite IH; reflexivity. Qed.

Lemma nr_negb_existsb {A} (f : A -> bool) l : negb (existsb f l) = forallb (fun x => negb (f x)) l.
Proof. induction l as [|a r IH]; simpl; [reflexivity|]. rewrite negb_orb, IH. reflexivity. Qed.

Lemma nr_nbr4_cases h w y x y' x' :
  In (y', x') (nbr4 h w y x) <->
  ((0 < y /\ y' = y - 1 /\ x' = x) \/ (S y < h /\ y' = S y /\ x' = x) \/
   (0 < x /\ y' = y /\ x' = x - 1) \/ (S x < w /\ y' = y /\ x' = S x)).
Proof.
  unfold nbr4. rewrite !in_app_iff.
  destruct (Nat.ltb_spec 0 y), (Nat.ltb_spec (S y) h), (Nat.ltb_spec 0 x), (Nat.ltb_spec (S x) w); simpl;
    split; intros H'; repeat (destruct H' as [H'|H']); try (inversion H'; subst); try tauto; try lia;
    repeat match goal with H : _ /\ _ |- _ => destruct H end; subst; auto 10; try lia.
Qed.

(* declarations given by a list whose items carry consecutive ids *)
Lemma nr_in_bounds_idx {A} en (f : A -> nat) (lo hi : A -> Z) b : forall l s,
  map f l = seq s (length l) ->
  (in_bounds_from en (b + s) (map (fun c => DInt (lo c) (hi c)) l) = true <->
   forall c, In c l -> (lo c <= ei en (b + f c) <= hi c)%Z).
Proof.
  induction l as [|a r IH]; intros s Hm.
  - simpl. split; [intros _ c []|reflexivity].
  - simpl in Hm. injection Hm as Ha Hr. cbn [map in_bounds_from].
    rewrite !andb_true_iff, !Z.leb_le. replace (S (b + s)) with (b + S s) by lia. rewrite (IH (S s) Hr). subst s. split.
    + intros [[H1 H2] H3] c [<-|Hc]; [lia|apply H3; exact Hc].
    + intros H. split; [specialize (H a (or_introl eq_refl)); lia|]. intros c Hc. apply H. right. exact Hc.
Qed.

(* ------------------------------------------------------------------ the rules, piece by piece *)
Definition aval (ans : answer) (w : nat) : nat * nat -> Z := fun '(y, x) => at2 ans w y x.
Definition room_of (room : list Z) (w : nat) : nat * nat -> Z := fun '(y, x) => at2 room w y x.

Section Pieces.
  Variables (h w : nat) (room num : list Z) (val : nat * nat -> Z).

  Definition r_clue : bool :=
    forallb (fun '(y, x) => let c := at2 num w y x in (c <=? 0)%Z || (val (y, x) =? c)%Z) (cells h w).
  Definition r_cnt (i : nat) : Z :=
    zcount (fun c => (room_of room w c =? Z.of_nat i)%Z && nz val c) (cells h w).
  Definition r_rooms (k : nat) : bool :=
    forallb (fun i => (1 <=? r_cnt i)%Z &&
                      forallb (fun c => negb ((room_of room w c =? Z.of_nat i)%Z && nz val c) || (val c =? r_cnt i)%Z)
                              (cells h w)) (seq 0 k).
  Definition r_2x2 : bool := negb (has_2x2 h w (fun y x => nz val (y, x))).
  Definition bord (c c' : nat * nat) : bool :=
    negb (nz val c && nz val c' && negb (room_of room w c =? room_of room w c')%Z) || negb (val c =? val c')%Z.
  Definition r_border : bool :=
    forallb (fun '(y, x) => forallb (fun c' => bord (y, x) c') (nbr4 h w y x)) (cells h w).
End Pieces.

Lemma rules_nanro_split h w room num ans :
  rules_nanro [[Z.of_nat h; Z.of_nat w]; room; num] ans =
  Nat.eqb (length ans) (h * w) && forallb (fun z => (0 <=? z)%Z) ans &&
  r_clue h w num (aval ans w) && r_rooms h w room (aval ans w) (n_regions room) && r_2x2 h w (aval ans w) &&
  r_border h w room (aval ans w) && cells_connected h w (fun v => negb (getz ans v =? 0)%Z).
Proof. unfold rules_nanro. destruct (dims2c h w [room; num]) as [-> ->]. reflexivity. Qed.

(* ------------------------------------------------------------------ the rules = the semantic function of the posted
   constraints, with the counters set to the number of numbered cells of each room *)
Section Local.
  Variables (h w : nat) (room num : list Z) (k : nat) (val : nat * nat -> Z).
  Hypothesis Hreg : forall y x, y < h -> x < w -> (0 <= at2 room w y x)%Z /\ zn (at2 room w y x) < k.

  Notation R := (region_cells h w room).
  Notation size := (nanro_size h w room).

  Lemma in_region c i : In c (R i) <-> In c (cells h w) /\ room_of room w c = Z.of_nat i.
  Proof.
    unfold region_cells. rewrite filter_In. destruct c as [y x]. cbn [room_of]. rewrite Z.eqb_eq. tauto.
  Qed.

  Lemma cnt_region i : r_cnt h w room val i = zcount (nz val) (R i).
  Proof.
    unfold r_cnt, zcount, region_cells. rewrite count_filter. f_equal. apply count_ext_in. intros [y x] _. reflexivity.
  Qed.
  Lemma cnt_le i : (0 <= r_cnt h w room val i <= size i)%Z.
  Proof. rewrite cnt_region. unfold zcount, nanro_size. pose proof (nr_count_le (nz val) (R i)). lia. Qed.

  Lemma own_region y x : y < h -> x < w -> In (y, x) (R (nanro_rid room w (y, x))) /\ nanro_rid room w (y, x) < k.
  Proof.
    intros Hy Hx. destruct (Hreg y x Hy Hx) as [H0 Hk]. unfold nanro_rid. cbn [fst snd]. split; [|exact Hk].
    apply in_region. split; [apply cells_in; tauto|]. cbn [room_of]. unfold zn. rewrite Z2Nat.id by exact H0. reflexivity.
  Qed.

  Lemma rooms_iff :
    r_rooms h w room val k = true <->
    forall i, i < k -> (1 <= r_cnt h w room val i)%Z /\
                       forall c, In c (R i) -> val c = 0%Z \/ val c = r_cnt h w room val i.
  Proof.
    unfold r_rooms. rewrite forallb_forall. split.
    - intros H i Hi. specialize (H i ltac:(apply in_seq; lia)). apply andb_true_iff in H. destruct H as [H1 H2].
      split; [apply Z.leb_le; exact H1|]. intros c Hc. apply in_region in Hc. destruct Hc as [Hc Hr].
      rewrite forallb_forall in H2. specialize (H2 c Hc). rewrite Hr, Z.eqb_refl in H2. cbn [andb] in H2. unfold nz in H2.
      destruct (val c =? 0)%Z eqn:E0; [left; apply Z.eqb_eq; exact E0|right; apply Z.eqb_eq; exact H2].
    - intros H i Hi. apply in_seq in Hi. destruct (H i ltac:(lia)) as [H1 H2]. apply andb_true_iff.
      split; [apply Z.leb_le; exact H1|]. apply forallb_forall. intros c Hc.
      destruct (room_of room w c =? Z.of_nat i)%Z eqn:Er; [|reflexivity]. apply Z.eqb_eq in Er.
      destruct (H2 c (proj2 (in_region c i) (conj Hc Er))) as [E|E]; unfold nz; rewrite E.
      + reflexivity.
      + rewrite Z.eqb_refl. apply orb_true_r.
  Qed.

  Lemma blk_iff cn i :
    blk_sem h w room val cn i = true <->
    cn i = zcount (nz val) (R i) /\ forall c, In c (R i) -> val c = 0%Z \/ val c = cn i.
  Proof.
    unfold blk_sem. rewrite andb_true_iff, Z.eqb_eq, forallb_forall. split; intros [H1 H2]; (split; [exact H1|]); intros c Hc.
    - specialize (H2 c Hc). apply orb_true_iff in H2. rewrite !Z.eqb_eq in H2. exact H2.
    - apply orb_true_iff. rewrite !Z.eqb_eq. apply H2. exact Hc.
  Qed.

  Definition quad (y x : nat) : bool :=
    (val (y, x) =? 0)%Z || (val (y, S x) =? 0)%Z || (val (S y, x) =? 0)%Z || (val (S y, S x) =? 0)%Z.

  Lemma clue_iff :
    r_clue h w num val = true <->
    forall y x, y < h -> x < w -> opt (0 <? at2 num w y x)%Z (val (y, x) =? at2 num w y x)%Z = true.
  Proof.
    unfold r_clue. rewrite forallb_forall.
    assert (E : forall y x, ((at2 num w y x <=? 0)%Z || (val (y, x) =? at2 num w y x)%Z) =
                            opt (0 <? at2 num w y x)%Z (val (y, x) =? at2 num w y x)%Z).
    { intros y x. rewrite Z.ltb_antisym. destruct (at2 num w y x <=? 0)%Z; reflexivity. }
    split.
    - intros H y x Hy Hx. rewrite <- E. apply (H (y, x)). apply cells_in. tauto.
    - intros H [y x] Hc. apply cells_in in Hc. cbv zeta. rewrite E. apply H; tauto.
  Qed.

  Lemma quad_iff :
    r_2x2 h w val = true <-> forall y x, S y < h -> S x < w -> quad y x = true.
  Proof.
    unfold r_2x2, has_2x2. rewrite nr_negb_existsb, forallb_forall.
    assert (E : forall y x, negb (nz val (y, x) && nz val (S y, x) && nz val (y, S x) && nz val (S y, S x)) = quad y x).
    { intros y x. unfold quad, nz.
      destruct (val (y, x) =? 0)%Z, (val (y, S x) =? 0)%Z, (val (S y, x) =? 0)%Z, (val (S y, S x) =? 0)%Z; reflexivity. }
    split.
    - intros H y x Hy Hx. rewrite <- E. apply (H (y, x)). apply cells_in. lia.
    - intros H [y x] Hc. apply cells_in in Hc. rewrite E. apply H; lia.
  Qed.

  Lemma bord_sym c c' : bord w room val c c' = bord w room val c' c.
  Proof.
    unfold bord. rewrite (Z.eqb_sym (val c)), (Z.eqb_sym (room_of room w c)).
    destruct (nz val c), (nz val c'); reflexivity.
  Qed.

  Lemma border_iff :
    r_border h w room val = true <->
    forall y x, y < h -> x < w ->
      (S y < h -> bord w room val (y, x) (S y, x) = true) /\ (S x < w -> bord w room val (y, x) (y, S x) = true).
  Proof.
    unfold r_border. rewrite forallb_forall. split.
    - intros H y x Hy Hx. specialize (H (y, x) ltac:(apply cells_in; tauto)). cbv beta iota in H.
      rewrite forallb_forall in H. split; intros L; apply H; apply nr_nbr4_cases; auto 10.
    - intros H [y x] Hc. apply cells_in in Hc. destruct Hc as [Hy Hx]. apply forallb_forall. intros [y' x'] Hn.
      apply nr_nbr4_cases in Hn. destruct Hn as [[L [-> ->]]|[[L [-> ->]]|[[L [-> ->]]|[L [-> ->]]]]].
      + rewrite bord_sym. destruct (H (y - 1) x ltac:(lia) Hx) as [Hd _].
        replace (S (y - 1)) with y in Hd by lia. apply Hd. exact Hy.
      + apply (H y x Hy Hx). exact L.
      + rewrite bord_sym. destruct (H y (x - 1) Hy ltac:(lia)) as [_ Hr].
        replace (S (x - 1)) with x in Hr by lia. apply Hr. exact Hx.
      + apply (H y x Hy Hx). exact L.
  Qed.

  Lemma bord_differ c c' :
    opt (negb (room_of room w c =? room_of room w c')%Z) (differ_sem val c c') = bord w room val c c'.
  Proof.
    unfold bord, differ_sem, nz, opt.
    destruct (room_of room w c =? room_of room w c')%Z, (val c =? 0)%Z, (val c' =? 0)%Z, (val c =? val c')%Z; reflexivity.
  Qed.

  Lemma cell_iff y x :
    cell_sem h w room num val (y, x) = true <->
    (opt (0 <? at2 num w y x)%Z (val (y, x) =? at2 num w y x)%Z = true /\
     (S y < h -> S x < w -> quad y x = true) /\
     (S y < h -> bord w room val (y, x) (S y, x) = true) /\
     (S x < w -> bord w room val (y, x) (y, S x) = true)).
  Proof.
    unfold cell_sem. rewrite !andb_true_iff. fold (quad y x).
    change (at2 room w y x) with (room_of room w (y, x)).
    change (at2 room w (S y) x) with (room_of room w (S y, x)).
    change (at2 room w y (S x)) with (room_of room w (y, S x)).
    rewrite <- !bord_differ.
    destruct (Nat.ltb_spec (S y) h) as [L1|L1], (Nat.ltb_spec (S x) w) as [L2|L2]; cbn [andb opt];
      intuition (try lia).
  Qed.

  Theorem nanro_local :
    ((forall y x, y < h -> x < w -> (0 <= val (y, x))%Z) /\
     r_clue h w num val = true /\ r_rooms h w room val k = true /\ r_2x2 h w val = true /\ r_border h w room val = true)
    <->
    exists cn, (forall y x, y < h -> x < w -> (0 <= val (y, x) <= size (nanro_rid room w (y, x)))%Z) /\
               (forall i, i < k -> (1 <= cn i <= size i)%Z) /\
               nanro_sem h w room num val cn k = true.
  Proof.
    rewrite clue_iff, rooms_iff, quad_iff, border_iff. split.
    - intros [H0 [Hc [Hr [Hq Hb]]]]. exists (r_cnt h w room val). split; [|split].
      + intros y x Hy Hx. destruct (own_region y x Hy Hx) as [Hin Hk]. split; [apply H0; assumption|].
        destruct (Hr _ Hk) as [_ Hv]. pose proof (cnt_le (nanro_rid room w (y, x))).
        destruct (Hv _ Hin) as [E|E]; rewrite E; lia.
      + intros i Hi. destruct (Hr i Hi) as [H1 _]. pose proof (cnt_le i). lia.
      + unfold nanro_sem. apply andb_true_iff. split; apply forallb_forall.
        * intros i Hi. apply in_seq in Hi. apply blk_iff. destruct (Hr i ltac:(lia)) as [_ Hv].
          split; [apply cnt_region|exact Hv].
        * intros [y x] Hcell. apply cells_in in Hcell. destruct Hcell as [Hy Hx]. apply cell_iff.
          split; [apply Hc; assumption|]. split; [apply Hq|]. apply Hb; assumption.
    - intros [cn [Hbd [Hcn Hs]]]. unfold nanro_sem in Hs. apply andb_true_iff in Hs. destruct Hs as [Hblk Hcell].
      rewrite forallb_forall in Hblk, Hcell.
      assert (Hc' : forall y x, y < h -> x < w -> cell_sem h w room num val (y, x) = true)
        by (intros y x Hy Hx; apply Hcell; apply cells_in; tauto).
      split; [intros y x Hy Hx; apply Hbd; assumption|]. split; [|split; [|split]].
      + intros y x Hy Hx. apply (proj1 (cell_iff y x) (Hc' y x Hy Hx)).
      + intros i Hi. specialize (Hblk i ltac:(apply in_seq; lia)). apply blk_iff in Hblk. destruct Hblk as [E Hv].
        rewrite cnt_region, <- E. split; [apply Hcn; exact Hi|exact Hv].
      + intros y x Hy Hx. assert (L1 : y < h) by lia. assert (L2 : x < w) by lia.
        destruct (proj1 (cell_iff y x) (Hc' y x L1 L2)) as [_ [Q _]]. apply Q; assumption.
      + intros y x Hy Hx. destruct (proj1 (cell_iff y x) (Hc' y x Hy Hx)) as [_ [_ [A B]]]. split; assumption.
  Qed.
End Local.

(* ------------------------------------------------------------------ the problem encoding *)
Lemma nr_fold_max_ge l z : In z l -> (z <= fold_right Z.max (-1) l)%Z.
Proof. induction l as [|a r IH]; simpl; [tauto|]. intros [->|H]; [lia|]. specialize (IH H). lia. Qed.

Lemma nr_region_ok h w room :
  forallb (fun z => (0 <=? z)%Z) room = true -> h * w <= length room ->
  forall y x, y < h -> x < w -> (0 <= at2 room w y x)%Z /\ zn (at2 room w y x) < n_regions room.
Proof.
  intros H0 Hl y x Hy Hx. unfold at2, getz.
  assert (Hi : y * w + x < length room) by (pose proof (cidx_lt h w y x Hy Hx) as C; unfold cidx in C; simpl in C; lia).
  pose proof (nth_In room 0%Z Hi) as Hin. set (z := nth (y * w + x) room 0%Z) in *.
  rewrite forallb_forall in H0. specialize (H0 z Hin). apply Z.leb_le in H0.
  pose proof (nr_fold_max_ge room z Hin). unfold n_regions, zn. split; [exact H0|]. lia.
Qed.

Lemma nr_cell_of_idx h w j : j < h * w -> exists y x, y < h /\ x < w /\ cidx w (y, x) = j.
Proof.
  intros Hj. assert (Hin : In j (map (cidx w) (cells h w))) by (rewrite nr_cells_cidx; apply in_seq; lia).
  apply in_map_iff in Hin. destruct Hin as [[y x] [E Hc]]. apply cells_in in Hc. exists y, x. tauto.
Qed.

(* ------------------------------------------------------------------ the states of the model *)
Section States.
  Variables (h w : nat) (room : list Z).
  Notation n := (h * w).
  Notation size := (nanro_size h w room).

  Definition env_val (en : env) : nat * nat -> Z := fun c => ei en (n + cidx w c).

  Lemma pre_next : next_id (nanro_pre h w room) = n + n.
  Proof.
    unfold next_id, nanro_pre. cbn [vars]. rewrite app_length, repeat_length, map_length, nr_cells_length. reflexivity.
  Qed.

  Lemma hold_pre_iff en c :
    holds gsem_avc en (BNode IFF [BVar (cidx w c); nanro_ne0 h w room c]) = Bool.eqb (eb en (cidx w c)) (nz (env_val en) c).
  Proof.
    unfold holds. cbn [eval map]. rewrite (eval_ne0 gsem_avc en h w room c). cbn.
    fold (env_val en). destruct (eb en (cidx w c)), (nz (env_val en) c); reflexivity.
  Qed.

  Lemma pre_model en :
    model_of gsem_avc en (nanro_pre h w room) <->
    ((forall y x, y < h -> x < w -> (0 <= env_val en (y, x) <= size (nanro_rid room w (y, x)))%Z) /\
     (forall y x, y < h -> x < w -> eb en (cidx w (y, x)) = nz (env_val en) (y, x))).
  Proof.
    unfold model_of, in_bounds, satisfies, nanro_pre. cbn [vars Program.cons].
    rewrite AvcSem.in_bounds_from_app, AvcSem.in_bounds_from_bools, repeat_length. cbn [andb Nat.add].
    pose proof (nr_in_bounds_idx en (cidx w) (fun _ => 0%Z) (fun c => size (nanro_rid room w c)) n (cells h w) 0) as HB.
    rewrite Nat.add_0_r in HB. specialize (HB ltac:(rewrite nr_cells_cidx, nr_cells_length; reflexivity)).
    rewrite HB, ModelLemmas.forallb_map, forallb_forall. split; intros [A B]; split.
    - intros y x Hy Hx. apply (A (y, x)). apply cells_in. tauto.
    - intros y x Hy Hx. specialize (B (y, x) ltac:(apply cells_in; tauto)). rewrite hold_pre_iff in B.
      apply eqb_prop in B. exact B.
    - intros [y x] Hc. apply cells_in in Hc. apply A; tauto.
    - intros [y x] Hc. apply cells_in in Hc. rewrite hold_pre_iff, (B y x) by tauto. apply eqb_reflx.
  Qed.

  Lemma more_bounds en k b :
    in_bounds_from en b (map (fun i => DInt 1 (size i)) (seq 0 k)) = true <->
    forall i, i < k -> (1 <= ei en (b + i) <= size i)%Z.
  Proof.
    pose proof (nr_in_bounds_idx en (fun i : nat => i) (fun _ => 1%Z) size b (seq 0 k) 0) as HB.
    rewrite Nat.add_0_r in HB. specialize (HB ltac:(rewrite map_id, seq_length; reflexivity)). rewrite HB.
    split; intros H i Hi; apply H; [apply in_seq; lia|apply in_seq in Hi; lia].
  Qed.

  Lemma nanro_reads st en rest :
    vars st = (repeat DBool n ++ map (fun c => DInt 0 (size (nanro_rid room w c))) (cells h w)) ++ rest ->
    reads st en (seq n n) = map (fun j => ei en (n + j)) (seq 0 n).
  Proof.
    intros Hv. unfold reads. rewrite (nr_seq_as_map n n), map_map. apply map_ext_in. intros j Hj. apply in_seq in Hj.
    unfold read_var. rewrite Hv.
    rewrite nth_error_app1 by (rewrite app_length, repeat_length, map_length, nr_cells_length; lia).
    rewrite nth_error_app2 by (rewrite repeat_length; lia). rewrite repeat_length. replace (n + j - n) with j by lia.
    rewrite nth_error_map. destruct (nth_error (cells h w) j) eqn:E; [reflexivity|].
    apply nth_error_None in E. rewrite nr_cells_length in E. lia.
  Qed.
End States.

(* the assignment built from a rule-obeying grid *)
Definition nanro_env (n : nat) (ans : answer) (rank : nat -> Z) (root : nat -> bool) (cn : nat -> Z) : env :=
  {| eb := fun i => if Nat.ltb i n then negb (getz ans i =? 0)%Z else root (i - (n + n + n));
     ei := fun i => if Nat.ltb i (n + n) then getz ans (i - n)
                    else if Nat.ltb i (n + n + n) then rank (i - (n + n)) else cn (i - (n + n + n + n)) |}.

Section Env.
  Variables (n : nat) (ans : answer) (rank : nat -> Z) (root : nat -> bool) (cn : nat -> Z).
  Notation en := (nanro_env n ans rank root cn).
  Lemma ne_act j : j < n -> eb en j = negb (getz ans j =? 0)%Z.
  Proof. intros H. cbn [eb nanro_env]. destruct (Nat.ltb_spec j n); [reflexivity|lia]. Qed.
  Lemma ne_root i j : i = n + n + n + j -> eb en i = root j.
  Proof. intros ->. cbn [eb nanro_env]. destruct (Nat.ltb_spec (n + n + n + j) n); [lia|]. f_equal. lia. Qed.
  Lemma ne_val i j : j < n -> i = n + j -> ei en i = getz ans j.
  Proof. intros H ->. cbn [ei nanro_env]. destruct (Nat.ltb_spec (n + j) (n + n)); [|lia]. f_equal. lia. Qed.
  Lemma ne_rank i j : j < n -> i = n + n + j -> ei en i = rank j.
  Proof.
    intros H ->. cbn [ei nanro_env]. destruct (Nat.ltb_spec (n + n + j) (n + n)); [lia|].
    destruct (Nat.ltb_spec (n + n + j) (n + n + n)); [|lia]. f_equal. lia.
  Qed.
  Lemma ne_cn i j : i = n + n + n + n + j -> ei en i = cn j.
  Proof.
    intros ->. cbn [ei nanro_env]. destruct (Nat.ltb_spec (n + n + n + n + j) (n + n)); [lia|].
    destruct (Nat.ltb_spec (n + n + n + n + j) (n + n + n)); [lia|]. f_equal. lia.
  Qed.
End Env.

(* ------------------------------------------------------------------ the theorem *)
Lemma nr_aval_reading h w (f : nat -> Z) y x :
  y < h -> x < w -> aval (map f (seq 0 (h * w))) w (y, x) = f (cidx w (y, x)).
Proof.
  intros Hy Hx. cbn [aval]. unfold at2. rewrite getz_map_seq by (apply (cidx_lt h w y x); assumption). reflexivity.
Qed.

Theorem nanro_exact h w room num st ans :
  solve_nanro_model [[Z.of_nat h; Z.of_nat w]; room; num] = Ok st ->
  ((exists en, model_of gsem_avc en st /\ reads st en (seq (h * w) (h * w)) = ans)
   <-> rules_nanro [[Z.of_nat h; Z.of_nat w]; room; num] ans = true).
Proof.
  unfold solve_nanro_model. destruct (dims2c h w [room; num]) as [-> ->].
  change (sec [[Z.of_nat h; Z.of_nat w]; room; num] 1) with room.
  change (sec [[Z.of_nat h; Z.of_nat w]; room; num] 2) with num.
  destruct (negb (forallb (fun z => (0 <=? z)%Z) room) || Nat.ltb (length room) (h * w)) eqn:G; [discriminate|].
  apply orb_false_iff in G. destruct G as [G1 G2]. apply negb_false_iff in G1. apply Nat.ltb_ge in G2.
  pose proof (nr_region_ok h w room G1 G2) as Hreg.
  destruct (post_avc (nanro_pre h w room) (map BVar (seq 0 (h * w))) (grid_graph h w) false false) as [st1|e] eqn:Hp;
    [|discriminate].
  destruct (Nat.ltb (length num) (h * w)); [discriminate|].
  intros H. inversion H; subst st; clear H.
  set (n := h * w) in *. set (k := n_regions room) in *. set (g := grid_graph h w) in *.
  set (acts := map BVar (seq 0 n)) in *.
  set (more := map (fun i => DInt 1 (nanro_size h w room i)) (seq 0 k)).
  set (extra := nanro_constraints h w room num k (next_id st1)).
  set (st := {| vars := vars st1 ++ more; keys := keys st1 ++ repeat false k; cons := Program.cons st1 ++ extra |}).
  assert (Hnv : nv g = n) by reflexivity.
  pose proof (avc_mid_model g (n + n) (nanro_pre h w room) st1 st acts more extra (pre_next h w room) Hp
                            eq_refl eq_refl (acts_def n)) as MM.
  pose proof (avc_mid_next g (n + n) (nanro_pre h w room) st1 acts (pre_next h w room) Hp) as Hbase.
  rewrite Hnv in Hbase.
  assert (Hreads : forall en, reads st en (seq n n) = map (fun j => ei en (n + j)) (seq 0 n)).
  { intros en. apply (nanro_reads h w room st en (repeat (DInt 0 (Z.of_nat (nv g) - 1)) (nv g) ++ repeat DBool (nv g) ++ more)).
    destruct (AvcSem.avc_eval _ _ _ _ _ Hp) as [Hv _]. unfold st. cbn [vars]. rewrite Hv. unfold nanro_pre. cbn [vars].
    rewrite <- !app_assoc. reflexivity. }
  rewrite rules_nanro_split. fold k. fold n.
  split.
  - (* every model obeys the rules *)
    intros [en [Hm Hr]]. rewrite Hreads in Hr. subst ans. set (ans := map (fun j => ei en (n + j)) (seq 0 n)).
    apply MM in Hm. destruct Hm as [H0 [Hrk [Hce [Hmore Hex]]]]. rewrite Hnv in Hmore.
    apply pre_model in H0. destruct H0 as [Hbd Hiff].
    assert (Hval : forall y x, y < h -> x < w -> aval ans w (y, x) = env_val h w en (y, x)).
    { intros y x Hy Hx. unfold ans. rewrite (nr_aval_reading h w _ y x Hy Hx). reflexivity. }
    assert (Hloc : exists cn,
               (forall y x, y < h -> x < w ->
                            (0 <= aval ans w (y, x) <= nanro_size h w room (nanro_rid room w (y, x)))%Z) /\
               (forall i, i < k -> (1 <= cn i <= nanro_size h w room i)%Z) /\
               nanro_sem h w room num (aval ans w) cn k = true).
    { exists (fun i => ei en (next_id st1 + i)). split; [|split].
      - intros y x Hy Hx. rewrite Hval by assumption. apply Hbd; assumption.
      - apply more_bounds. rewrite Hbase. exact Hmore.
      - unfold extra in Hex. rewrite (nanro_constraints_sem gsem_avc en h w room num (next_id st1) k) in Hex.
        rewrite <- Hex. apply nanro_sem_ext; [|reflexivity]. exact Hval. }
    apply (nanro_local h w room num k (aval ans w) Hreg) in Hloc. destruct Hloc as [Hnn [Hcl [Hro [H2 Hbo]]]].
    rewrite Hcl, Hro, H2, Hbo.
    replace (Nat.eqb (length ans) n) with true by (unfold ans; rewrite map_length, seq_length; symmetry; apply Nat.eqb_refl).
    cbn [andb]. rewrite !andb_true_r. apply andb_true_iff. split.
    + apply forallb_forall. intros z Hz. unfold ans in Hz. apply in_map_iff in Hz. destruct Hz as [j [<- Hj]].
      apply in_seq in Hj. assert (Hjn : j < n) by lia. destruct (nr_cell_of_idx h w j Hjn) as [y [x [Hy [Hx E]]]].
      apply Z.leb_le. specialize (Hbd y x Hy Hx). unfold env_val in Hbd. rewrite E in Hbd. change (h * w) with n in Hbd. lia.
    + unfold cells_connected, board. fold g.
      rewrite <- (connected_b_ext_below g (pattern en acts) _ (grid_wf h w)).
      * apply (avc_mid_sound g (n + n) acts (grid_wf h w) en Hrk Hce).
      * intros v Hv. rewrite Hnv in Hv. unfold acts. rewrite pattern_acts.
        destruct (Nat.ltb_spec v n) as [_|L]; [|lia]. cbn [andb].
        destruct (nr_cell_of_idx h w v Hv) as [y [x [Hy [Hx E]]]].
        rewrite <- E, (Hiff y x Hy Hx). unfold nz, env_val. rewrite E. unfold ans.
        rewrite getz_map_seq by exact Hv. reflexivity.
  - (* every rule-obeying grid extends to a model *)
    intros Hr.
    apply andb_true_iff in Hr. destruct Hr as [Hr Hconn].
    apply andb_true_iff in Hr. destruct Hr as [Hr Hbo].
    apply andb_true_iff in Hr. destruct Hr as [Hr H2].
    apply andb_true_iff in Hr. destruct Hr as [Hr Hro].
    apply andb_true_iff in Hr. destruct Hr as [Hr Hcl].
    apply andb_true_iff in Hr. destruct Hr as [Hlen Hnn]. apply Nat.eqb_eq in Hlen.
    assert (Hloc : (forall y x, y < h -> x < w -> (0 <= aval ans w (y, x))%Z) /\
                   r_clue h w num (aval ans w) = true /\ r_rooms h w room (aval ans w) k = true /\
                   r_2x2 h w (aval ans w) = true /\ r_border h w room (aval ans w) = true).
    { split; [|tauto]. intros y x Hy Hx. cbn [aval]. unfold at2, getz. apply Z.leb_le.
      rewrite forallb_forall in Hnn. apply Hnn. apply nth_In. rewrite Hlen.
      exact (cidx_lt h w y x Hy Hx). }
    apply (nanro_local h w room num k (aval ans w) Hreg) in Hloc. destruct Hloc as [cn [Hbd [Hcn Hs]]].
    set (act := fun v => negb (getz ans v =? 0)%Z).
    unfold cells_connected, board in Hconn. fold g in Hconn.
    destruct (avc_mid_complete g (nanro_pre h w room) st1 acts Hp (grid_wf h w) act Hconn) as [Hrange Hcert].
    set (en := nanro_env n ans (avc_rank g act) (avc_root g act) cn).
    assert (Hval : forall y x, y < h -> x < w -> env_val h w en (y, x) = aval ans w (y, x)).
    { intros y x Hy Hx. unfold env_val, en. fold n. rewrite (ne_val n ans _ _ _ _ (cidx w (y, x))); [reflexivity| |reflexivity].
      exact (cidx_lt h w y x Hy Hx). }
    exists en. split.
    + apply MM. split; [|split; [|split; [|split]]].
      * apply pre_model. split.
        -- intros y x Hy Hx. rewrite Hval by assumption. apply Hbd; assumption.
        -- intros y x Hy Hx. unfold nz. rewrite Hval by assumption. unfold en.
           rewrite ne_act by exact (cidx_lt h w y x Hy Hx). reflexivity.
      * intros j Hj. rewrite Hnv in Hj. unfold en. rewrite (ne_rank n ans _ _ _ _ j Hj eq_refl). apply Hrange. exact Hj.
      * unfold mid_cert_ok. rewrite <- Hcert.
        apply cert_avc_ext_below; [apply grid_wf| | |]; intros v Hv; change (nv g) with n in *.
        -- unfold acts. rewrite pattern_acts. destruct (Nat.ltb_spec v n) as [_|L]; [|lia]. cbn [andb].
           unfold en. apply ne_act. exact Hv.
        -- unfold en. apply ne_rank; [exact Hv|reflexivity].
        -- unfold en. apply ne_root. reflexivity.
      * rewrite Hnv. apply more_bounds. intros i Hi. unfold en. rewrite (ne_cn n ans _ _ _ _ i eq_refl). apply Hcn. exact Hi.
      * unfold extra. rewrite (nanro_constraints_sem gsem_avc en h w room num (next_id st1) k). rewrite <- Hs.
        apply nanro_sem_ext; [exact Hval|]. intros i Hi. rewrite Hbase. unfold en. apply ne_cn. reflexivity.
    + rewrite Hreads. transitivity (map (getz ans) (seq 0 (length ans))); [|apply map_getz_seq]. rewrite Hlen. apply map_ext_in. intros j Hj. apply in_seq in Hj.
      unfold en. apply ne_val; [lia|reflexivity].
Qed.

(* the answer keys are exactly the cell values: ids h*w .. 2*h*w-1 *)
Theorem nanro_keys h w room num st :
  solve_nanro_model [[Z.of_nat h; Z.of_nat w]; room; num] = Ok st ->
  keys st = repeat false (h * w) ++ repeat true (h * w) ++ repeat false (h * w) ++ repeat false (h * w) ++
            repeat false (n_regions room).
Proof.
  unfold solve_nanro_model. destruct (dims2c h w [room; num]) as [-> ->].
  change (sec [[Z.of_nat h; Z.of_nat w]; room; num] 1) with room.
  destruct (negb (forallb (fun z => (0 <=? z)%Z) room) || Nat.ltb (length room) (h * w)); [discriminate|].
  destruct (post_avc (nanro_pre h w room) (map BVar (seq 0 (h * w))) (grid_graph h w) false false) as [st1|e] eqn:Hp;
    [|discriminate].
  destruct (Nat.ltb _ (h * w)); [discriminate|].
  intros H. inversion H; subst st; clear H. cbn [keys].
  destruct (AvcSem.avc_eval _ _ _ _ _ Hp) as [_ [Hk _]]. rewrite Hk. cbn [keys nanro_pre nv grid_graph].
  rewrite <- !app_assoc. reflexivity.
Qed.

(* the model is defined exactly on the well-formed problems with at least one cell *)
Theorem nanro_model_defined h w room num :
  (exists st, solve_nanro_model [[Z.of_nat h; Z.of_nat w]; room; num] = Ok st) <->
  (forallb (fun z => (0 <=? z)%Z) room = true /\ 0 < h * w <= length room /\ h * w <= length num).
Proof.
  unfold solve_nanro_model. destruct (dims2c h w [room; num]) as [-> ->].
  change (sec [[Z.of_nat h; Z.of_nat w]; room; num] 1) with room.
  change (sec [[Z.of_nat h; Z.of_nat w]; room; num] 2) with num.
  split.
  - intros [st H].
    destruct (forallb (fun z => (0 <=? z)%Z) room); [|discriminate]. cbn [negb orb] in H.
    destruct (Nat.ltb_spec (length room) (h * w)) as [|L1]; [discriminate|].
    destruct (post_avc (nanro_pre h w room) (map BVar (seq 0 (h * w))) (grid_graph h w) false false) as [st1|e] eqn:Hp;
      [|discriminate].
    destruct (Nat.ltb_spec (length num) (h * w)) as [|L2]; [discriminate|].
    pose proof (post_avc_nonempty _ _ _ _ _ Hp) as Hn. cbn [nv grid_graph] in Hn. split; [reflexivity|]. lia.
  - intros [G1 [[L0 L1] L2]]. rewrite G1. cbn [negb orb].
    destruct (Nat.ltb_spec (length room) (h * w)) as [|_]; [lia|].
    destruct (post_avc_succeeds (nanro_pre h w room) (map BVar (seq 0 (h * w))) (grid_graph h w) false (grid_wf h w))
      as [st1 Hp].
    + cbn [nv grid_graph]. lia.
    + cbn [nv grid_graph]. rewrite map_length, seq_length. lia.
    + intros a Ha. apply in_map_iff in Ha. destruct Ha as [i [<- _]]. reflexivity.
    + rewrite Hp. destruct (Nat.ltb_spec (length num) (h * w)) as [|_]; [lia|]. eexists. reflexivity.
Qed.

(* the statement is not vacuous: the model is defined on a 2x2 board with the rooms {a, b, c} / {d} and the given
   number 2 in cell b, and the rules accept exactly the two grids the solver finds (2 2 . 1 and . 2 2 1) *)
Example nanro_model_ok :
  exists st, solve_nanro_model [[2; 2]; [0; 0; 0; 1]; [0; 2; 0; 0]]%Z = Ok st.
Proof. apply (nanro_model_defined 2 2). cbn. repeat split; lia. Qed.

Example nanro_rules_ok :
  filter (rules_nanro [[2; 2]; [0; 0; 0; 1]; [0; 2; 0; 0]]%Z) (answers_nanro [[2; 2]; [0; 0; 0; 1]; [0; 2; 0; 0]]%Z) =
  [[0; 2; 2; 1]; [2; 2; 0; 1]]%Z.
Proof. vm_compute. reflexivity. Qed.
