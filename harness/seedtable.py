"""write seeded/README.md: which seeded change is caught by which check (from seeded/*/meta.json)"""
import glob, json, os, re
ROOT = os.path.dirname(os.path.dirname(os.path.abspath(__file__)))
rows = []
for d in sorted(glob.glob(os.path.join(ROOT, "seeded", "*"))):
    mp = os.path.join(d, "meta.json")
    if not os.path.exists(mp):
        continue
    m = json.load(open(mp))
    notes = ""
    np_ = os.path.join(d, "notes.md")
    if os.path.exists(np_):
        txt = open(np_).read()
        lines = [l.strip() for l in txt.split("\n") if l.strip() and not l.startswith("#")]
        notes = re.sub(r"\s+", " ", " ".join(lines[:3]))[:230]
    for c, r in m.get("checks", {}).items():
        verdict = "caught, concrete failing input" if r.get("caught") and r.get("concrete_input") else (
            "caught, no-failing-input-found" if r.get("caught") else "MISSED")
        rows.append((m["id"], m["property"], c, verdict, "yes" if m.get("valid_seed") else "no", notes))
out = ["# Seeded changes (each validated: patch applies to /repo HEAD of that time, 558 tests still pass, demo passes clean / fails changed)",
       "", "| seed | property | check run | result of ./check (quick) | valid | what it changes |", "|---|---|---|---|---|---|"]
for r in rows:
    out.append("| %s | %s | %s | %s | %s | %s |" % tuple(x.replace("|", "/") for x in r))
open(os.path.join(ROOT, "seeded", "README.md"), "w").write("\n".join(out) + "\n")
print("\n".join(out[4:]))
