(* C09 runner: I/O only.
   graph  :=  n m a1 b1 ... am bm
   P <graph> S <state> L [ flags ]      -> posted state | E <code>
   F <graph> B bits...                  -> forest_b uf_forest            (0/1 0/1)
   R <graph> B bits...                  -> order_rank of vertices 0..n-1
   C <graph> B bits... R ranks...       -> cert_acyclic ranks_in_range   (0/1 0/1) *)
open Model
open Zutil

let rec take_pairs k toks = if k = 0 then ([], toks) else
  match toks with
  | a :: b :: r -> let (ps, r') = take_pairs (k - 1) r in
      ((nat_of_int (int_of_string a), nat_of_int (int_of_string b)) :: ps, r')
  | _ -> failwith "pairs"

let parse_graph toks = match toks with
  | n :: m :: r -> let (es, r') = take_pairs (int_of_string m) r in
      ({ nv = nat_of_int (int_of_string n); edges = es }, r')
  | _ -> failwith "graph"

let rec take_until stop toks = match toks with
  | [] -> ([], [])
  | t :: r when t = stop -> ([], r)
  | t :: r -> let (a, b) = take_until stop r in (t :: a, b)

let pattern bits = let arr = Array.of_list (List.map (fun t -> t = "1") bits) in
  fun k -> let i = int_of_nat k in i < Array.length arr && arr.(i)

let b01 b = if b then "1" else "0"

let handle toks = match toks with
  | "P" :: r ->
      let (g, r) = parse_graph r in
      (match r with
       | "S" :: r ->
           let (st, r) = Exprio.parse_state r in
           (match r with
            | "L" :: r ->
                let (flags, _) = Exprio.parse_expr_list r in
                (match post_acyclic st flags g with
                 | Ok st' -> Exprio.show_state st'
                 | Err e -> "E " ^ string_of_int (int_of_nat (pyerr_code e)))
            | _ -> failwith "L")
       | _ -> failwith "S")
  | "F" :: r ->
      let (g, r) = parse_graph r in
      (match r with
       | "B" :: bits -> let a = pattern bits in b01 (forest_b g a) ^ " " ^ b01 (uf_forest g a)
       | _ -> failwith "B")
  | "R" :: r ->
      let (g, r) = parse_graph r in
      (match r with
       | "B" :: bits -> let a = pattern bits in
           zs (List.init (int_of_nat g.nv) (fun i -> order_rank g a (nat_of_int i)))
       | _ -> failwith "B")
  | "C" :: r ->
      let (g, r) = parse_graph r in
      (match r with
       | "B" :: r ->
           let (bits, ranks) = take_until "R" r in
           let a = pattern bits in
           let arr = Array.of_list (List.map (fun t -> z_of_int (int_of_string t)) ranks) in
           let rk v = let i = int_of_nat v in if i < Array.length arr then arr.(i) else z_of_int 0 in
           b01 (cert_acyclic g a rk) ^ " " ^ b01 (ranks_in_range g rk)
       | _ -> failwith "B")
  | _ -> "EXN bad request"

let () = main_loop handle
