(* C08: the rank block of the specialised grid encoding evaluates to the
   certificate checker (post_diag_spec), hence diag_cert_exact; and the
   composed theorems about active_vertices_not_adjacent_and_not_segmenting. *)
From Coq Require Import ZArith List Bool Arith Lia.
From Cspuz Require Import Lib.PyErr Core.Expr Core.Program Core.Build
  Graph.GraphModel Graph.ReachProofs Graph.Avc Graph.AvcCert Graph.AvcSem Graph.AvcTotal Graph.AvcProofs
  Array.Slice Graph.NotAdj Graph.NotAdjForest Graph.NotAdjDiag Graph.NotAdjBounded Graph.NotAdjSem.
Import ListNotations.
Local Open Scope nat_scope.

(* ------------------------------------------------------------------------ *)
(* list facts                                                                *)

Lemma filter_map_comm {A B} (f : A -> B) (p : B -> bool) l :
  filter p (map f l) = map f (filter (fun a => p (f a)) l).
Proof. induction l as [|a l IH]; [reflexivity|]. simpl. destruct (p (f a)); simpl; rewrite IH; reflexivity. Qed.

Lemma forallb_map {A B} (f : A -> B) (p : B -> bool) l :
  forallb p (map f l) = forallb (fun a => p (f a)) l.
Proof. induction l as [|a l IH]; [reflexivity|]. simpl. rewrite IH. reflexivity. Qed.

Lemma zsum_b2z_filter {A} (f : A -> bool) l :
  zsum (map b2z (map f l)) = Z.of_nat (length (filter f l)).
Proof.
  induction l as [|a l IH]; [reflexivity|]. cbn [map filter]. rewrite zsum_cons, IH.
  destruct (f a); cbn [length b2z]; lia.
Qed.

Lemma cells_as_seq h w :
  cells h w = map (fun v => (Z.of_nat (cell_y w v), Z.of_nat (cell_x w v))) (seq 0 (h * w)).
Proof.
  induction h as [|h IH]; [reflexivity|].
  unfold cells in *. rewrite seq_S, flat_map_app, IH. simpl flat_map. rewrite app_nil_r.
  replace (S h * w) with (h * w + w) by lia. rewrite seq_app, map_app. f_equal.
  simpl. rewrite (seq_shift_map (h * w) w), map_map. apply map_ext_in. intros x Hx. apply in_seq in Hx.
  destruct (cell_of_coords w h x ltac:(lia)) as [-> ->]. reflexivity.
Qed.

(* ------------------------------------------------------------------------ *)
(* one cell of the rank block                                                *)

Section Cell.
  Variables (h w b : nat) (hi : Z) (l : list expr).
  Let n := h * w.
  Let H := Z.of_nat h.
  Let W := Z.of_nat w.
  Hypothesis Hlen : length l = n.
  Hypothesis Hbx : forall a, In a l -> is_boolexpr a = true.
  Let ranks := map (fun k => IVar (b + k) 0 hi) (seq 0 n).
  Let d0 := PyBool false.

  Variable v : nat.
  Hypothesis Hv : v < n.
  Let Y := Z.of_nat (cell_y w v).
  Let X := Z.of_nat (cell_x w v).
  Let inside := filter (fun d : Z * Z => in_grid H W (Y + fst d) (X + snd d)) dirs.
  Let idx (d : Z * Z) : nat := Z.to_nat ((Y + fst d) * W + (X + snd d)).

  Lemma nbrs_inside : diag_nbrs h w v = map idx inside.
  Proof. reflexivity. Qed.

  Lemma idx_self : Z.to_nat (Y * W + X) = v.
  Proof.
    destruct (coords_of_cell h w v Hv) as [_ [_ E]]. unfold Y, X, W.
    rewrite <- Nat2Z.inj_mul, <- Nat2Z.inj_add, Nat2Z.id. symmetry. exact E.
  Qed.

  Lemma idx_lt d : In d inside -> idx d < n.
  Proof.
    intros Hd. apply (diag_nbrs_all_lt h w v). rewrite nbrs_inside. apply in_map. exact Hd.
  Qed.

  Lemma at2_ranks k : k < n -> nth_res ranks k = Ok (IVar (b + k) 0 hi).
  Proof.
    intros Hk. unfold nth_res, ranks. rewrite nth_error_map, nth_error_seq0.
    apply Nat.ltb_lt in Hk. rewrite Hk. reflexivity.
  Qed.

  Lemma at2_acts k : k < n -> nth_res l k = Ok (nth k l d0) /\ is_boolexpr (nth k l d0) = true.
  Proof.
    intros Hk. rewrite <- Hlen in Hk. unfold nth_res.
    destruct (nth_error l k) eqn:E; [|apply nth_error_None in E; lia].
    rewrite (nth_error_nth _ _ d0 E). split; [reflexivity|]. apply Hbx. eapply nth_error_In; exact E.
  Qed.

  Lemma lex_idx d : In d inside -> lex_lt (Y + fst d) (X + snd d) Y X = Nat.ltb (idx d) v.
  Proof.
    intros Hd. apply filter_In in Hd. destruct Hd as [_ Hg]. fold H W in Hg.
    destruct (idx_nat h w _ _ Hg) as [yn [xn [E1 [E2 [Hyn [Hxn E3]]]]]].
    destruct (coords_of_cell h w v Hv) as [Hy [Hx Ev]].
    unfold idx. fold W in E3. rewrite E3. unfold lex_lt. rewrite E1, E2. unfold Y, X.
    destruct (Nat.ltb_spec (yn * w + xn) v) as [Hlt|Hge].
    - apply orb_true_iff. destruct (Z.ltb_spec (Z.of_nat yn) (Z.of_nat (cell_y w v))); [left; reflexivity|right].
      apply andb_true_iff. split; [apply Z.eqb_eq|apply Z.ltb_lt]; nia.
    - apply orb_false_iff. split; [apply Z.ltb_ge; nia|].
      apply andb_false_iff. destruct (Z.eqb_spec (Z.of_nat yn) (Z.of_nat (cell_y w v))); [right|left; reflexivity].
      apply Z.ltb_ge. nia.
  Qed.

  Definition cell_less : list expr :=
    map (fun d => b_and (i_lt (IVar (b + idx d) 0 hi) (IVar (b + v) 0 hi)) (nth (idx d) l d0)) inside.
  Definition cell_nes : list expr :=
    map (fun d => i_ne (IVar (b + idx d) 0 hi) (IVar (b + v) 0 hi))
        (filter (fun d : Z * Z => lex_lt (Y + fst d) (X + snd d) Y X) inside).

  Lemma diag_cell_ok_shape :
    exists ct, count_true cell_less = Ok ct /\
      diag_cell H W ranks l (Y, X) =
        Ok (cell_nes ++ [b_imp (nth v l d0) (i_le ct (PyInt (if on_border h w v then 0 else 1)))]).
  Proof.
    destruct (count_true_ok cell_less) as [ct Hct].
    { intros x Hx. unfold cell_less in Hx. apply in_map_iff in Hx. destruct Hx as [d [<- _]]. reflexivity. }
    exists ct. split; [exact Hct|].
    unfold diag_cell. cbn [fst snd]. fold inside.
    unfold at2 at 1. rewrite idx_self, (at2_ranks v Hv). cbn [bind].
    rewrite (mapM_all_ok _ (fun d => b_and (i_lt (IVar (b + idx d) 0 hi) (IVar (b + v) 0 hi)) (nth (idx d) l d0))).
    2:{ intros d Hd. unfold at2. fold (idx d). rewrite (at2_ranks _ (idx_lt d Hd)). cbn [bind].
        destruct (at2_acts _ (idx_lt d Hd)) as [-> Hb']. cbn [bind]. unfold py_and.
        destruct (nth (idx d) l d0); simpl in Hb'; try discriminate; reflexivity. }
    cbn [bind].
    rewrite (mapM_all_ok _ (fun d => i_ne (IVar (b + idx d) 0 hi) (IVar (b + v) 0 hi))).
    2:{ intros d Hd. apply filter_In in Hd. destruct Hd as [Hd _]. unfold at2. fold (idx d).
        rewrite (at2_ranks _ (idx_lt d Hd)). reflexivity. }
    cbn [bind]. unfold at2. rewrite idx_self. destruct (at2_acts v Hv) as [-> Hb']. cbn [bind].
    fold cell_less. rewrite Hct. cbn [bind].
    unfold b_then. destruct (nth v l d0); simpl in Hb'; try discriminate; reflexivity.
  Qed.

  Lemma diag_cell_like cs : diag_cell H W ranks l (Y, X) = Ok cs -> forallb is_constraint_like cs = true.
  Proof.
    destruct diag_cell_ok_shape as [ct [_ E]]. rewrite E. intros Hc; inversion Hc; subst cs.
    rewrite forallb_app. apply andb_true_iff. split; [|reflexivity].
    unfold cell_nes. rewrite forallb_map. apply forallb_forall. reflexivity.
  Qed.

  (* ---- meaning *)
  Variable en : env.
  Hypothesis Hdef : acts_defined en l.
  Notation p := (pattern en l).
  Let rank := fun u => ei en (b + u).

  Lemma nth_eval' k : k < n -> eval gsem_avc en (nth k l d0) = Some (VB (p k)).
  Proof. intros Hk. apply (nth_eval l en Hdef). rewrite Hlen. exact Hk. Qed.

  Lemma diag_cell_holds cs :
    diag_cell H W ranks l (Y, X) = Ok cs ->
    forallb (holds gsem_avc en) cs = diag_cell_ok h w p rank v.
  Proof.
    destruct diag_cell_ok_shape as [ct [Hct E]]. rewrite E. intros Hc; inversion Hc; subst cs. clear Hc.
    rewrite forallb_app. unfold diag_cell_ok. f_equal.
    - (* ranks differ from the earlier diagonal neighbours *)
      rewrite nbrs_inside, filter_map_comm, forallb_map. unfold cell_nes. rewrite forallb_map.
      rewrite (filter_ext_in' (fun d : Z * Z => lex_lt (Y + fst d) (X + snd d) Y X) (fun d => Nat.ltb (idx d) v))
        by (intros d Hd; apply lex_idx; exact Hd).
      apply forallb_ext_in. intros d _. unfold holds, rank. simpl.
      destruct (ei en (b + idx d) =? ei en (b + v))%Z; reflexivity.
    - (* the count *)
      cbn [forallb]. rewrite andb_true_r.
      assert (Hev : eval gsem_avc en ct =
                    Some (VI (zsum (map b2z (map (fun d => (rank (idx d) <? rank v)%Z && p (idx d)) inside))))).
      { apply (count_true_eval en cell_less); [|exact Hct]. unfold cell_less. rewrite !map_map.
        apply map_ext_in. intros d Hd. simpl. rewrite (nth_eval' _ (idx_lt d Hd)). simpl.
        unfold rank. rewrite andb_true_r. reflexivity. }
      rewrite (holds_imp en _ _ (p v) (zsum (map b2z (map (fun d => (rank (idx d) <? rank v)%Z && p (idx d)) inside))
                                         <=? (if on_border h w v then 0 else 1))%Z).
      + f_equal. rewrite zsum_b2z_filter. rewrite nbrs_inside, filter_map_comm, map_length.
        destruct (on_border h w v).
        * destruct (Nat.leb_spec (length (filter (fun d => (rank (idx d) <? rank v)%Z && p (idx d)) inside)) 0);
            [apply Z.leb_le; lia|apply Z.leb_gt; lia].
        * destruct (Nat.leb_spec (length (filter (fun d => (rank (idx d) <? rank v)%Z && p (idx d)) inside)) 1);
            [apply Z.leb_le; lia|apply Z.leb_gt; lia].
      + apply nth_eval'. exact Hv.
      + simpl. rewrite Hev. simpl. reflexivity.
  Qed.
End Cell.

(* ------------------------------------------------------------------------ *)
(* the whole rank block                                                      *)

Definition diag_hi (h w : nat) : Z := (Z.of_nat (h * w) - 1) / 2.

Theorem post_diag_spec st h w l :
  1 <= h * w -> length l = h * w -> (forall a, In a l -> is_boolexpr a = true) ->
  exists st',
    post_diag st h w l = (st', None) /\
    vars st' = vars st ++ repeat (DInt 0 (diag_hi h w)) (h * w) /\
    keys st' = keys st ++ repeat false (h * w) /\
    exists cs, cons st' = cons st ++ cs /\
      forall en, acts_defined en l ->
        forallb (holds gsem_avc en) cs = cert_diag h w (pattern en l) (fun u => ei en (next_id st + u)).
Proof.
  intros Hn Hlen Hbx. unfold post_diag, int_array. fold (diag_hi h w).
  assert (Hhi : (0 <= diag_hi h w)%Z) by (unfold diag_hi; apply Z.div_pos; lia).
  destruct (Z.ltb_spec (diag_hi h w) 0); [lia|].
  destruct (int_vars st (h * w) 0 (diag_hi h w)) as [st1 ranks] eqn:E1.
  apply int_vars_spec in E1. destruct E1 as [Hr [Hv1 [Hc1 Hk1]]].
  set (g := fun yx : Z * Z =>
              match diag_cell (Z.of_nat h) (Z.of_nat w) ranks l yx with Ok cs => cs | Err _ => [] end).
  assert (Hcells : forall yx, In yx (cells h w) ->
            diag_cell (Z.of_nat h) (Z.of_nat w) ranks l yx = Ok (g yx) /\
            forallb is_constraint_like (g yx) = true).
  { intros yx Hin. rewrite cells_as_seq in Hin. apply in_map_iff in Hin. destruct Hin as [v [<- Hv]].
    apply in_seq in Hv. unfold g. rewrite Hr.
    destruct (diag_cell_ok_shape h w (next_id st) (diag_hi h w) l Hlen Hbx v ltac:(lia)) as [ct [_ E]].
    rewrite E. split; [reflexivity|].
    apply (diag_cell_like h w (next_id st) (diag_hi h w) l Hlen Hbx v ltac:(lia)). exact E. }
  rewrite (post_each_ok _ g _ st1 Hcells).
  exists (add_cons st1 (flat_map g (cells h w))). split; [reflexivity|].
  split; [exact Hv1|]. split; [exact Hk1|].
  exists (flat_map g (cells h w)). split; [simpl; rewrite Hc1; reflexivity|].
  intros en Hdef. rewrite forallb_flat_map, cells_as_seq, forallb_map. unfold cert_diag.
  apply forallb_ext_in. intros v Hv. apply in_seq in Hv.
  apply (diag_cell_holds h w (next_id st) (diag_hi h w) l Hlen Hbx v ltac:(lia) en Hdef).
  unfold g. rewrite Hr.
  destruct (diag_cell_ok_shape h w (next_id st) (diag_hi h w) l Hlen Hbx v ltac:(lia)) as [ct [_ E]].
  rewrite E. reflexivity.
Qed.

Lemma cert_diag_ext h w act act' rank rank' :
  (forall v, act v = act' v) -> (forall v, rank v = rank' v) ->
  cert_diag h w act rank = cert_diag h w act' rank'.
Proof.
  intros Ha Hr. unfold cert_diag. apply forallb_ext_in. intros v _. unfold diag_cell_ok.
  rewrite (Ha v), (Hr v). f_equal.
  - apply forallb_ext_in. intros u _. rewrite (Hr u). reflexivity.
  - f_equal. f_equal. f_equal. apply filter_ext_in'. intros u _. rewrite (Hr u), (Ha u). reflexivity.
Qed.

Lemma is_boolexpr_like a : is_boolexpr a = true -> is_bool_expr_like a = true.
Proof. destruct a; simpl; auto. Qed.

(* The rank block of the specialised grid encoding (any h, w with h*w >= 1):
   for every BoolArray2D of BoolExpr entries over the caller's variables and
   every assignment of those variables, the block can be completed (earlier
   ids untouched, ranks within 0..(h*w-1)//2, all new constraints true) exactly
   when the diagonal-adjacency graph on the active cells is a forest each of
   whose trees contains at most one border cell. *)
Theorem diag_cert_exact st h w l en :
  1 <= h * w -> length l = h * w -> (forall a, In a l -> is_boolexpr a = true) ->
  fresh_below (next_id st) l -> acts_defined en l ->
  exists st',
    post_diag st h w l = (st', None) /\
    ((exists en', agree_below (next_id st) en en' /\
                  in_bounds_from en' (next_id st) (new_vars st st') = true /\
                  forallb (holds gsem_avc en') (new_cons st st') = true)
     <-> spec_diag h w (pattern en l)).
Proof.
  intros Hn Hlen Hbx Hfr Hdef.
  destruct (post_diag_spec st h w l Hn Hlen Hbx) as [st' [Hpost [Hv [_ [cs [Hc Hev]]]]]].
  exists st'. split; [exact Hpost|].
  assert (Hnc : new_cons st st' = cs) by (unfold new_cons; rewrite Hc; apply skipn_app_exact).
  assert (Hnv : new_vars st st' = repeat (DInt 0 (diag_hi h w)) (h * w))
    by (unfold new_vars; rewrite Hv; apply skipn_app_exact).
  rewrite Hnc, Hnv. split.
  - intros [en' [Hag [Hb Hs]]].
    pose proof (acts_defined_agree _ _ _ _ Hag Hfr Hdef) as Hdef'.
    rewrite (Hev en' Hdef') in Hs. rewrite in_bounds_from_ints in Hb.
    apply diag_cert. exists (fun u => ei en' (next_id st + u)). split.
    + intros v Hv'. apply Hb. exact Hv'.
    + rewrite <- Hs. apply cert_diag_ext; [|reflexivity]. intros v. apply (pattern_agree _ _ _ _ Hag Hfr).
  - intros Hs. destruct (diag_rank_complete h w _ Hs) as [Hcert Hrange].
    set (en' := extend_env en (next_id st) 0 (diag_rank h w (pattern en l)) (fun _ => false)).
    assert (Hag : agree_below (next_id st) en en') by apply extend_env_agree.
    exists en'. split; [exact Hag|]. split.
    + apply in_bounds_from_ints. intros j Hj. unfold en'. rewrite extend_env_rank. apply Hrange. exact Hj.
    + rewrite (Hev en' (acts_defined_agree _ _ _ _ Hag Hfr Hdef)). rewrite <- Hcert.
      apply cert_diag_ext.
      * intros v. symmetry. apply (pattern_agree _ _ _ _ Hag Hfr).
      * intros j. unfold en'. apply extend_env_rank.
Qed.
