"""Fail-closed translator for small pure-integer Python functions -> Gallina (Z arithmetic).

Accepted Python (anything else raises TranslateError, which the check reports as a broken tie):
  statements   if / elif / else, `name = expr`, `self._f = expr`, `return expr`, `raise ExcName(...)`,
               a docstring, `global name`
  expressions  int constants, names, `self._f`, module constants given in `consts`, unary -,
               + - * // % << >> & | ^, comparisons (single operator) == != < <= > >=
Semantics: Python ints are unbounded -> Z; `//` and `%` floor like Z.div / Z.modulo (for every sign of the
divisor); shifts by a constant -> Z.shiftl / Z.shiftr; bit operators -> Z.land / Z.lor / Z.lxor (two's complement
on Z, as Python).  Division by zero raises in Python and is total in Coq: the translator refuses `//` and `%`
unless the caller lists the divisor expression as guarded (see `nonzero`).

translate_function(src, name, args, ...) -> Coq text of
    Definition <coqname> (<args> : Z) : res Z := ...            (plain function; `raise` -> Err)
translate_method(src, cls, name, fields, args, ...) -> Coq text of
    Definition <coqname> (<fields> <args> : Z) : Z * (Z * .. * Z) := (returned value, new fields)   (no raise allowed)
"""
import ast

ERR = {"ValueError": "ValueError", "IndexError": "IndexError", "TypeError": "TypeError", "KeyError": "KeyError",
       "AssertionError": "AssertionError"}
BIN = {ast.Add: "Z.add", ast.Sub: "Z.sub", ast.Mult: "Z.mul", ast.FloorDiv: "Z.div", ast.Mod: "Z.modulo",
       ast.BitAnd: "Z.land", ast.BitOr: "Z.lor", ast.BitXor: "Z.lxor", ast.LShift: "Z.shiftl", ast.RShift: "Z.shiftr"}
CMP = {ast.Eq: "Z.eqb %s %s", ast.NotEq: "negb (Z.eqb %s %s)", ast.Lt: "Z.ltb %s %s", ast.LtE: "Z.leb %s %s",
       ast.Gt: "Z.ltb %(b)s %(a)s", ast.GtE: "Z.leb %(b)s %(a)s"}


class TranslateError(Exception):
    pass


def _z(n):
    return "%d" % n if n >= 0 else "(%d)" % n


class _Tr:
    def __init__(self, consts, nonzero, fields):
        self.consts = consts or {}
        self.nonzero = set(nonzero or ())
        self.fields = list(fields or ())
        self.env = {}        # python name / field -> current Coq variable
        self.fresh = 0

    def var(self, base):
        self.fresh += 1
        return "%s_%d" % (base, self.fresh)

    def expr(self, e):
        if isinstance(e, ast.Constant) and isinstance(e.value, int) and not isinstance(e.value, bool):
            return _z(e.value)
        if isinstance(e, ast.Name):
            if e.id in self.env:
                return self.env[e.id]
            if e.id in self.consts:
                return _z(self.consts[e.id])
            raise TranslateError("unknown name %s" % e.id)
        if isinstance(e, ast.Attribute) and isinstance(e.value, ast.Name) and e.value.id == "self":
            f = e.attr.lstrip("_")
            if f not in self.fields or f not in self.env:
                raise TranslateError("unknown field self.%s" % e.attr)
            return self.env[f]
        if isinstance(e, ast.UnaryOp) and isinstance(e.op, ast.USub):
            return "(Z.opp %s)" % self.expr(e.operand)
        if isinstance(e, ast.BinOp) and type(e.op) in BIN:
            if isinstance(e.op, (ast.FloorDiv, ast.Mod)) and ast.unparse(e.right) not in self.nonzero:
                raise TranslateError("division by an expression not listed as non-zero: %s" % ast.unparse(e.right))
            if isinstance(e.op, (ast.LShift, ast.RShift)):
                if not (isinstance(e.right, ast.Constant) and isinstance(e.right.value, int) and e.right.value >= 0):
                    raise TranslateError("shift by a non-constant: %s" % ast.unparse(e))
            return "(%s %s %s)" % (BIN[type(e.op)], self.expr(e.left), self.expr(e.right))
        raise TranslateError("expression outside the accepted fragment: %s" % ast.unparse(e))

    def cond(self, e):
        if isinstance(e, ast.Compare) and len(e.ops) == 1 and type(e.ops[0]) in CMP:
            a, b = self.expr(e.left), self.expr(e.comparators[0])
            t = CMP[type(e.ops[0])]
            return "(" + (t % {"a": a, "b": b} if "%(a)s" in t else t % (a, b)) + ")"
        raise TranslateError("condition outside the accepted fragment: %s" % ast.unparse(e))

    def block(self, stmts, ret_kind):
        """-> Coq term for the statement list; every path must end in return / raise"""
        if not stmts:
            raise TranslateError("a path falls off the end of the function")
        s, rest = stmts[0], stmts[1:]
        if isinstance(s, ast.Expr) and isinstance(s.value, ast.Constant) and isinstance(s.value.value, str):
            return self.block(rest, ret_kind)
        if isinstance(s, ast.Global):
            return self.block(rest, ret_kind)
        if isinstance(s, ast.Return):
            if s.value is None:
                raise TranslateError("bare return")
            v = self.expr(s.value)
            if ret_kind == "res":
                return "Ok %s" % v
            return "(%s, (%s))" % (v, ", ".join(self.env[f] for f in self.fields))
        if isinstance(s, ast.Raise):
            if ret_kind != "res":
                raise TranslateError("raise in a method translated without an error result")
            exc = s.exc
            name = exc.func.id if isinstance(exc, ast.Call) and isinstance(exc.func, ast.Name) else (
                exc.id if isinstance(exc, ast.Name) else None)
            if name not in ERR:
                raise TranslateError("raise of %s" % ast.unparse(s))
            return "Err %s" % ERR[name]
        if isinstance(s, ast.Assign) and len(s.targets) == 1:
            t = s.targets[0]
            if isinstance(t, ast.Name):
                key = t.id
            elif isinstance(t, ast.Attribute) and isinstance(t.value, ast.Name) and t.value.id == "self":
                key = t.attr.lstrip("_")
                if key not in self.fields:
                    raise TranslateError("assignment to unknown field self.%s" % t.attr)
            else:
                raise TranslateError("assignment target %s" % ast.unparse(t))
            v = self.expr(s.value)
            name = self.var(key)
            saved = dict(self.env)
            self.env[key] = name
            body = self.block(rest, ret_kind)
            self.env = saved
            return "(let %s := %s in\n   %s)" % (name, v, body)
        if isinstance(s, ast.If):
            c = self.cond(s.test)
            saved = dict(self.env)
            a = self.block(list(s.body) + rest, ret_kind)
            self.env = dict(saved)
            b = self.block(list(s.orelse) + rest, ret_kind)
            self.env = saved
            return "(if %s then %s\n  else %s)" % (c, a, b)
        raise TranslateError("statement outside the accepted fragment: %s" % ast.unparse(s).split("\n")[0])


def _find(tree, name, cls=None):
    body = tree.body
    if cls is not None:
        cs = [n for n in body if isinstance(n, ast.ClassDef) and n.name == cls]
        if len(cs) != 1:
            raise TranslateError("class %s not found" % cls)
        body = cs[0].body
    fs = [n for n in body if isinstance(n, ast.FunctionDef) and n.name == name]
    if len(fs) != 1:
        raise TranslateError("function %s not found exactly once" % name)
    return fs[0]


def translate_function(src, name, coqname, consts=None, nonzero=None, upto=None):
    """upto: translate only the statements before the first `while` (the prelude of a function whose loop is modelled by
    hand); the prelude must then end by binding the names listed in `upto`, which are returned as a tuple"""
    f = _find(ast.parse(src), name)
    args = [a.arg for a in f.args.args]
    if f.args.vararg or f.args.kwarg or f.args.kwonlyargs or f.args.defaults:
        raise TranslateError("signature of %s" % name)
    tr = _Tr(consts, nonzero, None)
    for a in args:
        tr.env[a] = a
    body = list(f.body)
    if upto is not None:
        k = [i for i, s in enumerate(body) if isinstance(s, ast.While)]
        if len(k) != 1:
            raise TranslateError("%s: expected exactly one while loop" % name)
        body = body[:k[0]] + [ast.Return(value=ast.Tuple(elts=[ast.Name(id=n, ctx=ast.Load()) for n in upto], ctx=ast.Load()))]
        # a tuple return is rendered by hand below
        class _T(_Tr):
            def expr(self, e):
                if isinstance(e, ast.Tuple):
                    return "(" + ", ".join(_Tr.expr(self, x) for x in e.elts) + ")"
                return _Tr.expr(self, e)
        tr.__class__ = _T
        rty = "res (" + " * ".join("Z" for _ in upto) + ")"
    else:
        rty = "res Z"
    term = tr.block(body, "res")
    return "Definition %s (%s : Z) : %s :=\n  %s.\n" % (coqname, " ".join(args), rty, term)


def translate_method(src, cls, name, coqname, fields, consts=None, nonzero=None, init=False):
    """a method of `cls` reading / writing the integer fields self._<f>; init=True: __init__, every field must be assigned
    and the new fields are the result"""
    f = _find(ast.parse(src), name, cls)
    args = [a.arg for a in f.args.args]
    if not args or args[0] != "self" or f.args.vararg or f.args.kwarg or f.args.kwonlyargs or f.args.defaults:
        raise TranslateError("signature of %s.%s" % (cls, name))
    tr = _Tr(consts, nonzero, fields)
    for a in args[1:]:
        tr.env[a] = a
    if not init:
        for fl in fields:
            tr.env[fl] = fl
    body = list(f.body)
    if init:
        body = body + [ast.Return(value=ast.Constant(value=0))]
    term = tr.block(body, "state")
    params = ([] if init else list(fields)) + args[1:]
    return "Definition %s (%s : Z) : Z * (%s) :=\n  %s.\n" % (
        coqname, " ".join(params), " * ".join("Z" for _ in fields), term)


def translate_loop_accept(src, name, coqname, params, draw, consts=None, nonzero=None):
    """the rejection loop of `name`:  `while True:  x = <draw>;  if <test>: return <expr>`  (nothing else in the body, no
    else branch) -> Definition <coqname> (<params> x : Z) : option Z := if <test> then Some <expr> else None."""
    f = _find(ast.parse(src), name)
    ws = [s for s in f.body if isinstance(s, ast.While)]
    if len(ws) != 1 or f.body[-1] is not ws[0]:
        raise TranslateError("%s: expected one while loop, as the last statement" % name)
    w = ws[0]
    if not (isinstance(w.test, ast.Constant) and w.test.value is True) or w.orelse or len(w.body) != 2:
        raise TranslateError("%s: loop shape" % name)
    a, i = w.body
    if not (isinstance(a, ast.Assign) and len(a.targets) == 1 and isinstance(a.targets[0], ast.Name)
            and ast.unparse(a.value) == draw):
        raise TranslateError("%s: the loop must start with `x = %s`" % (name, draw))
    x = a.targets[0].id
    if not (isinstance(i, ast.If) and not i.orelse and len(i.body) == 1 and isinstance(i.body[0], ast.Return)
            and i.body[0].value is not None):
        raise TranslateError("%s: the loop must end with `if <test>: return <expr>`" % name)
    tr = _Tr(consts, nonzero, None)
    for p in list(params) + [x]:
        tr.env[p] = p
    return "Definition %s (%s : Z) : option Z :=\n  if %s then Some %s else None.\n" % (
        coqname, " ".join(list(params) + [x]), tr.cond(i.test), tr.expr(i.body[0].value))


HEADER = """(* GENERATED by harness/pyint_translate.py from %s - do not edit.
   Python ints -> Z; // and %% -> Z.div / Z.modulo (both floor); shifts / bit operators -> Z.shiftl / Z.shiftr / Z.land /
   Z.lor / Z.lxor; raise -> Err.  Divisors accepted as non-zero (by the path condition at that point): %s *)
From Coq Require Import ZArith Bool.
From Cspuz Require Import Lib.PyErr.
Open Scope Z_scope.

"""
