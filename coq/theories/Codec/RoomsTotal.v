(* Rooms.serialize is total on valid partitions (rooms and cells in any order), and the
   full round-trip statement for Rooms: CombRoundTrip.rooms_roundtrip_statement. *)
From Coq Require Import ZArith List Ascii Bool NArith Lia Sorting.Sorted Sorting.Permutation.
From Cspuz Require Import Lib.PyErr Codec.Comb Codec.CombWf Codec.CombBasics Codec.CombLeaf Codec.CombRoundTrip
  Codec.RoomsGrid Codec.RoomsFill Codec.RoomsProofs Codec.RoomsCanon.
Import ListNotations.
Local Open Scope Z_scope.

(* ------------------------------------------------------------------ Seq(MultiDigit(2, 5)) on 0/1 flags never fails *)
Definition bitv (v : pv) : Prop := v = VInt 0 \/ v = VInt 1.

Lemma md_ser_loop_bits : forall d l value, Forall bitv l -> 0 <= value ->
  exists v', md_ser_loop 2 d l value = Ok (Some v') /\ 0 <= v'.
Proof.
  induction d as [|d IH]; intros l value Hl Hv; cbn [md_ser_loop].
  - eauto.
  - destruct l as [|x t].
    + apply IH; auto. lia.
    + inversion Hl as [|? ? Hx Ht]; subst. destruct Hx as [-> | ->]; simpl; apply IH; auto; lia.
Qed.

Lemma in_skipn {A} (x : A) n l : In x (skipn n l) -> In x l.
Proof. intros H. rewrite <- (firstn_skipn n l). apply in_or_app. auto. Qed.

Lemma md25_ser_bits flat idx : Forall bitv flat -> (idx < length flat)%nat ->
  exists s, md_ser 2 5 (VList flat) idx = Ok (Some (Nat.min (length flat - idx) 5, s)).
Proof.
  intros Hb Hi. unfold md_ser, with_item. cbn [py_items].
  replace (Nat.eqb idx (length flat)) with false by (symmetry; apply Nat.eqb_neq; lia).
  unfold nth_res. destruct (nth_error flat idx) eqn:E; [|apply nth_error_None in E; lia].
  destruct (md_ser_loop_bits 5 (skipn idx flat) 0) as (v' & Hv & Hpos); [|lia|].
  { rewrite Forall_forall in *. intros x Hx. apply Hb. eapply in_skipn; eauto. }
  rewrite Hv. unfold to_base36. destruct (Z.ltb_spec v' 0); [lia|]. eexists; reflexivity.
Qed.

Lemma seq_md25_total flat : Forall bitv flat -> forall fuel nr acc,
  (nr <= length flat)%nat -> (length flat - nr <= fuel)%nat ->
  exists s, seq_ser_loop (md_ser 2 5) (Z.of_nat (length flat)) (VList flat) fuel nr acc = Ok (Some s).
Proof.
  intros Hb. induction fuel as [|f IH]; intros nr acc Hle Hf.
  - assert (nr = length flat) by lia. subst. cbn [seq_ser_loop]. rewrite Z.ltb_irrefl, Z.eqb_refl. eauto.
  - cbn [seq_ser_loop]. destruct (Z.ltb_spec (Z.of_nat nr) (Z.of_nat (length flat))) as [Hlt|Hge].
    + destruct (md25_ser_bits flat nr Hb ltac:(lia)) as (s & Hs). rewrite Hs.
      destruct (Nat.min (length flat - nr) 5) as [|k] eqn:Ek; [lia|]. apply IH; lia.
    + assert (nr = length flat) by lia. subst. rewrite Z.eqb_refl. eauto.
Qed.

Definition bitz (z : Z) : Prop := z = 0 \/ z = 1.

Lemma md25_grid_total e hh ww g : wfg hh ww g -> Forall (Forall bitz) g ->
  exists s, grid_ser (md_ser 2 5) e (Some (Z.of_nat hh, Z.of_nat ww)) (VList [VList (grid_to_pv_rows g)]) 0
            = Ok (Some (1%nat, s)).
Proof.
  intros [Hl Hr] Hb. unfold grid_ser. cbn [py_items length Nat.eqb nth_res nth_error grid_dims].
  rewrite Nat2Z.id.
  set (rows := map (map VInt) g).
  assert (Er : grid_to_pv_rows g = map VList rows) by (unfold grid_to_pv_rows, rows; rewrite map_map; reflexivity).
  rewrite Er. pose proof (grid_flatten_rows rows []) as Hfl. simpl in Hfl.
  assert (Hlr : length rows = hh) by (unfold rows; rewrite map_length; auto). rewrite Hlr in Hfl. rewrite Hfl.
  unfold seq_ser. cbn [py_items length Nat.eqb nth_res nth_error].
  assert (Hlen : Z.of_nat hh * Z.of_nat ww = Z.of_nat (length (concat rows))).
  { rewrite (concat_rows_length (Z.of_nat ww) rows); [rewrite Hlr; reflexivity|].
    unfold rows. rewrite Forall_forall in *. intros r Hin. apply in_map_iff in Hin as (r0 & E & Hin). subst.
    rewrite map_length. rewrite (Hr r0 Hin). reflexivity. }
  rewrite Hlen, Nat2Z.id.
  assert (Hbits : Forall bitv (concat rows)).
  { apply Forall_forall. intros v Hv. apply in_concat in Hv as (r & Hin & Hv). unfold rows in Hin.
    apply in_map_iff in Hin as (r0 & E & Hin). subst r. apply in_map_iff in Hv as (z & E & Hz). subst v.
    rewrite Forall_forall in Hb. specialize (Hb r0 Hin). rewrite Forall_forall in Hb.
    destruct (Hb z Hz) as [-> | ->]; [left|right]; reflexivity. }
  destruct (seq_md25_total (concat rows) Hbits (length (concat rows)) 0%nat []) as (s & Hs); try lia.
  rewrite Hs. eauto.
Qed.

Lemma mk_grid_bits H W f : (forall y x, bitz (f y x)) -> Forall (Forall bitz) (mk_grid H W f).
Proof.
  intros Hf. unfold mk_grid. apply Forall_forall. intros row Hin. apply in_map_iff in Hin as (y & E & _). subst.
  apply Forall_forall. intros z Hz. apply in_map_iff in Hz as (x & E & _). subst. apply Hf.
Qed.

(* every valid partition of the board serializes, whatever the order of rooms and cells *)
Theorem rooms_ser_total e skip rs : env_ok e -> valid_rooms (height e) (width e) rs ->
  exists s, rooms_ser e skip (VList [rooms_to_pv rs]) 0 = Ok (Some (1%nat, s)).
Proof.
  intros Henv Hv. pose proof Henv as [Hh Hw]. unfold rooms_ser.
  rewrite (rooms_ser_raw_valid e rs Henv Hv).
  set (H := Z.to_nat (height e)). set (W := Z.to_nat (width e)).
  assert (EH : height e = Z.of_nat H) by (unfold H; lia).
  assert (EW1 : width e - 1 = Z.of_nat (W - 1)) by (unfold W; lia).
  assert (EH1 : height e - 1 = Z.of_nat (H - 1)) by (unfold H; lia).
  assert (EW : width e = Z.of_nat W) by (unfold W; lia).
  assert (E1 : Some (height e, width e - 1) = Some (Z.of_nat H, Z.of_nat (W - 1))) by (rewrite EW1, <- EH; reflexivity).
  assert (E2 : Some (height e - 1, width e) = Some (Z.of_nat (H - 1), Z.of_nat W)) by (rewrite EH1, <- EW; reflexivity).
  rewrite E1, E2.
  destruct (md25_grid_total e H (W - 1) (vg H W (rid_of rs))) as (s1 & Hs1).
  { apply mk_grid_wfg. }
  { apply mk_grid_bits. intros y x. unfold vflag, bitz. destruct (_ =? _); auto. }
  destruct (md25_grid_total e (H - 1) W (hg H W (rid_of rs))) as (s2 & Hs2).
  { apply mk_grid_wfg. }
  { apply mk_grid_bits. intros y x. unfold hflag, bitz. destruct (_ =? _); auto. }
  rewrite Hs1, Hs2. simpl. eauto.
Qed.

Theorem rooms_serialize_total h w skip allow rs : 1 <= h -> 1 <= w -> valid_rooms h w rs ->
  exists s, serialize_problem (Rooms skip allow) (rooms_to_pv rs) h w = Ok s.
Proof.
  intros Hh Hw Hv. assert (Henv : env_ok (mk_env h w)) by (split; simpl; lia).
  destruct (rooms_ser_total (mk_env h w) skip rs Henv Hv) as (s & Hs).
  exists s. unfold serialize_problem. cbn [ser]. rewrite Hs. reflexivity.
Qed.

(* ------------------------------------------------------------------ the full statement for Rooms *)
Theorem rooms_roundtrip_proof : rooms_roundtrip_statement.
Proof.
  intros h w skip allow rs Hh Hw Hv.
  destruct (rooms_serialize_total h w skip allow rs Hh Hw Hv) as (s & Hs).
  assert (Eh : h = Z.of_nat (Z.to_nat h)) by lia. assert (Ew : w = Z.of_nat (Z.to_nat w)) by lia.
  assert (Hv' : valid_rooms (Z.of_nat (Z.to_nat h)) (Z.of_nat (Z.to_nat w)) rs) by (rewrite <- Eh, <- Ew; exact Hv).
  destruct (canon_rooms_spec (Z.to_nat h) (Z.to_nat w) rs Hv') as [Hcan Heq].
  rewrite <- Eh, <- Ew in Hcan, Heq.
  exists s, (canon_rooms h w rs). split; [exact Hs|]. split; [exact Hcan|]. split; [exact Heq|].
  exact (rooms_roundtrip_any_order h w skip allow rs (canon_rooms h w rs) s Hh Hw Hv Hcan Heq Hs).
Qed.

(* the hypotheses are satisfiable: a 2 x 2 board, two rooms listed against the canonical order *)
Example rooms_any_order_2x2 :
  let rs := [[(1, 1); (0, 1)]; [(1, 0); (0, 0)]]%nat in
  canon_rooms 2 2 rs = [[(0, 0); (1, 0)]; [(0, 1); (1, 1)]]%nat /\
  match serialize_problem (Rooms false false) (rooms_to_pv rs) 2 2 with
  | Ok s => deserialize_problem (Rooms false false) s 2 2 = Ok (Some (rooms_to_pv (canon_rooms 2 2 rs)))
  | Err _ => False
  end.
Proof. split; vm_compute; reflexivity. Qed.
