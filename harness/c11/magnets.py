"""C11 plug-in: magnets (solve_magnets(height, width, to_right, to_down, cond_row, cond_col)).

problem value: {"h", "w", "tr", "td", "cr", "cc"}: tr / td = to_right / to_down as h x w nested lists of 0/1 flags
(tr[y][x]: cells (y, x), (y, x+1) form a plate; td[y][x]: cells (y, x), (y+1, x)), cr = cond_row = h pairs
[plus, minus], cc = cond_col = w pairs; a negative clue = none.  Answer arrays: (plus, minus).

cspuz/puzzle/magnets.py needs the optional third-party package `svgwrite` only in emit_svg; since fix 'magnets imports
svgwrite optionally' the module imports without it (before, solve_magnets could not be imported where the package is
missing: exhibited by this plug-in as magnets:import)."""
import c11lib as L

NAME = "magnets"
MODULE = "cspuz.puzzle.magnets"
FUNC = "solve_magnets"
TIER1 = ("Magnets", "solve_magnets_model")


def call(mod, pb):
    return mod.solve_magnets(pb["h"], pb["w"], pb["tr"], pb["td"], pb["cr"], pb["cc"])


def ncand(pb):
    return 2 ** (2 * pb["h"] * pb["w"])


def encode(pb):
    return [[pb["h"], pb["w"]], [int(v) for v in L.flat(pb["tr"])], [int(v) for v in L.flat(pb["td"])],
            [c[0] for c in pb["cr"] if len(c) > 0], [c[1] for c in pb["cr"] if len(c) > 1],
            [c[0] for c in pb["cc"] if len(c) > 0], [c[1] for c in pb["cc"] if len(c) > 1]]


# ---------------------------------------------------------------- plate layouts

def _layout(h, w, plates):
    tr = [[0] * w for _ in range(h)]
    td = [[0] * w for _ in range(h)]
    for (a, b) in plates:
        if a[0] == b[0]:
            tr[a[0]][a[1]] = 1
        else:
            td[a[0]][a[1]] = 1
    return tr, td


def tilings(h, w, partial=False):
    """every division of the h x w board into dominoes, each as a list of plates ((y, x), (y2, x2));
    partial=True: cells may also stay outside every plate (layouts the published puzzle never uses)"""
    out = []

    def go(used, acc):
        free = [(y, x) for y in range(h) for x in range(w) if (y, x) not in used]
        if not free:
            out.append(list(acc))
            return
        c = free[0]
        y, x = c
        for d in ((y, x + 1), (y + 1, x)):
            if d[0] < h and d[1] < w and d not in used:
                go(used | {c, d}, acc + [(c, d)])
        if partial:
            go(used | {c}, acc)
    go(frozenset(), [])
    return out


def random_tiling(rng, h, w):
    """a random division into dominoes (h * w even): the flips of generate_magnets applied to a brick layout; for an
    odd area the last cell of the board stays outside every plate"""
    if h * w % 2 == 1:
        if h == 1:
            return random_tiling(rng, 1, w - 1) if w > 1 else []
        top = random_tiling(rng, h - 1, w)
        return top + [((h - 1, x), (h - 1, x + 1)) for x in range(0, w - 1, 2)]
    if w % 2 == 0:
        pl = {((y, x), (y, x + 1)) for y in range(h) for x in range(0, w, 2)}
    else:
        pl = {((y, x), (y + 1, x)) for y in range(0, h, 2) for x in range(w)}
    for _ in range(h * w * 6):
        y, x = rng.randrange(h), rng.randrange(w)
        if ((y, x), (y, x + 1)) in pl and ((y + 1, x), (y + 1, x + 1)) in pl:
            pl -= {((y, x), (y, x + 1)), ((y + 1, x), (y + 1, x + 1))}
            pl |= {((y, x), (y + 1, x)), ((y, x + 1), (y + 1, x + 1))}
        elif ((y, x), (y + 1, x)) in pl and ((y, x + 1), (y + 1, x + 1)) in pl:
            pl -= {((y, x), (y + 1, x)), ((y, x + 1), (y + 1, x + 1))}
            pl |= {((y, x), (y, x + 1)), ((y + 1, x), (y + 1, x + 1))}
    return sorted(pl)


def plant(rng, h, w, plates, p_blank=0.3):
    """a random grid obeying the rules for this layout: (plus, minus) as nested 0/1 lists"""
    pole = {}
    order = list(plates)
    rng.shuffle(order)

    def ok(c, s):
        return all(pole.get((c[0] + d[0], c[1] + d[1]), 0) != s for d in ((1, 0), (-1, 0), (0, 1), (0, -1)))
    for (a, b) in order:
        opts = [(0, 0)]
        for s in (1, -1):
            if ok(a, s) and ok(b, -s):
                opts.append((s, -s))
        ch = (0, 0) if rng.random() < p_blank else rng.choice(opts)
        pole[a], pole[b] = ch
    plus = [[1 if pole.get((y, x), 0) == 1 else 0 for x in range(w)] for y in range(h)]
    minus = [[1 if pole.get((y, x), 0) == -1 else 0 for x in range(w)] for y in range(h)]
    return plus, minus


def clues_of(rng, h, w, plus, minus, p_keep, p_off=0.0):
    def one(v, mx):
        if rng.random() >= p_keep:
            return -1
        if rng.random() < p_off:
            return rng.choice([0, v + 1, max(0, v - 1), (mx + 1) // 2, mx, mx + 1])
        return v
    cr = [[one(sum(plus[y]), w), one(sum(minus[y]), w)] for y in range(h)]
    cc = [[one(sum(plus[y][x] for y in range(h)), h), one(sum(minus[y][x] for y in range(h)), h)] for x in range(w)]
    return cr, cc


def _pb(h, w, plates, cr, cc, **more):
    tr, td = _layout(h, w, plates)
    d = {"h": h, "w": w, "tr": tr, "td": td, "cr": cr, "cc": cc}
    d.update(more)
    return d


def _random_pb(rng, h, w, plates, p_keep, p_off):
    plus, minus = plant(rng, h, w, plates, rng.choice([0.0, 0.2, 0.5]))
    cr, cc = clues_of(rng, h, w, plus, minus, p_keep, p_off)
    return _pb(h, w, plates, cr, cc)


def _all_clues(h, w, values):
    import itertools
    for t in itertools.product(values, repeat=2 * (h + w)):
        cr = [[t[2 * y], t[2 * y + 1]] for y in range(h)]
        cc = [[t[2 * h + 2 * x], t[2 * h + 2 * x + 1]] for x in range(w)]
        yield cr, cc


def _none(h, w):
    return [[-1, -1] for _ in range(h)], [[-1, -1] for _ in range(w)]


# ---------------------------------------------------------------- search families

def families(tier, rng):
    th = tier == "thorough"
    # 1x1 (no plate possible), 1x2 / 2x1: every clue layout over {none, 0, 1, 2} (sampled in the quick tier)
    for cr, cc in _all_clues(1, 1, [-1, 0, 1, 2]):
        yield _pb(1, 1, [], cr, cc)
    for (h, w) in [(1, 2), (2, 1)]:
        for pl in tilings(h, w, partial=True):
            cl = list(_all_clues(h, w, [-1, 0, 1]))
            for cr, cc in (cl if th else L.sample(rng, cl, 120)):
                yield _pb(h, w, pl, cr, cc)
            for cr, cc in L.sample(rng, list(_all_clues(h, w, [-1, 0, 1, 2, 3])), 60 if th else 15):
                yield _pb(h, w, pl, cr, cc)
    # every division of the small boards (and the layouts leaving cells outside every plate), no clue at all,
    # clues of a planted grid, perturbed clues (0, maximal, too large)
    # (3x3 has 2^18 candidate grids: enumerated in the thorough tier only)
    for (h, w) in [(1, 3), (3, 1), (2, 2), (1, 4), (4, 1), (2, 3), (3, 2), (2, 4), (4, 2), (1, 6)] + ([(3, 3)] if th else []):
        if h * w > 8:
            lays = L.sample(rng, tilings(h, w, partial=True), 3)
        else:
            lays = tilings(h, w) + L.sample(rng, tilings(h, w, partial=True), 12 if th else 4)
        for pl in lays:
            cr, cc = _none(h, w)
            if h * w <= 6:
                yield _pb(h, w, pl, cr, cc)
            for _ in range(12 if th else 3):
                yield _random_pb(rng, h, w, pl, rng.choice([0.3, 0.6, 1.0]), 0.0)
            for _ in range(12 if th else 3):
                yield _random_pb(rng, h, w, pl, rng.choice([0.3, 0.6, 1.0]), 0.35)
    # flags given as other truthy values
    for _ in range(6 if th else 2):
        pb = _random_pb(rng, 2, 3, rng.choice(tilings(2, 3)), 0.5, 0.2)
        pb["tr"] = [[(2 if v else 0) for v in r] for r in pb["tr"]]
        pb["td"] = [[(-1 if v else 0) for v in r] for r in pb["td"]]
        yield pb


def tier2(tier, rng):
    th = tier == "thorough"
    yield _pb(1, 1, [], [[-1, 0]], [[1, -1]])
    yield _pb(1, 1, [], [[-1, -1]], [[-1, -1]])
    for (h, w) in [(1, 2), (2, 1), (2, 2), (1, 4), (2, 3), (3, 2)]:
        lays = tilings(h, w)
        for pl in (lays if th else L.sample(rng, lays, 2)):
            yield _random_pb(rng, h, w, pl, 0.6, 0.2)
            if th:
                cr, cc = _none(h, w)
                yield _pb(h, w, pl, cr, cc)
    for pl in L.sample(rng, tilings(2, 2, partial=True), 6 if th else 2):
        yield _random_pb(rng, 2, 2, pl, 0.6, 0.2)


# ---------------------------------------------------------------- Tier 1: program capture

def tier1_problems(tier, rng):
    """program-capture tie: every layout (divisions and partial layouts) of the boards with at most 6 cells with
    sampled clue vectors over {none, 0, 1, 2, too large}; random divisions of larger and non-square boards (up to 8x8,
    1xN, Nx1) with clues at and beyond the boundaries; empty boards; malformed problems (a flag in the last column /
    last row, clue lists too short, flag lists too short: IndexError)"""
    th = tier == "thorough"
    for cr, cc in _all_clues(1, 1, [-1, 0, 1, 2]):
        yield _pb(1, 1, [], cr, cc)
    for (h, w) in [(1, 2), (2, 1), (1, 3), (3, 1), (2, 2), (1, 4), (4, 1), (2, 3), (3, 2), (1, 5), (1, 6), (6, 1)]:
        for pl in tilings(h, w, partial=True):
            for _ in range(6 if th else 2):
                v = lambda mx: rng.choice([-1, -1, -2, 0, 1, 2, mx, mx + 1])  # noqa
                yield _pb(h, w, pl, [[v(w), v(w)] for _ in range(h)], [[v(h), v(h)] for _ in range(w)])
    for (h, w) in [(3, 3), (2, 5), (5, 2), (4, 4), (3, 6), (6, 5), (5, 5), (1, 7), (7, 1), (1, 8), (7, 7), (8, 8), (4, 9)]:
        for p in [0.0, 0.4, 0.8, 1.0] * (3 if th else 1):
            yield _random_pb(rng, h, w, random_tiling(rng, h, w), p, 0.3)
        cr, cc = _none(h, w)
        yield _pb(h, w, [], cr, cc)
    for (h, w) in [(0, 0), (0, 2), (2, 0), (0, 1), (1, 0)]:
        yield {"h": h, "w": w, "tr": [[] for _ in range(h)], "td": [[] for _ in range(h)],
               "cr": [[rng.choice([-1, 0, 1]), rng.choice([-1, 0, 1])] for _ in range(h)],
               "cc": [[rng.choice([-1, 0, 1]), rng.choice([-1, 0, 1])] for _ in range(w)]}
    # truthy flags other than 1
    pb = _random_pb(rng, 3, 4, random_tiling(rng, 3, 4), 0.5, 0.2)
    pb["tr"] = [[(2 if v else 0) for v in r] for r in pb["tr"]]
    pb["td"] = [[(-1 if v else 0) for v in r] for r in pb["td"]]
    yield pb
    # malformed: the partner cell of a plate lies outside the board
    for (h, w) in [(1, 1), (1, 2), (2, 2), (3, 4)]:
        for _ in range(3):
            pb = _random_pb(rng, h, w, random_tiling(rng, h, w), 0.5, 0.0)
            if rng.random() < 0.5:
                pb["tr"][rng.randrange(h)][w - 1] = 1
            else:
                pb["td"][h - 1][rng.randrange(w)] = 1
            yield pb
    # malformed: lists too short
    pb = _random_pb(rng, 2, 3, random_tiling(rng, 2, 3), 0.5, 0.0)
    yield dict(pb, cr=pb["cr"][:1])
    yield dict(pb, cc=pb["cc"][:2])
    yield dict(pb, cr=[pb["cr"][0], pb["cr"][1][:1]])
    yield dict(pb, cc=[pb["cc"][0], pb["cc"][1], []])
    yield dict(pb, tr=pb["tr"][:1])
    yield dict(pb, td=pb["td"][:1])
    yield dict(pb, cr=[], cc=[])


# ---------------------------------------------------------------- boards too large for the enumeration

def big(tier, rng):
    """long thin boards (1xN, 2xN, Nx1, Nx2) and 5x6 .. 8x8 boards divided at random, clues = the counts of a planted
    grid (two-digit counts on the long boards); every grid the solver admits (capped) must obey the rules, the planted
    grid must be admitted"""
    th = tier == "thorough"
    shapes = [(1, rng.choice(L.LONG)), (rng.choice(L.LONG), 1), (2, rng.choice(L.LONG)), (rng.choice(L.LONG), 2),
              (5, 6), (6, 6), (8, 8)]
    if th:
        shapes += [(1, 24), (24, 1), (2, 25), (3, 20), (6, 7), (7, 8), (8, 8)]
    for (h, w) in shapes:
        pl = random_tiling(rng, h, w)
        plus, minus = plant(rng, h, w, pl, 0.05 if min(h, w) <= 2 else 0.2)
        cr, cc = clues_of(rng, h, w, plus, minus, rng.choice([0.6, 0.8, 1.0]))
        yield _pb(h, w, pl, cr, cc, planted=[L.flat(plus) + L.flat(minus)])
