(* C11 Tier 1 - model of cspuz/puzzle/putteria.py::solve_putteria, all board shapes:
       has_number = solver.bool_array((height, width)); solver.add_answer_key(has_number)
       ensure((~has_number[:, :-1]) | (~has_number[:, 1:]))
       ensure((~has_number[:-1, :]) | (~has_number[1:, :]))
       for block in blocks: ensure(count_true(has_number[block]) == 1)
       block_size[y][x] = len(block containing (y, x))
       for y: for x1: for x2 in range(x1 + 1, width):
           if block_size[y][x1] == block_size[y][x2]: ensure(~(has_number[y, x1] & has_number[y, x2]))
       for x: for y1: for y2 in range(y1 + 1, height): (the same along the column)
   The problem uses the encoding of Rules_putteria.v ([[h; w]; region ids]); block i
   is the list of the cells with region id i in row-major order.  No proofs here. *)
From Coq Require Import ZArith List Bool Arith.
From Cspuz Require Import Lib.PyErr Core.Expr Core.Program Puzzle.PuzzleBase Puzzle.ModelBase
     Puzzle.Rules_norinori Puzzle.Norinori.
Import ListNotations.
Local Open Scope nat_scope.

Definition not_both (i j : nat) : expr := BNode OR [BNode NOT [BVar i]; BNode NOT [BVar j]].
Definition nand (i j : nat) : expr := BNode NOT [BNode AND [BVar i; BVar j]].

Definition putteria_size (h w : nat) (region : list Z) (c : nat * nat) : nat :=
  count (fun '(y', x') => (at2 region w y' x' =? at2 region w (fst c) (snd c))%Z) (cells h w).

Definition putteria_constraints (h w : nat) (region : list Z) : list expr :=
  let size := putteria_size h w region in
  map (fun '(y, x) => not_both (cidx w (y, x)) (cidx w (y, S x))) (cells h (w - 1)) ++
  map (fun '(y, x) => not_both (cidx w (y, x)) (cidx w (S y, x))) (cells (h - 1) w) ++
  map (fun i => BNode EQ [ct_vars (map (cidx w) (region_cells h w region i)); PyInt 1])
      (seq 0 (n_regions region)) ++
  flat_map (fun y => flat_map (fun x1 => flat_map (fun x2 =>
      if Nat.eqb (size (y, x1)) (size (y, x2)) then [nand (cidx w (y, x1)) (cidx w (y, x2))] else [])
      (seq (S x1) (w - S x1))) (seq 0 w)) (seq 0 h) ++
  flat_map (fun x => flat_map (fun y1 => flat_map (fun y2 =>
      if Nat.eqb (size (y1, x)) (size (y2, x)) then [nand (cidx w (y1, x)) (cidx w (y2, x))] else [])
      (seq (S y1) (h - S y1))) (seq 0 h)) (seq 0 w).

Definition solve_putteria_model (pb : problem) : res state :=
  let h := dim pb 0 in let w := dim pb 1 in
  Ok (bool_grid_state (h * w) (putteria_constraints h w (sec pb 1))).
