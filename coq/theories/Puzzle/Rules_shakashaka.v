(* C11 rule specification - Shakashaka.
   Published rules (Nikoli, "Shakashaka"):
     1. Place black right-angled isosceles triangles (half cells, four
        orientations) in some of the white cells.
     2. A number in a black cell is the number of triangles in the cells
        orthogonally adjacent to it.
     3. Every white area left uncovered must be a rectangle (squares included),
        upright or standing at 45 degrees.

   problem = [[h; w]; grid]   per cell: < -1 white cell, -1 black cell without number, n >= 0 black cell with n
   answer  = h*w values row-major: 0 no triangle, otherwise the corner holding the right angle:
             1 upper left, 2 lower left, 3 lower right, 4 upper right

   Geometry used by the executable check: every cell is cut by its two diagonals
   into four quarter triangles N, E, S, W (0..3).  A triangle piece covers the two
   quarters at its right-angle corner; a black cell covers all four.  White
   quarters are joined inside a cell when they share a half diagonal and across
   cells through the shared side.  A connected white area is a rectangle exactly
   when it fills its bounding box, taken either along the grid axes or along the
   diagonals (coordinates doubled so that cell centres are integral; a quarter has
   area 1; the diagonal frame (x+y, x-y) doubles areas). *)
From Coq Require Import ZArith List Bool Arith.
From Cspuz Require Import Graph.GraphModel Puzzle.PuzzleBase.
Import ListNotations.

(* quarters covered by a piece *)
Definition covers (t : Z) (q : nat) : bool :=
  match t, q with
  | 1%Z, 0 | 1%Z, 3 => true        (* upper left: N, W *)
  | 2%Z, 3 | 2%Z, 2 => true        (* lower left: W, S *)
  | 3%Z, 2 | 3%Z, 1 => true        (* lower right: S, E *)
  | 4%Z, 0 | 4%Z, 1 => true        (* upper right: N, E *)
  | _, _ => false
  end.

Definition quarter_graph (h w : nat) : graph :=
  {| nv := 4 * (h * w);
     edges := flat_map (fun '(y, x) =>
                let c := 4 * (y * w + x) in
                [(c, c + 1); (c + 1, c + 2); (c + 2, c + 3); (c + 3, c)] ++
                (if Nat.ltb (S y) h then [(c + 2, 4 * (S y * w + x))] else []) ++
                (if Nat.ltb (S x) w then [(c + 1, 4 * (y * w + S x) + 3)] else [])) (cells h w) |}.

(* corner points (doubled coordinates) of quarter q of cell (y, x) *)
Definition quarter_points (y x q : nat) : list (nat * nat) :=
  let X := 2 * x in let Y := 2 * y in
  let c := (X + 1, Y + 1) in
  match q with
  | 0 => [(X, Y); (X + 2, Y); c]
  | 1 => [(X + 2, Y); (X + 2, Y + 2); c]
  | 2 => [(X, Y + 2); (X + 2, Y + 2); c]
  | _ => [(X, Y); (X, Y + 2); c]
  end.

Definition span (l : list nat) : nat :=
  match l with [] => 0 | a :: r => fold_right Nat.max a r - fold_right Nat.min a r end.

Definition is_rectangle (h w : nat) (quarters : list nat) : bool :=
  let pts := flat_map (fun n => let cell := Nat.div n 4 in
                                quarter_points (Nat.div cell w) (Nat.modulo cell w) (Nat.modulo n 4)) quarters in
  let area := length quarters in
  Nat.eqb (span (map fst pts) * span (map snd pts)) area ||
  Nat.eqb (span (map (fun '(X, Y) => X + Y) pts) * span (map (fun '(X, Y) => X + 2 * h - Y) pts)) (2 * area).

Definition rules_shakashaka (pb : problem) (ans : answer) : bool :=
  let h := dim pb 0 in let w := dim pb 1 in
  let grid := sec pb 1 in
  let white_cell := fun v => (getz grid v <? -1)%Z in
  let white_quarter := fun n => let v := Nat.div n 4 in white_cell v && negb (covers (getz ans v) (Nat.modulo n 4)) in
  let g := quarter_graph h w in
  Nat.eqb (length ans) (h * w) &&
  forallb (fun v => ((0 <=? v) && (v <=? 4))%Z) ans &&
  forallb (fun '(y, x) =>
     let v := y * w + x in
     white_cell v ||
     ((getz ans v =? 0)%Z &&
      let c := getz grid v in
      ((c <? 0)%Z || (zcount (fun '(y', x') => negb (at2 ans w y' x' =? 0)%Z) (nbr4 h w y x) =? c)%Z))) (cells h w) &&
  forallb (fun n => negb (white_quarter n) ||
                    is_rectangle h w (component g white_quarter all_edges_ok n)) (seq 0 (4 * (h * w))).

(* candidates: pieces only in white cells (rule 1) *)
Definition answers_shakashaka (pb : problem) : list answer :=
  all_answers (map (fun c => if (c <? -1)%Z then (0%Z, 4%Z) else (0%Z, 0%Z)) (sec pb 1)).
