"""C05 — division_connected holds exactly for labelings whose classes are connected."""
import itertools

import exprio
import graphcap
import vlib

PROPS = "Props/C05.v"
RULE = ("tie P: the program really posted by cspuz.graph._division_connected / division_connected (recording = the "
        "plain Solver; declarations, keys and constraints in posting order) must equal the program of the extracted "
        "Coq model post_division / division_connected on the same (graph, labels, num_regions, roots, "
        "allow_empty_group, use_graph_primitive, prior solver state); errors compared by class.  search: for every "
        "labeling, satisfiability of the really posted program (z3 through an independent tree->z3 converter; "
        "GRAPH_ACTIVE_VERTICES_CONNECTED nodes evaluated by their specification on every z3 model of the rest) "
        "vs an independent Python oracle (classes connected, labels used, roots).  A case is non-trivial when it "
        "is a distinct (function, graph, options, label form, roots) tuple / a distinct (graph, options, labeling).")
TRUSTED = [
    "meaning of Op.GRAPH_ACTIVE_VERTICES_CONNECTED is *defined* as connectivity of the active vertices (Graph/Division.v avc_sem = connected_b on the decoded operands); the external solver implementing it is trusted",
    "Core/Expr.v eval as the ordinary meaning of the expression trees (cross-checked on every sampled z3 model: kind 'eval-vs-z3model')",
    "graph-theoretic definitions reach/connected of Graph/GraphModel.v (validated against an independent Python flood fill: kind 'spec-vs-oracle')",
    "harness tree->z3 converter of pC05.py (search only)",
]
ASSUMPTIONS = [
    "graph endpoints lie in [0, num_vertices) (Graph.add_edge raises otherwise or wraps negative ids)",
    "label entries are IntExprLike (IntExpr / IntVar / int, not bool); roots entries are None, int (not bool) or tuples of ints",
    "num_regions is a non-negative int; grid roots (y, x) lie inside the grid (division_connected does not check that)",
]

ERR = {1: "IndexError", 2: "KeyError", 3: "AssertionError", 4: "TypeError", 5: "ValueError",
       6: "RecursionError", 7: "NotImplementedError", 8: "Other"}


# ---------------------------------------------------------------- building a call

def build_labels(s, recipe):
    """declare the caller's variables on solver s following `recipe`; returns the
    list of label entries (IntExprLike)."""
    out = []
    for it in recipe:
        k = it[0]
        if k == "pre":            # unrelated earlier declarations / constraints of the caller
            bs = [s.bool_var() for _ in range(it[1])]
            if len(bs) >= 2:
                s.ensure(bs[0] | ~bs[1])
        elif k == "var":
            out.append(s.int_var(it[1], it[2]))
        elif k == "int":
            out.append(it[1])
        elif k == "plus":
            out.append(s.int_var(it[1], it[2]) + it[3])
        elif k == "rplus":
            out.append(it[3] + s.int_var(it[1], it[2]))
        elif k == "sub":
            a = s.int_var(it[1], it[2])
            b = s.int_var(it[1], it[2])
            out.append(a - b)
        elif k == "cond":
            out.append(s.bool_var().cond(it[1], it[2]))
        elif k == "neg":
            out.append(-s.int_var(it[1], it[2]))
        else:
            raise RuntimeError("recipe " + repr(it))
    return out


def gen_recipe(rng, n_labels, R, form):
    hi = max(R - 1, 0)
    rec = []
    if rng.random() < 0.3:
        rec.append(("pre", rng.randint(1, 3)))
    for v in range(n_labels):
        if form == "vars":
            rec.append(("var", 0, hi))
        elif form == "wide":
            rec.append(("var", -1, R))
        elif form == "ints":
            rec.append(("int", rng.randint(0, hi) if rng.random() < 0.85 else rng.choice([-1, R, R + 1])))
        elif form == "mixed":
            if rng.random() < 0.5:
                rec.append(("var", 0, hi))
            else:
                rec.append(("int", rng.randint(0, hi)))
        else:  # exprs
            c = rng.randrange(7)
            if c == 0:
                rec.append(("var", 0, hi))
            elif c == 1:
                rec.append(("int", rng.randint(0, hi)))
            elif c == 2:
                rec.append(("plus", -1, hi, rng.randint(0, 1)))
            elif c == 3:
                rec.append(("rplus", 0, hi, rng.randint(-1, 1)))
            elif c == 4:
                rec.append(("sub", 0, hi))
            elif c == 5:
                rec.append(("cond", rng.randint(0, hi), rng.randint(0, hi)))
            else:
                rec.append(("neg", -hi, 0))
    return rec


def gen_roots(rng, n, R, malformed=False):
    """roots for the explicit-graph form"""
    c = rng.random()
    if c < 0.35:
        return None
    ln = R
    if rng.random() < 0.25:
        ln = rng.choice([0, max(R - 1, 0), R + 1])
    out = []
    for _ in range(ln):
        c = rng.random()
        if c < 0.35 or n == 0:
            out.append(None)
        elif c < 0.8:
            out.append(rng.randrange(n))
        elif c < 0.9:
            out.append(-1 - rng.randrange(n))
        elif malformed:
            out.append(rng.choice([n, -n - 1, n + 3, (0, 0), (0,), ()]))
        else:
            out.append(rng.randrange(n))
    return out


def gen_grid_roots(rng, h, w, R, malformed=False):
    c = rng.random()
    if c < 0.3:
        return None
    ln = R if rng.random() < 0.75 else rng.choice([0, max(R - 1, 0), R + 1])
    out = []
    for _ in range(ln):
        c = rng.random()
        if c < 0.3:
            out.append(None)
        elif c < 0.9 or not malformed:
            out.append((rng.randrange(h), rng.randrange(w)))
        else:
            out.append(rng.choice([0, h * w - 1, (0, 0, 0), (0,), (h, w), (-1, 0), (0, -1), (h - 1, w)]))
    return out


def roots_tok(roots):
    if roots is None:
        return "N"
    t = ["R", str(len(roots))]
    for r in roots:
        if r is None:
            t.append("_")
        elif isinstance(r, tuple):
            t.append("t %d %s" % (len(r), " ".join(str(x) for x in r)))
        else:
            t.append("i %d" % r)
    return " ".join(t)


def parse_reply(r):
    if r.startswith("OK "):
        return ("ok", r[3:])
    if r.startswith("E "):
        return ("err", ERR[int(r.split()[1])])
    raise RuntimeError("bad model reply " + r[:200])


def mk_division(labels, kind, h=None, w=None):
    from cspuz.array import IntArray1D, IntArray2D
    if kind == "L":
        return list(labels)
    if kind == "T":
        return tuple(labels)
    if kind == "A":
        return IntArray1D(labels)
    return IntArray2D(labels, (h, w))


class cfg_primitive:
    """temporarily set cspuz.configuration.config.use_graph_primitive"""

    def __init__(self, val):
        self.val = val

    def __enter__(self):
        from cspuz.configuration import config
        self.config = config
        self.old = config.use_graph_primitive
        config.use_graph_primitive = self.val

    def __exit__(self, *a):
        self.config.use_graph_primitive = self.old


def run_private(case):
    """real _division_connected on a fresh Solver; returns (before_state, outcome)"""
    from cspuz import Solver
    from cspuz.graph import _division_connected
    s = Solver()
    labels = build_labels(s, case["recipe"])
    before = exprio.show_state(s)
    ltxt = exprio.show_list(labels)
    g = graphcap.mk_graph(case["n"], case["edges"])
    div = mk_division(labels, case["kind"])

    def call():
        if case.get("via_config"):
            with cfg_primitive(case["prim"]):
                _division_connected(s, div, case["R"], g, roots=case["roots"], allow_empty_group=case["aeg"])
        else:
            _division_connected(s, div, case["R"], g, roots=case["roots"], allow_empty_group=case["aeg"],
                                use_graph_primitive=case["prim"])
        return exprio.show_state(s)
    return before, ltxt, vlib.guarded(call), s, labels


def req_private(case, before, ltxt):
    return "P %d %d %d %s %s %s %s %s" % (
        case["prim"], case["aeg"], case["R"], "A" if case["kind"] == "A" else "L",
        graphcap.graph_tok(case["n"], case["edges"]), ltxt, roots_tok(case["roots"]), before)


def run_wrapper(case):
    from cspuz import Solver
    from cspuz.graph import division_connected
    s = Solver()
    labels = build_labels(s, case["recipe"])
    before = exprio.show_state(s)
    ltxt = exprio.show_list(labels)
    div = mk_division(labels, case["kind"], case.get("h"), case.get("w"))
    g = None if case["n"] is None else graphcap.mk_graph(case["n"], case["edges"])

    def call():
        with cfg_primitive(case["prim"]):
            if g is None:
                division_connected(s, div, case["R"], roots=case["roots"], allow_empty_group=case["aeg"])
            else:
                division_connected(s, div, case["R"], g, roots=case["roots"], allow_empty_group=case["aeg"])
        return exprio.show_state(s)
    return before, ltxt, vlib.guarded(call), s, labels


def req_wrapper(case, before, ltxt):
    if case["kind"] == "G":
        d = "G %d %d %s" % (case["h"], case["w"], ltxt)
    else:
        d = "%s %s" % ("A" if case["kind"] == "A" else "L", ltxt)
    g = "N" if case["n"] is None else "G " + graphcap.graph_tok(case["n"], case["edges"])
    return "W %d %d %d %s %s %s %s" % (case["prim"], case["aeg"], case["R"], d, g, roots_tok(case["roots"]), before)


def case_key(case):
    return (case["fn"], case.get("n"), tuple(case.get("edges") or ()), case.get("h"), case.get("w"), case["kind"],
            case["R"], case["aeg"], case["prim"], case.get("via_config", False),
            repr(case["roots"]), repr(case["recipe"]))


# ---------------------------------------------------------------- correspondence cases

FORMS = ["vars", "vars", "ints", "mixed", "exprs", "wide"]


def gen_corr_cases(ctx):
    rng = ctx.rng
    # (1) exhaustive small multigraphs x num_regions x allow_empty_group x encodings x roots forms
    graphs = list(graphcap.all_multigraphs(4, 4))
    graphs += [(n, es) for (n, es) in graphcap.all_multigraphs(3, 3, loops=True) if any(a == b for a, b in es)]
    for (n, es) in graphs:
        for R in (1, 2, 3):
            for aeg in (False, True):
                for prim in (False, True):
                    if not ctx.thorough and n == 4 and len(es) >= 3 and rng.random() < 0.5:
                        continue
                    form = rng.choice(FORMS)
                    kind = rng.choice(["A", "A", "L", "T"])
                    yield {"fn": "P", "n": n, "edges": es, "R": R, "aeg": aeg, "prim": prim, "kind": kind,
                           "via_config": rng.random() < 0.2, "roots": gen_roots(rng, n, R),
                           "recipe": gen_recipe(rng, n, R, form), "src": "exh"}
    # (2) random larger multigraphs (loops and parallel edges included)
    for _ in range(600 if ctx.thorough else 150):
        n, es = graphcap.random_multigraph(rng, 9, loops=rng.random() < 0.3)
        R = rng.choice([1, 2, 3, 4, 5])
        yield {"fn": "P", "n": n, "edges": es, "R": R, "aeg": rng.random() < 0.5, "prim": rng.random() < 0.5,
               "kind": rng.choice(["A", "L", "T"]), "via_config": rng.random() < 0.2,
               "roots": gen_roots(rng, n, R), "recipe": gen_recipe(rng, n, R, rng.choice(FORMS)), "src": "rand"}
    # (3) public wrapper: grids
    for (h, w) in graphcap.grid_shapes(16 if ctx.thorough else 12):
        for R in (1, 2, 3):
            for prim in (False, True):
                yield {"fn": "W", "n": None, "edges": None, "h": h, "w": w, "kind": "G", "R": R,
                       "aeg": rng.random() < 0.5, "prim": prim, "roots": gen_grid_roots(rng, h, w, R),
                       "recipe": gen_recipe(rng, h * w, R, rng.choice(FORMS)), "src": "grid"}
    # (4) public wrapper: explicit graphs
    for _ in range(120 if ctx.thorough else 40):
        n, es = graphcap.random_multigraph(rng, 6)
        R = rng.choice([1, 2, 3])
        yield {"fn": "W", "n": n, "edges": es, "kind": rng.choice(["A", "L"]), "R": R, "aeg": rng.random() < 0.5,
               "prim": rng.random() < 0.5, "roots": gen_roots(rng, n, R),
               "recipe": gen_recipe(rng, n, R, rng.choice(FORMS)), "src": "wrap-graph"}
    # (5) malformed stream: wrong lengths, 0 vertices, num_regions 0, bad roots, wrong argument combinations
    for _ in range(400 if ctx.thorough else 120):
        c = rng.randrange(8)
        if c == 0:      # labels shorter / longer than the graph
            n, es = graphcap.random_multigraph(rng, 5)
            nl = max(0, n + rng.choice([-2, -1, 1, 2]))
            R = rng.choice([1, 2, 3])
            yield {"fn": "P", "n": n, "edges": es, "R": R, "aeg": rng.random() < 0.5, "prim": rng.random() < 0.5,
                   "kind": rng.choice(["A", "L"]), "roots": gen_roots(rng, min(n, nl), R),
                   "recipe": gen_recipe(rng, nl, R, "vars"), "src": "mal-len"}
        elif c == 1:    # no vertices
            R = rng.choice([0, 1, 2])
            yield {"fn": "P", "n": 0, "edges": [], "R": R, "aeg": rng.random() < 0.5, "prim": rng.random() < 0.5,
                   "kind": rng.choice(["A", "L"]), "roots": rng.choice([None, [], [None], [0]]),
                   "recipe": [], "src": "mal-n0"}
        elif c == 2:    # num_regions = 0
            n, es = graphcap.random_multigraph(rng, 4)
            yield {"fn": "P", "n": n, "edges": es, "R": 0, "aeg": rng.random() < 0.5, "prim": rng.random() < 0.5,
                   "kind": rng.choice(["A", "L"]), "roots": rng.choice([None, [], [0], [None, 0]]),
                   "recipe": gen_recipe(rng, n, 1, "vars"), "src": "mal-R0"}
        elif c in (3, 4):    # bad roots entries (explicit graph)
            n, es = graphcap.random_multigraph(rng, 5)
            R = rng.choice([1, 2, 3])
            yield {"fn": "P", "n": n, "edges": es, "R": R, "aeg": rng.random() < 0.5, "prim": rng.random() < 0.5,
                   "kind": rng.choice(["A", "L"]), "roots": gen_roots(rng, n, R, malformed=True) or [n],
                   "recipe": gen_recipe(rng, n, R, rng.choice(FORMS)), "src": "mal-roots"}
        elif c == 5:    # bad roots entries (grid)
            h, w = rng.choice(list(graphcap.grid_shapes(9)))
            R = rng.choice([1, 2, 3])
            yield {"fn": "W", "n": None, "edges": None, "h": h, "w": w, "kind": "G", "R": R,
                   "aeg": rng.random() < 0.5, "prim": rng.random() < 0.5,
                   "roots": gen_grid_roots(rng, h, w, R, malformed=True) or [0],
                   "recipe": gen_recipe(rng, h * w, R, "vars"), "src": "mal-gridroots"}
        elif c == 6:    # graph omitted for a sequence
            n = rng.randint(1, 4)
            yield {"fn": "W", "n": None, "edges": None, "kind": rng.choice(["A", "L"]), "R": 1, "aeg": False,
                   "prim": rng.random() < 0.5, "roots": None, "recipe": gen_recipe(rng, n, 1, "vars"),
                   "src": "mal-nograph"}
        else:           # graph given together with an IntArray2D
            h, w = rng.choice(list(graphcap.grid_shapes(6)))
            yield {"fn": "W", "n": h * w, "edges": graphcap.grid_edges(h, w), "h": h, "w": w, "kind": "G", "R": 2,
                   "aeg": False, "prim": rng.random() < 0.5, "roots": None,
                   "recipe": gen_recipe(rng, h * w, 2, "vars"), "src": "mal-2dgraph"}


def correspond(ctx):
    m = ctx.model("C05")
    cases, reqs, impl = [], [], []
    for case in gen_corr_cases(ctx):
        if case["fn"] == "P":
            before, ltxt, out, _, _ = run_private(case)
            reqs.append(req_private(case, before, ltxt))
        else:
            before, ltxt, out, _, _ = run_wrapper(case)
            reqs.append(req_wrapper(case, before, ltxt))
        cases.append(case)
        impl.append(out)
    outs = m.batch(reqs)
    for case, o, io in zip(cases, outs, impl):
        mo = parse_reply(o)
        ctx.count("src:" + case["src"])
        ctx.count("route:" + ("primitive" if case["prim"] else "aux"))
        ctx.count("outcome:" + (io[0] if io[0] == "ok" else io[1]))
        ctx.corr("program:" + case["fn"], case_key(case), mo, io)
    # the grid graph itself (also part of C04's tie; cheap)
    for (h, w) in graphcap.grid_shapes(12):
        from cspuz.graph import _grid_graph
        g = _grid_graph(h, w)
        io = "%d %s" % (g.num_vertices, " ".join("%d %d" % e for e in g.edges))
        ctx.corr("grid_graph", (h, w), m.call("GG %d %d" % (h, w)).strip(), io.strip())


# ---------------------------------------------------------------- search

def oracle(n, edges, R, labels, roots, aeg):
    """the property's right-hand side, in plain Python (independent of cspuz and of the Coq model)"""
    for k in range(R):
        act = [labels[v] == k for v in range(n)]
        if not graphcap.is_connected(n, edges, act):
            return False
        if not aeg and not any(act):
            return False
    if roots is not None:
        for k, r in enumerate(roots):
            if r is not None and labels[r] != k:
                return False
    return True


def to_z3(e, zv, z3):
    from cspuz.expr import BoolVar, IntVar, Op
    if isinstance(e, bool):
        return z3.BoolVal(e)
    if isinstance(e, int):
        return z3.IntVal(e)
    if isinstance(e, (BoolVar, IntVar)):
        return zv[e.id]
    a = [to_z3(x, zv, z3) for x in e.operands]
    o = e.op
    if o in (Op.BOOL_CONSTANT, Op.INT_CONSTANT):
        return a[0]
    if o == Op.NEG:
        return -a[0]
    if o == Op.ADD:
        return z3.Sum(a)
    if o == Op.SUB:
        r = a[0]
        for x in a[1:]:
            r = r - x
        return r
    if o == Op.EQ:
        return a[0] == a[1]
    if o == Op.NE:
        return a[0] != a[1]
    if o == Op.LE:
        return a[0] <= a[1]
    if o == Op.LT:
        return a[0] < a[1]
    if o == Op.GE:
        return a[0] >= a[1]
    if o == Op.GT:
        return a[0] > a[1]
    if o == Op.NOT:
        return z3.Not(a[0])
    if o == Op.AND:
        return z3.And(a) if a else z3.BoolVal(True)
    if o == Op.OR:
        return z3.Or(a) if a else z3.BoolVal(False)
    if o == Op.IFF:
        return a[0] == a[1]
    if o == Op.XOR:
        return z3.Xor(a[0], a[1])
    if o == Op.IMP:
        return z3.Implies(a[0], a[1])
    if o == Op.IF:
        return z3.If(a[0], a[1], a[2])
    if o == Op.ALLDIFF:
        return z3.Distinct(a) if len(a) > 1 else z3.BoolVal(True)
    raise ValueError("operator %s inside a constraint" % o)


class Session:
    """z3 problem of a really posted program; GRAPH_ACTIVE_VERTICES_CONNECTED
    constraints (top level) are kept aside and evaluated by their specification."""

    def __init__(self, solver):
        import z3
        from cspuz.expr import BoolVar, Expr, Op
        self.z3 = z3
        self.solver = solver
        self.zv = {}
        for v in solver.variables:
            self.zv[v.id] = z3.Bool("b%d" % v.id) if isinstance(v, BoolVar) else z3.Int("i%d" % v.id)
        self.zs = z3.Solver()
        self.avc = []
        for v in solver.variables:
            if not isinstance(v, BoolVar):
                self.zs.add(v.lo <= self.zv[v.id], self.zv[v.id] <= v.hi)
        for c in solver.constraints:
            if isinstance(c, Expr) and c.op == Op.GRAPH_ACTIVE_VERTICES_CONNECTED:
                self.avc.append(c)
            else:
                self.zs.add(to_z3(c, self.zv, z3))

    def _model(self):
        from cspuz.expr import BoolVar
        m = self.zs.model()
        out = {}
        for v in self.solver.variables:
            val = m.eval(self.zv[v.id], model_completion=True)
            out[v.id] = self.z3.is_true(val) if isinstance(v, BoolVar) else val.as_long()
        return out

    def _avc_ok(self, model):
        from cspuz.expr import BoolVar
        for c in self.avc:
            ops = c.operands
            n, m = ops[0], ops[1]
            acts = ops[2:2 + n]
            flat = ops[2 + n:]
            if len(acts) != n or len(flat) != 2 * m:
                raise ValueError("operand layout of GRAPH_ACTIVE_VERTICES_CONNECTED")
            act = []
            for a in acts:
                if isinstance(a, bool):
                    act.append(a)
                elif isinstance(a, BoolVar):
                    act.append(model[a.id])
                else:
                    raise ValueError("non-variable operand of GRAPH_ACTIVE_VERTICES_CONNECTED")
            edges = [(flat[2 * i], flat[2 * i + 1]) for i in range(m)]
            if not graphcap.is_connected(n, edges, act):
                return False
        return True

    def check(self, fixed, want_model=False, cap=4096):
        """satisfiable with the given (var, value) pairs fixed?"""
        z3 = self.z3
        from cspuz.expr import BoolVar
        self.zs.push()
        try:
            for v, val in fixed:
                zv = self.zv[v.id]
                self.zs.add((zv if val else z3.Not(zv)) if isinstance(v, BoolVar) else zv == val)
            if not self.avc:
                r = self.zs.check() == z3.sat
                return (r, self._model() if r else None) if want_model else r
            # enumerate the models of the rest (projected on the boolean variables the graph nodes mention)
            ids = sorted({a.id for c in self.avc for a in c.operands if isinstance(a, BoolVar)})
            for _ in range(cap):
                if self.zs.check() != z3.sat:
                    return (False, None) if want_model else False
                model = self._model()
                if self._avc_ok(model):
                    return (True, model) if want_model else True
                if not ids:
                    return (False, None) if want_model else False
                self.zs.add(z3.Or([self.zv[i] != z3.BoolVal(model[i]) for i in ids]))
            raise RuntimeError("model enumeration cap reached")
        finally:
            self.zs.pop()


def env_tok(solver, model):
    return " ".join(str(int(model[v.id])) for v in solver.variables)


def search_scopes(ctx):
    """(n, edges, R, aeg, prim, roots, kind) tuples whose every labeling is decided"""
    rng = ctx.rng
    deep = ctx.thorough or getattr(ctx, "deep", False)
    graphs = list(graphcap.all_multigraphs(4, 4))
    graphs += [(n, es) for (n, es) in graphcap.all_multigraphs(3, 2, loops=True) if any(a == b for a, b in es)]
    for (n, es) in graphs:
        for R in (1, 2, 3):
            for aeg in (False, True):
                for prim in (False, True):
                    if not deep:
                        p = 1.0 if n <= 3 else (0.5 if R <= 2 else 0.17)
                        if rng.random() > p:
                            continue
                    roots = None
                    if rng.random() < 0.35:
                        roots = [rng.choice([None, rng.randrange(n), -1 - rng.randrange(n)])
                                 for _ in range(rng.choice([R, R, R, max(R - 1, 0), R + 1]))]
                    yield n, es, R, aeg, prim, roots, rng.choice(["A", "L"])
    # 5 (thorough: also 6) vertices: simple graphs, sampled
    big = []
    for nn in ((5, 6) if ctx.thorough else (5,)):
        pairs = [(a, b) for a in range(nn) for b in range(a + 1, nn)]
        for _ in range(400 if deep else 36):
            es = [p for p in pairs if rng.random() < rng.choice([0.25, 0.4, 0.6])]
            if rng.random() < 0.2 and es:
                es.append(rng.choice(es))      # a parallel edge
            big.append((nn, es))
    for (n, es) in big:
        R = rng.choice([1, 2, 2, 3, 3])
        roots = None
        if rng.random() < 0.35:
            roots = [rng.choice([None, rng.randrange(n)]) for _ in range(R)]
        yield n, es, R, rng.random() < 0.5, rng.random() < 0.4, roots, rng.choice(["A", "L"])


def resolve_roots(roots, n):
    if roots is None:
        return None
    return [None if r is None else (r + n if r < 0 else r) for r in roots]


def viol_key(tag, n, es, R, aeg, prim, roots, kind, labels):
    return "%s:n%d:e%s:R%d:aeg%d:prim%d:%s:roots%s:l%s" % (
        tag, n, "".join("%d%d" % e for e in es), R, aeg, prim, kind,
        "-" if roots is None else ",".join("_" if r is None else str(r) for r in roots),
        "".join(str(x) for x in labels))


def search(ctx):
    from cspuz import Solver
    from cspuz.graph import _division_connected, division_connected
    m = None
    try:
        m = ctx.model("C05")
    except Exception:
        ctx.note("extracted model unavailable during search: specification not cross-checked")
    spec_reqs, spec_expect = [], []
    ev_reqs, ev_meta = [], []

    def decide(tag, s, dvars, n, es, R, aeg, prim, roots_oracle, kind, roots_shown, extra=None):
        sess = Session(s)
        sample = ctx.rng.random() < 0.25
        for lab in itertools.product(range(R), repeat=n):
            fixed = list(zip(dvars, lab))
            want = sample and ctx.rng.random() < 0.05
            if want:
                obs, model = sess.check(fixed, want_model=True)
            else:
                obs, model = sess.check(fixed), None
            exp = oracle(n, es, R, lab, roots_oracle, aeg)
            ctx.prop_case(tag, (n, tuple(es), R, aeg, prim, kind, repr(roots_shown), lab))
            if obs != exp:
                d = {"graph": {"n": n, "edges": es}, "num_regions": R, "allow_empty_group": aeg,
                     "use_graph_primitive": prim, "division_kind": kind, "roots": roots_shown,
                     "labels": list(lab), "expected_satisfiable": exp, "observed_satisfiable": obs, "call": tag}
                if extra:
                    d.update(extra)
                ctx.violation(viol_key(tag, n, es, R, aeg, prim, roots_shown, kind, lab),
                              "satisfiability of the posted constraints differs from 'every class connected, "
                              "labels used, roots labelled'", d)
            if model is not None and m is not None:
                ev_reqs.append("EV %s A %s" % (exprio.show_state(s), env_tok(s, model)))
                ev_meta.append((tag, n, tuple(es), R, lab))
            if m is not None and ctx.rng.random() < 0.1:
                spec_reqs.append("S %d %d %s %s %s" % (R, aeg, graphcap.graph_tok(n, es),
                                                       roots_tok(roots_oracle), " ".join(str(x) for x in lab)))
                spec_expect.append((exp, (n, tuple(es), R, aeg, repr(roots_oracle), lab)))

    for (n, es, R, aeg, prim, roots, kind) in search_scopes(ctx):
        s = Solver()
        d = s.int_array(n, 0, R - 1)
        g = graphcap.mk_graph(n, es)
        r = vlib.guarded(lambda: _division_connected(s, d if kind == "A" else list(d), R, g, roots=roots,
                                                     allow_empty_group=aeg, use_graph_primitive=prim))
        ctx.count("search-route:" + ("primitive" if prim else "aux"))
        if r[0] == "err":
            ctx.violation(viol_key("raise", n, es, R, aeg, prim, roots, kind, ()),
                          "_division_connected raised on a well-formed call",
                          {"graph": {"n": n, "edges": es}, "num_regions": R, "allow_empty_group": aeg,
                           "use_graph_primitive": prim, "division_kind": kind, "roots": roots, "error": r[1]})
            continue
        decide("graph", s, list(d), n, es, R, aeg, prim, resolve_roots(roots, n), kind, roots)

    # constant (Python int) labels: one program per labeling
    rng = ctx.rng
    for _ in range(300 if ctx.thorough else 60):
        n, es = graphcap.random_multigraph(rng, 5, loops=rng.random() < 0.2)
        R = rng.choice([1, 2, 3])
        aeg = rng.random() < 0.5
        prim = rng.random() < 0.5
        lab = [rng.randrange(R) for _ in range(n)]
        s = Solver()
        free = s.int_array(n, 0, R - 1)
        labels = [lab[v] if rng.random() < 0.6 else free[v] for v in range(n)]
        g = graphcap.mk_graph(n, es)
        r = vlib.guarded(lambda: _division_connected(s, labels, R, g, allow_empty_group=aeg,
                                                     use_graph_primitive=prim))
        if r[0] == "err":
            ctx.violation(viol_key("raise-const", n, es, R, aeg, prim, None, "L", lab),
                          "_division_connected raised on a well-formed call with int labels",
                          {"graph": {"n": n, "edges": es}, "num_regions": R, "labels": lab, "error": r[1]})
            continue
        sess = Session(s)
        obs = sess.check([(free[v], lab[v]) for v in range(n)])
        exp = oracle(n, es, R, lab, None, aeg)
        ctx.prop_case("graph-constlabels", (n, tuple(es), R, aeg, prim, tuple(lab)))
        if obs != exp:
            ctx.violation(viol_key("const", n, es, R, aeg, prim, None, "L", lab),
                          "satisfiability with Python-int labels differs from the specification",
                          {"graph": {"n": n, "edges": es}, "num_regions": R, "allow_empty_group": aeg,
                           "use_graph_primitive": prim, "labels": lab, "mixed_labels": [repr(type(x).__name__) for x in labels],
                           "expected_satisfiable": exp, "observed_satisfiable": obs})

    # inferred grids through the public wrapper, roots as (y, x)
    cells = 6 if ctx.thorough else 5
    for (h, w) in graphcap.grid_shapes(cells):
        for R in (1, 2, 3):
            if h * w >= 5 and R == 3 and not ctx.thorough and rng.random() < 0.5:
                continue
            for prim in (False, True):
                aeg = rng.random() < 0.5
                roots = None
                if rng.random() < 0.5:
                    roots = [rng.choice([None, (rng.randrange(h), rng.randrange(w))]) for _ in range(R)]
                s = Solver()
                d = s.int_array((h, w), 0, R - 1)

                def call():
                    with cfg_primitive(prim):
                        division_connected(s, d, R, roots=roots, allow_empty_group=aeg)
                r = vlib.guarded(call)
                if r[0] == "err":
                    ctx.violation("raise-grid:%dx%d:R%d:%r" % (h, w, R, roots), "division_connected raised on a grid",
                                  {"shape": [h, w], "num_regions": R, "roots": roots, "error": r[1]})
                    continue
                ro = None if roots is None else [None if a is None else a[0] * w + a[1] for a in roots]
                decide("grid", s, list(d.data), h * w, graphcap.grid_edges(h, w), R, aeg, prim, ro, "G",
                       None if roots is None else [None if a is None else list(a) for a in roots],
                       extra={"shape": [h, w]})

    # cross-checks of the trusted pieces (recorded as correspondence, never as violations)
    if m is not None and spec_reqs:
        for o, (exp, inp) in zip(m.batch(spec_reqs), spec_expect):
            ctx.corr("spec-vs-oracle", inp, o.strip() == "1", exp)
    if m is not None and ev_reqs:
        for o, meta in zip(m.batch(ev_reqs), ev_meta):
            ctx.corr("eval-vs-z3model", meta, o.strip(), "1 1")


def replay(ctx, rp):
    from cspuz import Solver
    from cspuz.graph import _division_connected, division_connected
    print(rp)
    v = rp.get("violation", {}).get("detail", {})
    if not v or "labels" not in v:
        return 0
    R, aeg, prim = v["num_regions"], v["allow_empty_group"], v["use_graph_primitive"]
    lab = v["labels"]
    s = Solver()
    if v.get("call") == "grid":
        h, w = v["shape"]
        d = s.int_array((h, w), 0, R - 1)
        roots = None if v["roots"] is None else [None if a is None else tuple(a) for a in v["roots"]]
        with cfg_primitive(prim):
            division_connected(s, d, R, roots=roots, allow_empty_group=aeg)
        n, es, dv = h * w, graphcap.grid_edges(h, w), list(d.data)
        ro = None if roots is None else [None if a is None else a[0] * w + a[1] for a in roots]
    else:
        n, es = v["graph"]["n"], [tuple(e) for e in v["graph"]["edges"]]
        d = s.int_array(n, 0, R - 1)
        roots = v.get("roots")
        _division_connected(s, d if v.get("division_kind") == "A" else list(d), R, graphcap.mk_graph(n, es),
                            roots=roots, allow_empty_group=aeg, use_graph_primitive=prim)
        dv, ro = list(d), resolve_roots(roots, n)
    obs = Session(s).check(list(zip(dv, lab)))
    exp = oracle(n, es, R, lab, ro, aeg)
    print("posted program satisfiable:", obs, " specification:", exp)
    return 1 if obs != exp else 0
