(* C19 runner: I/O only.  One request line -> one reply line.
   Tokens are separated by blanks.  Problems: atom = int, list or grid = [ .. ],
   tuple = ( .. ).  Patterns (prefix notation):
     C n c1..cn d
     A h w n c1..cn d sym move nd dy dx .. INIT   with INIT = "-" or "I" nrows {len v..}
     K z
     L n pats      T n pats *)
open Model
open Zutil

let zi s = z_of_int (int_of_string s)
let iz = int_of_z

exception Parse of string

let take_ints n toks =
  let rec go n toks acc = if n = 0 then (List.rev acc, toks) else
    match toks with t :: r -> go (n - 1) r (zi t :: acc) | [] -> raise (Parse "ints") in
  go n toks []

let rec parse_pat toks = match toks with
  | "C" :: n :: r ->
      let (ch, r) = take_ints (int_of_string n) r in
      (match r with d :: r -> (PB (BChoice (ch, zi d)), r) | _ -> raise (Parse "C"))
  | "A" :: h :: w :: n :: r ->
      let (ch, r) = take_ints (int_of_string n) r in
      (match r with
       | d :: sym :: mv :: nd :: r ->
           let (ds, r) = take_ints (2 * int_of_string nd) r in
           let rec prs = function a :: b :: t -> (a, b) :: prs t | _ -> [] in
           let (init, r) = (match r with
             | "-" :: r -> (None, r)
             | "I" :: nr :: r ->
                 let rec rows k r acc = if k = 0 then (List.rev acc, r) else
                   (match r with
                    | len :: r -> let (row, r) = take_ints (int_of_string len) r in rows (k - 1) r (row :: acc)
                    | [] -> raise (Parse "rows")) in
                 let (g, r) = rows (int_of_string nr) r [] in (Some g, r)
             | _ -> raise (Parse "init")) in
           (PB (BArray { a_height = zi h; a_width = zi w; a_choice = ch; a_default = zi d;
                         a_disallow = prs ds; a_symmetry = (sym = "1"); a_initial = init;
                         a_use_move = (mv = "1") }), r)
       | _ -> raise (Parse "A"))
  | "K" :: z :: r -> (PConst (zi z), r)
  | "L" :: n :: r -> let (ps, r) = parse_pats (int_of_string n) r in (PList ps, r)
  | "T" :: n :: r -> let (ps, r) = parse_pats (int_of_string n) r in (PTuple ps, r)
  | _ -> raise (Parse "pat")
and parse_pats n toks =
  if n = 0 then ([], toks) else
  let (p, r) = parse_pat toks in let (ps, r) = parse_pats (n - 1) r in (p :: ps, r)

(* problems are parsed along the pattern: under an ArrayBuilder2D a grid (rows of
   ints, possibly ragged), under Choice / a constant an atom *)
let rec parse_prob pt toks = match pt, toks with
  | PB (BArray _), "[" :: r ->
      let rec rows r acc = (match r with
        | "]" :: r -> (List.rev acc, r)
        | "[" :: r ->
            let rec cells r acc = (match r with
              | "]" :: r -> (List.rev acc, r)
              | t :: r -> cells r (zi t :: acc)
              | [] -> raise (Parse "row")) in
            let (row, r) = cells r [] in rows r (row :: acc)
        | _ -> raise (Parse "grid")) in
      let (g, r) = rows r [] in (VGrid g, r)
  | (PList ps | PTuple ps), (("[" | "(") as o) :: r ->
      let rec items ps r acc = (match ps, r with
        | _, t :: r when (t = "]" && o = "[") || (t = ")" && o = "(") -> (List.rev acc, r)
        | p :: ps, r -> let (q, r) = parse_prob p r in items ps r (q :: acc)
        | [], _ -> raise (Parse "too many items")) in
      let (l, r) = items ps r [] in ((if o = "[" then VList l else VTuple l), r)
  | _, t :: r -> (VAtom (zi t), r)
  | _, [] -> raise (Parse "prob")

let rec show_prob = function
  | VAtom z -> string_of_int (iz z)
  | VGrid g -> "[ " ^ String.concat "" (List.map (fun row -> "[ " ^ String.concat "" (List.map (fun z -> string_of_int (iz z) ^ " ") row) ^ "] ") g) ^ "]"
  | VList l -> "[ " ^ String.concat "" (List.map (fun p -> show_prob p ^ " ") l) ^ "]"
  | VTuple l -> "( " ^ String.concat "" (List.map (fun p -> show_prob p ^ " ") l) ^ ")"

let show_upd = function
  | UVal v -> "V " ^ string_of_int (iz v)
  | UCells l -> "U" ^ String.concat "" (List.map (fun ((y, x), v) -> Printf.sprintf " %d %d %d" (iz y) (iz x) (iz v)) l)

let show_state s = zs [s.sx; s.sy; s.sz; s.sw]
let err e = "E" ^ string_of_int (int_of_nat (pyerr_code e))

let split_bar toks =
  let rec go acc cur = function
    | [] -> List.rev (List.rev cur :: acc)
    | "|" :: r -> go (List.rev cur :: acc) [] r
    | t :: r -> go acc (t :: cur) r in
  go [] [] toks

let state_of = function
  | [x; y; z; w] -> { sx = zi x; sy = zi y; sz = zi z; sw = zi w }
  | [seed] -> seed_state (zi seed)
  | _ -> raise (Parse "state")

(* ---- synthetic callbacks (twins of harness/pC19.py::Callbacks) ---- *)
let hmod = 2147483647
let phash salt p =
  let str = show_prob p in
  let h = ref (((salt mod hmod) + hmod) mod hmod) in
  String.iter (fun ch -> h := (!h * 1000003 + Char.code ch + 12345) mod hmod) str;
  !h

let rec count_nonzero p = match p with
  | VAtom z -> if iz z <> 0 then 1 else 0
  | VGrid g -> List.fold_left (fun a row -> List.fold_left (fun a z -> if iz z <> 0 then a + 1 else a) a row) 0 g
  | VList l | VTuple l -> List.fold_left (fun a q -> a + count_nonzero q) 0 l

let handle toks = match toks with
  | "S" :: [seed] -> show_state (seed_state (zi seed))
  | "W" :: seed :: [n] -> zs (Model.words (nat_of_int (int_of_string n)) (seed_state (zi seed)))
  | "X" :: rest ->
      (match split_bar rest with
       | [st; ops] ->
           let buf = Buffer.create 256 in
           let s = ref (state_of st) in
           let dead = ref false in
           let emit_out f o = (match o with
             | Done (a, s') -> s := s'; Buffer.add_string buf (f a ^ " ; ")
             | Raise e -> Buffer.add_string buf (err e ^ " ; ")
             | Diverge -> dead := true; Buffer.add_string buf "DIVERGE ; ") in
           let rec go = function
             | [] -> ()
             | "n" :: r -> let (x, s') = next !s in s := s'; Buffer.add_string buf (string_of_int (iz x) ^ " ; "); go r
             | "r" :: a :: b :: r -> emit_out (fun x -> string_of_int (iz x)) (randint (zi a) (zi b) !s); go r
             | "c" :: n :: r ->
                 emit_out (fun x -> string_of_int x) (choice (List.init (int_of_string n) (fun i -> i)) !s); go r
             | "s" :: n :: r ->
                 emit_out (fun l -> "P" ^ String.concat "" (List.map (fun i -> " " ^ string_of_int i) l))
                   (shuffle (List.init (int_of_string n) (fun i -> i)) !s); go r
             | "f" :: r -> emit_out (fun x -> string_of_int (iz x)) (random_num !s); go r
             | _ -> raise (Parse "op") in
           go ops;
           Buffer.contents buf ^ "| " ^ show_state !s
       | _ -> "EXN bad X")
  | "INIT" :: rest -> let (p, _) = parse_pat rest in show_prob (initial_of p)
  | "VARS" :: rest ->
      let (p, _) = parse_pat rest in
      String.concat " ; " (List.map (fun (pos, _) -> String.concat " " (List.map (fun n -> string_of_int (int_of_nat n)) pos)) (variables p))
  | "CAND" :: rest ->
      (match split_bar rest with
       | [st; bt; ct] ->
           let b = (match parse_pat bt with (PB b, _) -> b | _ -> raise (Parse "builder")) in
           let (cur, _) = parse_prob (PB b) ct in
           (match b_candidates b cur (state_of st) with
            | Done (us, s') ->
                let applied = List.map (fun u -> match b_copy_with_update b cur u with
                                                 | Ok q -> show_prob q | Err e -> err e) us in
                "OK " ^ String.concat " ; " (List.map show_upd us) ^ " | " ^ String.concat " ; " applied ^ " | " ^ show_state s'
            | Raise e -> err e
            | Diverge -> "DIVERGE")
       | _ -> "EXN bad CAND")
  | "NB" :: rest ->
      (match split_bar rest with
       | [st; pt; ct] ->
           let (p, _) = parse_pat pt in
           let (cur, _) = parse_prob p ct in
           (match neighbours p cur (state_of st) with
            | Done (qs, s') -> "OK " ^ String.concat " ; " (List.map show_prob qs) ^ " | " ^ show_state s'
            | Raise e -> err e
            | Diverge -> "DIVERGE")
       | _ -> "EXN bad NB")
  | "RUN" :: rest ->
      (match split_bar rest with
       | [[seed; maxsteps; solveinit; salt; ksat; kuniq; kpre; pen; stateful; t0; decay]; pt] ->
           let (p, _) = parse_pat pt in
           let salt = int_of_string salt and ksat = int_of_string ksat and kuniq = int_of_string kuniq
           and kpre = int_of_string kpre and stateful = (stateful = "1") in
           let t0 = float_of_string t0 and decay = float_of_string decay in
           let solver q (c : int) =
             let c = c + 1 in
             let h = phash (salt + (if stateful then c else 0)) q in
             ((if ksat = 0 || h mod ksat <> 0 then Some h else None), c) in
           let uniqueness a (c : int) = (((a / 7) mod kuniq = 0), c) in
           let score a (c : int) = (z_of_int ((a / 13) mod 23), c) in
           let pretest = if kpre = 0 then None else Some (fun q (c : int) -> ((phash (salt + 1) q mod kpre <> 0), c)) in
           let penalty = if pen = "0" then None else Some (fun q (c : int) -> (z_of_int (2 * count_nonzero q), c)) in
           let accept step cur nxt x =
             let t = ref t0 in
             for _ = 1 to int_of_nat step do t := !t *. decay done;
             (float_of_int (iz x) /. 4294967296.0) < exp (float_of_int (iz nxt - iz cur) /. !t) in
           let ms = if maxsteps = "-" then None else Some (nat_of_int (int_of_string maxsteps)) in
           (* the seed token is either a seed or a whole generator state x:y:z:w (a run that continues the stream) *)
           let st0 = (match String.split_on_char ':' seed with
             | [x; y; z; w] -> { sx = zi x; sy = zi y; sz = zi z; sw = zi w }
             | _ -> seed_state (zi seed)) in
           (match generate solver uniqueness score pretest penalty accept (fun q -> neighbours p q)
                    (initial_of p) ms (solveinit = "1") 0 st0 with
            | Finished (r, e) ->
                "OK " ^ (match r with Some q -> show_prob q | None -> "None") ^ " | " ^ show_state e.e_rng
                ^ " | " ^ string_of_int e.e_world ^ " | "
                ^ String.concat " ; " (List.map (fun (EvSolve (q, sat)) -> (if sat then "1 " else "0 ") ^ show_prob q) e.e_trace)
            | Failed e -> err e
            | Diverged -> "DIVERGE")
       | _ -> "EXN bad RUN")
  | _ -> "EXN bad request"

let handle toks = try handle toks with Parse m -> "EXN parse " ^ m

let () = main_loop handle
