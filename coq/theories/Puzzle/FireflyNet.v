(* C11 Tier 1 - firefly: an assignment that satisfies the constraints of solve_firefly (FireflySem.ff_satisfies_iff)
   turns the drawn segments into a functional graph on the lattice points: every point on a line has exactly one
   outgoing dart, points without firefly have at most one incoming dart.  This file derives that structure and
   instantiates the abstract results of FireflyFun.v (Network). *)
From Coq Require Import ZArith List Bool Arith Lia.
From Cspuz Require Import Lib.PyErr Core.Expr Core.Program Graph.GraphModel
     Puzzle.PuzzleBase Puzzle.ModelBase Puzzle.ModelLemmas Puzzle.CycleLattice
     Puzzle.Rules_firefly Puzzle.Firefly Puzzle.FireflyFun Puzzle.FireflyGeo Puzzle.FireflySem.
Import ListNotations.
Local Open Scope nat_scope.

(* ---- counting over the four directions *)
Lemma dirs_count_unique (g : nat -> bool) a b :
  count g ff_dirs <= 1 -> In a ff_dirs -> In b ff_dirs -> g a = true -> g b = true -> a = b.
Proof.
  intros Hc Ha Hb Ga Gb. unfold count, ff_dirs in Hc. simpl in Hc.
  destruct (ff_dirs_cases a Ha) as [->|[->|[->| ->]]]; destruct (ff_dirs_cases b Hb) as [->|[->|[->| ->]]];
    try reflexivity; exfalso; rewrite Ga, Gb in Hc;
    destruct (g 0), (g 1), (g 2), (g 3); simpl in Hc; try lia; try discriminate.
Qed.
Lemma count_pos_ex {A} (g : A -> bool) l : 1 <= count g l -> exists d, In d l /\ g d = true.
Proof.
  unfold count. destruct (filter g l) as [|d r] eqn:E; simpl; [lia|]. intros _.
  assert (Hd : In d (filter g l)) by (rewrite E; left; reflexivity).
  apply filter_In in Hd. exists d. exact Hd.
Qed.
Lemma count_pos_of {A} (g : A -> bool) l d : In d l -> g d = true -> 1 <= count g l.
Proof.
  intros Hd Gd. unfold count. assert (H : In d (filter g l)) by (apply filter_In; split; assumption).
  destruct (filter g l); [destruct H|simpl; lia].
Qed.
Lemma count_one_unique (g : nat -> bool) n a b :
  count g (seq 0 n) = 1 -> a < n -> b < n -> g a = true -> g b = true -> a = b.
Proof.
  unfold count. intros Hc Ha Hb Ga Gb.
  assert (Ia : In a (filter g (seq 0 n))) by (apply filter_In; split; [apply in_seq; lia|exact Ga]).
  assert (Ib : In b (filter g (seq 0 n))) by (apply filter_In; split; [apply in_seq; lia|exact Gb]).
  destruct (filter g (seq 0 n)) as [|c [|c' r]]; simpl in Hc; try lia.
  destruct Ia as [<-|[]]. destruct Ib as [<-|[]]. reflexivity.
Qed.

Lemma fold_max_ge l : forall a x, (In x l \/ x = a) -> (x <= fold_left Z.max l a)%Z.
Proof.
  induction l as [|b r IH]; intros a x Hx; simpl.
  - destruct Hx as [[]| ->]. lia.
  - destruct Hx as [[<-|Hx]| ->].
    + apply Z.le_trans with (Z.max a b); [lia|]. apply IH. right. reflexivity.
    + apply IH. left. exact Hx.
    + apply Z.le_trans with (Z.max a b); [lia|]. apply IH. right. reflexivity.
Qed.

Lemma ff_dot_in dir Q y x : ff_is dir Q y x = true -> In (ff_dot dir Q y x) ff_dirs.
Proof.
  unfold ff_is, ff_dot, zn. intros Hf. apply andb_true_iff in Hf. destruct Hf as [H1 H2].
  apply Z.leb_le in H1, H2. set (k := at2 dir Q y x) in *.
  assert (Hk : k = 1%Z \/ k = 2%Z \/ k = 3%Z \/ k = 4%Z) by lia.
  destruct Hk as [->|[->|[->| ->]]]; simpl; auto.
Qed.

Section Net.
  Variables (h w : nat) (dir num : list Z) (en : env).
  Notation H := (S h).
  Notation W := (S w).
  Notation M := (ff_max_turn H W dir num).
  Notation NE := (ff_E H W).
  Notation valid := (gvalid h w).
  Notation ok := (gok h w).
  Notation sid := (gsid h w).
  Notation Out := (sOut h w en).
  Notation In_ := (sIn h w en).
  Notation T := (sT h w en).
  Notation G := (sG h w en).

  Hypothesis HA : forall e, e < NE -> eb en e = eb en (ff_ul H W e) || eb en (ff_dr H W e).
  Hypothesis HB : forall e, e < NE -> eb en (ff_ul H W e) && eb en (ff_dr H W e) = false.
  Hypothesis HC : count G (seq 0 NE) = 1.
  Hypothesis HR : rank_sem h w en.
  Hypothesis HP : forall p, valid p -> point_b h w dir num en p = true.
  Hypothesis HRb : forall v, v < H * W -> (0 <= sR h w en v)%Z.

  Definition fly (p : pt) : bool := ff_is dir W (fst p) (snd p).
  Definition dot (p : pt) : nat := ff_dot dir W (fst p) (snd p).
  Definition oD (p : pt) (d : nat) : bool := ok p d && Out p d.
  Definition iD (p : pt) (d : nat) : bool := ok p d && In_ p d.

  Lemma dot_in p : fly p = true -> In (dot p) ff_dirs.
  Proof. apply ff_dot_in. Qed.

  (* a segment is drawn iff it is oriented one way or the other, never both *)
  Lemma dart_line p d : valid p -> In d ff_dirs -> ok p d = true ->
    eb en (sid p d) = Out p d || In_ p d /\ Out p d && In_ p d = false.
  Proof.
    intros Hp Hd Hok. pose proof (gsid_lt h w p d Hp Hd Hok) as Hlt.
    change (ff_NE h w) with NE in Hlt. rewrite (HA _ Hlt). pose proof (HB _ Hlt) as Hb.
    unfold sOut, sIn, ff_out, ff_in. fold (sid p d).
    destruct (ff_dirs_cases d Hd) as [->|[->|[->| ->]]]; split; try reflexivity; try exact Hb;
      try apply orb_comm; rewrite andb_comm; exact Hb.
  Qed.

  (* ---- what the point constraints say *)
  Lemma plain_facts p : valid p -> fly p = false ->
    n_in h w en p <= 1 /\ n_in h w en p = n_out h w en p /\
    (forall i j, In i ff_dirs -> In j ff_dirs -> ok p i = true -> ok p j = true -> i <> j ->
                 In_ p i = true -> Out p j = true -> pass_rel h w dir num en p i j = true).
  Proof.
    intros Hp Hf. pose proof (HP p Hp) as Hpt. unfold point_b in Hpt. unfold fly in Hf. rewrite Hf in Hpt.
    unfold plain_b in Hpt. apply andb_true_iff in Hpt. destruct Hpt as [Hpt Hpass].
    apply andb_true_iff in Hpt. destruct Hpt as [H1 H2]. apply Nat.leb_le in H1. apply Nat.eqb_eq in H2.
    split; [exact H1|]. split; [exact H2|].
    intros i j Hi Hj Oi Oj Nij Ii Oj'. rewrite forallb_forall in Hpass. specialize (Hpass i Hi).
    rewrite forallb_forall in Hpass. specialize (Hpass j Hj).
    rewrite Oi, Oj, Ii, Oj' in Hpass. replace (Nat.eqb i j) with false in Hpass by (symmetry; apply Nat.eqb_neq; exact Nij).
    simpl in Hpass. exact Hpass.
  Qed.

  Lemma fly_facts p : valid p -> fly p = true ->
    ok p (dot p) = true /\ Out p (dot p) = true /\
    T p (dot p) = (let n := at2 num W (fst p) (snd p) in if (n <? 0)%Z then sUnk h w dir num else n) /\
    (forall i, In i ff_dirs -> ok p i = true -> i <> dot p ->
               Out p i = false /\ (In_ p i = true -> T p i = 0%Z \/ T p i = sUnk h w dir num)).
  Proof.
    intros Hp Hf. pose proof (HP p Hp) as Hpt. unfold point_b in Hpt. unfold fly in Hf. rewrite Hf in Hpt.
    apply andb_true_iff in Hpt. destruct Hpt as [Hok Hfb]. unfold fly_b in Hfb.
    apply andb_true_iff in Hfb. destruct Hfb as [Hfb Hoth]. apply andb_true_iff in Hfb. destruct Hfb as [Ho Ht].
    apply Z.eqb_eq in Ht. split; [exact Hok|]. split; [exact Ho|]. split; [exact Ht|].
    intros i Hi Oi Ni. rewrite forallb_forall in Hoth. specialize (Hoth i Hi). fold (dot p) in Hoth.
    rewrite Oi in Hoth. replace (Nat.eqb i (dot p)) with false in Hoth by (symmetry; apply Nat.eqb_neq; exact Ni).
    simpl in Hoth. apply andb_true_iff in Hoth. destruct Hoth as [H1 H2]. apply negb_true_iff in H1.
    split; [exact H1|]. intros Ii. rewrite Ii in H2. simpl in H2. apply orb_true_iff in H2.
    destruct H2 as [H2|H2]; apply Z.eqb_eq in H2; [left|right]; exact H2.
  Qed.

  (* at most one outgoing dart *)
  Lemma out_unique p d d' : valid p -> In d ff_dirs -> In d' ff_dirs -> oD p d = true -> oD p d' = true -> d = d'.
  Proof.
    intros Hp Hd Hd' O1 O2. destruct (fly p) eqn:Hf.
    - destruct (fly_facts p Hp Hf) as [_ [_ [_ Hoth]]].
      unfold oD in O1, O2. apply andb_true_iff in O1, O2. destruct O1 as [K1 O1], O2 as [K2 O2].
      assert (E1 : d = dot p).
      { destruct (Nat.eq_dec d (dot p)) as [E|N]; [exact E|]. destruct (Hoth d Hd K1 N) as [X _]. congruence. }
      assert (E2 : d' = dot p).
      { destruct (Nat.eq_dec d' (dot p)) as [E|N]; [exact E|]. destruct (Hoth d' Hd' K2 N) as [X _]. congruence. }
      congruence.
    - destruct (plain_facts p Hp Hf) as [H1 [H2 _]].
      apply (dirs_count_unique (oD p)); try assumption. unfold n_out in H2. fold (oD p) in H2.
      change (count (fun d0 => ok p d0 && Out p d0) ff_dirs) with (count (oD p) ff_dirs) in H2. lia.
  Qed.

  Lemma in_unique p d d' : valid p -> fly p = false -> In d ff_dirs -> In d' ff_dirs ->
    iD p d = true -> iD p d' = true -> d = d'.
  Proof.
    intros Hp Hf Hd Hd' I1 I2. destruct (plain_facts p Hp Hf) as [H1 _].
    apply (dirs_count_unique (iD p)); try assumption.
  Qed.

  (* the out direction and the successor *)
  Definition od (p : pt) : nat := match find (oD p) ff_dirs with Some d => d | None => 0 end.
  Definition nxt (p : pt) : pt := match find (oD p) ff_dirs with Some d => gstep p d | None => p end.
  Definition Ln (p : pt) : Prop := valid p /\ exists d, In d ff_dirs /\ oD p d = true.

  Lemma od_spec p d : valid p -> In d ff_dirs -> oD p d = true -> od p = d /\ nxt p = gstep p d.
  Proof.
    intros Hp Hd Ho. unfold od, nxt. destruct (find (oD p) ff_dirs) as [d'|] eqn:E.
    - apply find_some in E. destruct E as [Hd' Ho'].
      assert (d' = d) by (apply (out_unique p); assumption). subst d'. split; reflexivity.
    - exfalso. pose proof (find_none _ _ E d Hd) as X. congruence.
  Qed.

  Lemma Ln_od p : Ln p -> In (od p) ff_dirs /\ oD p (od p) = true /\ nxt p = gstep p (od p).
  Proof.
    intros [Hp [d [Hd Ho]]]. destruct (od_spec p d Hp Hd Ho) as [E1 E2]. rewrite E1. repeat split; assumption.
  Qed.

  (* the reverse of an outgoing dart is an incoming dart of the next point *)
  Lemma step_in p d : valid p -> In d ff_dirs -> oD p d = true ->
    valid (gstep p d) /\ iD (gstep p d) (opposite d) = true /\ oD (gstep p d) (opposite d) = false /\
    T (gstep p d) (opposite d) = T p d.
  Proof.
    intros Hp Hd Ho. unfold oD in Ho. apply andb_true_iff in Ho. destruct Ho as [Hok Ho].
    destruct (grev h w p d Hp Hd Hok) as [R1 [R2 R3]].
    destruct (sOut_rev h w en p d Hp Hd Hok) as [S1 [S2 S3]].
    assert (Hq : valid (gstep p d)) by (apply gstep_valid; assumption).
    destruct (dart_line p d Hp Hd Hok) as [_ Hex]. rewrite Ho in Hex. simpl in Hex.
    split; [exact Hq|]. unfold iD, oD. rewrite R1, S1, S2, Ho, Hex. repeat split. exact S3.
  Qed.

  (* a point with an incoming dart has an outgoing one *)
  Lemma in_has_out p d : valid p -> In d ff_dirs -> iD p d = true -> Ln p.
  Proof.
    intros Hp Hd Hi. split; [exact Hp|]. destruct (fly p) eqn:Hf.
    - destruct (fly_facts p Hp Hf) as [K [O _]]. exists (dot p). split; [apply dot_in; exact Hf|].
      unfold oD. rewrite K, O. reflexivity.
    - destruct (plain_facts p Hp Hf) as [_ [H2 _]].
      assert (1 <= n_in h w en p) by (apply (count_pos_of (iD p) ff_dirs d); assumption).
      apply (count_pos_ex (oD p)). unfold n_out in H2.
      change (count (fun d0 => ok p d0 && Out p d0) ff_dirs) with (count (oD p) ff_dirs) in H2. lia.
  Qed.

  Lemma Ln_closed p : Ln p -> Ln (nxt p).
  Proof.
    intros Lp. destruct (Ln_od p Lp) as [Hd [Ho E]]. destruct Lp as [Hp _].
    destruct (step_in p (od p) Hp Hd Ho) as [Hq [Hi _]]. rewrite E.
    apply (in_has_out _ (opposite (od p))); [exact Hq|apply ff_opposite_in; exact Hd|exact Hi].
  Qed.

  Lemma Ln_fly p : valid p -> fly p = true -> Ln p.
  Proof.
    intros Hp Hf. split; [exact Hp|]. destruct (fly_facts p Hp Hf) as [K [O _]]. exists (dot p).
    split; [apply dot_in; exact Hf|]. unfold oD. rewrite K, O. reflexivity.
  Qed.

  Lemma nxt_uniq a b : Ln a -> Ln b -> nxt a = nxt b -> fly (nxt a) = false -> a = b.
  Proof.
    intros La Lb E Hf.
    destruct (Ln_od a La) as [Hda [Hoa Ea]]. destruct (Ln_od b Lb) as [Hdb [Hob Eb]].
    destruct La as [Ha _], Lb as [Hb _].
    destruct (step_in a (od a) Ha Hda Hoa) as [Hq [Hia _]].
    destruct (step_in b (od b) Hb Hdb Hob) as [_ [Hib _]].
    rewrite <- Ea in Hq, Hia. rewrite <- Eb, <- E in Hib.
    assert (Eo : opposite (od a) = opposite (od b)).
    { apply (in_unique (nxt a)); try assumption; apply ff_opposite_in; assumption. }
    apply ff_opposite_inj in Eo; [|assumption|assumption].
    unfold oD in Hoa, Hob. apply andb_true_iff in Hoa, Hob.
    apply (gstep_inj h w a b (od a)); try assumption; try tauto.
    - rewrite Eo. tauto.
    - rewrite <- Ea. rewrite Eo at 1. rewrite <- Eb. exact E.
  Qed.

  Lemma nxt_has_pred a : Ln a -> fly a = false -> exists b, Ln b /\ nxt b = a.
  Proof.
    intros [Ha [d [Hd Ho]]] Hf. destruct (plain_facts a Ha Hf) as [_ [H2 _]].
    assert (H1 : 1 <= n_out h w en a) by (apply (count_pos_of (oD a) ff_dirs d); assumption).
    destruct (count_pos_ex (iD a) ff_dirs) as [i [Hi Ii]].
    { unfold n_in in H2. change (count (fun d0 => ok a d0 && In_ a d0) ff_dirs) with (count (iD a) ff_dirs) in H2. lia. }
    unfold iD in Ii. apply andb_true_iff in Ii. destruct Ii as [Ki Ii].
    destruct (grev h w a i Ha Hi Ki) as [R1 [R2 R3]].
    destruct (sOut_rev h w en a i Ha Hi Ki) as [_ [S2 _]].
    set (b := gstep a i). assert (Hb : valid b) by (apply gstep_valid; assumption).
    assert (Hob : oD b (opposite i) = true) by (unfold oD; fold b in R1, S2; rewrite R1, S2; exact Ii).
    exists b. split.
    - split; [exact Hb|]. exists (opposite i). split; [apply ff_opposite_in; exact Hi|exact Hob].
    - destruct (od_spec b (opposite i) Hb (ff_opposite_in i Hi) Hob) as [_ E]. rewrite E. exact R2.
  Qed.

  (* ---- ranks *)
  Definition rk (p : pt) : Z := sR h w en (gidx w p).
  Definition badb (p : pt) : bool := existsb (fun d => oD p d && G (sid p d)) ff_dirs.

  Lemma rk_nonneg p : Ln p -> (0 <= rk p)%Z.
  Proof. intros [Hp _]. apply HRb. apply gidx_lt with (h := h). exact Hp. Qed.

  Lemma rk_descends p : Ln p -> badb p <> true -> (rk (nxt p) < rk p)%Z.
  Proof.
    intros Lp Hb. destruct (Ln_od p Lp) as [Hd [Ho E]]. destruct Lp as [Hp _]. rewrite E.
    unfold oD in Ho. apply andb_true_iff in Ho. destruct Ho as [K O].
    apply HR; try assumption.
    destruct (G (sid p (od p))) eqn:Hg; [|reflexivity]. exfalso. apply Hb.
    apply existsb_exists. exists (od p). split; [exact Hd|]. unfold oD. rewrite K, O, Hg. reflexivity.
  Qed.

  Lemma bad_unique a b : Ln a -> Ln b -> badb a = true -> badb b = true -> a = b.
  Proof.
    intros [Ha _] [Hb _] Ba Bb. apply existsb_exists in Ba, Bb.
    destruct Ba as [d [Hd Ba]], Bb as [d' [Hd' Bb]].
    apply andb_true_iff in Ba, Bb. destruct Ba as [Oa Ga], Bb as [Ob Gb].
    assert (Ka : ok a d = true) by (unfold oD in Oa; apply andb_true_iff in Oa; tauto).
    assert (Kb : ok b d' = true) by (unfold oD in Ob; apply andb_true_iff in Ob; tauto).
    assert (E : sid a d = sid b d').
    { apply (count_one_unique G NE); try assumption;
        [apply (gsid_lt h w a d)|apply (gsid_lt h w b d')]; assumption. }
    destruct (gsid_inj h w a d b d' Ha Hb Hd Hd' Ka Kb E) as [[E1 _]|[E1 E2]]; [symmetry; exact E1|exfalso].
    subst b d'. destruct (step_in a d Ha Hd Oa) as [_ [_ [X _]]]. congruence.
  Qed.

  (* ---- the abstract results, instantiated *)
  Variable F0 : pt.
  Hypothesis F0_valid : valid F0.
  Hypothesis F0_fly : fly F0 = true.

  Notation iter := (ff_iter pt nxt).

  Lemma Ln_idx_lt p : Ln p -> gidx w p < H * W.
  Proof. intros [Hp _]. apply gidx_lt with (h := h). exact Hp. Qed.
  Lemma Ln_idx_inj a b : Ln a -> Ln b -> gidx w a = gidx w b -> a = b.
  Proof. intros [Ha _] [Hb _]. apply gidx_inj with (h := h); assumption. Qed.
  Lemma plain_dec p : fly p = false \/ fly p <> false.
  Proof. destruct (fly p); [right; discriminate|left; reflexivity]. Qed.
  Lemma badb_dec p : badb p = true \/ badb p <> true.
  Proof. destruct (badb p); [left; reflexivity|right; discriminate]. Qed.
  Lemma F0_not_plain : fly F0 <> false.
  Proof. rewrite F0_fly. discriminate. Qed.

  Theorem net_fly_ahead a : Ln a ->
    exists k, 1 <= k /\ k <= H * W /\ fly (iter k a) = true /\ (forall i, 1 <= i -> i < k -> fly (iter i a) = false).
  Proof.
    intros La.
    destruct (ff_fly_ahead pt nxt Ln Ln_closed (gidx w) (H * W) Ln_idx_lt Ln_idx_inj (fun p => fly p = false)
                plain_dec nxt_uniq rk (fun p => badb p = true) rk_nonneg badb_dec rk_descends bad_unique
                F0 (Ln_fly F0 F0_valid F0_fly) F0_not_plain a La) as [k [H1 [H2 [H3 H4]]]].
    exists k. split; [exact H1|]. split; [exact H2|]. split; [|exact H4].
    destruct (fly (iter k a)); [reflexivity|exfalso; apply H3; reflexivity].
  Qed.

  Theorem net_back_to_fly a : Ln a ->
    exists k F, Ln F /\ fly F = true /\ iter k F = a /\ (forall i, 1 <= i -> i <= k -> fly (iter i F) = false).
  Proof.
    intros La.
    destruct (ff_back_to_fly pt nxt Ln Ln_closed (gidx w) (H * W) Ln_idx_lt Ln_idx_inj (fun p => fly p = false)
                plain_dec nxt_uniq nxt_has_pred rk (fun p => badb p = true) rk_nonneg badb_dec rk_descends bad_unique
                F0 (Ln_fly F0 F0_valid F0_fly) F0_not_plain a La) as [k [F [H1 [H2 [H3 H4]]]]].
    exists k, F. split; [exact H1|]. split; [|split; assumption].
    destruct (fly F); [reflexivity|exfalso; apply H2; reflexivity].
  Qed.

  Theorem net_all_reach : exists v0, Ln v0 /\ forall a, Ln a -> exists k, iter k a = v0.
  Proof.
    destruct (ff_all_reach_bad pt nxt Ln Ln_closed rk (fun p => badb p = true) rk_nonneg badb_dec rk_descends bad_unique
                F0 (Ln_fly F0 F0_valid F0_fly)) as [v0 [H1 [_ H3]]].
    exists v0. split; assumption.
  Qed.

  (* ---- the walk of Rules_firefly.ff_walk follows the successor function *)
  Variable ans : answer.
  Hypothesis Hans : forall k, k < NE -> isb (getz ans k) = eb en k.
  Definition onA : nat -> bool := fun k => isb (getz ans k).
  Notation on := onA.

  Lemma on_dart p d : valid p -> In d ff_dirs -> ok p d && on (sid p d) = oD p d || iD p d.
  Proof.
    intros Hp Hd. unfold oD, iD. destruct (ok p d) eqn:K; [|reflexivity]. cbn [andb].
    unfold onA. rewrite Hans by (apply (gsid_lt h w p d); assumption).
    destruct (dart_line p d Hp Hd K) as [E _]. exact E.
  Qed.
  Lemma dart_excl p d : valid p -> In d ff_dirs -> oD p d && iD p d = false.
  Proof.
    intros Hp Hd. unfold oD, iD. destruct (ok p d) eqn:K; [|reflexivity]. cbn [andb].
    destruct (dart_line p d Hp Hd K) as [_ E]. exact E.
  Qed.
  Lemma seg_dart p d : valid p -> In d ff_dirs -> seg H W on (fst p) (snd p) d = oD p d || iD p d.
  Proof. intros Hp Hd. rewrite (gseg h w on p d Hd). apply on_dart; assumption. Qed.

  Lemma filter_eqb_dirs j : In j ff_dirs -> filter (fun d' => Nat.eqb d' j) [0; 1; 2; 3] = [j].
  Proof. intros Hj. destruct (ff_dirs_cases j Hj) as [->|[->|[->| ->]]]; reflexivity. Qed.

  Lemma walk_filter p d : valid p -> In d ff_dirs -> oD p d = true -> fly (gstep p d) = false ->
    Ln (gstep p d) /\
    filter (fun d' => negb (Nat.eqb d' (opposite d)) && seg H W on (fst (gstep p d)) (snd (gstep p d)) d') [0; 1; 2; 3]
    = [od (gstep p d)].
  Proof.
    intros Hp Hd Ho Hf. set (q := gstep p d) in *.
    destruct (step_in p d Hp Hd Ho) as [Hq [Hi [Hno _]]]. fold q in Hq, Hi, Hno.
    assert (Lq : Ln q) by (apply (in_has_out q (opposite d)); [exact Hq|apply ff_opposite_in; exact Hd|exact Hi]).
    split; [exact Lq|]. destruct (Ln_od q Lq) as [Hj [Hoj _]].
    rewrite <- (filter_eqb_dirs (od q) Hj). apply filter_ext_in. intros d' Hd'.
    change (In d' ff_dirs) in Hd'. rewrite (seg_dart q d' Hq Hd').
    destruct (Nat.eqb_spec d' (od q)) as [->|Nj].
    - rewrite Hoj. cbn [orb]. rewrite andb_true_r. apply negb_true_iff. apply Nat.eqb_neq. intros E.
      rewrite E in Hoj. congruence.
    - assert (Hod' : oD q d' = false).
      { destruct (oD q d') eqn:X; [|reflexivity]. exfalso. apply Nj. apply (out_unique q); assumption. }
      rewrite Hod'. cbn [orb]. destruct (Nat.eqb_spec d' (opposite d)) as [->|No]; [reflexivity|].
      cbn [negb andb]. destruct (iD q d') eqn:X; [|reflexivity]. exfalso. apply No.
      apply (in_unique q); try assumption. apply ff_opposite_in; exact Hd.
  Qed.

  Lemma walk_unfold fuel p d t acc : valid p -> In d ff_dirs -> oD p d = true ->
    ff_walk (S fuel) H W dir on (fst p) (snd p) d t acc =
    if fly (gstep p d) then Some (fst (gstep p d), snd (gstep p d), d, t, sid p d :: acc)
    else ff_walk fuel H W dir on (fst (gstep p d)) (snd (gstep p d)) (od (gstep p d))
                 (if Nat.eqb (od (gstep p d)) d then t else (t + 1)%Z) (sid p d :: acc).
  Proof.
    intros Hp Hd Ho. cbn [ff_walk]. change (step_dir (fst p) (snd p) d) with (gstep p d).
    change (ff_seg_id H W (fst p) (snd p) d) with (sid p d).
    destruct (fly (gstep p d)) eqn:Hf.
    - unfold fly in Hf. destruct (gstep p d) as [y' x']. cbn [fst snd] in *. rewrite Hf. reflexivity.
    - destruct (walk_filter p d Hp Hd Ho Hf) as [_ Hfil].
      unfold fly in Hf. destruct (gstep p d) as [y' x']. cbn [fst snd] in *. rewrite Hf, Hfil. reflexivity.
  Qed.

  Lemma nxt_step p d : valid p -> In d ff_dirs -> oD p d = true -> nxt p = gstep p d.
  Proof. intros Hp Hd Ho. apply (od_spec p d Hp Hd Ho). Qed.

  (* where the walk ends, or why it does not *)
  Lemma walk_result fuel : forall p d t acc, valid p -> In d ff_dirs -> oD p d = true ->
    match ff_walk fuel H W dir on (fst p) (snd p) d t acc with
    | Some (y', x', d', _, _) =>
        valid (y', x') /\ fly (y', x') = true /\ In d' ff_dirs /\ iD (y', x') (opposite d') = true
    | None => forall k, 1 <= k -> k <= fuel -> fly (iter k p) = false
    end.
  Proof.
    induction fuel as [|fuel IH]; intros p d t acc Hp Hd Ho.
    - cbn [ff_walk]. intros k H1 H2. lia.
    - rewrite (walk_unfold fuel p d t acc Hp Hd Ho).
      destruct (step_in p d Hp Hd Ho) as [Hq [Hi _]].
      destruct (fly (gstep p d)) eqn:Hf.
      + destruct (gstep p d) as [y' x'] eqn:Eq. cbn [fst snd].
        split; [exact Hq|]. split; [exact Hf|]. split; [exact Hd|exact Hi].
      + destruct (walk_filter p d Hp Hd Ho Hf) as [Lq _]. destruct (Ln_od _ Lq) as [Hj [Hoj _]].
        specialize (IH (gstep p d) (od (gstep p d)) (if Nat.eqb (od (gstep p d)) d then t else (t + 1)%Z)
                       (sid p d :: acc) Hq Hj Hoj).
        destruct (ff_walk fuel H W dir on (fst (gstep p d)) (snd (gstep p d)) (od (gstep p d))
                    (if Nat.eqb (od (gstep p d)) d then t else (t + 1)%Z) (sid p d :: acc)) as [[[[[y' x'] d'] t'] acc']|].
        * exact IH.
        * intros k H1 H2. destruct k as [|k]; [lia|]. cbn [ff_iter]. rewrite (nxt_step p d Hp Hd Ho).
          destruct k as [|k]; [exact Hf|]. apply IH; lia.
  Qed.

  Lemma dirs_straight d j : In d ff_dirs -> In j ff_dirs -> j <> opposite d ->
    Nat.eqb (opposite d / 2) (j / 2) = Nat.eqb j d.
  Proof.
    intros Hd Hj N. destruct (ff_dirs_cases d Hd) as [->|[->|[->| ->]]];
      destruct (ff_dirs_cases j Hj) as [->|[->|[->| ->]]]; cbn [opposite] in N; try reflexivity; exfalso; apply N; reflexivity.
  Qed.

  (* the number of turns *)
  Lemma walk_turns fuel : forall p d t acc n, valid p -> In d ff_dirs -> oD p d = true ->
    (T p d + t = n)%Z -> (0 <= t)%Z -> (n <= M)%Z ->
    forall y' x' d' t' acc', ff_walk fuel H W dir on (fst p) (snd p) d t acc = Some (y', x', d', t', acc') -> t' = n.
  Proof.
    induction fuel as [|fuel IH]; intros p d t acc n Hp Hd Ho Hn Ht HM y' x' d' t' acc' Hw.
    - cbn [ff_walk] in Hw. discriminate.
    - rewrite (walk_unfold fuel p d t acc Hp Hd Ho) in Hw.
      destruct (step_in p d Hp Hd Ho) as [Hq [Hi [Hno HT]]].
      assert (Hod : In (opposite d) ff_dirs) by (apply ff_opposite_in; exact Hd).
      unfold iD in Hi. apply andb_true_iff in Hi. destruct Hi as [Ki Ii].
      destruct (fly (gstep p d)) eqn:Hf.
      + injection Hw as _ _ _ E4 _. subst t'.
        destruct (fly_facts _ Hq Hf) as [Kd [Od [_ Hoth]]].
        assert (Nd : opposite d <> dot (gstep p d)).
        { intros E. destruct (dart_line (gstep p d) (opposite d) Hq Hod Ki) as [_ X].
          rewrite E in X. rewrite Od in X. rewrite <- E in X. rewrite Ii in X. discriminate. }
        destruct (Hoth (opposite d) Hod Ki Nd) as [_ Hz]. specialize (Hz Ii). rewrite HT in Hz.
        unfold sUnk in Hz. lia.
      + destruct (walk_filter p d Hp Hd Ho Hf) as [Lq _]. destruct (Ln_od _ Lq) as [Hj [Hoj _]].
        set (q := gstep p d) in *. set (j := od q) in *.
        assert (Nj : j <> opposite d) by (intros E; rewrite E in Hoj; congruence).
        unfold oD in Hoj. apply andb_true_iff in Hoj. destruct Hoj as [Kj Oj].
        destruct (plain_facts q Hq Hf) as [_ [_ Hpass]].
        specialize (Hpass (opposite d) j Hod Hj Ki Kj (fun E => Nj (eq_sym E)) Ii Oj).
        unfold pass_rel in Hpass. rewrite (dirs_straight d j Hd Hj Nj), HT in Hpass.
        apply (IH q j _ _ n Hq Hj) with (y' := y') (x' := x') (d' := d') (acc' := acc') in Hw; try assumption.
        * unfold oD. rewrite Kj, Oj. reflexivity.
        * destruct (Nat.eqb j d).
          -- apply Z.eqb_eq in Hpass. lia.
          -- apply orb_true_iff in Hpass. destruct Hpass as [Hpass|Hpass].
             ++ apply andb_true_iff in Hpass. destruct Hpass as [X _]. apply Z.eqb_eq in X. unfold sUnk in X. lia.
             ++ apply Z.eqb_eq in Hpass. lia.
        * destruct (Nat.eqb j d); lia.
  Qed.

  (* the segments collected *)
  Lemma walk_segs fuel : forall p d t acc y' x' d' t' acc', valid p -> In d ff_dirs -> oD p d = true ->
    ff_walk fuel H W dir on (fst p) (snd p) d t acc = Some (y', x', d', t', acc') ->
    incl acc acc' /\
    forall k, (forall i, 1 <= i -> i <= k -> fly (iter i p) = false) -> In (sid (iter k p) (od (iter k p))) acc'.
  Proof.
    induction fuel as [|fuel IH]; intros p d t acc y' x' d' t' acc' Hp Hd Ho Hw.
    - cbn [ff_walk] in Hw. discriminate.
    - rewrite (walk_unfold fuel p d t acc Hp Hd Ho) in Hw.
      destruct (od_spec p d Hp Hd Ho) as [Eod Enx].
      destruct (step_in p d Hp Hd Ho) as [Hq _].
      destruct (fly (gstep p d)) eqn:Hf.
      + injection Hw as _ _ _ _ E5. subst acc'. split; [intros a Ha; right; exact Ha|].
        intros k Hk. destruct k as [|k].
        * cbn [ff_iter]. rewrite Eod. left. reflexivity.
        * exfalso. specialize (Hk 1 ltac:(lia) ltac:(lia)). cbn [ff_iter] in Hk. rewrite Enx in Hk. congruence.
      + destruct (walk_filter p d Hp Hd Ho Hf) as [Lq _]. destruct (Ln_od _ Lq) as [Hj [Hoj _]].
        destruct (IH _ _ _ _ _ _ _ _ _ Hq Hj Hoj Hw) as [Hincl Hmem].
        split; [intros a Ha; apply Hincl; right; exact Ha|].
        intros k Hk. destruct k as [|k].
        * cbn [ff_iter]. rewrite Eod. apply Hincl. left. reflexivity.
        * cbn [ff_iter]. rewrite Enx. apply Hmem. intros i H1 H2.
          specialize (Hk (S i) ltac:(lia) ltac:(lia)). cbn [ff_iter] in Hk. rewrite Enx in Hk. exact Hk.
  Qed.

  (* ---- the rules, one by one *)
  Notation g := (lattice H W).

  Lemma count_dirs (f : nat -> bool) : count f ff_dirs = b2n (f 0) + b2n (f 1) + b2n (f 2) + b2n (f 3).
  Proof. unfold count, ff_dirs. simpl. destruct (f 0), (f 1), (f 2), (f 3); reflexivity. Qed.

  Lemma degree_in_out p : valid p -> degree g on (gidx w p) = n_out h w en p + n_in h w en p.
  Proof.
    intros Hp. rewrite (lattice_degree_darts h w on p Hp).
    rewrite !on_dart by (try exact Hp; simpl; auto).
    unfold n_out, n_in. change (fun d => ok p d && Out p d) with (oD p). change (fun d => ok p d && In_ p d) with (iD p).
    rewrite !count_dirs.
    pose proof (dart_excl p 0 Hp ltac:(simpl; auto)). pose proof (dart_excl p 1 Hp ltac:(simpl; auto)).
    pose proof (dart_excl p 2 Hp ltac:(simpl; auto)). pose proof (dart_excl p 3 Hp ltac:(simpl; auto)).
    destruct (oD p 0), (iD p 0), (oD p 1), (iD p 1), (oD p 2), (iD p 2), (oD p 3), (iD p 3);
      try discriminate; reflexivity.
  Qed.

  Lemma rule_degree :
    forallb (fun '(y, x) => ff_is dir W y x ||
               (let d := degree g on (y * W + x) in Nat.eqb d 0 || Nat.eqb d 2)) (cells H W) = true.
  Proof.
    apply forallb_forall. intros [y x] Hc. apply cells_in in Hc.
    assert (Hp : valid (y, x)) by (split; cbn [fst snd]; lia).
    destruct (ff_is dir W y x) eqn:Hf; [reflexivity|]. cbn [orb].
    change (y * W + x) with (gidx w (y, x)). rewrite (degree_in_out _ Hp).
    destruct (plain_facts (y, x) Hp Hf) as [H1 [H2 _]]. rewrite <- H2.
    destruct (n_in h w en (y, x)) as [|[|n]]; [reflexivity|reflexivity|lia].
  Qed.

  Lemma num_le_M p : valid p -> fly p = true -> (0 <= at2 num W (fst p) (snd p))%Z ->
    (at2 num W (fst p) (snd p) <= M)%Z.
  Proof.
    intros [Hy Hx] Hf Hn. unfold ff_max_turn. apply fold_max_ge. left.
    apply in_map_iff. exists p. split.
    - destruct p as [y x]. cbn [fst snd] in *. unfold fly in Hf. cbn [fst snd] in Hf. rewrite Hf.
      replace (0 <=? at2 num W y x)%Z with true by (symmetry; apply Z.leb_le; exact Hn). reflexivity.
    - destruct p as [y x]. apply cells_in. cbn [fst snd] in *. lia.
  Qed.

  Lemma beam_some p : valid p -> fly p = true ->
    exists y' x' d' t' segs,
      ff_walk (H * W) H W dir on (fst p) (snd p) (dot p) 0%Z [] = Some (y', x', d', t', segs) /\
      ff_beam H W dir on (fst p) (snd p) = Some (y', x', d', t', segs) /\
      Nat.eqb (ff_dot dir W y' x') (opposite d') = false /\
      (let n := at2 num W (fst p) (snd p) in (n <? 0)%Z || (t' =? n)%Z) = true.
  Proof.
    intros Hp Hf. destruct (fly_facts p Hp Hf) as [Kd [Od [HT _]]].
    pose proof (dot_in p Hf) as Hd.
    assert (Ho : oD p (dot p) = true) by (unfold oD; rewrite Kd, Od; reflexivity).
    pose proof (walk_result (H * W) p (dot p) 0%Z [] Hp Hd Ho) as Hres.
    destruct (ff_walk (H * W) H W dir on (fst p) (snd p) (dot p) 0%Z []) as [[[[[y' x'] d'] t'] segs]|] eqn:Hw.
    - exists y', x', d', t', segs. split; [reflexivity|]. destruct Hres as [Hq [Hfq [Hd' Hi]]].
      split; [|split].
      + unfold ff_beam. fold (dot p). rewrite (seg_dart p (dot p) Hp Hd), Ho. cbn [orb]. exact Hw.
      + apply Nat.eqb_neq. intros E.
        destruct (fly_facts _ Hq Hfq) as [Kq [Oq _]].
        pose proof (dart_excl (y', x') (dot (y', x')) Hq (dot_in _ Hfq)) as X.
        unfold oD in X. rewrite Kq, Oq in X. cbn [andb] in X.
        change (dot (y', x')) with (ff_dot dir W y' x') in X. rewrite E in X. congruence.
      + cbv zeta. destruct (at2 num W (fst p) (snd p) <? 0)%Z eqn:Hn; [reflexivity|]. cbn [orb].
        apply Z.ltb_ge in Hn. apply Z.eqb_eq.
        apply (walk_turns (H * W) p (dot p) 0%Z [] _ Hp Hd Ho) with (y' := y') (x' := x') (d' := d') (acc' := segs).
        * rewrite HT. cbv zeta. replace (at2 num W (fst p) (snd p) <? 0)%Z with false by (symmetry; apply Z.ltb_ge; exact Hn). lia.
        * lia.
        * apply num_le_M; assumption.
        * exact Hw.
    - exfalso. destruct (net_fly_ahead p (Ln_fly p Hp Hf)) as [k [H1 [H2 [H3 _]]]].
      rewrite (Hres k H1 H2) in H3. discriminate.
  Qed.

  Notation flies := (filter (fun '(y, x) => ff_is dir W y x) (cells H W)).
  Notation beams := (map (fun '(y, x) => (y, x, ff_beam H W dir on y x)) flies).

  Lemma rule_beams :
    forallb (fun '(y, x, b) =>
               match b with
               | Some (y', x', d, t, _) =>
                   negb (Nat.eqb (ff_dot dir W y' x') (opposite d)) &&
                   (let n := at2 num W y x in (n <? 0)%Z || (t =? n)%Z)
               | None => false
               end) beams = true.
  Proof.
    rewrite forallb_map. apply forallb_forall. intros [y x] Hc. apply filter_In in Hc. destruct Hc as [Hc Hf].
    apply cells_in in Hc. assert (Hp : valid (y, x)) by (split; cbn [fst snd]; lia).
    destruct (beam_some (y, x) Hp Hf) as [y' [x' [d' [t' [segs [_ [Hb [Ha Ht]]]]]]]].
    cbn [fst snd] in Hb, Ht. rewrite Hb, Ha. cbn [negb andb]. exact Ht.
  Qed.

  Lemma rule_cover :
    forallb (fun k => negb (on k) ||
               existsb (fun '(_, _, b) => match b with Some (_, _, _, _, segs) => mem k segs | None => false end) beams)
            (seq 0 (n_lattice_edges H W)) = true.
  Proof.
    apply forallb_forall. intros k Hk. apply in_seq in Hk. destruct (on k) eqn:Hok; [|reflexivity]. cbn [negb orb].
    destruct (gsid_onto h w k ltac:(unfold ff_NE; lia)) as [p [d [Hp [Hd13 [K Es]]]]].
    assert (Hd : In d ff_dirs) by (destruct Hd13 as [->| ->]; simpl; auto).
    pose proof (on_dart p d Hp Hd) as Hod. rewrite K, Es, Hok in Hod. cbn [andb] in Hod. symmetry in Hod.
    (* an outgoing dart on segment k *)
    assert (Hdart : exists a da, valid a /\ In da ff_dirs /\ oD a da = true /\ sid a da = k).
    { apply orb_true_iff in Hod. destruct Hod as [Ho|Hi].
      - exists p, d. split; [exact Hp|]. split; [exact Hd|]. split; [exact Ho|exact Es].
      - destruct (grev h w p d Hp Hd K) as [R1 [_ R3]]. destruct (sOut_rev h w en p d Hp Hd K) as [_ [S2 _]].
        exists (gstep p d), (opposite d). split; [apply gstep_valid; assumption|].
        split; [apply ff_opposite_in; exact Hd|]. split; [|rewrite R3; exact Es].
        unfold iD in Hi. rewrite K in Hi. cbn [andb] in Hi. unfold oD. rewrite R1, S2. exact Hi. }
    destruct Hdart as [a [da [Ha [Hda [Hoa Esa]]]]].
    assert (La : Ln a) by (split; [exact Ha|exists da; split; assumption]).
    destruct (net_back_to_fly a La) as [k' [F [LF [HfF [Hit Hpl]]]]].
    destruct LF as [HF _].
    destruct (beam_some F HF HfF) as [y' [x' [d' [t' [segs [Hw [Hb _]]]]]]].
    destruct (fly_facts F HF HfF) as [Kd [Od _]].
    assert (HoF : oD F (dot F) = true) by (unfold oD; rewrite Kd, Od; reflexivity).
    destruct (walk_segs _ _ _ _ _ _ _ _ _ _ HF (dot_in F HfF) HoF Hw) as [_ Hmem].
    specialize (Hmem k' Hpl). rewrite Hit in Hmem.
    destruct (od_spec a da Ha Hda Hoa) as [Eod _]. rewrite Eod, Esa in Hmem.
    apply existsb_exists. exists (fst F, snd F, ff_beam H W dir on (fst F) (snd F)). split.
    - apply in_map_iff. exists F. split; [destruct F; reflexivity|].
      apply filter_In. split; [|destruct F; exact HfF].
      destruct F as [yF xF]. apply cells_in. destruct HF as [A B]. cbn [fst snd] in *. lia.
    - rewrite Hb. apply ReachProofs.mem_In. exact Hmem.
  Qed.

  Lemma reach_iter a k : Ln a -> reach g (fun _ => true) on (gidx w a) (gidx w (iter k a)).
  Proof.
    intros La. induction k as [|k IH].
    - apply reach_refl. reflexivity.
    - rewrite ff_iter_S. set (b := iter k a) in *.
      assert (Lb : Ln b) by (apply ff_iter_L; [exact Ln_closed|exact La]).
      destruct (Ln_od b Lb) as [Hd [Ho E]]. destruct Lb as [Hb _]. rewrite E.
      apply reach_step with (v := gidx w b); [exact IH| |reflexivity].
      unfold oD in Ho. apply andb_true_iff in Ho. destruct Ho as [K O].
      apply (lattice_nbrs_dart h w on b (od b) Hb Hd K).
      pose proof (on_dart b (od b) Hb Hd) as X. rewrite K in X. cbn [andb] in X. rewrite X. unfold oD. rewrite K, O. reflexivity.
  Qed.

  Lemma gidx_onto v : v < H * W -> exists p, valid p /\ gidx w p = v.
  Proof.
    intros Hv. exists (v / W, v mod W). unfold gvalid, gidx. cbn [fst snd].
    pose proof (Nat.mod_upper_bound v W ltac:(lia)) as Hm. pose proof (Nat.div_mod v W ltac:(lia)) as Hdm.
    assert (Hq : v / W < H) by (apply Nat.div_lt_upper_bound; lia). split; [split; lia|lia].
  Qed.

  Lemma online_Ln v : v < H * W -> on_line g on v = true -> exists p, Ln p /\ gidx w p = v.
  Proof.
    intros Hv Hl. destruct (gidx_onto v Hv) as [p [Hp Ev]]. exists p. split; [|exact Ev].
    unfold on_line in Hl. rewrite <- Ev, (degree_in_out p Hp) in Hl. apply negb_true_iff, Nat.eqb_neq in Hl.
    assert (Hpos : 1 <= n_out h w en p \/ 1 <= n_in h w en p) by lia.
    destruct Hpos as [Hpos|Hpos].
    - split; [exact Hp|]. apply (count_pos_ex (oD p)). exact Hpos.
    - destruct (count_pos_ex (iD p) ff_dirs Hpos) as [d [Hd Hi]]. apply (in_has_out p d); assumption.
  Qed.

  Lemma rule_connected :
    match filter (on_line g on) (seq 0 (nv g)) with
    | [] => true
    | s :: _ as l => let c := component g (fun _ => true) on s in forallb (fun v => mem v c) l
    end = true.
  Proof.
    destruct (filter (on_line g on) (seq 0 (nv g))) as [|s l] eqn:Hfil; [reflexivity|].
    cbv zeta. apply forallb_forall. intros v Hv.
    assert (Hs : In s (filter (on_line g on) (seq 0 (nv g)))) by (rewrite Hfil; left; reflexivity).
    assert (Hv' : In v (s :: l)) by (right; exact Hv). clear Hv. rename Hv' into Hv.
    rewrite <- Hfil in Hv. apply filter_In in Hs, Hv. destruct Hs as [Hs1 Hs2], Hv as [Hv1 Hv2].
    apply in_seq in Hs1, Hv1. cbn [nv lattice] in Hs1, Hv1.
    destruct (online_Ln s ltac:(lia) Hs2) as [ps [Ls Es]]. destruct (online_Ln v ltac:(lia) Hv2) as [pv [Lv Ev]].
    destruct net_all_reach as [v0 [_ Hall]].
    destruct (Hall ps Ls) as [ks Eks]. destruct (Hall pv Lv) as [kv Ekv].
    apply ReachProofs.mem_In. apply ReachProofs.component_complete.
    - apply CycleCompose.lattice_wf.
    - cbn [nv lattice]. lia.
    - rewrite <- Es, <- Ev. apply ReachProofs.reach_trans with (v := gidx w v0).
      + rewrite <- Eks. apply reach_iter. exact Ls.
      + apply ReachProofs.reach_sym. rewrite <- Ekv. apply reach_iter. exact Lv.
  Qed.
End Net.
