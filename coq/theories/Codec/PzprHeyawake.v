(* Whole-body agreement with the independent pzpr decoders for the bodies made of a border
   bitmap and a number list:
     heyawake    decodeBorder, then decodeRoomNumber16 over the rooms ordered by their least cell
     aquarium    decodeBorder, "/", decodeNumber16ExCell (column clues then row clues)
     star battle decodeBorder (after "<stars>/")
   composed from Codec/SegmentationEq.v, PzprBorders.v, PzprNumber16.v and C15's
   RoomsValued.v (ValuedRooms.serialize evaluated for rooms given in any order). *)
From Coq Require Import ZArith List Ascii Bool NArith Lia Sorting.Permutation.
From Cspuz Require Import Lib.PyErr Codec.Comb Codec.CombWf Codec.CombBasics Codec.CombLeaf Codec.CombRoundTrip
  Codec.RoomsGrid Codec.RoomsFill Codec.RoomsProofs Codec.RoomsCanon Codec.RoomsValued
  Codec.Legacy Codec.LegacyProofs Codec.LegacyEq Codec.Pzpr Codec.PzprProofs
  Codec.SegmentationEq Codec.PzprBorders Codec.PzprNumber16.
Import ListNotations.
Local Open Scope Z_scope.

(* ------------------------------------------------------------------ list facts *)
Lemma isort_map {A B} (key : A -> cell) (key' : B -> cell) (f : A -> B) :
  (forall x, key' (f x) = key x) -> forall l, isort key' (map f l) = map f (isort key l).
Proof.
  intros Hk. induction l as [|p t IH]; [reflexivity|]. cbn [map isort]. rewrite IH.
  generalize (isort key t). intros s. induction s as [|q s IHs]; [reflexivity|].
  cbn [map ins]. rewrite !Hk. destruct (cell_ltb (key p) (key q)); [reflexivity|]. rewrite IHs. reflexivity.
Qed.

Lemma combine_map_r {A B C} (f : B -> C) (l : list A) (m : list B) :
  combine l (map f m) = map (fun p => (fst p, f (snd p))) (combine l m).
Proof. revert m; induction l as [|a l IH]; intros [|b m]; cbn [combine map]; auto. rewrite IH. reflexivity. Qed.

Lemma Forall2_perm_refl (l : list (list cell)) : Forall2 (@Permutation cell) l l.
Proof. induction l; constructor; auto. Qed.

Lemma rooms_nonempty h w rs : 1 <= h -> 1 <= w -> valid_rooms h w rs -> rs <> [].
Proof.
  intros Hh Hw (_ & Hp & _) ->. cbn [concat] in Hp. apply Permutation_nil in Hp.
  assert (Hin : In (0%nat, 0%nat) (cells_of (Z.of_nat (Z.to_nat h)) (Z.of_nat (Z.to_nat w)))) by (apply cells_of_in; lia).
  rewrite !Z2Nat.id in Hin by lia. rewrite Hp in Hin. contradiction.
Qed.

(* the text of a partition does not depend on the order in which the rooms are listed *)
Lemma rooms_text_perm H W rs rs' : valid_rooms (Z.of_nat H) (Z.of_nat W) rs -> Permutation rs' rs ->
  rooms_text H W rs' = rooms_text H W rs /\
  vg H W (rid_of rs') = vg H W (rid_of rs) /\ hg H W (rid_of rs') = hg H W (rid_of rs).
Proof.
  intros Hv Hp. pose proof (valid_rooms_perm _ _ rs rs' Hp Hv) as Hv'.
  assert (Heq : rooms_equiv rs' rs).
  { exists rs. split; [apply Permutation_sym; exact Hp|apply Forall2_perm_refl]. }
  destruct (borders_equiv H W rs' rs Hv' Hv Heq) as [E1 E2].
  unfold rooms_text. rewrite E1, E2. auto.
Qed.

(* ------------------------------------------------------------------ heyawake *)
Definition hey_vc : comb := OneOf [HexInt; Spaces (VInt (-1)) "g"%char].
Definition hey_term : comb := ValuedRooms hey_vc true false.

(* the rooms with their clues in pzpr's room order: by least (row-major) cell *)
Definition by_least_cell (ps : list (list cell * Z)) : list (list cell * Z) := isort (fun p => min_cell (fst p)) ps.

Theorem heyawake_pzpr_reads : forall h w rs l,
  1 <= h -> 1 <= w -> valid_rooms h w rs -> length l = length rs -> Forall (fun v => -1 <= v <= 4095) l ->
  exists body rest,
    serialize_problem hey_term (VTup [rooms_to_pv rs; VList (map VInt l)]) h w = Ok body /\
    pzpr_decode_heyawake_borders (Z.to_nat h) (Z.to_nat w) body
      = Some (concat (vg (Z.to_nat h) (Z.to_nat w) (rid_of rs)), concat (hg (Z.to_nat h) (Z.to_nat w) (rid_of rs)), rest) /\
    pzpr_decode_room_numbers (length rs) rest = Some (map snd (by_least_cell (combine rs l))).
Proof.
  intros h w rs l Hh Hw Hval Hlen Hall.
  set (H := Z.to_nat h). set (W := Z.to_nat w).
  assert (EH : h = Z.of_nat H) by (unfold H; lia). assert (EW : w = Z.of_nat W) by (unfold W; lia).
  pose proof (rooms_nonempty h w rs Hh Hw Hval) as Hrne.
  pose proof Hval as (Hne & _ & _).
  set (psz := by_least_cell (combine rs l)).
  assert (Hperm : Permutation psz (combine rs l)) by apply isort_perm.
  assert (Hrs' : Permutation (map fst psz) rs).
  { eapply Permutation_trans; [apply Permutation_map; exact Hperm|]. rewrite map_fst_combine by exact Hlen. apply Permutation_refl. }
  assert (Hl' : Permutation (map snd psz) l).
  { eapply Permutation_trans; [apply Permutation_map; exact Hperm|]. rewrite map_snd_combine by exact Hlen. apply Permutation_refl. }
  assert (Hlp : length psz = length rs).
  { rewrite (Permutation_length Hperm), combine_length. lia. }
  set (rs' := map fst psz). set (l' := map snd psz).
  assert (Hval' : valid_rooms h w rs') by (apply (valid_rooms_perm h w rs rs' Hrs' Hval)).
  assert (Hall' : Forall (fun v => -1 <= v <= 4095) l').
  { apply Forall_forall. intros v Hv. rewrite Forall_forall in Hall. apply Hall. eapply Permutation_in; eauto. }
  assert (Hl'ne : l' <> []).
  { intros E. apply (f_equal (@length _)) in E. unfold l' in E. rewrite map_length, Hlp in E. destruct rs; [congruence|discriminate]. }
  (* the sorted pairs as Python values *)
  assert (Eps : isort rkey (combine rs (map VInt l)) = map (fun p => (fst p, VInt (snd p))) psz).
  { rewrite combine_map_r. apply (isort_map (fun p : list cell * Z => min_cell (fst p)) rkey). intros x. reflexivity. }
  (* the two parts *)
  assert (Hs1 : exists k1, rooms_ser (mk_env h w) true (VList [rooms_to_pv rs']) 0 = Ok (Some (k1, rooms_text H W rs'))).
  { pose proof (rooms_ser_text H W rs' true false ltac:(lia) ltac:(lia)) as Hrt. rewrite <- EH, <- EW in Hrt.
    specialize (Hrt Hval'). unfold serialize_problem in Hrt. cbn [ser] in Hrt.
    destruct (rooms_ser (mk_env h w) true (VList [rooms_to_pv rs']) 0) as [[[k1 s1]|]|]; try discriminate.
    injection Hrt as Hs. exists k1. rewrite Hs. reflexivity. }
  destruct Hs1 as (k1 & Hs1).
  destruct (room_numbers_pzpr_reads (mk_env h w) l' Hl'ne Hall') as (text2 & Hs2 & _ & Hd2).
  change (ser (mk_env h w) (Seq (OneOf [HexInt; Spaces (VInt (-1)) "g"%char]) (Z.of_nat (length l'))) (VList [VList (map VInt l')]) 0)
    with (seq_ser (ser (mk_env h w) hey_vc) (Z.of_nat (length l')) (VList [VList (map VInt l')]) 0) in Hs2.
  destruct (rooms_text_perm H W rs rs') as (Et & Ev & Eh); [rewrite <- EH, <- EW; exact Hval|exact Hrs'|].
  exists (rooms_text H W rs' ++ text2), text2. split; [|split].
  - unfold serialize_problem, hey_term. cbn [ser]. rewrite (vrooms_ser_eval _ _ _ rs (map VInt l) Hne). cbv zeta.
    rewrite Eps. rewrite map_length.
    assert (E1 : map fst (map (fun p : list cell * Z => (fst p, VInt (snd p))) psz) = rs') by (rewrite map_map; reflexivity).
    assert (E2 : map snd (map (fun p : list cell * Z => (fst p, VInt (snd p))) psz) = map VInt l')
      by (unfold l'; rewrite !map_map; reflexivity).
    rewrite E1, E2. unfold vr_parts.
    assert (Elen : length psz = length l') by (unfold l'; rewrite map_length; reflexivity).
    destruct (length psz) as [|n0] eqn:En; [destruct rs; [congruence|discriminate]|].
    rewrite Hs1. rewrite Elen, Hs2. reflexivity.
  - unfold pzpr_decode_heyawake_borders. rewrite decode_border_rooms_text. rewrite Ev, Eh. reflexivity.
  - replace (length rs) with (length l') by (unfold l'; rewrite map_length; exact Hlp). exact Hd2.
Qed.

(* ------------------------------------------------------------------ aquarium (legacy encoders) *)
(* problem_to_url(blocks, clue_row, clue_col): border bitmap, "/", the numbers above the board
   (columns) followed by the numbers left of it (rows); -1 = no number *)
Theorem aquarium_pzpr_reads : forall h w rs clue_row clue_col,
  1 <= h -> 1 <= w -> valid_rooms h w rs ->
  length clue_col = Z.to_nat w -> length clue_row = Z.to_nat h ->
  Forall (fun v => -1 <= v <= 4095) (clue_col ++ clue_row) ->
  exists body,
    aquarium_url h w (map (map zcell) rs) clue_row clue_col
      = Ok (aquarium_prefix ++ py_str_int w ++ slash ++ py_str_int h ++ slash ++ body) /\
    pzpr_decode_aquarium (Z.to_nat h) (Z.to_nat w) body
      = Some (concat (vg (Z.to_nat h) (Z.to_nat w) (rid_of rs)), concat (hg (Z.to_nat h) (Z.to_nat w) (rid_of rs)),
              clue_col ++ clue_row).
Proof.
  intros h w rs cr cc Hh Hw Hval Hcc Hcr Hall.
  set (H := Z.to_nat h) in *. set (W := Z.to_nat w) in *.
  destruct (segmentation_eq_rooms_total h w rs Hh Hw Hval) as (bid & Hb & Hs & _). fold H W in Hs.
  assert (Hne : cc ++ cr <> []).
  { intros E. apply (f_equal (@length _)) in E. rewrite app_length, Hcc in E. unfold W in E. simpl in E. lia. }
  destruct (excell_numbers_pzpr_reads (cc ++ cr) Hne Hall) as (He & Hd).
  exists (rooms_text H W rs ++ slash ++ enc_ints (-1) (cc ++ cr) 0). split.
  - unfold aquarium_url. rewrite Hb. cbn [bind]. rewrite Hs. cbn [bind]. rewrite He. cbn [bind].
    reflexivity.
  - unfold pzpr_decode_aquarium. rewrite decode_border_rooms_text. cbn [slash app].
    change (is_ch "/" "/"%char) with true. cbv iota.
    replace (W + H)%nat with (length (cc ++ cr)) by (rewrite app_length; lia).
    rewrite Hd. reflexivity.
Qed.

(* ------------------------------------------------------------------ star battle (legacy encoder) *)
(* problem_to_pzv_url(n, k, block_id): "n/n/k/" then the border bitmap of the block-id grid *)
Theorem starbattle_pzpr_reads : forall n k rs,
  1 <= n -> valid_rooms n n rs ->
  exists bid text,
    blocks_to_block_id n n (map (map zcell) rs) = Ok bid /\
    starbattle_url n k bid
      = Ok (starbattle_prefix ++ py_str_int n ++ slash ++ py_str_int n ++ slash ++ py_str_int k ++ slash ++ text) /\
    pzpr_decode_rooms (Z.to_nat n) (Z.to_nat n) text
      = Some (concat (vg (Z.to_nat n) (Z.to_nat n) (rid_of rs)), concat (hg (Z.to_nat n) (Z.to_nat n) (rid_of rs))).
Proof.
  intros n k rs Hn Hval.
  destruct (segmentation_eq_rooms_total n n rs Hn Hn Hval) as (bid & Hb & Hs & _).
  exists bid, (rooms_text (Z.to_nat n) (Z.to_nat n) rs). split; [exact Hb|]. split.
  - unfold starbattle_url. rewrite Hs. reflexivity.
  - destruct (rooms_pzpr_agrees_whole n n rs Hn Hn Hval) as [_ Hd]. exact Hd.
Qed.
