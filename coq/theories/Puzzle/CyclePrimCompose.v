(* C11 Tier 1, native-operator route - composition with property C06 for the loop puzzles when
   cspuz.config.use_graph_primitive is on (csugar / enigma_csp / cspuz_core backends): a solver that declares a
   BoolGridFrame of an h x w cell board as the answer key and calls graph.active_edges_single_cycle on it.  On
   this route _active_edges_single_cycle still declares the array is_passed (one fresh Boolean per lattice point,
   the (h+1)(w+1) variables right after the frame, so the returned array is CycleFrameBase.frame_passed as on the
   auxiliary-variable route) but no rank / root variables: it posts one degree constraint per point
   (count_true(incident segments) == is_passed[i].cond(2, 0)) and ONE native node
   Op.GRAPH_ACTIVE_VERTICES_CONNECTED over Graph.line_graph of the frame graph, whose meaning is Cycle.gsem_c06
   (the specification the external solver is trusted to implement, property C06).

   Main theorem: cycle_frame_prim_compose - same conclusion as CycleCompose.cycle_frame_compose, for the evaluator
   gsem_c06.  It uses C06's closed theorems cycle_frame (both flag values), cycle_primitive,
   cycle_primitive_passed and the shape lemma behind cycle_primitive_total, and CycleCompose.frame_lattice (the
   frame graph is PuzzleBase.lattice up to the order of the edges).
   The constraints the puzzle modules add contain no native node, so their meaning does not depend on the
   evaluator (holds_c06_no_graph, from SolveCompose.eval_gsem_irrelevant). *)
From Coq Require Import ZArith List Bool Arith Lia Permutation.
From Cspuz Require Import Lib.PyErr Core.Expr Core.Program Graph.GraphModel Graph.ReachProofs
     Graph.Cycle Graph.CycleLemmas Graph.CycleCert Graph.CycleProofs Graph.CycleMain Graph.CycleFrame Graph.CycleSpec
     Graph.LineGraph Graph.CyclePrim
     Backend.Z3SolveProofs
     Puzzle.PuzzleBase Puzzle.SatAbs Puzzle.ModelBase Puzzle.ModelLemmas Puzzle.CreekProofs
     Puzzle.CycleFrameBase Puzzle.CycleCompose Puzzle.SolveCompose Puzzle.WfLemmas.
Import ListNotations.
Local Open Scope nat_scope.

Notation b2z := PuzzleBase.b2z.

(* graph.active_edges_single_cycle(solver, grid_frame) on the fresh frame with use_graph_primitive on *)
Definition frame_cycle_prim (h w : nat) : res (state * passed_result) :=
  active_edges_single_cycle (frame_state h w) (AFrame h w (frame_hor h w) (frame_ver h w)) None true.

(* ------------------------------------------------------------------------------------------------------ *)
(* constraints without native nodes mean the same for every evaluator                                      *)

Lemma holds_gsem_irrelevant gsem en e : wt true e = true -> holds gsem en e = holds no_graph en e.
Proof. intros W. unfold holds. rewrite (eval_gsem_irrelevant gsem e true W en). reflexivity. Qed.

Lemma holds_c06_no_graph vs en (cs : list expr) :
  forallb (ok vs true) cs = true -> forallb (holds gsem_c06 en) cs = forallb (holds no_graph en) cs.
Proof.
  intros H. apply forallb_ext_in. intros e He. rewrite forallb_forall in H. specialize (H e He).
  unfold ok in H. apply andb_true_iff in H. apply holds_gsem_irrelevant. exact (proj1 H).
Qed.

(* ------------------------------------------------------------------------------------------------------ *)
(* the call succeeds on every frame (also frames without segments) and returns the next (h+1)(w+1) variables *)

Lemma frame_edges_cl h w e :
  In e (frame_edges h w (frame_hor h w) (frame_ver h w)) -> is_constraint_like e = true.
Proof.
  intros He. apply (frame_edges_in h w _ _ (frame_hor_length h w) (frame_ver_length h w)) in He.
  destruct He as [He|He]; apply in_map_iff in He; destruct He as [k [<- _]]; reflexivity.
Qed.

Lemma frame_cycle_prim_ok h w :
  exists st1, frame_cycle_prim h w = Ok (st1, P2 (S h) (S w) (frame_passed h w)) /\
              vars st1 = repeat DBool (frame_n h w) ++ repeat DBool (S h * S w).
Proof.
  unfold frame_cycle_prim.
  destruct (CycleFrame.cycle_frame h w _ _ (frame_hor_length h w) (frame_ver_length h w))
    as [_ [Hnv [_ [Hlen [_ [Hc _]]]]]].
  rewrite Hc.
  assert (Hb : next_id (frame_state h w) = frame_n h w) by (unfold next_id; simpl; apply repeat_length).
  destruct (post_cycle_prim_shape _ (frame_graph h w (frame_hor h w) (frame_ver h w)) (frame_n h w) Hlen
              (frame_edges_cl h w) (frame_state h w) Hb) as [st' [Hp [Hv Hcs]]].
  rewrite Hp. exists st'. unfold passedL. rewrite Hnv. split; [reflexivity|].
  rewrite Hv, Hnv. reflexivity.
Qed.

(* ------------------------------------------------------------------------------------------------------ *)
(* the composition theorem                                                                                 *)

Theorem cycle_frame_prim_compose h w (extra : list expr) (local : answer -> bool) st1 res ans :
  frame_cycle_prim h w = Ok (st1, res) ->
  (forall en,
     (forall y x, y <= h -> x <= w ->
        eb en (frame_pid h w y x) = on_line (lattice (S h) (S w)) (eb en) (y * S w + x)) ->
     local (map (fun i => b2z (eb en i)) (seq 0 (frame_n h w))) = forallb (holds gsem_c06 en) extra) ->
  res = P2 (S h) (S w) (frame_passed h w) /\
  ((exists en, model_of gsem_c06 en (ensure st1 extra) /\
               reads (ensure st1 extra) en (seq 0 (frame_n h w)) = ans)
   <-> Nat.eqb (length ans) (frame_n h w) && forallb is01 ans &&
       single_loop_b (lattice (S h) (S w)) (fun k => isb (getz ans k)) && local ans = true).
Proof.
  set (N := frame_n h w). set (st0 := frame_state h w).
  set (hor := frame_hor h w). set (ver := frame_ver h w).
  set (G := frame_graph h w hor ver). set (fe := frame_edges h w hor ver).
  set (L := lattice (S h) (S w)).
  intros Hcall Hloc.
  destruct (frame_cycle_prim_ok h w) as [st1' [Hcall' Hv]].
  rewrite Hcall in Hcall'. inversion Hcall'; subst st1' res. clear Hcall'.
  split; [reflexivity|].
  assert (Hn0 : next_id st0 = N) by (unfold next_id; simpl; apply repeat_length).
  destruct (CycleFrame.cycle_frame h w _ _ (frame_hor_length h w) (frame_ver_length h w))
    as [_ [Hnv [Hwf [Hlen [_ [Hc _]]]]]].
  fold hor ver G fe in Hnv, Hwf, Hlen, Hc.
  (* the call is post_cycle on the frame graph *)
  assert (Hpost : post_cycle st0 fe G true = Ok (st1, frame_passed h w)).
  { unfold frame_cycle_prim in Hcall. fold hor ver st0 in Hcall. rewrite Hc in Hcall.
    destruct (post_cycle st0 fe G true) as [[s p]|e]; [|discriminate].
    inversion Hcall; subst. reflexivity. }
  assert (Hf : forall en, flags_ok gsem_c06 st0 en fe).
  { intros en e He. apply (frame_edges_in h w _ _ (frame_hor_length h w) (frame_ver_length h w)) in He.
    destruct He as [He|He]; apply in_map_iff in He; destruct He as [k [<- Hk]]; apply in_seq in Hk;
      (split; [reflexivity|]; split; [rewrite Hn0; unfold N, frame_n; simpl; lia|]; eexists; reflexivity). }
  assert (Hib : forall en, in_bounds en st0 = true) by (intros en; apply in_bounds_bool_grid).
  assert (HLlen : length (edges L) = N) by apply lattice_edges_length.
  assert (Hsplit : forall en, model_of gsem_c06 en (ensure st1 extra) <->
                              (model_of gsem_c06 en st1 /\ forallb (holds gsem_c06 en) extra = true)).
  { intros en. unfold model_of, in_bounds, satisfies, ensure. simpl. rewrite forallb_app, andb_true_iff. tauto. }
  assert (Hreads : forall en, reads (ensure st1 extra) en (seq 0 N) = map (fun i => b2z (eb en i)) (seq 0 N)).
  { intros en. eapply reads_bool_prefix. simpl. exact Hv. }
  assert (Hext : forall en en', extends_sat gsem_c06 st0 st1 en en' -> model_of gsem_c06 en' st1).
  { intros en en' [_ [H1 H2]]. split; [exact H1|exact H2]. }
  assert (Hself : forall en, model_of gsem_c06 en st1 -> extends_sat gsem_c06 st0 st1 en en).
  { intros en [H1 H2]. split; [intros i _; split; reflexivity|]. split; [exact H1|exact H2]. }
  (* what C06 says about the call, for every assignment of the frame variables *)
  assert (C6 : forall en,
     ((exists en', extends_sat gsem_c06 st0 st1 en en') <-> single_loop_b L (eb en) = true) /\
     (forall en', extends_sat gsem_c06 st0 st1 en en' ->
        forall y x, y <= h -> x <= w -> eb en' (frame_pid h w y x) = on_line L (eb en) (y * S w + x))).
  { intros en.
    destruct (frame_lattice h w gsem_c06 en) as [FL1 FL2]. fold hor ver L G fe in FL1, FL2.
    split.
    - rewrite <- FL1.
      exact (cycle_primitive st0 fe G en st1 (frame_passed h w) Hwf Hlen (Hf en) (Hib en) Hpost).
    - intros en' He y x Hy Hx.
      destruct (cycle_primitive_passed st0 fe G en st1 (frame_passed h w) Hwf Hlen (Hf en) en' Hpost He)
        as [_ PASS].
      destruct (PASS (y * S w + x)) as [q [Hq1 Hq2]]; [rewrite Hnv; nia|].
      unfold frame_passed in Hq1. rewrite nth_error_map_seq in Hq1 by nia.
      inversion Hq1; subst q. rewrite <- FL2. rewrite <- Hq2.
      unfold holds. simpl. unfold frame_pid. fold N.
      replace (N + y * S w + x) with (N + (y * S w + x)) by lia.
      destruct (eb en' (N + (y * S w + x))); reflexivity. }
  assert (Hread_on : forall en k, k < N ->
            isb (getz (map (fun i => b2z (eb en i)) (seq 0 N)) k) = eb en k).
  { intros en k Hk. rewrite getz_map_seq by exact Hk. apply b2z_isb. }
  split.
  - intros [en [Hm Hr]]. rewrite Hreads in Hr. subst ans.
    apply Hsplit in Hm. destruct Hm as [Hm1 Hcl].
    replace (Nat.eqb (length (map (fun i => b2z (eb en i)) (seq 0 N))) N) with true
      by (rewrite map_length, seq_length; symmetry; apply Nat.eqb_refl).
    replace (forallb is01 (map (fun i => b2z (eb en i)) (seq 0 N))) with true
      by (rewrite forallb_map; symmetry; apply forallb_forall; intros; apply is01_b2z).
    simpl andb. apply andb_true_iff. destruct (C6 en) as [EX PASS]. split.
    + apply (single_loop_b_ext L (eb en) _ (lattice_wf h w)).
      * intros k Hk. rewrite HLlen in Hk. symmetry. apply Hread_on. exact Hk.
      * apply EX. exists en. apply Hself. exact Hm1.
    + rewrite Hloc; [exact Hcl|]. apply PASS. apply Hself. exact Hm1.
  - intros Hr.
    apply andb_true_iff in Hr. destruct Hr as [Hr Hcl].
    apply andb_true_iff in Hr. destruct Hr as [Hr Hloop].
    apply andb_true_iff in Hr. destruct Hr as [Hlen' H01]. apply Nat.eqb_eq in Hlen'.
    set (en0 := env_of_answer ans).
    pose proof (answer_as_reading ans N Hlen' H01) as Ha. fold en0 in Ha.
    destruct (C6 en0) as [EX PASS].
    destruct (proj2 EX Hloop) as [en' He].
    pose proof He as [Hag _]. rewrite Hn0 in Hag.
    assert (Hsame : map (fun i => b2z (eb en' i)) (seq 0 N) = ans).
    { rewrite <- Ha. apply map_ext_in. intros i Hi. apply in_seq in Hi.
      destruct (Hag i ltac:(lia)) as [E _]. rewrite E. reflexivity. }
    exists en'. split; [|rewrite Hreads; exact Hsame].
    apply Hsplit. split; [exact (Hext _ _ He)|].
    rewrite <- Hloc; [rewrite Hsame; exact Hcl|].
    intros y x Hy Hx. rewrite (PASS en' He y x Hy Hx).
    apply on_line_ext. intros k Hk. fold L in Hk. rewrite HLlen in Hk. apply (Hag k Hk).
Qed.

(* ------------------------------------------------------------------------------------------------------ *)
(* the same two statements for every pair of integers (H, W) - error points of the native route            *)

(* grid_frame = BoolGridFrame(solver, H, W); solver.add_answer_key(grid_frame);
   graph.active_edges_single_cycle(solver, grid_frame)            with use_graph_primitive on, H, W any integers:
   * H, W >= 0: frame_cycle_prim;
   * exactly one of them negative: one of the shape products (H + 1) * W, H * (W + 1) is negative and
     Array2D.__init__ raises ValueError while the frame is declared;
   * both negative: both products are >= 0, the frame gets (H + 1) * W + H * (W + 1) variables (all of them answer
     keys), _from_grid_frame runs through empty loops and returns no edge flags and the graph with
     (H + 1) * (W + 1) >= 0 isolated vertices, on which the native route - unlike the auxiliary-variable route,
     whose int_array(n, 0, n - 1) raises ValueError for n = 0 - posts its program (one degree constraint per
     vertex, the native node over the empty line graph).  The array handed back has the shape (H + 1, W + 1) with
     non-positive entries: every index into it raises IndexError; the value modelled here (P2 0 0) is only
     meaningful to callers that ignore the array.  The plug-in problems of the tie only contain such boards with
     H = -1 or W = -1 (no vertex: the program is the single node G_AVC 0 0). *)
Definition frame_cycle_prim_z (H W : Z) : res (state * passed_result) :=
  if ((0 <=? H) && (0 <=? W))%Z then frame_cycle_prim (Z.to_nat H) (Z.to_nat W)
  else if ((H <? 0) && (W <? 0))%Z then
    match post_cycle (bool_grid_state (Z.to_nat ((H + 1) * W + H * (W + 1))) []) []
                     {| nv := Z.to_nat ((H + 1) * (W + 1)); edges := [] |} true with
    | Ok (st', p) => Ok (st', P2 0 0 p)
    | Err e => Err e
    end
  else Err ValueError.

Lemma frame_cycle_prim_z_nat h w : frame_cycle_prim_z (Z.of_nat h) (Z.of_nat w) = frame_cycle_prim h w.
Proof.
  unfold frame_cycle_prim_z.
  replace (0 <=? Z.of_nat h)%Z with true by (symmetry; apply Z.leb_le; lia).
  replace (0 <=? Z.of_nat w)%Z with true by (symmetry; apply Z.leb_le; lia).
  cbn [andb]. rewrite !Nat2Z.id. reflexivity.
Qed.

(* the frame with no point at all (H = W = -1): no variable, the program is the native node over the empty graph,
   which holds *)
Definition empty_avc_state : state := {| vars := []; keys := []; cons := [BNode G_AVC [PyInt 0; PyInt 0]] |}.

Lemma frame_cycle_prim_z_empty : frame_cycle_prim_z (-1) (-1) = Ok (empty_avc_state, P2 0 0 []).
Proof. reflexivity. Qed.

Lemma empty_avc_models (extra : list expr) ans :
  extra = [] ->
  ((exists en, model_of gsem_c06 en (ensure empty_avc_state extra) /\
               reads (ensure empty_avc_state extra) en (seq 0 0) = ans) <-> ans = []).
Proof.
  intros ->. split.
  - intros [en [_ Hr]]. symmetry. exact Hr.
  - intros ->. exists {| eb := fun _ => false; ei := fun _ => 0%Z |}. split; [|reflexivity].
    unfold model_of. split; vm_compute; reflexivity.
Qed.

Lemma frame_cycle_prim_z_one_neg H W :
  ((H < 0 /\ 0 <= W) \/ (W < 0 /\ 0 <= H))%Z -> frame_cycle_prim_z H W = Err ValueError.
Proof.
  intros Hc. unfold frame_cycle_prim_z.
  destruct Hc as [[A B]|[A B]].
  - replace (0 <=? H)%Z with false by (symmetry; apply Z.leb_gt; lia).
    replace (W <? 0)%Z with false by (symmetry; apply Z.ltb_ge; lia).
    cbn [andb]. rewrite andb_false_r. reflexivity.
  - replace (0 <=? W)%Z with false by (symmetry; apply Z.leb_gt; lia).
    replace (H <? 0)%Z with false by (symmetry; apply Z.ltb_ge; lia).
    rewrite andb_false_r. reflexivity.
Qed.
