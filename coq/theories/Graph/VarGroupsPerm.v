(* C07: the exactness theorems of division_connected_variable_groups (all three
   group_size forms) and of the _with_borders variant (non-primitive route) for
   every program with the model's declarations / answer keys and the model's
   added constraints in any order.  (The primitive route posts one node.) *)
From Coq Require Import ZArith List Bool Arith Permutation.
From Cspuz Require Import Lib.PyErr Core.Expr Core.Program Core.ProgramFacts
  Graph.GraphModel Graph.VarGroups Graph.VarGroupsExact Graph.VarGroupsSized
  Graph.VarGroupsSizedExact Graph.VarGroupsBorders.
Import ListNotations.
Open Scope nat_scope.

Lemma extends_sat_perm gsem st st' st2 en en' :
  reordered_extension st st' st2 ->
  (extends_sat gsem st st2 en en' <-> extends_sat gsem st st' en en').
Proof.
  intros H. unfold extends_sat, new_in_bounds, new_cons.
  change (skipn (next_id st) (vars st2)) with (added_vars st st2).
  change (skipn (length (cons st)) (cons st2)) with (added_cons st st2).
  rewrite (reordered_added_vars st st' st2 H), (reordered_added_holds gsem en' st st' st2 H).
  reflexivity.
Qed.

Lemma ex_extends_sat_perm gsem st st' st2 en (P : env -> Prop) :
  reordered_extension st st' st2 ->
  ((exists en', extends_sat gsem st st2 en en' /\ P en') <->
   (exists en', extends_sat gsem st st' en en' /\ P en')).
Proof.
  intros H. split; intros [en' [E p]]; exists en'; (split; [|exact p]);
    apply (extends_sat_perm gsem st st' st2 en en' H); exact E.
Qed.

Lemma ex_extends_sat_perm0 gsem st st' st2 en :
  reordered_extension st st' st2 ->
  ((exists en', extends_sat gsem st st2 en en') <-> (exists en', extends_sat gsem st st' en en')).
Proof.
  intros H. split; intros [en' E]; exists en'; apply (extends_sat_perm gsem st st' st2 en en' H); exact E.
Qed.

Theorem vargroups_exact_modulo_order :
  (forall gsem st g st' ids blk en st2,
     wf_graph g = true -> 1 <= nv g ->
     post_vargroups st g G1None = Ok (st', ids) ->
     reordered_extension st st' st2 ->
     ((exists en', extends_sat gsem st st2 en en' /\ ids_realise (nv g) (ids_val gsem en' ids) blk)
      <-> realisable g blk (fun _ => None))) /\
  (forall gsem st g sizes st' ids blk en sval st2,
     wf_graph g = true -> 1 <= nv g -> length sizes = nv g ->
     sizes_eval gsem (next_id st) en sizes sval ->
     post_vargroups st g (G1Seq sizes) = Ok (st', ids) ->
     reordered_extension st st' st2 ->
     ((exists en', extends_sat gsem st st2 en en' /\ ids_realise (nv g) (ids_val gsem en' ids) blk)
      <-> realisable g blk sval)) /\
  (forall gsem st g e z st' ids blk en st2,
     wf_graph g = true -> 1 <= nv g ->
     valid_scalar e = true -> max_id e <= next_id st -> eval gsem en e = Some (VI z) ->
     post_vargroups st g (G1Scalar e) = Ok (st', ids) ->
     reordered_extension st st' st2 ->
     ((exists en', extends_sat gsem st st2 en en' /\ ids_realise (nv g) (ids_val gsem en' ids) blk)
      <-> realisable g blk (fun _ => Some z))) /\
  (forall gsem st g sizes bd st' en sval pat st2,
     wf_graph g = true -> 1 <= nv g -> length sizes = nv g -> length bd = length (edges g) ->
     sizes_eval gsem (next_id st) en sizes sval ->
     borders_eval gsem (next_id st) en bd pat ->
     post_with_borders st g sizes bd false = Ok st' ->
     reordered_extension st st' st2 ->
     ((exists en', extends_sat gsem st st2 en en') <-> border_exact g pat sval)).
Proof.
  split; [|split; [|split]].
  - intros gsem st g st' ids blk en st2 Hwf Hn Hpost Hre.
    rewrite (ex_extends_sat_perm gsem st st' st2 en _ Hre).
    eapply vargroups_exact_nosize_proved; eassumption.
  - intros gsem st g sizes st' ids blk en sval st2 Hwf Hn Hl Hs Hpost Hre.
    rewrite (ex_extends_sat_perm gsem st st' st2 en _ Hre).
    eapply vargroups_exact_sized_proved; eassumption.
  - intros gsem st g e z st' ids blk en st2 Hwf Hn Hv Hm He Hpost Hre.
    rewrite (ex_extends_sat_perm gsem st st' st2 en _ Hre).
    eapply vargroups_exact_scalar_proved; eassumption.
  - intros gsem st g sizes bd st' en sval pat st2 Hwf Hn Hl Hlb Hs Hb Hpost Hre.
    rewrite (ex_extends_sat_perm0 gsem st st' st2 en Hre).
    eapply vargroups_borders_exact_proved; eassumption.
Qed.
