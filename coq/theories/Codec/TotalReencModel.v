(* C17: the side condition of the re-encodability theorem.  Definitions only, no proofs
   (extracted with the model: harness/pC17.py compares them with their Python twins).

   [leaf_dom c v]: v is an item the leaf c serializes (its serialization domain, per item);
   [sbase c]: what Seq / Grid / ValuedRooms may loop over - a pointwise leaf, alternatives that are
   pointwise leaves (the spaces of an IntSpaces alternative accepted by some alternative), or a
   MultiDigit with at least one digit;  [reenc_ok c]: the condition on the whole term. *)
From Coq Require Import ZArith List Ascii Bool NArith.
From Cspuz Require Import Lib.PyErr Codec.Comb.
Import ListNotations.
Local Open Scope Z_scope.

(* ------------------------------------------------------------------ the serialization domain of a leaf, per item *)
Definition leaf_dom (c : comb) (v : pv) : bool :=
  match c with
  | Dict b _ => existsb (pv_eqb v) b
  | Spaces sp _ => pv_eqb v sp
  | DecInt => match v with VInt z => 0 <=? z | _ => false end
  | HexInt => match v with VInt z => (0 <=? z) && (z <=? 4095) | _ => false end
  | IntSpaces _ mi _ => match v with VInt z => (0 <=? z) && (z <=? mi) | _ => false end
  | MultiDigit b _ => match v with VInt z => (0 <=? z) && (z <? b) | _ => false end
  | _ => false
  end.

(* the leaves whose serializer looks at one item to decide between None and a result *)
Definition pleaf (c : comb) : bool :=
  match c with
  | Dict _ _ | Spaces _ _ | DecInt | HexInt | IntSpaces _ _ _ => true
  | _ => false
  end.

Definition pleafmd (c : comb) : bool :=
  match c with MultiDigit _ _ => true | _ => pleaf c end.

(* ------------------------------------------------------------------ scalar bases: a leaf, or alternatives that are leaves *)
Definition sdom (c : comb) (v : pv) : bool :=
  match c with
  | OneOf l => existsb (fun a => leaf_dom a v) l
  | _ => leaf_dom c v
  end.

(* the spaces an IntSpaces alternative emits are accepted by some alternative of the same OneOf *)
Definition sp_cov (l : list comb) (a : comb) : bool :=
  match a with
  | IntSpaces sp _ ms => (ms <=? 0) || existsb (fun a' => leaf_dom a' sp) l
  | _ => true
  end.

(* what Seq / Grid / ValuedRooms may loop over for re-encodability *)
Definition sbase (c : comb) : bool :=
  match c with
  | OneOf l => forallb pleaf l && forallb (sp_cov l) l
  | MultiDigit _ d => negb (Nat.eqb d 0)
  | _ => pleaf c && sp_cov [c] c
  end.

(* ------------------------------------------------------------------ the side condition *)
Fixpoint reenc_ok (c : comb) : bool :=
  match c with
  | FixStr _ | Dict _ _ | Spaces _ _ | DecInt | HexInt | IntSpaces _ _ _ | MultiDigit _ _ | Rooms _ _ => true
  | OneOf l => forallb pleaf l
  | Tupl l => forallb reenc_ok l
  | Seq c1 n => sbase c1 && (0 <=? n)
  | Grid c1 hw => sbase c1 && match hw with Some (h, w) => (0 <=? h) && (0 <=? w) | None => true end
  | ValuedRooms c1 _ _ => sbase c1
  | Custom _ => false
  end.
