(* C09 completeness: when every active edge is a bridge, the discovery order of
   Acyclic.v yields ranks (injective, in range) that pass the certificate
   checker. *)
From Coq Require Import ZArith List Bool Arith Lia.
From Cspuz Require Import Graph.GraphModel Graph.Acyclic Graph.AcyclicGraphFacts.
Import ListNotations.

Lemma mem_In x l : mem x l = true <-> In x l.
Proof.
  unfold mem. rewrite existsb_exists. split.
  - intros [y [Hy E]]. apply Nat.eqb_eq in E. subst. exact Hy.
  - intros H. exists x. split; [exact H|apply Nat.eqb_refl].
Qed.

Lemma mem_false x l : mem x l = false <-> ~ In x l.
Proof. rewrite <- mem_In. destruct (mem x l); split; intros; congruence. Qed.

(* ------------------------------------------------------------------ positions *)

Lemma pos_in_app_notin R1 S w : ~ In w R1 -> pos_in (R1 ++ S) w = pos_in S w.
Proof.
  induction R1 as [|x R1 IH]; intros H; simpl; [reflexivity|].
  destruct (Nat.eqb_spec x w) as [->|Hne].
  - exfalso. apply H. left; reflexivity.
  - apply IH. intros Hin. apply H. right; exact Hin.
Qed.

Lemma pos_in_app_in R1 S w : In w R1 -> length S <= pos_in (R1 ++ S) w.
Proof.
  induction R1 as [|x R1 IH]; intros H; simpl; [destruct H|].
  destruct (Nat.eqb_spec x w) as [->|Hne].
  - rewrite app_length. lia.
  - destruct H as [H|H]; [congruence|]. apply IH. exact H.
Qed.

Lemma pos_in_lt R w : In w R -> pos_in R w < length R.
Proof.
  induction R as [|x R IH]; intros H; simpl; [destruct H|].
  destruct (Nat.eqb_spec x w) as [->|Hne]; [lia|].
  destruct H as [H|H]; [congruence|]. specialize (IH H). lia.
Qed.

Lemma pos_in_head v R2 : pos_in (v :: R2) v = length R2.
Proof. simpl. rewrite Nat.eqb_refl. reflexivity. Qed.

(* in a duplicate-free list split at v, the elements of smaller position are
   exactly those after v *)
Lemma pos_in_split R1 v R2 w :
  NoDup (R1 ++ v :: R2) -> In w (R1 ++ v :: R2) ->
  pos_in (R1 ++ v :: R2) v = length R2 /\
  (pos_in (R1 ++ v :: R2) w < length R2 -> In w R2) /\
  (pos_in (R1 ++ v :: R2) w = length R2 -> w = v).
Proof.
  intros Hnd Hw.
  assert (Hv1 : ~ In v R1).
  { intros H. apply NoDup_remove_2 in Hnd. apply Hnd. apply in_or_app. left; exact H. }
  assert (Hpv : pos_in (R1 ++ v :: R2) v = length R2).
  { rewrite pos_in_app_notin by exact Hv1. apply pos_in_head. }
  split; [exact Hpv|].
  destruct (in_dec Nat.eq_dec w R1) as [H1|H1].
  - pose proof (pos_in_app_in R1 (v :: R2) w H1) as Hge. simpl in Hge. split; intros; lia.
  - rewrite pos_in_app_notin by exact H1.
    apply in_app_or in Hw. destruct Hw as [Hw|Hw]; [contradiction|].
    simpl. destruct (Nat.eqb_spec v w) as [->|Hne].
    + split; intros; [lia|reflexivity].
    + destruct Hw as [Hw|Hw]; [congruence|]. split; intros H; [exact Hw|].
      pose proof (pos_in_lt R2 w Hw). lia.
Qed.

Lemma pos_in_inj R v w : NoDup R -> In v R -> In w R -> pos_in R v = pos_in R w -> v = w.
Proof.
  intros Hnd Hv Hw E. destruct (in_split _ _ Hv) as [R1 [R2 ->]].
  destruct (pos_in_split R1 v R2 w Hnd Hw) as [Hpv [_ H]].
  symmetry. apply H. congruence.
Qed.

(* ------------------------------------------------------------------ good orders *)

Section Complete.
  Variable g : graph.
  Variable A : nat -> bool.
  Hypothesis Hwf : wf_graph g = true.
  Hypothesis Hlf : loop_free g = true.

  Let n := nv g.
  Definition inside (R : list nat) : nat -> bool := fun x => mem x R.

  (* newest-first list in which every vertex either hangs on an earlier one by
     an active edge or is not joined to any earlier one at all *)
  Inductive good : list nat -> Prop :=
  | good_nil : good []
  | good_link v R w k : good R -> ~ In v R -> v < n ->
      In (w, k) (incident g v) -> A k = true -> In w R -> good (v :: R)
  | good_new v R : good R -> ~ In v R -> v < n ->
      (forall w, In w R -> ~ joined g A v w) -> good (v :: R).

  Lemma good_NoDup R : good R -> NoDup R.
  Proof. induction 1; constructor; auto. Qed.

  Lemma good_bound R : good R -> forall x, In x R -> x < n.
  Proof. induction 1; intros x Hx; try destruct Hx as [<-|Hx]; auto. destruct Hx. Qed.

  Lemma good_tail v R : good (v :: R) -> good R.
  Proof. inversion 1; auto. Qed.

  Lemma good_suffix R1 S : good (R1 ++ S) -> good S.
  Proof. induction R1 as [|x R1 IH]; simpl; intros H; [exact H|]. apply IH. eapply good_tail; eauto. Qed.

  Lemma inside_cons v R x : inside R x = true -> inside (v :: R) x = true.
  Proof. unfold inside. rewrite !mem_In. intros H; right; exact H. Qed.

  (* two listed vertices joined by active edges are joined inside the list *)
  Lemma good_joined_inside R : good R -> forall u v, In u R -> In v R ->
    joined g A u v -> reach g (inside R) A u v.
  Proof.
    induction 1 as [|x R w k Hg IH Hx Hxn Hin Ak Hw|x R Hg IH Hx Hxn Hnew]; intros u v Hu Hv Huv.
    - destruct Hu.
    - assert (Hxw : reach g (inside (x :: R)) A x w).
      { apply reach_edge.
        - apply mem_In. left; reflexivity.
        - apply mem_In. right; exact Hw.
        - apply in_nbrs. exists k. auto. }
      assert (Jxw : joined g A x w).
      { apply reach_edge; try reflexivity. apply in_nbrs. exists k. auto. }
      assert (Hlift : forall a b, In a R -> In b R -> joined g A a b -> reach g (inside (x :: R)) A a b).
      { intros a b Ha Hb Hab. eapply reach_mono; [| |apply (IH a b Ha Hb Hab)]; auto. apply inside_cons. }
      destruct Hu as [<-|Hu], Hv as [<-|Hv].
      + apply reach_refl. apply mem_In. left; reflexivity.
      + eapply reach_trans; [exact Hxw|]. apply Hlift; auto.
        eapply reach_trans; [apply reach_sym; exact Jxw|exact Huv].
      + apply reach_sym. eapply reach_trans; [exact Hxw|]. apply Hlift; auto.
        eapply reach_trans; [apply reach_sym; exact Jxw|]. apply reach_sym. exact Huv.
      + apply Hlift; auto.
    - destruct Hu as [<-|Hu], Hv as [<-|Hv].
      + apply reach_refl. apply mem_In. left; reflexivity.
      + exfalso. apply (Hnew v Hv). exact Huv.
      + exfalso. apply (Hnew u Hu). apply reach_sym. exact Huv.
      + eapply reach_mono; [| |apply (IH u v Hu Hv Huv)]; auto. apply inside_cons.
  Qed.

  (* ---------------------------------------------------------------- the construction *)

  Lemma attaches_spec R v : attaches g A R v = true ->
    ~ In v R /\ exists w k, In (w, k) (incident g v) /\ A k = true /\ In w R.
  Proof.
    unfold attaches. intros H. apply andb_true_iff in H. destruct H as [H1 H2].
    apply negb_true_iff in H1. apply mem_false in H1. split; [exact H1|].
    apply existsb_exists in H2. destruct H2 as [[w k] [Hin H2]].
    apply andb_true_iff in H2. destruct H2 as [Ak Hm]. apply mem_In in Hm.
    exists w, k. auto.
  Qed.

  Lemma closed_when_nothing_attaches R :
    (forall v, v < n -> attaches g A R v = false) ->
    forall u x, joined g A u x -> In u R -> In x R.
  Proof.
    intros Hnone u x Hux. unfold joined in Hux.
    induction Hux as [v _|u v w Huv IH Hw _]; intros Hu; [exact Hu|].
    specialize (IH Hu). apply in_nbrs in Hw. destruct Hw as [k [Hin Ak]].
    destruct (mem w R) eqn:Hm; [apply mem_In; exact Hm|]. exfalso.
    destruct (incident_lt _ _ _ _ Hwf Hin) as [_ Hwn].
    specialize (Hnone w Hwn). unfold attaches in Hnone. rewrite Hm in Hnone. simpl in Hnone.
    assert (existsb (fun '(w0, k0) => A k0 && mem w0 R) (incident g w) = true); [|congruence].
    apply existsb_exists. exists (v, k). split; [apply incident_sym; exact Hin|].
    apply andb_true_iff. split; [exact Ak|apply mem_In; exact IH].
  Qed.

  Lemma order_step_good R : good R -> good (order_step g A R).
  Proof.
    intros Hg. unfold order_step.
    destruct (find (attaches g A R) (seq 0 (nv g))) as [v|] eqn:F1.
    - apply find_some in F1. destruct F1 as [Hv Hat]. apply in_seq in Hv.
      apply attaches_spec in Hat. destruct Hat as [Hnot [w [k [Hin [Ak Hw]]]]].
      eapply good_link; eauto. unfold n; lia.
    - destruct (find (fun v => negb (mem v R)) (seq 0 (nv g))) as [v|] eqn:F2; [|exact Hg].
      apply find_some in F2. destruct F2 as [Hv Hnot]. apply in_seq in Hv.
      apply negb_true_iff in Hnot. apply mem_false in Hnot.
      apply good_new; auto; [unfold n; lia|].
      intros w Hw Hj. apply Hnot.
      apply (closed_when_nothing_attaches R) with (u := w); auto.
      + intros x Hx. apply (find_none _ _ F1). apply in_seq. unfold n in Hx. lia.
      + apply reach_sym. exact Hj.
  Qed.

  Definition full (R : list nat) : Prop := forall v, v < n -> In v R.

  Lemma order_step_incl R x : In x R -> In x (order_step g A R).
  Proof.
    unfold order_step. intros H.
    destruct (find (attaches g A R) (seq 0 (nv g))); [right; exact H|].
    destruct (find (fun v => negb (mem v R)) (seq 0 (nv g))); [right; exact H|exact H].
  Qed.

  Lemma order_step_progress R : length (order_step g A R) = S (length R) \/ full R.
  Proof.
    unfold order_step.
    destruct (find (attaches g A R) (seq 0 (nv g))); [left; reflexivity|].
    destruct (find (fun v => negb (mem v R)) (seq 0 (nv g))) eqn:F2; [left; reflexivity|].
    right. intros v Hv. pose proof (find_none _ _ F2 v) as H.
    assert (Hin : In v (seq 0 (nv g))) by (apply in_seq; unfold n in Hv; lia).
    specialize (H Hin). apply negb_false_iff in H. apply mem_In. exact H.
  Qed.

  Lemma order_iter_good k : forall R, good R -> good (order_iter g A k R).
  Proof. induction k; simpl; intros R H; [exact H|]. apply IHk. apply order_step_good. exact H. Qed.

  Lemma order_iter_progress k : forall R,
    length (order_iter g A k R) = k + length R \/ full (order_iter g A k R).
  Proof.
    induction k; simpl; intros R; [left; reflexivity|].
    destruct (IHk (order_step g A R)) as [H|H]; [|right; exact H].
    destruct (order_step_progress R) as [H1|H1]; [left; lia|].
    right. clear H. revert H1. generalize R. clear IHk.
    induction k; simpl; intros R0 H1; [intros v Hv; apply order_step_incl; auto|].
    apply IHk. intros v Hv. apply order_step_incl. auto.
  Qed.

  Lemma discovery_good : good (discovery_order g A).
  Proof. apply order_iter_good. constructor. Qed.

  Lemma discovery_full : full (discovery_order g A).
  Proof.
    destruct (order_iter_progress (nv g) []) as [H|H]; [|exact H].
    simpl in H. rewrite Nat.add_0_r in H. fold (discovery_order g A) in H.
    pose proof discovery_good as Hg.
    intros v Hv.
    assert (Hincl : incl (seq 0 (nv g)) (discovery_order g A)).
    { apply NoDup_length_incl.
      - apply good_NoDup. exact Hg.
      - rewrite seq_length. lia.
      - intros x Hx. apply in_seq. pose proof (good_bound _ Hg x Hx). unfold n in *. lia. }
    apply Hincl. apply in_seq. unfold n in Hv. lia.
  Qed.

  Lemma discovery_length : length (discovery_order g A) <= nv g.
  Proof.
    pose proof discovery_good as Hg.
    rewrite <- (seq_length (nv g) 0). apply NoDup_incl_length; [apply good_NoDup; exact Hg|].
    intros x Hx. apply in_seq. pose proof (good_bound _ Hg x Hx). unfold n in *. lia.
  Qed.

  (* ---------------------------------------------------------------- the certificate *)

  Hypothesis Hforest : forest g A.

  (* a walk of active edges that stays among vertices different from v does not
     use an edge incident to v *)
  Lemma inside_avoids R v w1 k1 : ~ In v R -> In (w1, k1) (incident g v) ->
    forall a b, reach g (inside R) A a b -> joined g (without A k1) a b.
  Proof.
    intros Hv Hk1 a b H. induction H as [x _|a x y Hax IH Hy Hyin]; [apply reach_refl; reflexivity|].
    eapply reach_step; [exact IH| |reflexivity].
    apply in_nbrs in Hy. destruct Hy as [k [Hin Ak]]. apply in_nbrs. exists k. split; [exact Hin|].
    unfold without. rewrite Ak. simpl. apply negb_true_iff. apply Nat.eqb_neq. intros ->.
    apply reach_vok in Hax. destruct Hax as [_ Hx]. apply mem_In in Hx. apply mem_In in Hyin.
    apply in_incident in Hk1. apply in_incident in Hin.
    destruct Hk1 as [E1|E1], Hin as [E2|E2]; rewrite E1 in E2; inversion E2; subst; contradiction.
  Qed.

  Lemma earlier_unique R2 v x y :
    good (v :: R2) -> In x (incident g v) -> In y (incident g v) ->
    In (fst x) R2 -> In (fst y) R2 -> A (snd x) = true -> A (snd y) = true -> x = y.
  Proof.
    intros Hg Hx Hy Hx2 Hy2 Ax Ay. destruct x as [w1 k1], y as [w2 k2]. simpl in *.
    destruct (Nat.eq_dec k1 k2) as [->|Hk].
    - f_equal. eapply incident_same_edge; eauto.
    - exfalso.
      pose proof (good_NoDup _ Hg) as Hnd. inversion Hnd as [|? ? Hv _]; subst.
      pose proof (good_tail _ _ Hg) as Hg2.
      assert (J12 : joined g A w1 w2).
      { eapply reach_trans with (v := v).
        - apply reach_edge; try reflexivity. apply in_nbrs. exists k1. split; [apply incident_sym; exact Hx|exact Ax].
        - apply reach_edge; try reflexivity. apply in_nbrs. exists k2. auto. }
      pose proof (good_joined_inside R2 Hg2 w1 w2 Hx2 Hy2 J12) as Hin.
      pose proof (inside_avoids R2 v w1 k1 Hv Hx w1 w2 Hin) as Hav.
      assert (Jv1 : joined g (without A k1) v w1).
      { eapply reach_trans with (v := w2).
        - apply reach_edge; try reflexivity. apply in_nbrs. exists k2. split; [exact Hy|].
          unfold without. rewrite Ay. simpl. apply negb_true_iff. apply Nat.eqb_neq. auto.
        - apply reach_sym. exact Hav. }
      apply in_incident in Hx. destruct Hx as [E|E].
      + exact (Hforest k1 v w1 E Ax Jv1).
      + apply (Hforest k1 w1 v E Ax). apply reach_sym. exact Jv1.
  Qed.

  Let r := order_rank g A.

  Lemma order_rank_range : ranks_in_range g r = true.
  Proof.
    unfold ranks_in_range. apply forallb_forall. intros i Hi. apply in_seq in Hi.
    pose proof (discovery_full i) as Hin. unfold n in Hin.
    pose proof (pos_in_lt _ _ (Hin ltac:(lia))) as Hlt. pose proof discovery_length as Hlen.
    unfold r, order_rank. apply andb_true_iff. split; [apply Z.leb_le|apply Z.leb_le]; lia.
  Qed.

  Lemma order_rank_cert : cert_acyclic g A r = true.
  Proof.
    unfold cert_acyclic. apply forallb_forall. intros v Hv. apply in_seq in Hv.
    assert (Hvn : v < n) by (unfold n; lia).
    pose proof discovery_good as Hg. pose proof (good_NoDup _ Hg) as Hnd.
    pose proof (discovery_full v Hvn) as Hvin.
    unfold cert_vertex. apply andb_true_iff. split.
    - apply forallb_forall. intros [j e] Hin. apply implb_true_iff. intros _.
      apply negb_true_iff. apply Z.eqb_neq. unfold r, order_rank. intros E.
      apply Nat2Z.inj in E.
      destruct (incident_lt _ _ _ _ Hwf Hin) as [_ Hj].
      apply pos_in_inj in E; auto; [|apply discovery_full; exact Hj].
      apply (incident_neq _ _ _ _ Hlf Hin). exact E.
    - apply Nat.leb_le.
      rewrite (count_b_map (fun x : nat * nat => let '(j, e) := x in Z.ltb (r j) (r v) && A e)).
      apply filter_le_one; [apply incident_NoDup; exact Hlf|].
      intros x y Hx Hy Px Py.
      destruct (in_split _ _ Hvin) as [R1 [R2 ER]].
      assert (Hg2 : good (v :: R2)) by (apply (good_suffix R1); rewrite <- ER; exact Hg).
      assert (Hearlier : forall w k, In (w, k) (incident g v) ->
                (Z.ltb (r w) (r v) && A k) = true -> In w R2 /\ A k = true).
      { intros w k Hin P. apply andb_true_iff in P. destruct P as [P Ak]. split; [|exact Ak].
        apply Z.ltb_lt in P. unfold r, order_rank in P. apply Nat2Z.inj_lt in P.
        destruct (incident_lt _ _ _ _ Hwf Hin) as [_ Hw].
        pose proof (discovery_full w Hw) as Hwin. rewrite ER in *.
        destruct (pos_in_split R1 v R2 w Hnd Hwin) as [Hpv [Hlt _]].
        apply Hlt. lia. }
      destruct x as [w1 k1], y as [w2 k2].
      destruct (Hearlier _ _ Hx Px) as [Hx2 Ax]. destruct (Hearlier _ _ Hy Py) as [Hy2 Ay].
      apply (earlier_unique R2 v (w1, k1) (w2, k2)); auto.
  Qed.

  Theorem forest_cert : exists r0, ranks_in_range g r0 = true /\ cert_acyclic g A r0 = true.
  Proof. exists r. split; [apply order_rank_range|apply order_rank_cert]. Qed.
End Complete.
