(* C10 - active_edges_connected_crossable holds exactly for single self-crossing trails *)
From Coq Require Import ZArith List Bool Arith.
From Cspuz Require Import Lib.PyErr Core.Expr Core.Program Core.Build
  Graph.GraphModel Graph.ReachProofs Graph.Avc Graph.Crossable Graph.CrossableGraph
  Graph.CrossableLocal Graph.CrossableProofs Graph.CrossableDecide.
Import ListNotations.
Local Open Scope nat_scope.

(* For every state, every well-shaped frame of well-typed boolean trees over
   variables that existed before the call, both values of single_cycle, both
   routes (auxiliary-variable encoding / native operator with meaning
   connectivity) and every assignment [en] of the earlier variables: the
   variables and constraints the call added can be completed (earlier ids
   untouched, new variables within their declared bounds, every new constraint
   true) exactly when the drawn segments obey the degree rule (0/1/2/4, with
   single_cycle 0/2/4, 4 only at interior points) and form one strand. *)
Theorem crossable_exact : forall st fr sc prim st' ps cr en,
  post_crossable st fr sc prim = Ok (st', (ps, cr)) ->
  fresh_below (next_id st) (hor fr ++ ver fr) ->
  forallb (wt true) (hor fr ++ ver fr) = true ->
  ((exists en', agree_below (next_id st) en en' /\
                in_bounds_from en' (next_id st) (new_vars st st') = true /\
                forallb (holds gsem_avc en') (new_cons st st') = true)
   <-> crossable_spec (fh fr) (fw fr) (seg_pattern en fr) sc).
Proof. exact crossable_exact_wt. Qed.
Print Assumptions crossable_exact.

(* In every assignment that makes the added constraints true, the two returned
   arrays ((h+1) x (w+1) entries each) are true exactly at the visited lattice
   points and at the 4-way points respectively. *)
Theorem crossable_outputs : forall st fr sc prim st' ps cr en',
  post_crossable st fr sc prim = Ok (st', (ps, cr)) ->
  fresh_below (next_id st) (hor fr ++ ver fr) ->
  forallb (wt true) (hor fr ++ ver fr) = true ->
  forallb (holds gsem_avc en') (new_cons st st') = true ->
  length ps = (fh fr + 1) * (fw fr + 1) /\ length cr = (fh fr + 1) * (fw fr + 1) /\
  forall y x, y <= fh fr -> x <= fw fr ->
    holds gsem_avc en' (nth (y * (fw fr + 1) + x) ps PyNone)
      = visited (fh fr) (fw fr) (seg_pattern en' fr) (y, x) /\
    holds gsem_avc en' (nth (y * (fw fr + 1) + x) cr PyNone)
      = crossing (fh fr) (fw fr) (seg_pattern en' fr) (y, x).
Proof. exact crossable_outputs_wt. Qed.
Print Assumptions crossable_outputs.

(* The 3-nodes-per-point auxiliary graph of the code, with the nodes the code
   activates (plain copy: 1 or 2 drawn segments at the point; both pass-through
   copies: 4; segment nodes: drawn), is connected exactly when the drawn
   segments form one strand. *)
Theorem split_graph_connected_iff_strand : forall h w act vact,
  (forall a, node_in h w a -> vact (enc h w a) = nact h w act a) ->
  (connected (split_graph (h + 1) (w + 1)) vact <-> strand_connected h w act).
Proof. exact split_graph_connected_iff_strand_enc. Qed.
Print Assumptions split_graph_connected_iff_strand.

(* the call succeeds on every well-shaped frame of well-typed boolean trees *)
Theorem crossable_succeeds : forall st fr sc prim,
  frame_shaped fr = true -> forallb (wt true) (hor fr ++ ver fr) = true ->
  exists st' ps cr, post_crossable st fr sc prim = Ok (st', (ps, cr)).
Proof. exact crossable_succeeds_main. Qed.
Print Assumptions crossable_succeeds.

(* use_graph_primitive=True: five boolean arrays, the local constraints, and one
   native-operator node over [n; m] ++ is_active ++ flattened edges of the
   auxiliary graph (whose meaning, connectivity, is what crossable_exact uses) *)
Theorem crossable_primitive_layout : forall st fr sc st' ps cr,
  post_crossable st fr sc true = Ok (st', (ps, cr)) ->
  let n := (fh fr + 1) * (fw fr + 1) in
  let g := split_graph (fh fr + 1) (fw fr + 1) in
  vars st' = vars st ++ repeat DBool (5 * n) /\
  cons st' = cons st ++ local_cons fr sc (next_id st) ++
             [BNode G_AVC ([PyInt (Z.of_nat (nv g)); PyInt (Z.of_nat (length (edges g)))] ++
                           split_acts fr (next_id st) ++ flat_edges g)] /\
  length (split_acts fr (next_id st)) = nv g.
Proof. exact crossable_primitive_layout_main. Qed.
Print Assumptions crossable_primitive_layout.

(* frames made by BoolGridFrame(solver, h, w) satisfy the hypotheses above *)
Theorem crossable_new_frame : forall st h w st1 fr,
  new_frame st h w = (st1, fr) ->
  fh fr = h /\ fw fr = w /\ frame_shaped fr = true /\
  forallb (wt true) (hor fr ++ ver fr) = true /\
  fresh_below (next_id st1) (hor fr ++ ver fr).
Proof. exact new_frame_ok_main. Qed.
Print Assumptions crossable_new_frame.

(* the executable form of the specification that the harness runs against its
   independent oracle decides the relational specification *)
Theorem crossable_spec_decided : forall h w act sc,
  crossable_spec_b h w act sc = true <-> crossable_spec h w act sc.
Proof. exact crossable_spec_b_iff. Qed.
Print Assumptions crossable_spec_decided.
