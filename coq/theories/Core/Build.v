(* Mirrors of the constructors user code and cspuz.graph call: the scalar
   dunders of BoolExpr / IntExpr (expr.py::_make_bool_expr / _make_int_expr) and
   the aggregate helpers of constraints.py on an already flattened operand list.
   [NotImplementedErr] stands for Python's NotImplemented return value (which the
   interpreter turns into TypeError after trying the reflected method). *)
From Coq Require Import ZArith List Bool.
From Cspuz Require Import Lib.PyErr Core.Expr.
Import ListNotations.
Open Scope Z_scope.

(* expr.py::_make_bool_expr *)
Definition make_bool_expr (o : op) (args : list expr) : res expr :=
  match o with
  | EQ | NE | LE | LT | GE | GT =>
      if Nat.eqb (length args) 2 && forallb is_int_expr_like args then Ok (BNode o args) else Err NotImplementedErr
  | AND | OR | IFF | XOR | IMP =>
      if Nat.eqb (length args) 2 && forallb is_bool_expr_like args then Ok (BNode o args) else Err NotImplementedErr
  | BOOL_CONSTANT =>
      match args with [PyBool _] => Ok (BNode o args) | _ => Err NotImplementedErr end
  | NOT =>
      match args with [a] => if is_bool_expr_like a then Ok (BNode o args) else Err NotImplementedErr
                    | _ => Err NotImplementedErr end
  | ALLDIFF => if forallb is_int_expr_like args then Ok (BNode o args) else Err NotImplementedErr
  | _ => Err ValueError
  end.

(* expr.py::_make_int_expr *)
Definition make_int_expr (o : op) (args : list expr) : res expr :=
  match o with
  | ADD | SUB =>
      if Nat.eqb (length args) 2 && forallb is_int_expr_like args then Ok (INode o args) else Err NotImplementedErr
  | INT_CONSTANT =>
      match args with [PyInt _] => Ok (INode o args) | [PyBool _] => Ok (INode o args) | _ => Err NotImplementedErr end
  | NEG =>
      match args with [a] => if is_int_expr_like a then Ok (INode o args) else Err NotImplementedErr
                    | _ => Err NotImplementedErr end
  | IF =>
      match args with
      | [c; t; f] => if is_bool_expr_like c && is_int_expr_like t && is_int_expr_like f
                     then Ok (INode o args) else Err NotImplementedErr
      | _ => Err NotImplementedErr
      end
  | _ => Err ValueError
  end.

(* unchecked shorthands for well-typed operands (what the graph code builds) *)
Definition b_not a := BNode NOT [a].
Definition b_and a b := BNode AND [a; b].
Definition b_or a b := BNode OR [a; b].
Definition b_iff a b := BNode IFF [a; b].
Definition b_xor a b := BNode XOR [a; b].
Definition b_imp a b := BNode IMP [a; b].          (* a.then(b), then(a, b) *)
Definition i_eq a b := BNode EQ [a; b].
Definition i_ne a b := BNode NE [a; b].
Definition i_le a b := BNode LE [a; b].
Definition i_lt a b := BNode LT [a; b].
Definition i_ge a b := BNode GE [a; b].
Definition i_gt a b := BNode GT [a; b].
Definition i_add a b := INode ADD [a; b].
Definition i_sub a b := INode SUB [a; b].
Definition i_neg a := INode NEG [a].
Definition i_cond c t f := INode IF [c; t; f].     (* c.cond(t, f) *)

(* constraints.py::count_true over the flattened argument list *)
Fixpoint count_true_go (l : list expr) (ops : list expr) (constant : Z) : res (list expr * Z) :=
  match l with
  | [] => Ok (ops, constant)
  | PyBool b :: r => count_true_go r ops (if b then constant + 1 else constant)
  | (BVar _ | BNode _ _) as x :: r => count_true_go r (ops ++ [i_cond x (PyInt 1) (PyInt 0)]) constant
  | _ => Err TypeError
  end.
Definition count_true (l : list expr) : res expr :=
  match count_true_go l [] 0 with
  | Err e => Err e
  | Ok (ops, c) =>
      let ops := if 0 <? c then ops ++ [PyInt c] else ops in
      match ops with
      | [] => Ok (INode INT_CONSTANT [PyInt 0])
      | _ => Ok (INode ADD ops)
      end
  end.

(* constraints.py::fold_or / fold_and *)
Fixpoint fold_or_go (l : list expr) (ops : list expr) : res expr :=
  match l with
  | [] => match ops with [] => Ok (BNode BOOL_CONSTANT [PyBool false]) | _ => Ok (BNode OR ops) end
  | PyBool true :: _ => Ok (BNode BOOL_CONSTANT [PyBool true])
  | PyBool false :: r => fold_or_go r ops
  | (BVar _ | BNode _ _) as x :: r => fold_or_go r (ops ++ [x])
  | _ => Err TypeError
  end.
Definition fold_or (l : list expr) := fold_or_go l [].

Fixpoint fold_and_go (l : list expr) (ops : list expr) : res expr :=
  match l with
  | [] => match ops with [] => Ok (BNode BOOL_CONSTANT [PyBool true]) | _ => Ok (BNode AND ops) end
  | PyBool false :: _ => Ok (BNode BOOL_CONSTANT [PyBool false])
  | PyBool true :: r => fold_and_go r ops
  | (BVar _ | BNode _ _) as x :: r => fold_and_go r (ops ++ [x])
  | _ => Err TypeError
  end.
Definition fold_and (l : list expr) := fold_and_go l [].

(* constraints.py::alldifferent — note isinstance(x, int) also accepts bool *)
Definition alldifferent (l : list expr) : res expr :=
  if forallb (fun x => match x with PyInt _ | PyBool _ | IVar _ _ _ | INode _ _ => true | _ => false end) l
  then Ok (BNode ALLDIFF l) else Err TypeError.
