(* C11 Tier 1, slalom - the truth value of every constraint tree of Puzzle/Slalom.v under an assignment, as a boolean
   expression over the four families of variables: lp (loop segments), dr (loop_dir), pv (passed), ov (gate_ord). *)
From Coq Require Import ZArith List Bool Arith Lia.
From Cspuz Require Import Lib.PyErr Core.Expr Core.Program Puzzle.PuzzleBase Puzzle.ModelBase Puzzle.ModelLemmas
     Puzzle.CycleFrameBase Puzzle.Rules_slalom Puzzle.Slalom.
Import ListNotations.
Local Open Scope nat_scope.

Section Sem.
  Variable en : env.
  Variables (h w G base : nat).
  Let fh := h - 1.
  Let fw := w - 1.
  Let N := frame_n fh fw.

  Definition sl_lp (e : nat) : bool := eb en e.
  Definition sl_dr (e : nat) : bool := eb en (N + e).
  Definition sl_pv (c : nat * nat) : bool := eb en (sl_pid h w base c).
  Definition sl_ov (c : nat * nat) : Z := ei en (base + cidx w c).

  Definition in_sem (y x d : nat) : bool :=
    sl_lp (sl_edge fh fw y x d) && xorb (sl_dr (sl_edge fh fw y x d)) (sl_flag d).
  Definition out_sem (y x d : nat) : bool :=
    sl_lp (sl_edge fh fw y x d) && Bool.eqb (sl_dr (sl_edge fh fw y x d)) (sl_flag d).

  Lemma eval_sl_in y x d : eval no_graph en (sl_in fh fw y x d) = Some (VB (in_sem y x d)).
  Proof. unfold sl_in, in_sem, sl_lp, sl_dr. cbn. rewrite andb_true_r. reflexivity. Qed.
  Lemma eval_sl_out y x d : eval no_graph en (sl_out fh fw y x d) = Some (VB (out_sem y x d)).
  Proof. unfold sl_out, out_sem, sl_lp, sl_dr. cbn. rewrite andb_true_r. reflexivity. Qed.

  Lemma eval_ct_exprs (es : list expr) (f : expr -> bool) :
    (forall e, In e es -> eval no_graph en e = Some (VB (f e))) ->
    eval no_graph en (ct_exprs es) = Some (VI (Z.of_nat (count f es))).
  Proof.
    intros H. destruct es as [|e0 r]; [reflexivity|].
    unfold ct_exprs. set (l := e0 :: r) in *.
    assert (Hne : l <> []) by discriminate. clearbody l.
    cbn [eval]. rewrite map_map.
    rewrite (map_ext_in _ (fun x => Some (VI (if f x then 1 else 0)%Z))).
    2:{ intros x Hx. cbn. rewrite (H x Hx). destruct (f x); reflexivity. }
    rewrite <- (map_map (fun x => (if f x then 1 else 0)%Z) (fun z => Some (VI z))).
    rewrite eval_iop_add_ints by (destruct l; [contradiction|discriminate]).
    f_equal. f_equal. clear. unfold count, zsum.
    induction l as [|b r IH]; simpl; [reflexivity|].
    destruct (f b); simpl length; rewrite IH; lia.
  Qed.

  (* count_true([... for nb in neighbors]) == passed[y, x].cond(1, 0) *)
  Lemma holds_count_in y x ds c :
    holds no_graph en (BNode EQ [ct_exprs (map (sl_in fh fw y x) ds);
                                 INode IF [BVar (sl_pid h w base c); PyInt 1; PyInt 0]]) =
    (Z.of_nat (count (in_sem y x) ds) =? (if sl_pv c then 1 else 0))%Z.
  Proof.
    unfold holds. cbn [eval map].
    rewrite (eval_ct_exprs _ (fun e => holds no_graph en e)).
    2:{ intros e He. apply in_map_iff in He. destruct He as [d [<- _]]. unfold holds. rewrite eval_sl_in.
        destruct (in_sem y x d); reflexivity. }
    rewrite count_map.
    rewrite (count_ext_in _ (in_sem y x)) by (intros d _; unfold holds; rewrite eval_sl_in; destruct (in_sem y x d); reflexivity).
    cbn. unfold sl_pv. destruct (eb en (sl_pid h w base c)); cbn;
      destruct (Z.of_nat (count (in_sem y x) ds) =? _)%Z; reflexivity.
  Qed.
  Lemma holds_count_out y x ds c :
    holds no_graph en (BNode EQ [ct_exprs (map (sl_out fh fw y x) ds);
                                 INode IF [BVar (sl_pid h w base c); PyInt 1; PyInt 0]]) =
    (Z.of_nat (count (out_sem y x) ds) =? (if sl_pv c then 1 else 0))%Z.
  Proof.
    unfold holds. cbn [eval map].
    rewrite (eval_ct_exprs _ (fun e => holds no_graph en e)).
    2:{ intros e He. apply in_map_iff in He. destruct He as [d [<- _]]. unfold holds. rewrite eval_sl_out.
        destruct (out_sem y x d); reflexivity. }
    rewrite count_map.
    rewrite (count_ext_in _ (out_sem y x)) by (intros d _; unfold holds; rewrite eval_sl_out; destruct (out_sem y x d); reflexivity).
    cbn. unfold sl_pv. destruct (eb en (sl_pid h w base c)); cbn;
      destruct (Z.of_nat (count (out_sem y x) ds) =? _)%Z; reflexivity.
  Qed.

  Lemma holds_ord_same y x d c :
    holds no_graph en (BNode IMP [sl_in fh fw y x d; BNode EQ [sl_ord w G base (step_dir y x d); sl_ord w G base c]]) =
    (negb (in_sem y x d) || (sl_ov (step_dir y x d) =? sl_ov c)%Z).
  Proof.
    unfold holds. cbn [eval map]. rewrite eval_sl_in. unfold sl_ord, sl_ov. cbn.
    destruct (in_sem y x d), (ei en (base + cidx w (step_dir y x d)) =? ei en (base + cidx w c))%Z; reflexivity.
  Qed.
  Lemma holds_ord_gate y x d c :
    holds no_graph en (BNode IMP [sl_in fh fw y x d;
                                  BNode EQ [sl_ord w G base (step_dir y x d); INode SUB [sl_ord w G base c; PyInt 1]]]) =
    (negb (in_sem y x d) || (sl_ov (step_dir y x d) =? sl_ov c - 1)%Z).
  Proof.
    unfold holds. cbn [eval map]. rewrite eval_sl_in. unfold sl_ord, sl_ov. cbn.
    replace (ei en (base + cidx w c) - (1 + 0))%Z with (ei en (base + cidx w c) - 1)%Z by lia.
    destruct (in_sem y x d), (ei en (base + cidx w (step_dir y x d)) =? ei en (base + cidx w c) - 1)%Z; reflexivity.
  Qed.
  Lemma holds_numbered c n :
    holds no_graph en (BNode IMP [BVar (sl_pid h w base c); BNode EQ [sl_ord w G base c; PyInt n]]) =
    (negb (sl_pv c) || (sl_ov c =? n)%Z).
  Proof.
    unfold holds, sl_pv, sl_ov, sl_ord. cbn.
    destruct (eb en (sl_pid h w base c)), (ei en (base + cidx w c) =? n)%Z; reflexivity.
  Qed.
  Lemma holds_not_passed c : holds no_graph en (BNode NOT [BVar (sl_pid h w base c)]) = negb (sl_pv c).
  Proof. unfold holds, sl_pv. cbn. destruct (eb en (sl_pid h w base c)); reflexivity. Qed.
  Lemma holds_passed c : holds no_graph en (BVar (sl_pid h w base c)) = sl_pv c.
  Proof. unfold holds, sl_pv. cbn. destruct (eb en (sl_pid h w base c)); reflexivity. Qed.
  Lemma holds_aux c0 c1 :
    holds no_graph en (BNode IMP [BNode AND [BVar (sl_pid h w base c0); BVar (sl_pid h w base c1)];
                                  BNode NE [sl_ord w G base c0; sl_ord w G base c1]]) =
    (negb (sl_pv c0 && sl_pv c1) || negb (sl_ov c0 =? sl_ov c1)%Z).
  Proof.
    unfold holds, sl_pv, sl_ov, sl_ord. cbn.
    destruct (eb en (sl_pid h w base c0)), (eb en (sl_pid h w base c1)),
      (ei en (base + cidx w c0) =? ei en (base + cidx w c1))%Z; reflexivity.
  Qed.
  Lemma holds_gate_count gs k :
    holds no_graph en (sl_gate_count h w base gs k) = (Z.of_nat (count sl_pv (gate_cells gs k)) =? 1)%Z.
  Proof. unfold sl_gate_count. rewrite holds_ct_eq, count_map. reflexivity. Qed.

  (* the constraints of one cell *)
  Definition cell_sem (oy ox : nat) (black gs : list Z) (c : nat * nat) : bool :=
    let '(y, x) := c in
    let ds := sl_dirs h w y x in
    (Z.of_nat (count (in_sem y x) ds) =? (if sl_pv c then 1 else 0))%Z &&
    (Z.of_nat (count (out_sem y x) ds) =? (if sl_pv c then 1 else 0))%Z &&
    (if negb (at2 black w y x =? 0)%Z then negb (sl_pv c)
     else if Nat.eqb y oy && Nat.eqb x ox then true
     else match sl_gate_id gs c with
          | None => forallb (fun d => negb (in_sem y x d) || (sl_ov (step_dir y x d) =? sl_ov c)%Z) ds
          | Some n => forallb (fun d => negb (in_sem y x d) || (sl_ov (step_dir y x d) =? sl_ov c - 1)%Z) ds &&
                      (if (1 <=? n)%Z then negb (sl_pv c) || (sl_ov c =? n)%Z else true)
          end).

  Lemma holds_sl_cell oy ox black gs c :
    forallb (holds no_graph en) (sl_cell h w G base oy ox black gs c) = cell_sem oy ox black gs c.
  Proof.
    destruct c as [y x]. unfold sl_cell, cell_sem. fold fh fw.
    rewrite forallb_app. cbn [forallb]. rewrite holds_count_in, holds_count_out, andb_true_r.
    f_equal.
    destruct (negb (at2 black w y x =? 0)%Z).
    - cbn [forallb]. rewrite holds_not_passed, andb_true_r. reflexivity.
    - destruct (Nat.eqb y oy && Nat.eqb x ox); [reflexivity|].
      destruct (sl_gate_id gs (y, x)) as [n|].
      + rewrite forallb_app, forallb_map. f_equal.
        * apply forallb_ext_in. intros d _. apply holds_ord_gate.
        * destruct (1 <=? n)%Z; [|reflexivity]. cbn [forallb]. rewrite holds_numbered, andb_true_r. reflexivity.
      + rewrite forallb_map. apply forallb_ext_in. intros d _. apply holds_ord_same.
  Qed.

  Definition aux_sem (gs : list Z) : bool :=
    forallb (fun c0 => forallb (fun c1 =>
      negb (Nat.ltb (cidx w c0) (cidx w c1) && sl_is_gate gs c0 && sl_is_gate gs c1) ||
      (negb (sl_pv c0 && sl_pv c1) || negb (sl_ov c0 =? sl_ov c1)%Z)) (cells h w)) (cells h w).

  Lemma holds_sl_aux gs : forallb (holds no_graph en) (sl_aux h w G base gs) = aux_sem gs.
  Proof.
    unfold sl_aux, aux_sem. rewrite forallb_flat_map. apply forallb_ext_in. intros c0 _.
    rewrite forallb_flat_map. apply forallb_ext_in. intros c1 _.
    destruct (Nat.ltb (cidx w c0) (cidx w c1) && sl_is_gate gs c0 && sl_is_gate gs c1); [|reflexivity].
    cbn [forallb negb orb]. rewrite holds_aux, andb_true_r. reflexivity.
  Qed.

  (* the whole list of later constraints *)
  Lemma holds_sl_constraints oy ox black gs :
    forallb (holds no_graph en) (sl_constraints h w G base oy ox black gs) =
    forallb (fun k => (Z.of_nat (count sl_pv (gate_cells gs k)) =? 1)%Z) (seq 0 G) &&
    sl_pv (oy, ox) &&
    forallb (cell_sem oy ox black gs) (cells h w) &&
    aux_sem gs.
  Proof.
    unfold sl_constraints. rewrite !forallb_app, forallb_map, forallb_flat_map. cbn [forallb].
    rewrite holds_passed, andb_true_r, holds_sl_aux.
    rewrite (forallb_ext_in _ _ _ (fun k _ => holds_gate_count gs k)).
    rewrite (forallb_ext_in _ _ _ (fun c _ => holds_sl_cell oy ox black gs c)).
    rewrite !andb_assoc. reflexivity.
  Qed.
End Sem.
