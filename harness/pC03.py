"""C03 — Sugar-family backends: emitted CSP text and parsed replies are faithful."""
import ast
import os
import sys
import warnings

import exprio
import vlib

PROPS = "Props/C03.v"
RULE = ("correspondence: for generated programs (all 20 operators incl. both native graph operators with their "
        "operand layout, Python literals, None, empty / singleton n-ary forms, *_CONSTANT nodes, ill-typed nodes; ints "
        "made at run time, domains and literals around the small-int cache and digit-width boundaries, ids with up to "
        "four digits) and each of the five backend names, the real Solver.find_answer / Solver.solve / backend-class "
        "API is run with a fake entry point (fake pycsugar / enigma_csp / cspuz_core modules, fake subprocess in "
        "_subproc) that records the text and answers with a reply produced by the Coq transcription of "
        "CspuzSugarInterface.run() from the text it was handed; the backend is named by keyword / positionally / as a "
        "class / through config.default_backend, with config.backend_path and solver_timeout set or not; the text is "
        "compared byte-for-byte with the extracted model's description (for the refinement loop of "
        "Solver.solve(backend='sugar') and for the backend-class API with the history model: one object, every "
        "add_constraint call in order), the entry point with the model's, (return value, sol vector | error enum) with "
        "the extracted reply parsers, also on a malformed reply stream; histories: one Solver called two or three times "
        "with Solver.ensure / add_answer_key in between, one backend object used for several rounds of add_constraint + "
        "solve / solve_irrefutably with changing keys, later replies unsat half of the time, sol fields not reset in "
        "between; CPython's int/strip/split/in are compared with their Coq transcriptions.  search: the emitted text "
        "(first description and every description of the refinement loop, against Solver.constraints + the clauses "
        "posted so far) is read by the reference Sugar parser and its declarations, answer keys and the meaning of every "
        "constraint under random assignments are compared with the Solver's variables, keys and eval of the posted "
        "trees; parsed replies are compared with the assignment / fact set that produced them; end to end: small "
        "programs (1-4 variables) are solved by a reference solver placed behind the fake entry points (it reads the "
        "text with the reference parser and enumerates the declared domains), Solver.find_answer / Solver.solve of all "
        "five backends, histories included, must report what enumeration of the Solver's own program gives, the model "
        "set of every description must equal the model set of the posted constraints, the description must reach the "
        "entry point the backend name stands for, and the Solver's constraints / keys / variables and the lists given "
        "to add_constraint must be unchanged by the call.  A case is non-trivial when it is a distinct (kind, program, "
        "backend, reply) tuple.")
TRUSTED = [
    "reading of the Sugar CSP syntax (atoms, parentheses, operator names and arities, (int N LO HI)/(bool N)) and of "
    "CspuzSugarInterface.java loadProblem()/run() as transcribed in Backend/SugarReply.v (the Java file is read, never executed: no JVM offline)",
    "meaning of the two native graph operators is a parameter (gsem) of the theorems; the search instantiates it with "
    "Backend/SugarGraphSem.v (connectivity of active vertices / valid division with sizes)",
    "CPython str.split/strip/in/int/list-setitem semantics as transcribed in Backend/SugarText.v; validated against the interpreter on every run (kinds pystr-*)",
    "Coq stdlib DecimalString/DecimalZ as the meaning of decimal numerals",
    "extraction of the C03 runner additionally uses the standard ExtrOcamlString (ascii -> char, string -> char list); used for the tie and search only",
    "fail-closed ast translator of OP_TO_OPNAME (harness/pC03.py::translate) -> coq/theories/Gen/SugarOps.v",
]
ASSUMPTIONS = [
    "the external solver is correct and answers in the protocol of CspuzSugarInterface.run() (oracle hypothesis; line separator is \\n)",
    "operands of expression nodes are Expr objects, Python bool/int or None; variable ids are non-negative ints; replies are ASCII",
    "well-typed trees = what cspuz's own constructors build (Op.SUB has two or more operands: a one-operand SUB would print as Sugar's negation)",
    "timeouts / process handling of _subproc.run_subprocess are out of scope (only the text handed over and the decoded reply are observed)",
    "a failed add_constraint (exception inside the conversion) may leave part of its list behind; histories are not followed past such an error",
]

ERR = {1: "IndexError", 2: "KeyError", 3: "AssertionError", 4: "TypeError", 5: "ValueError",
       6: "RecursionError", 7: "NotImplementedError", 8: "Other"}
BACKENDS = ["sugar", "sugar_extended", "csugar", "enigma_csp", "cspuz_core"]
SUGAR_LIKE = os.path.join(vlib.REPO, "cspuz", "backend", "sugar_like.py")

OP_COQ = {
    "VAR": "VAR", "BOOL_CONSTANT": "BOOL_CONSTANT", "INT_CONSTANT": "INT_CONSTANT", "NEG": "NEG", "ADD": "ADD",
    "SUB": "SUB", "EQ": "EQ", "NE": "NE", "LE": "LE", "LT": "LT", "GE": "GE", "GT": "GT", "NOT": "NOT",
    "AND": "AND", "OR": "OR", "IFF": "IFF", "XOR": "XOR", "IMP": "IMP", "IF": "IF", "ALLDIFF": "ALLDIFF",
    "GRAPH_ACTIVE_VERTICES_CONNECTED": "G_AVC", "GRAPH_DIVISION": "G_DIV",
}


# ------------------------------------------------------------------ translator (T)

def translate(ctx):
    """OP_TO_OPNAME of sugar_like.py -> Gen/SugarOps.v; anything unexpected is an error."""
    src = open(SUGAR_LIKE).read()
    tree = ast.parse(src)
    tables = [n for n in tree.body if isinstance(n, ast.Assign)
              and any(isinstance(t, ast.Name) and t.id == "OP_TO_OPNAME" for t in n.targets)]
    if len(tables) != 1 or len(tables[0].targets) != 1:
        raise ValueError("expected exactly one module-level assignment OP_TO_OPNAME = {...}")
    d = tables[0].value
    if not isinstance(d, ast.Dict):
        raise ValueError("OP_TO_OPNAME is not a dict literal")
    # every other use must be the read OP_TO_OPNAME[...] (no update / item assignment / rebinding)
    for node in ast.walk(tree):
        if isinstance(node, ast.Name) and node.id == "OP_TO_OPNAME" and node is not tables[0].targets[0]:
            if not isinstance(node.ctx, ast.Load):
                raise ValueError("OP_TO_OPNAME is re-bound or deleted")
    for node in ast.walk(tree):
        if isinstance(node, ast.Subscript) and isinstance(node.value, ast.Name) and node.value.id == "OP_TO_OPNAME":
            if not isinstance(node.ctx, ast.Load):
                raise ValueError("OP_TO_OPNAME is modified by item assignment")
        if isinstance(node, ast.Attribute) and isinstance(node.value, ast.Name) and node.value.id == "OP_TO_OPNAME":
            raise ValueError("unexpected attribute use of OP_TO_OPNAME (.%s)" % node.attr)
    rows, seen = [], set()
    for k, v in zip(d.keys, d.values):
        if not (isinstance(k, ast.Attribute) and isinstance(k.value, ast.Name) and k.value.id == "Op"):
            raise ValueError("key is not Op.<NAME>: %s" % ast.dump(k) if k is not None else "**splat")
        if k.attr not in OP_COQ:
            raise ValueError("unknown operator Op.%s" % k.attr)
        if k.attr in seen:
            raise ValueError("operator Op.%s listed twice" % k.attr)
        seen.add(k.attr)
        if not (isinstance(v, ast.Constant) and isinstance(v.value, str)):
            raise ValueError("value of Op.%s is not a string literal" % k.attr)
        s = v.value
        if not all(32 <= ord(c) < 127 and c not in '"\\' for c in s):
            raise ValueError("operator name %r has characters outside the translatable range" % s)
        rows.append('  (%s, "%s")' % (OP_COQ[k.attr], s))
    # the Op enum itself must be the one Core/Expr.v mirrors
    import cspuz.expr as ce
    if [m.name for m in ce.Op] != list(OP_COQ):
        raise ValueError("cspuz.expr.Op changed: %s" % [m.name for m in ce.Op])
    text = ("(* GENERATED by harness/pC03.py::translate from /repo/cspuz/backend/sugar_like.py (OP_TO_OPNAME). Do not edit. *)\n"
            "From Coq Require Import List String.\nFrom Cspuz Require Import Core.Expr.\nImport ListNotations.\n"
            "Open Scope string_scope.\n\nDefinition opname_table : list (op * string) := [\n"
            + ";\n".join(rows) + "\n].\n")
    vlib.write_if_changed(os.path.join(vlib.GEN, "SugarOps.v"), text)


# ------------------------------------------------------------------ fakes (always restored)

_MISSING = object()
MODS = ("pycsugar", "enigma_csp", "cspuz_core")


class _FakeCompleted:
    def __init__(self, out):
        self.stdout = out
        self.returncode = 0


class _FakeSubprocess:
    """stands in for the `subprocess` module inside cspuz.backend._subproc"""
    PIPE = -1
    import subprocess as _real
    TimeoutExpired = _real.TimeoutExpired

    def __init__(self, owner):
        self.owner = owner

    def run(self, args, input=None, stdout=None, **kw):
        reply = self.owner.on_call("run_subprocess", list(args), input.decode("ascii"))
        return _FakeCompleted(reply.encode("utf-8"))

    def Popen(self, args, **kw):
        owner = self.owner

        class P:
            pid = 0

            def communicate(self, data, timeout=None):
                return owner.on_call("run_subprocess", list(args), data.decode("ascii")).encode("utf-8"), b""
        return P()


class _FakeModule:
    def __init__(self, name, owner):
        self.__name__ = name
        self.owner = owner

    def solver(self, text):
        return self.owner.on_call(self.__name__ + ".solver", None, text)


class Fakes:
    """context manager: installs the fake entry points, records every call, restores everything."""

    def __init__(self, responder):
        self.responder = responder
        self.calls = []

    def on_call(self, entry, args, text):
        self.calls.append((entry, args, text))
        return self.responder(len(self.calls) - 1, text)

    def __enter__(self):
        import cspuz.backend._subproc as sp
        self.sp = sp
        self.saved_subprocess = sp.subprocess
        self.saved_mods = {k: sys.modules.get(k, _MISSING) for k in MODS}
        sp.subprocess = _FakeSubprocess(self)
        for k in MODS:
            sys.modules[k] = _FakeModule(k, self)
        return self

    def __exit__(self, *a):
        self.sp.subprocess = self.saved_subprocess
        for k, v in self.saved_mods.items():
            if v is _MISSING:
                sys.modules.pop(k, None)
            else:
                sys.modules[k] = v
        return False


# ------------------------------------------------------------------ generators

def hexs(s):
    return s.encode("latin-1").hex() if s else "-"


def unhex(h):
    return "" if h == "-" else bytes.fromhex(h).decode("latin-1")


def fresh(x):
    """an int object made at run time (class 2: not a shared compile-time constant; outside [-5, 256] it is
    never the identical object twice, so an identity test where equality is meant shows)"""
    return int(str(x))


class Gen:
    """grammar-based generator of cspuz trees over a given variable vocabulary."""

    def __init__(self, rng, bvars, ivars, lits=None):
        self.rng, self.bvars, self.ivars = rng, bvars, ivars
        self.lits = lits  # literal pool near the domains (small exhaustive programs)

    def int_lit(self):
        r = self.rng
        if self.lits and r.random() < 0.85:
            return fresh(r.choice(self.lits))
        return fresh(r.choice([0, 1, -1, 2, 3, 5, -7, 10, 42, -100, 10 ** 9, -(10 ** 12), r.randint(-20, 20),
                               -5, -6, 256, 257, 4095, 4096, 65536, r.randint(-5000, 5000)]))

    def gint(self, d):
        from cspuz.expr import IntExpr, Op
        r = self.rng
        c = r.random()
        if d <= 0 or c < 0.3:
            k = r.random()
            if k < 0.4 and self.ivars:
                return r.choice(self.ivars)
            if k < 0.85:
                return self.int_lit()
            return IntExpr(Op.INT_CONSTANT, [self.int_lit()])
        o = r.choice(["NEG", "ADD", "ADD", "SUB", "IF", "IF"])
        if o == "NEG":
            return IntExpr(Op.NEG, [self.gint(d - 1)])
        if o == "ADD":
            return IntExpr(Op.ADD, [self.gint(d - 1) for _ in range(r.choice([1, 2, 2, 3, 4]))])
        if o == "SUB":
            return IntExpr(Op.SUB, [self.gint(d - 1) for _ in range(r.choice([2, 2, 2, 3]))])
        return IntExpr(Op.IF, [self.gbool(d - 1), self.gint(d - 1), self.gint(d - 1)])

    def graph(self):
        r = self.rng
        n = r.choice([0, 1, 2, 3, 3, 4, 5])
        m = 0 if n == 0 else r.choice([0, 1, 2, 3, 4, 6])
        edges = []
        for _ in range(m):
            u = r.randrange(n)
            v = r.randrange(n)
            edges.append((u, v))
        return n, edges

    def gbool(self, d, graph_ok=True):
        from cspuz.expr import BoolExpr, Op
        r = self.rng
        c = r.random()
        if d <= 0 or c < 0.25:
            k = r.random()
            if k < 0.55 and self.bvars:
                return r.choice(self.bvars)
            if k < 0.85:
                return r.random() < 0.5
            return BoolExpr(Op.BOOL_CONSTANT, [r.random() < 0.5])
        o = r.choice(["EQ", "NE", "LE", "LT", "GE", "GT", "NOT", "AND", "AND", "OR", "OR", "IFF", "XOR", "IMP",
                      "ALLDIFF", "AVC", "DIV"])
        if o in ("EQ", "NE", "LE", "LT", "GE", "GT"):
            return BoolExpr(Op[o], [self.gint(d - 1), self.gint(d - 1)])
        if o == "NOT":
            return BoolExpr(Op.NOT, [self.gbool(d - 1)])
        if o in ("AND", "OR"):
            return BoolExpr(Op[o], [self.gbool(d - 1) for _ in range(r.choice([0, 1, 2, 2, 3, 4]))])
        if o in ("IFF", "XOR", "IMP"):
            return BoolExpr(Op[o], [self.gbool(d - 1), self.gbool(d - 1)])
        if o == "ALLDIFF":
            return BoolExpr(Op.ALLDIFF, [self.gint(d - 1) for _ in range(r.choice([0, 1, 2, 3, 4]))])
        n, edges = self.graph()
        flat = sum([[x, y] for x, y in edges], [])
        dd = min(d - 1, 1)
        if o == "AVC":
            return BoolExpr(Op.GRAPH_ACTIVE_VERTICES_CONNECTED,
                            [n, len(edges)] + [self.gbool(dd) for _ in range(n)] + flat)
        sizes = [None if r.random() < 0.4 else self.gint(dd) for _ in range(n)]
        return BoolExpr(Op.GRAPH_DIVISION, [n, len(edges)] + sizes + flat + [self.gbool(dd) for _ in edges])

    def malformed(self):
        """trees the public constructors do not build: error points and odd prints of _convert_expr"""
        from cspuz.expr import BoolExpr, IntExpr, Op
        r = self.rng
        k = r.randrange(12)
        if k == 0:
            return BoolExpr(Op.VAR, [])
        if k == 1:
            return IntExpr(Op.VAR, [self.gint(0)])
        if k == 2:
            return BoolExpr(Op.BOOL_CONSTANT, [])
        if k == 3:
            return IntExpr(Op.INT_CONSTANT, [])
        if k == 4:
            return BoolExpr(Op.BOOL_CONSTANT, [self.gbool(1) if r.random() < 0.5 else r.choice([0, 3, None])])
        if k == 5:
            return IntExpr(Op.INT_CONSTANT, [r.choice([True, False, None])])
        if k == 6:
            return IntExpr(Op.SUB, [self.gint(1)])
        if k == 7:
            return BoolExpr(Op.NOT, [self.gbool(1), self.gint(1)])
        if k == 8:
            return BoolExpr(Op.EQ, [self.gbool(1), None])
        if k == 9:
            return BoolExpr(Op.AND, [self.gbool(1), BoolExpr(Op.VAR, [])])
        if k == 10:
            return IntExpr(Op.ADD, [])
        return BoolExpr(Op.IF, [self.gint(1)])


def gen_domain(rng):
    k = rng.random()
    if k < 0.5:
        lo = rng.randint(-3, 3)
        return lo, lo + rng.randint(0, 4)
    if k < 0.65:
        v = rng.randint(-50, 50)
        return v, v
    if k < 0.75:
        return -rng.randint(1, 10 ** 6), rng.randint(0, 10 ** 6)
    if k < 0.87:
        lo = rng.choice([-7, -6, -5, 254, 255, 256, 257, 999, 4094, 65535])
        return fresh(lo), fresh(lo + rng.randint(0, 4))
    return rng.randint(-9, 0), rng.randint(0, 9)


def gen_program(rng, malformed=False):
    """a Solver with declared variables, posted constraints and registered answer keys"""
    from cspuz import Solver
    s = Solver()
    nv = rng.choice([0, 1, 2, 3, 4, 5, 6, 8, 12])
    if rng.random() < 0.03:
        nv = rng.choice([30, 101, 130])  # ids with two and three digits
    bvars, ivars = [], []
    for _ in range(nv):
        if rng.random() < 0.5:
            bvars.append(s.bool_var())
        else:
            lo, hi = gen_domain(rng)
            ivars.append(s.int_var(lo, hi))
    g = Gen(rng, bvars, ivars)
    nc = rng.choice([0, 1, 1, 2, 3, 5])
    cs = []
    for _ in range(nc):
        cs.append(g.gbool(rng.choice([0, 1, 2, 3, 4])))
    if malformed:
        bad = g.malformed()
        from cspuz.expr import BoolExpr, Op
        if not isinstance(bad, BoolExpr) or rng.random() < 0.5:
            bad = BoolExpr(Op.OR, [g.gbool(1), BoolExpr(Op.NOT, [bad]) if rng.random() < 0.5 else bad])
        cs.insert(rng.randrange(len(cs) + 1), bad)
    for c in cs:
        s.constraints.append(c)  # what Solver.ensure appends (bool / BoolExpr), without its flattening
    mode = rng.random()
    chosen = []
    for v in s.variables:
        if mode < 0.15:
            continue
        if mode > 0.85 or rng.random() < 0.5:
            chosen.append(v)
    form = rng.randrange(5)  # one by one / list / star-args / tuple + list / nested
    if form == 0:
        for v in chosen:
            s.add_answer_key(v)
    elif form == 1:
        s.add_answer_key(chosen)
    elif form == 2:
        s.add_answer_key(*chosen)
    elif form == 3:
        k = rng.randint(0, len(chosen))
        s.add_answer_key(tuple(chosen[:k]), chosen[k:])
    else:
        s.add_answer_key([[v] for v in chosen])
    return s


def vars_tok(variables):
    return "[" + "".join(" " + exprio.show(v) for v in variables) + " ]"


def name_of(v):
    from cspuz.expr import BoolVar
    return ("b%d" if isinstance(v, BoolVar) else "i%d") % v.id


def val_tok(x):
    return "T" if x is True else "F" if x is False else "#%d" % x


def gen_assignment(rng, variables, wild=False):
    """name -> value, mostly inside the declared domain"""
    from cspuz.expr import BoolVar
    a = {}
    for v in variables:
        if isinstance(v, BoolVar):
            a[name_of(v)] = rng.random() < 0.5
        elif wild and rng.random() < 0.3:
            a[name_of(v)] = rng.choice([10 ** 15, -(10 ** 15), v.hi + 1, v.lo - 1, 0])
        else:
            a[name_of(v)] = rng.randint(max(v.lo, -10 ** 6), min(v.hi, 10 ** 6))
    return a


def pairs_tok(a):
    return "[" + "".join(" %s=%s" % (k, val_tok(v)) for k, v in a.items()) + " ]"


def parse_model_res(r):
    t = r.split()
    if t[0] == "E":
        return ("err", ERR[int(t[1])])
    if t[0] == "OK":
        return ("ok", t[1:])
    raise RuntimeError("bad model reply " + r)


def sol_tok(x):
    if x is None:
        return "N"
    if x is True:
        return "T"
    if x is False:
        return "F"
    if type(x) is int:
        return "#%d" % x
    return "?" + repr(x)


def _split_line(l):
    """(prefix, name, separator, value) of a reply line of either format"""
    if l.startswith("a ") and "\t" in l:
        name, _, val = l[2:].partition("\t")
        return "a ", name, "\t", val
    name, _, val = l.partition(" ")
    return "", name, " ", val


def mutate_reply(rng, reply, nvars):
    """malformed stream: one edit of a well-formed reply"""
    lines = reply.split("\n")
    k = rng.randrange(15)
    body = [i for i in range(1, len(lines)) if len(lines[i]) > 2]
    pick = rng.choice(body) if body else None
    if pick is not None:
        pre, name, sep, val = _split_line(lines[pick])
    if k == 0:  # missing terminator / truncated
        return "\n".join(lines[:rng.randint(1, max(1, len(lines) - 1))])
    if k == 1:  # blank line in the middle
        lines.insert(rng.randint(0, len(lines)), rng.choice(["", " ", "a", "a ", "\t"]))
        return "\n".join(lines)
    if k == 2 and pick is not None:  # unknown variable
        new = rng.choice(["%d" % (nvars + rng.randint(0, 3)), "-1", "-%d" % nvars, "-%d" % (nvars + 1), "999999",
                          "-0", "+0", "0_0", "00", "", "x", " 1"])
        lines[pick] = pre + name[:1] + new + sep + val
        return "\n".join(lines)
    if k == 3 and pick is not None:  # non-integer value
        lines[pick] = pre + name + sep + rng.choice(
            ["x", "", "1.5", "True", "TRUE", "0x1f", "--3", "1_000", "1__0", " 7", "7 ", "+4", "1e3", "_1", "null",
             "truefalse", "-", "+"])
        return "\n".join(lines)
    if k == 4 and pick is not None:  # separator trouble
        l = lines[pick]
        lines[pick] = rng.choice([l.replace("\t", " "), l.replace("\t", "\t\t"), l.replace(" ", "  "), l + "\t1",
                                  l + " 1", l.replace("\t", ""), " " + l, l + " ", l + "\r", l.replace(" ", "\t")])
        return "\n".join(lines)
    if k == 5:  # first line variants
        lines[0] = rng.choice(["", "s", "UNSATISFIABLE", "s UNSATISFIABLE", "xxUNSATISFIABLExx", "s unsatisfiable",
                               "unsat", "UNSAT", "sat", "s SATISFIABLE", "not unsat!", "s UNKNOWN"])
        return "\n".join(lines)
    if k == 6:  # CRLF
        return reply.replace("\n", "\r\n")
    if k == 7:  # empty reply
        return rng.choice(["", "\n", "\n\n", "a"])
    if k == 8 and pick is not None:  # short / odd lines
        lines[pick] = rng.choice(["a \t1", "a b\t1", "b 1", "i 1", " 1", "a  \t", "a x\ty\tz", "b1", "a b1", "b1 1 1"])
        return "\n".join(lines)
    if k == 9 and pick is not None:  # duplicate / conflicting line
        lines.insert(pick, pre + name + sep + rng.choice([val, "7", "false"]))
        return "\n".join(lines)
    if k == 10 and pick is not None:  # type confusion (int value for a bool name and vice versa)
        lines[pick] = pre + name + sep + ("5" if val in ("true", "false") else "true")
        return "\n".join(lines)
    if k == 11:  # lines after the terminator
        return reply + rng.choice(["a b0\ttrue\n", "b0 true\n", "garbage\n", "x\n"])
    if k == 12 and pick is not None:  # short line acts as terminator
        lines.insert(pick, rng.choice(["a", "", "ab", "  "]))
        return "\n".join(lines)
    if k == 13 and pick is not None:
        lines[pick] = lines[pick].upper()
        return "\n".join(lines)
    if k == 14 and pick is not None:  # whitespace the two strips treat differently
        lines[pick] = (pre + name + sep + rng.choice(["\x1c", "\x0b", "\x0c", ""]) + val
                       + rng.choice(["\x1c", "\x1f", "\x0b", " ", ""]))
        return "\n".join(lines)
    return reply


# ------------------------------------------------------------------ one run through the real code

def observe_sol(variables):
    return [sol_tok(v.sol) for v in variables]


def stale_sols(variables):
    """leave recognisable garbage in the sol fields, so that 'every sol is reset' is observed"""
    from cspuz.expr import BoolVar
    for v in variables:
        v.sol = (v.id % 2 == 0) if isinstance(v, BoolVar) else 777 + v.id


FORMS = ["name", "name", "pos", "class", "default", "none"]


def call_api(solver, api, backend, form):
    """Solver.solve / Solver.find_answer with the backend given in one of the accepted ways (class 6):
    keyword name, positional name, the backend class itself, omitted / None with config.default_backend."""
    from cspuz.configuration import config
    from cspuz.solver import _get_backend_by_name
    f = solver.solve if api == "solve" else solver.find_answer
    if form == "name":
        return f(backend=backend)
    if form == "pos":
        return f(backend)
    if form == "class":
        return f(backend=_get_backend_by_name(backend))
    saved = config.default_backend
    config.default_backend = backend
    try:
        return f() if form == "default" else f(backend=None)
    finally:
        config.default_backend = saved


def args_snapshot(solver):
    from cspuz.expr import IntVar
    return (exprio.show_list(solver.constraints), list(solver.is_answer_key), [id(v) for v in solver.variables],
            [(v.id, v.lo, v.hi) if isinstance(v, IntVar) else v.id for v in solver.variables])


def run_solver_flow(ctx, m, solver, backend, deduction, responder, form="name", stale=True):
    """Solver.find_answer / Solver.solve with fakes installed.  Returns (outcome, calls, posted):
    outcome = ("ok", [ret, sols...]) | ("err", name); calls = recorded (entry, args, text);
    posted = trees handed to add_constraint after the initial list (the refuting clauses of the
    non-native route), one list per _call_solver call.  stale=False keeps what an earlier call on the
    same Solver left in the sol fields (histories)."""
    import cspuz.backend.sugar_like as sl
    posted_before_call = []
    extra = []
    orig_add = sl.SugarLikeBackend.add_constraint
    first = [True]

    def spy_add(self, constraint):
        if first[0]:
            first[0] = False
        else:
            extra.append(constraint)
        return orig_add(self, constraint)

    def resp(i, text):
        posted_before_call.append(list(extra))
        return responder(i, text)

    if stale:
        stale_sols(solver.variables)
    before = args_snapshot(solver)
    with Fakes(resp) as fk:
        sl.SugarLikeBackend.add_constraint = spy_add
        try:
            with warnings.catch_warnings():
                warnings.simplefilter("ignore")
                out = vlib.guarded(lambda: call_api(solver, "solve" if deduction else "find_answer", backend, form))
        finally:
            sl.SugarLikeBackend.add_constraint = orig_add
    after = args_snapshot(solver)
    if after != before:
        # what the caller passed in (constraint list, key flags, variable list) is the caller's (class 3)
        ctx.violation("args-changed:%s:%s" % (backend, "solve" if deduction else "find_answer"),
                      "the Solver's constraints / answer keys / variables were modified by the call",
                      {"before": before[:2] + (before[3],), "after": after[:2] + (after[3],)})
    if out[0] == "ok":
        out = ("ok", ["1" if out[1] is True else "0" if out[1] is False else repr(out[1])] + observe_sol(solver.variables))
    return out, fk.calls, posted_before_call


def flat_posted(extra):
    flat = []
    for x in extra:
        flat += x if isinstance(x, list) else [x]
    return flat


def model_desc(m, backend, mode, variables, keys, constraints):
    req = "DESC %s %s VARS %s K [%s ] C %s" % (
        backend, mode, vars_tok(variables), "".join(" 1" if k else " 0" for k in keys), exprio.show_list(constraints))
    r = parse_model_res(m.call(req))
    if r[0] == "ok":
        return ("ok", unhex(r[1][0]))
    return r


def model_hist(m, backend, mode, variables, keys, posts):
    """Backend/SugarHistory.v: one backend object, posts = [("L", [trees]) | ("O", tree)] in call order"""
    req = "HIST %s %s VARS %s K [%s ] P%s E" % (
        backend, mode, vars_tok(variables), "".join(" 1" if k else " 0" for k in keys),
        "".join(" L " + exprio.show_list(x) if t == "L" else " O " + exprio.show(x) for t, x in posts))
    r = parse_model_res(m.call(req))
    if r[0] == "ok":
        return ("ok", unhex(r[1][0]))
    return r


def posts_of(extra):
    return [("L", x) if isinstance(x, list) else ("O", x) for x in extra]


def java_reply(m, text, sat, refuted=()):
    """the reply CspuzSugarInterface.run() prints for this text (Coq transcription)."""
    if sat is None:
        r = m.call("JR %s U" % hexs(text))
    else:
        r = m.call("JR %s S %s R [%s ]" % (hexs(text), pairs_tok(sat), "".join(" " + n for n in refuted)))
    t = r.split()
    if t[0] != "OK":
        return None
    return unhex(t[1])


def kind_info(m, backend):
    t = m.call("KIND " + backend).split()
    return t[0] == "true", t[1] == "true", t[2]


def expected_entry(backend):
    from cspuz.configuration import config
    return [config.backend_path or "sugar", "/dev/stdin"]


# ------------------------------------------------------------------ correspondence (C)

def flow_case(ctx, m, rng, solver, backend, deduction, kinds, malformed=False, stale=True, sat=None,
              allow_bad=True, pre=""):
    """one Solver.find_answer / Solver.solve call through the fakes, compared with the model:
    text and entry point of every call, (return value, sol vector | error) with the reply parsers.
    The program is taken as it is now (histories call this several times on one Solver)."""
    from cspuz.configuration import config
    native, subproc, entry = kinds[backend]
    variables, keys, cons = solver.variables, list(solver.is_answer_key), list(solver.constraints)
    ptag = exprio.show_state(solver)
    ctx.count("flow:%s:%s" % (backend, "solve" if deduction else "find_answer"))
    asg = gen_assignment(rng, variables, wild=rng.random() < 0.2)
    asg2 = gen_assignment(rng, variables)
    if sat is None:
        sat = rng.random() < 0.85
    refuted = [name_of(v) for v in variables if rng.random() < 0.3]
    bad_reply = allow_bad and (not malformed) and rng.random() < 0.25 and (native or not deduction)
    form = rng.choice(FORMS)
    ctx.count("form:" + form)
    replies = []
    saved_timeout, saved_path = config.solver_timeout, config.backend_path
    if subproc and rng.random() < 0.1:
        config.solver_timeout = 5.0
    if subproc and rng.random() < 0.3:
        config.backend_path = rng.choice(["", "/opt/sugar/bin/sugar", "sugar_ext.sh", "./csugar"])

    def responder(i, text):
        if i > 8:
            raise RuntimeError("more than 9 solver calls for a 3-answer plan")
        if deduction and not native:
            # refinement loop of Solver.solve: sat, (sat,) unsat
            plan = [asg, asg2, None]
            cur = plan[min(i, 2)] if sat else None  # the third answer is always unsat: the loop ends
            rep = java_reply(m, text, cur)
        else:
            rep = java_reply(m, text, asg if sat else None, refuted)
        if rep is None:
            rep = "s UNSATISFIABLE\n"
            ctx.note("java side could not read the text of %s" % ptag[:200])
        if bad_reply:
            rep = mutate_reply(rng, rep, len(variables))
        replies.append(rep)
        return rep

    try:
        exp_entry = expected_entry(backend) if subproc else None
        out, calls, posted = run_solver_flow(ctx, m, solver, backend, deduction, responder, form=form, stale=stale)
    finally:
        config.solver_timeout, config.backend_path = saved_timeout, saved_path
    tag = (ptag, backend, deduction)
    # 1. text + entry point of every call
    mode_native = deduction and native
    texts_ok = True
    for ci, (ent, args, text) in enumerate(calls):
        extra = posted[ci] if ci < len(posted) else []
        if deduction and not native:
            # the refinement loop: one backend object, the initial list and then one clause per round
            md = model_hist(m, backend, "A", variables, keys, [("L", cons)] + posts_of(extra))
        else:
            md = model_desc(m, backend, "D" if mode_native else "A", variables, keys, cons + flat_posted(extra))
        texts_ok &= ctx.corr(pre + "text", (tag, ci), md, ("ok", text))
        ctx.corr(pre + "entry", (backend, ci, form, exp_entry and exp_entry[0]), (entry, exp_entry), (ent, args))
    if not calls:
        # the conversion failed before any call: same error from the model
        md = model_desc(m, backend, "D" if deduction else "A", variables, keys, cons)
        if md[0] == "err" and md[1] == "NotImplementedError":
            md = model_desc(m, backend, "A", variables, keys, cons)
        ctx.corr(pre + "text-error", tag, md, out)
        return out
    # 2. the reply parser
    if deduction and not native:
        # sol fields are then set by Solver.solve's loop (C02); each call's parse is compared through the
        # backend-class flows (direct_api / direct_history); the loop as a whole in search (reference solver)
        ctx.corr(pre + "loop-calls", tag, len(calls) >= 1, True)
        if not malformed:  # whether or not the tie held: search reads every description of the loop itself
            ctx._c03_loops.append(dict(variables=variables, keys=keys, cons=cons, tag=ptag,
                                       texts=[c[2] for c in calls],
                                       posted=[flat_posted(x) for x in posted],
                                       flow={"kind": "canned-loop", "program": ptag,
                                             "plan": [asg, asg2] if sat else []}))
    else:
        req = "%s %s %s" % ("PD" if deduction else "PA", vars_tok(variables), hexs(replies[0]))
        mo = parse_model_res(m.call(req))
        ctx.corr(pre + ("reply-bad" if bad_reply else "reply"), (tag, replies[0]), mo, out)
        if not bad_reply and not malformed and texts_ok:
            ctx._c03.append(dict(variables=variables, keys=keys, cons=cons, backend=backend, deduction=deduction,
                                 text=calls[0][2], asg=asg if sat else None, refuted=refuted, out=out, tag=ptag,
                                 is_state=True))
    return out


def correspond(ctx):
    m = ctx.model("C03")
    rng = ctx.rng
    ctx._c03 = []  # material for search
    ctx._c03_loops = []
    n_prog = 4000 if ctx.thorough else 600
    n_mal = 1000 if ctx.thorough else 150
    kinds = {b: kind_info(m, b) for b in BACKENDS}

    for pi in range(n_prog + n_mal):
        malformed = pi >= n_prog
        solver = gen_program(rng, malformed=malformed)
        backends = BACKENDS if (pi % 3 == 0 or ctx.thorough) else [BACKENDS[pi % 5], BACKENDS[(pi * 7 + 2) % 5]]
        if len(solver.variables) > 20 and not ctx.thorough:
            backends = backends[:2]
        for backend in backends:
            for deduction in (False, True):
                flow_case(ctx, m, rng, solver, backend, deduction, kinds, malformed=malformed)
        if not malformed and pi % 2 == 0:
            direct_api(ctx, m, rng, solver)
        if not malformed and pi % 4 == 1:
            direct_history(ctx, m, rng, solver)
        if not malformed and pi % 4 == 3:
            history_corr(ctx, m, rng, kinds)
        if not malformed and pi % 3 == 2:
            temp_history(ctx, m, rng, solver)

    pystr_validation(ctx, m, rng)


def history_corr(ctx, m, rng, kinds):
    """class 3: one Solver used for several calls (any mix of find_answer / solve and of backends); between
    two calls more constraints are posted through Solver.ensure and sometimes one more key is registered;
    nothing resets the sol fields in between, and the later replies are unsat half of the time."""
    from cspuz.expr import BoolVar
    solver = gen_program(rng)
    if len(solver.variables) > 20:
        return
    bvars = [v for v in solver.variables if isinstance(v, BoolVar)]
    ivars = [v for v in solver.variables if not isinstance(v, BoolVar)]
    g = Gen(rng, bvars, ivars)
    for step in range(rng.choice([2, 2, 3])):
        backend = rng.choice(BACKENDS)
        deduction = rng.random() < 0.6
        sat = True if step == 0 else rng.random() < 0.5
        ctx.count("history:step%d:%s" % (step, "sat" if sat else "unsat"))
        flow_case(ctx, m, rng, solver, backend, deduction, kinds, stale=(step == 0 and rng.random() < 0.5), sat=sat,
                  allow_bad=False, pre="hist-")
        new = [g.gbool(rng.choice([0, 1, 2])) for _ in range(rng.choice([0, 1, 1, 2]))]
        if rng.random() < 0.5:
            solver.ensure(new)
        else:
            for c in new:
                solver.ensure(c)
        rest = [v for v, k in zip(solver.variables, solver.is_answer_key) if not k]
        if rest and rng.random() < 0.3:
            solver.add_answer_key(rng.choice(rest))


def renumbered(rng, solver):
    """the program over fresh variable objects with random distinct ids in random order (sometimes a
    duplicate id, sometimes ids beyond the small-int cache / with three or four digits)"""
    from cspuz.expr import BoolVar, IntVar, Expr
    n = len(solver.variables)
    base = rng.choice([0] * 6 + [250, 995, 4090])
    ids = [fresh(base + i) for i in rng.sample(range(0, 3 * n + 4), n)]
    if len(ids) >= 2 and rng.random() < 0.05:
        ids[1] = ids[0]
    ren = {}
    variables = []
    for v, i in zip(solver.variables, ids):
        nv = BoolVar(i) if isinstance(v, BoolVar) else IntVar(i, v.lo, v.hi)
        ren[id(v)] = nv
        variables.append(nv)

    def rn(e):
        if id(e) in ren:
            return ren[id(e)]
        if isinstance(e, Expr):
            return type(e)(e.op, [rn(x) for x in e.operands])
        return e
    return variables, [rn(c) for c in solver.constraints]


def direct_history(ctx, m, rng, solver):
    """class 3 on the backend object: several rounds of (add_constraint with a list and / or single trees,
    then solve() or solve_irrefutably(keys)) on ONE object; every description is compared with the model's
    description of everything posted so far, every outcome with the reply parsers; later replies are unsat
    half of the time and nothing resets the sol fields in between.  Containers: variables / keys as list or
    tuple (class 6)."""
    from cspuz.expr import BoolVar
    from cspuz.solver import _get_backend_by_name
    if len(solver.variables) > 20:
        return
    backend = rng.choice(BACKENDS)
    cls = _get_backend_by_name(backend)
    variables, pool = renumbered(rng, solver)
    g = Gen(rng, [v for v in variables if isinstance(v, BoolVar)], [v for v in variables if not isinstance(v, BoolVar)])
    keys = [rng.random() < 0.5 for _ in variables]
    vcont = rng.choice([list, tuple])
    kcont = rng.choice([list, tuple])
    vtok = vars_tok(variables)
    made = vlib.guarded(lambda: cls(vcont(variables)))
    if made[0] != "ok":
        ctx.corr("dhist-init", (vtok, backend), ("ok",), made[:1])
        return
    b = made[1]
    posted, posts = [], []
    if rng.random() < 0.5:
        stale_sols(variables)
    for rnd in range(rng.choice([2, 3, 3, 4])):
        k = rng.choice([0, 1, 1, 2, 3])
        new = [pool.pop(0) if pool and rng.random() < 0.7 else g.gbool(rng.choice([0, 1, 2])) for _ in range(k)]
        split = rng.randint(0, len(new))
        arg = list(new[:split])
        deduction = rng.random() < 0.5
        if rnd and rng.random() < 0.5:
            keys = [rng.random() < 0.5 for _ in variables]  # another key selection on the same object
        sat = rng.random() < (0.8 if rnd == 0 else 0.5)
        asg = gen_assignment(rng, variables, wild=rng.random() < 0.2)
        refuted = [name_of(v) for v in variables if rng.random() < 0.3]
        replies = []

        def responder(i, text):
            rep = java_reply(m, text, asg if sat else None, refuted) or "s UNSATISFIABLE\n"
            replies.append(rep)
            return rep

        with_list = bool(arg) or rng.random() < 0.5

        def go():
            if with_list:
                b.add_constraint(arg)
            for c in new[split:]:
                b.add_constraint(c)
            return b.solve_irrefutably(kcont(keys)) if deduction else b.solve()
        posts += ([("L", list(arg))] if with_list else []) + [("O", c) for c in new[split:]]
        with Fakes(responder) as fk:
            with warnings.catch_warnings():
                warnings.simplefilter("ignore")
                out = vlib.guarded(go)
        ctx.count("dhist:round%d:%s" % (rnd, "sat" if sat else "unsat"))
        if len(arg) != split or any(x is not y for x, y in zip(arg, new)):
            ctx.violation("args-changed:%s:add_constraint" % backend, "add_constraint modified the list it was given",
                          {"given": exprio.show_list(new[:split]), "after": repr(arg)})
        posted += new
        if out[0] == "ok":
            out = ("ok", ["1" if out[1] is True else "0" if out[1] is False else repr(out[1])] + observe_sol(variables))
        tag = (vtok, exprio.show_list(posted), tuple(keys), backend, deduction, rnd)
        md = model_hist(m, backend, "D" if deduction else "A", variables, keys, posts)
        if not fk.calls:
            ctx.corr("dhist-text-error", tag, md, out)
            if md[0] == "err" and md[1] != "NotImplementedError":
                return  # a failed conversion may leave a partial list behind (list += map(...)): not followed
            continue
        ctx.corr("dhist-text", tag, md, ("ok", fk.calls[0][2]))
        ctx.corr("dhist-calls", tag, 1, len(fk.calls))
        req = "%s %s %s" % ("PD" if deduction else "PA", vtok, hexs(replies[0]))
        ctx.corr("dhist-reply", (tag, replies[0]), parse_model_res(m.call(req)), out)
        if len(set(v.id for v in variables)) == len(variables):
            # material for search whether or not the tie held: object reuse is reachable only through this API
            ctx._c03.append(dict(variables=variables, keys=list(keys), cons=list(posted), backend=backend,
                                 deduction=deduction, text=fk.calls[0][2], asg=asg if sat else None, refuted=refuted,
                                 out=out, tag="VARS %s K %s C %s round %d" % (vtok, [int(k) for k in keys],
                                                                          exprio.show_list(posted), rnd),
                                 is_state=False))


def _node_ids(e, acc):
    from cspuz.expr import Expr
    if isinstance(e, Expr):
        acc.add(id(e))
        for x in getattr(e, "operands", []) or []:
            _node_ids(x, acc)
    return acc


def temp_history(ctx, m, rng, solver):
    """class 3, temporaries: one backend object; the trees of a round are built, posted, and then DROPPED by the
    caller (this is what Solver.solve's refinement loop does with its temporary OR constraint); only their
    printed form is kept for the model.  The next round's trees are built after the drop, retried a few times
    until one of their nodes reuses the address of a dead node (CPython hands freed blocks to the next objects
    of the same size), so that anything keyed by object identity across calls shows.  Every description is
    compared with the model's description of everything posted so far."""
    import gc
    from cspuz.expr import BoolVar
    from cspuz.solver import _get_backend_by_name
    if len(solver.variables) > 12:
        return
    backend = rng.choice(BACKENDS)
    cls = _get_backend_by_name(backend)
    variables, _pool = renumbered(rng, solver)
    del _pool
    if len(set(v.id for v in variables)) != len(variables):
        return
    g = Gen(rng, [v for v in variables if isinstance(v, BoolVar)], [v for v in variables if not isinstance(v, BoolVar)])
    keys = [rng.random() < 0.5 for _ in variables]
    vtok = vars_tok(variables)
    made = vlib.guarded(lambda: cls(list(variables)))
    if made[0] != "ok":
        return
    b = made[1]
    posts_txt = []   # ("L", "[ .. ]") | ("O", "( .. )") printed forms only
    dead = set()
    reused_any = False
    for rnd in range(rng.choice([3, 4, 5])):
        want = rng.choice([1, 1, 2])
        new = None
        for attempt in range(12 if dead else 1):
            cand = [g.gbool(rng.choice([1, 1, 2])) for _ in range(want)]
            ids = set()
            for c in cand:
                _node_ids(c, ids)
            if not dead or (ids & dead):
                new = cand
                if dead:
                    reused_any = True
                    ctx.count("thist:id-reuse")
                break
            del cand
        if new is None:
            new = [g.gbool(1) for _ in range(want)]
            ctx.count("thist:no-id-reuse")
        as_list = rng.random() < 0.5
        shown = [exprio.show(c) for c in new]
        if as_list:
            posts_txt.append(("L", "[ " + " ".join(shown) + " ]"))
        else:
            posts_txt += [("O", t) for t in shown]
        deduction = rng.random() < 0.5
        asg = gen_assignment(rng, variables)

        def responder(i, text):
            return java_reply(m, text, asg, []) or "s UNSATISFIABLE\n"

        def go():
            if as_list:
                b.add_constraint(list(new))
            else:
                for c in new:
                    b.add_constraint(c)
            return b.solve_irrefutably(list(keys)) if deduction else b.solve()
        with Fakes(responder) as fk:
            with warnings.catch_warnings():
                warnings.simplefilter("ignore")
                out = vlib.guarded(go)
        for c in new:
            _node_ids(c, dead)
        del new, go
        req = "HIST %s %s VARS %s K [%s ] P%s E" % (
            backend, "D" if deduction else "A", vtok, "".join(" 1" if k else " 0" for k in keys),
            "".join(" %s %s" % (t, x) for t, x in posts_txt))
        r = parse_model_res(m.call(req))
        md = ("ok", unhex(r[1][0])) if r[0] == "ok" else r
        tag = (vtok, tuple(posts_txt), backend, deduction, rnd)
        ctx.count("thist:round%d" % rnd)
        if not fk.calls:
            ctx.corr("thist-text-error", tag, md, out)
            return
        ctx.corr("thist-text", tag, md, ("ok", fk.calls[0][2]))
        # material for search: the trees are gone, so they are rebuilt from their printed forms
        flat_txt = []
        for t, x in posts_txt:
            if t == "O":
                flat_txt.append(x)
            else:
                toks, depth, cur = x.split()[1:-1], 0, []
                for tk in toks:
                    cur.append(tk)
                    depth += (tk == "(") - (tk == ")")
                    if depth == 0:
                        flat_txt.append(" ".join(cur))
                        cur = []
        ctx._c03.append(dict(variables=variables, keys=list(keys), cons=[exprio.parse(t) for t in flat_txt],
                             backend=backend, deduction=deduction, text=fk.calls[0][2], asg=None, refuted=[],
                             out=None, no_reply=True,
                             tag="VARS %s K %s TEMPS %s round %d (trees dropped by the caller after each round)" % (
                                 vtok, [int(k) for k in keys], " ; ".join(flat_txt), rnd), is_state=False))

def direct_api(ctx, m, rng, solver):
    """SugarLikeBackend subclasses used directly: arbitrary variable lists (ids, order), add_constraint
    with a list and with single trees, key lists of any length, replies well-formed and malformed."""
    from cspuz.expr import BoolVar, IntVar
    from cspuz.solver import _get_backend_by_name
    backend = rng.choice(BACKENDS)
    cls = _get_backend_by_name(backend)
    variables, cons = renumbered(rng, solver)
    vcont = rng.choice([list, list, tuple])  # class 6: the backend classes only iterate / index their arguments
    kcont = rng.choice([list, list, tuple])
    klen = rng.choice([len(variables)] * 6 + [max(0, len(variables) - 1), len(variables) + 2, 0])
    keys = [rng.random() < 0.5 for _ in range(klen)]
    deduction = rng.random() < 0.5
    asg = gen_assignment(rng, variables, wild=rng.random() < 0.2)
    sat = rng.random() < 0.85
    refuted = [name_of(v) for v in variables if rng.random() < 0.3]
    bad = rng.random() < 0.5
    replies = []

    def responder(i, text):
        rep = java_reply(m, text, asg if sat else None, refuted) or "s UNSATISFIABLE\n"
        if bad:
            rep = mutate_reply(rng, rep, max([v.id for v in variables] + [0]) + 1)
        replies.append(rep)
        return rep

    split = rng.randint(0, len(cons))

    def go():
        b = cls(vcont(variables))
        b.add_constraint(cons[:split])
        for c in cons[split:]:
            b.add_constraint(c)
        return b.solve_irrefutably(kcont(keys)) if deduction else b.solve()
    stale_sols(variables)
    with Fakes(responder) as fk:
        with warnings.catch_warnings():
            warnings.simplefilter("ignore")
            out = vlib.guarded(go)
    if out[0] == "ok":
        out = ("ok", ["1" if out[1] is True else "0" if out[1] is False else repr(out[1])] + observe_sol(variables))
    tag = (vars_tok(variables), exprio.show_list(cons), tuple(keys), backend, deduction, split)
    md = model_hist(m, backend, "D" if deduction else "A", variables, keys,
                    [("L", cons[:split])] + [("O", c) for c in cons[split:]])
    if not fk.calls:
        ctx.corr("direct-text-error", tag, md, out)
        return
    ctx.corr("direct-text", tag, md, ("ok", fk.calls[0][2]))
    req = "%s %s %s" % ("PD" if deduction else "PA", vars_tok(variables), hexs(replies[0]))
    ctx.corr("direct-reply-bad" if bad else "direct-reply", (tag, replies[0]), parse_model_res(m.call(req)), out)


def pystr_validation(ctx, m, rng):
    """CPython's int / strip / split / in against their Coq transcriptions (Backend/SugarText.v)."""
    alpha = " \t\n\x0b\x0c\r\x1c\x1f+-_0123456789ab"
    n = 4000 if ctx.thorough else 700
    reqs, exp, kinds = [], [], []
    fixed = ["", " ", "-", "+", "_", "5", "-5", "+5", " 5 ", "5_6", "5__6", "_5", "5_", "007", "0_0", "--5", "+-5", "5-",
             "\x1c5", "5\x1c", "\t5\n", "- 5", "12345678901234567", "-0", "+0"]
    for i in range(n):
        s = fixed[i] if i < len(fixed) else "".join(rng.choice(alpha) for _ in range(rng.randint(0, 6)))
        reqs.append("INT " + hexs(s))
        exp.append(vlib.guarded(lambda: [str(int(s))]))
        kinds.append(("pystr-int", s))
        reqs.append("STRIP " + hexs(s))
        exp.append(("ok", [hexs(s.strip())]))
        kinds.append(("pystr-strip", s))
        c = rng.choice("\t \n")
        reqs.append("SPLIT %d %s" % (ord(c), hexs(s)))
        exp.append(("ok", ["["] + [hexs(x) for x in s.split(c)] + ["]"]))
        kinds.append(("pystr-split", (c, s)))
    for i in range(n // 4):
        s = "".join(rng.choice("unsatUNSATISFIABLE s") for _ in range(rng.randint(0, 16)))
        if rng.random() < 0.3:
            s = s[:rng.randint(0, len(s))] + rng.choice(["unsat", "UNSATISFIABLE"]) + s[rng.randint(0, len(s)):]
        nd = rng.choice(["unsat", "UNSATISFIABLE"])
        reqs.append("IN %s %s" % (hexs(nd), hexs(s)))
        exp.append(("raw", "true" if nd in s else "false"))
        kinds.append(("pystr-in", (nd, s)))
    for z in [0, 1, -1, 9, 10, -10, 99, 100, 12345, -(10 ** 15), 10 ** 15] + [rng.randint(-10 ** 9, 10 ** 9) for _ in range(60)]:
        reqs.append("PZ %d" % z)
        exp.append(("ok", [hexs(str(z))]))
        kinds.append(("pystr-str", z))
    outs = m.batch(reqs)
    for o, e, (k, inp) in zip(outs, exp, kinds):
        mo = ("raw", o) if e[0] == "raw" else parse_model_res(o)
        ctx.corr(k, inp, mo, e)


# ------------------------------------------------------------------ search (property vs implementation)

def expected_decl(v):
    from cspuz.expr import BoolVar
    if isinstance(v, BoolVar):
        return "b:" + hexs("b%d" % v.id)
    return "i:%s:%d:%d" % (hexs("i%d" % v.id), v.lo, v.hi)


def check_text_property(ctx, m, rng, variables, keys, cons, text, deduction, where, ptag, more=None):
    """the emitted text, read by the reference parser, declares exactly the variables, names exactly the
    keys and denotes exactly the posted constraints (`cons` = everything posted up to this description)."""
    more = more or {}
    r = m.call("JL " + hexs(text)).split()
    ctx.prop_case("text-read", (ptag, deduction, more.get("call", 0)))
    if r[0] != "OK":
        ctx.violation("unreadable:" + where, "the emitted description is not a sequence of S-expressions",
                      dict({"program": ptag, "text": text}, **more))
        return False

    def take(i):
        assert r[i] == "["
        j = r.index("]", i)
        return r[i + 1:j], j + 1
    i = r.index("I") + 1
    ints, i = take(i)
    bools, i = take(i + 1)
    if r[i + 1] == "NULL":
        jkeys, i = None, i + 2
    else:
        jkeys, i = take(i + 1)
    decls, i = take(i + 1)
    nc = int(r[i + 1])
    ok = True
    want_decls = [expected_decl(v) for v in variables]
    if decls != want_decls:
        ok = False
        ctx.violation("decls:" + where, "declarations in the text differ from the Solver's variables",
                      dict({"program": ptag, "text": text, "declared": decls, "expected": want_decls}, **more))
    want_keys = [hexs(name_of(v)) for v, k in zip(variables, keys) if k] if deduction else None
    got_keys = None if jkeys is None else [k for k in jkeys if k != "-"]
    if got_keys != want_keys:
        ok = False
        ctx.violation("keys:" + where, "answer keys named in the text differ from the registered ones",
                      dict({"program": ptag, "text": text,
                            "named": None if got_keys is None else [unhex(k) for k in got_keys],
                            "expected": None if want_keys is None else [unhex(k) for k in want_keys]}, **more))
    if nc != len(cons):
        ctx.violation("count:" + where, "number of constraints in the text differs from the number posted",
                      dict({"program": ptag, "text": text, "in_text": nc, "posted": len(cons),
                            "posted_constraints": [exprio.show(c) for c in cons]}, **more))
        return False
    for _ in range(4 if not ctx.thorough else 8):
        asg = gen_assignment(rng, variables, wild=True)
        sem = m.call("SEMD %s %s" % (hexs(text), pairs_tok(asg))).split()
        ev = m.call("EVAL %s %s" % (pairs_tok(asg), exprio.show_list(cons))).split()
        ctx.prop_case("denote", (ptag, more.get("call", 0), tuple(asg.items())))
        if sem != ev:
            bad = [k for k in range(len(cons)) if k + 1 < len(sem) and k + 1 < len(ev) and sem[k + 1] != ev[k + 1]]
            k = bad[0] if bad else 0
            c = cons[k]
            root = getattr(getattr(c, "op", None), "name", type(c).__name__)
            ctx.violation("denote:%s:%s" % (where, root),
                          "a posted constraint and its emitted text mean different things under an assignment",
                          dict({"constraint": exprio.show(c), "text_line": text.split("\n")[len(variables) + k],
                                "assignment": {a: b for a, b in asg.items()},
                                "meaning_of_text": sem[k + 1] if k + 1 < len(sem) else sem,
                                "meaning_of_tree": ev[k + 1] if k + 1 < len(ev) else ev}, **more))
            return False
    return ok


def check_reply_property(ctx, rec):
    """python_parse(format(env)) == env, with the right types, on the right variables."""
    out, asg, refuted, deduction = rec["out"], rec["asg"], rec["refuted"], rec["deduction"]
    variables, keys = rec["variables"], rec["keys"]
    ctx.prop_case("reply-reflected", (rec["tag"], rec["backend"], deduction, repr(asg), tuple(refuted)))
    where = "%s:%s" % (rec["backend"], "solve" if deduction else "find_answer")
    if asg is None:
        want = ("ok", ["0"] + ["N"] * len(variables))
    elif deduction:
        want = ("ok", ["1"] + [val_tok(asg[name_of(v)]) if (k and name_of(v) not in refuted) else "N"
                               for v, k in zip(variables, keys)])
    else:
        want = ("ok", ["1"] + [val_tok(asg[name_of(v)]) for v in variables])
    if out != want:
        ctx.violation("reply:" + where, "a well-formed reply is not reflected into the sol fields",
                      {("program" if rec.get("is_state", True) else "backend_object"): rec["tag"],
                       "assignment": asg, "refuted": refuted, "expected": want, "observed": out})


# ---- reference solver behind the fake entry points (search only) -------------------------------------
# It reads the description it is handed with the reference Sugar parser (JL / SEMD of the runner), enumerates
# the declared domains and answers in the protocol of CspuzSugarInterface.run() (JR).  With it the real
# Solver.find_answer / Solver.solve are run end to end, histories included, and what they report is compared
# with enumeration over the Solver's own variables and posted trees (EVAL).

ENUM_LIMIT = 600


def _cmdline():
    from cspuz.configuration import config
    return ("run_subprocess", [config.backend_path or "sugar", "/dev/stdin"])


# which external solver each backend name stands for (docstring of cspuz.configuration.Config)
ENTRY_SPEC = {
    "sugar": _cmdline, "sugar_extended": _cmdline,
    "csugar": lambda: ("pycsugar.solver", None),
    "enigma_csp": lambda: ("enigma_csp.solver", None),
    "cspuz_core": lambda: ("cspuz_core.solver", None),
}


class RefUnreadable(Exception):
    pass


def _product(doms):
    import itertools
    return itertools.product(*doms)


def text_models(m, text):
    """(names, keys | None, list of models) of a description; a model is a tuple of (name, token)."""
    r = m.call("JL " + hexs(text)).split()
    if r[0] != "OK":
        raise RefUnreadable("not a CSP description")
    i = r.index("K") + 1
    if r[i] == "NULL":
        keys = None
        i += 1
    else:
        j = r.index("]", i)
        keys = [unhex(k) for k in r[i + 1:j] if k != "-"]
        i = j + 1
    j = r.index("]", i + 1)
    names, doms, total = [], [], 1
    for d in r[i + 2:j]:
        f = d.split(":")
        if f[0] == "b":
            names.append(unhex(f[1]))
            doms.append([True, False])
        elif f[0] == "i":
            names.append(unhex(f[1]))
            doms.append(list(range(int(f[2]), int(f[3]) + 1)))
        else:
            raise RefUnreadable("undecodable declaration")
        total *= len(doms[-1])
    if any((not n) or any(c in n for c in " =\t[]") for n in names) or len(set(names)) != len(names):
        raise RefUnreadable("odd variable names %r" % names)
    if total > 4 * ENUM_LIMIT:
        raise RefUnreadable("domains too large to enumerate")
    models = []
    h = hexs(text)
    for vals in _product(doms):
        asg = dict(zip(names, vals))
        sem = m.call("SEMD %s %s" % (h, pairs_tok(asg))).split()
        if sem[0] == "OK" and all(x == "T" for x in sem[1:]):
            models.append(tuple((n, val_tok(v)) for n, v in asg.items()))
    return names, keys, models


def tree_models(m, variables, cons):
    """models of the posted trees over the Solver's declared domains, by enumeration"""
    from cspuz.expr import BoolVar
    names = [name_of(v) for v in variables]
    doms = [[True, False] if isinstance(v, BoolVar) else list(range(v.lo, v.hi + 1)) for v in variables]
    lst = exprio.show_list(cons)
    models = []
    for vals in _product(doms):
        asg = dict(zip(names, vals))
        ev = m.call("EVAL %s %s" % (pairs_tok(asg), lst)).split()
        if ev[0] == "OK" and all(x == "T" for x in ev[1:]):
            models.append(tuple((n, val_tok(v)) for n, v in asg.items()))
    return models


class RefSolver:
    def __init__(self, m, pick, bound):
        self.m, self.pick, self.bound = m, pick, bound
        self.log = []

    def choose(self, models, i):
        if self.pick == "first":
            return models[0]
        if self.pick == "last":
            return models[-1]
        return models[(7 * i + 3) % len(models)]

    def respond(self, i, text):
        if i > self.bound:
            raise RuntimeError("the loop did not end after %d calls of a correct solver" % i)
        entry = {"text": text, "models": None, "chosen": None}
        self.log.append(entry)
        names, keys, models = text_models(self.m, text)
        entry["models"] = models
        if not models:
            rep = java_reply(self.m, text, None)
        else:
            ch = self.choose(models, i)
            entry["chosen"] = ch
            asg = {n: (True if t == "T" else False if t == "F" else int(t[1:])) for n, t in ch}
            refuted = []
            if keys is not None:
                pos = {n: k for k, (n, _) in enumerate(ch)}
                for kname in keys:
                    if kname not in pos:
                        raise RefUnreadable("answer key %r is not declared" % kname)
                    if any(mod[pos[kname]] != ch[pos[kname]] for mod in models):
                        refuted.append(kname)
            rep = java_reply(self.m, text, asg, refuted)
        if rep is None:
            raise RefUnreadable("run() cannot print the reply")
        return rep


def expected_report(variables, keys, models, deduction):
    """what find_answer / solve must report when the external solver is correct (C01 / C02)"""
    if not models:
        return ("exact", ("ok", ["0"] + ["N"] * len(variables)))
    if not deduction:
        return ("member", models)
    sols = []
    for k, (v, key) in enumerate(zip(variables, keys)):
        vals = set(mod[k][1] for mod in models)
        sols.append(vals.pop() if key and len(vals) == 1 else "N")
    return ("exact", ("ok", ["1"] + sols))


def report_ok(out, exp, variables):
    if exp[0] == "exact":
        return out == exp[1]
    if out[0] != "ok" or out[1][0] != "1" or len(out[1]) != len(variables) + 1:
        return False
    return tuple((name_of(v), t) for v, t in zip(variables, out[1][1:])) in set(exp[1])


def ref_flow(ctx, m, rng, flow, solver=None, history=None):
    """one call of the real Solver API with the reference solver behind the backend; flow is a replayable
    recipe {program, backend, api, pick, form, stale}."""
    if solver is None:
        solver = solver_of_state(flow["program"])
    backend, api = flow["backend"], flow["api"]
    deduction = api == "solve"
    variables, keys, cons = solver.variables, list(solver.is_answer_key), list(solver.constraints)
    ptag = exprio.show_state(solver)
    where = ("history:" if history else "") + "%s:%s" % (backend, api)
    recipe = history or flow
    M = tree_models(m, variables, cons)
    ref = RefSolver(m, flow.get("pick", "first"), 2 * len(variables) + 6)
    from cspuz.configuration import config
    saved_path, saved_timeout = config.backend_path, config.solver_timeout
    if "backend_path" in flow:
        config.backend_path = flow["backend_path"]
    if "solver_timeout" in flow:
        config.solver_timeout = flow["solver_timeout"]
    try:
        out, calls, posted = run_solver_flow(ctx, m, solver, backend, deduction, ref.respond,
                                             form=flow.get("form", "name"), stale=flow.get("stale", True))
        want_entry = ENTRY_SPEC[backend]()
    finally:
        config.backend_path, config.solver_timeout = saved_path, saved_timeout
    for ci, (ent, args, text) in enumerate(calls):
        if (ent, args) != want_entry:
            ctx.violation("entry:" + where, "the description was not handed to the external solver this backend names",
                          {"program": ptag, "call": ci, "expected": want_entry, "observed": (ent, args), "flow": recipe})
    ctx.prop_case("ref-" + api, (ptag, backend, flow.get("pick"), flow.get("form"), bool(history)))
    ctx.count("ref:%s:%s:%s" % (api, "unsat" if not M else "sat",
                                "loop%d" % min(len(calls), 4) if deduction and backend == "sugar" else "native"))
    exp = expected_report(variables, keys, M, deduction)
    if not report_ok(out, exp, variables):
        ctx.violation("facts:" + where,
                      "with a correct external solver behind the backend, what the Solver reports differs from "
                      "enumeration of its program",
                      {"program": ptag, "expected": exp[1] if exp[0] == "exact" else {"one_of_models": list(exp[1])[:8]},
                       "observed": out, "descriptions": [c[2] for c in calls][:6],
                       "solver_saw_models": [len(e["models"]) if e["models"] is not None else None for e in ref.log][:8],
                       "flow": recipe})
    # every description (the first one and each one of the refinement loop) = the full constraint set
    for ci, (ent, args, text) in enumerate(calls):
        flat = flat_posted(posted[ci] if ci < len(posted) else [])
        w = where + (":loop" if ci else "")
        more = {"call": ci, "posted_by_loop": [exprio.show(c) for c in flat], "flow": recipe}
        native = deduction and backend != "sugar"
        if not check_text_property(ctx, m, rng, variables, keys, cons + flat, text, native, w, ptag, more):
            continue
        Mi = tree_models(m, variables, cons + flat) if flat else M
        Ti = ref.log[ci]["models"] if ci < len(ref.log) else None
        ctx.prop_case("models", (ptag, backend, api, ci))
        if Ti is not None and set(Ti) != set(Mi):
            only_text = sorted(set(Ti) - set(Mi))[:3]
            only_tree = sorted(set(Mi) - set(Ti))[:3]
            ctx.violation("models:" + w, "the models of the emitted description are not the models of the posted "
                          "constraints (exhaustive over the declared domains)",
                          dict({"program": ptag, "text": text, "models_of_text_only": only_text,
                                "models_of_program_only": only_tree}, **more))
    return out


def ref_history(ctx, m, rng, recipe):
    """class 3 at the Solver level with the reference solver: calls, Solver.ensure / add_answer_key in
    between, calls again; every report is compared with enumeration of the program as it is then."""
    solver = solver_of_state(recipe["program"])
    called = False
    for st in recipe["steps"]:
        if "ensure" in st:
            es = [exprio.parse(x, solver.variables) for x in st["ensure"]]
            if st.get("as_list"):
                solver.ensure(es)
            else:
                for e in es:
                    solver.ensure(e)
        elif "add_key" in st:
            solver.add_answer_key(solver.variables[st["add_key"]])
        else:
            ref_flow(ctx, m, rng, dict(st, stale=not called and st.get("stale", False)), solver=solver, history=recipe)
            called = True


def gen_small_program(rng):
    """a program small enough for enumeration: 1-4 variables, domains of 1-4 values placed at 0, below -5,
    around 256 and far out (class 2; all bounds and literals are run-time ints), constraints built with the
    public operators and with the grammar generator, chosen so that several models usually remain."""
    from cspuz import Solver, alldifferent, count_true
    from cspuz.expr import BoolExpr, IntExpr, Op
    s = Solver()
    nv = rng.choice([1, 2, 2, 3, 3, 3, 4])
    base = rng.choice([0, 0, 0, 1, -2, -7, -6, 254, 255, 256, 1000, -300, 65535])
    bvars, ivars, lits, total = [], [], [0, 1, 2], 1
    for _ in range(nv):
        if rng.random() < 0.45:
            bvars.append(s.bool_var())
            total *= 2
        else:
            lo = base + rng.choice([0, 0, 0, 1, -1]) if rng.random() < 0.8 else rng.choice([0, -6, 255, 4095])
            w = rng.choice([1, 2, 2, 3, 3, 4])
            if total * w > ENUM_LIMIT // 4:
                w = 1
            ivars.append(s.int_var(fresh(lo), fresh(lo + w - 1)))
            total *= w
            lits += list(range(lo - 1, lo + w + 1))
    g = Gen(rng, bvars, ivars, lits=lits)

    def iv():
        return rng.choice(ivars) if ivars and rng.random() < 0.8 else g.int_lit()

    def bv():
        return rng.choice(bvars) if bvars and rng.random() < 0.8 else (rng.random() < 0.5)
    for _ in range(rng.choice([0, 1, 1, 2, 2, 3])):
        t = rng.randrange(12)
        if t < 4 or not (ivars or bvars):
            c = g.gbool(rng.choice([0, 1, 1, 2, 2, 3]))
        elif t == 4 and ivars:
            c = rng.choice(ivars) != g.int_lit()
        elif t == 5 and ivars:
            c = iv() + iv() <= g.int_lit() + g.int_lit()
        elif t == 6 and bvars:
            x = rng.choice(bvars)
            c = x.then(iv() == iv()) if rng.random() < 0.5 else (x == (iv() < iv()))
        elif t == 7 and bvars:
            c = (bv() | bv()) if rng.random() < 0.5 else ~(rng.choice(bvars) & bv())
        elif t == 8 and len(ivars) >= 2:
            c = alldifferent(ivars)
        elif t == 9 and bvars:
            c = count_true(bvars) == fresh(rng.randint(0, len(bvars)))
        elif t == 10 and ivars:
            x = rng.choice(ivars)
            c = x == fresh(rng.randint(x.lo, x.hi))
        else:
            c = g.gbool(2)
        if c is NotImplemented or not isinstance(c, (bool, BoolExpr)):
            c = g.gbool(1)
        s.constraints.append(c)
    mode = rng.random()
    for v in s.variables:
        if mode > 0.2 and (mode > 0.7 or rng.random() < 0.6):
            s.add_answer_key(v)
    return s


def gen_more_constraints(rng, solver):
    """strings of the constraints a history posts between two calls: sometimes a contradiction (sat, then
    unsat), sometimes constraints that keep some models"""
    from cspuz.expr import BoolVar
    bvars = [v for v in solver.variables if isinstance(v, BoolVar)]
    ivars = [v for v in solver.variables if not isinstance(v, BoolVar)]
    lits = [0, 1]
    for v in ivars:
        lits += list(range(v.lo - 1, v.hi + 2))
    g = Gen(rng, bvars, ivars, lits=lits)
    k = rng.random()
    if k < 0.35:
        opts = ["F", "( B BOOL_CONSTANT F )", "( B OR )"]
        if bvars:
            b = exprio.show(rng.choice(bvars))
            opts += ["( B AND %s ( B NOT %s ) )" % (b, b), "( B XOR %s %s )" % (b, b)]
        if ivars:
            v = rng.choice(ivars)
            x = exprio.show(v)
            opts += ["( B NE %s %s )" % (x, x), "( B EQ %s #%d )" % (x, v.hi + 1), "( B LT %s #%d )" % (x, v.lo)]
        return [rng.choice(opts)]
    return [exprio.show(g.gbool(rng.choice([0, 1, 2]))) for _ in range(rng.choice([0, 1, 1, 2]))]


def search(ctx):
    m = ctx.model("C03")
    rng = ctx.rng
    recs = getattr(ctx, "_c03", [])
    seen = set()

    def from_material(which):
        for rec in recs:
            if rec.get("is_state", True) != which:
                continue
            if not rec.get("no_reply"):
                check_reply_property(ctx, rec)
            key = (rec["tag"], rec["deduction"])
            if key in seen:
                continue
            seen.add(key)
            where = "%s:%s" % (rec["backend"], "solve" if rec["deduction"] else "find_answer")
            check_text_property(ctx, m, rng, rec["variables"], rec["keys"], rec["cons"], rec["text"], rec["deduction"],
                                where, rec["tag"], None if which else {"backend_object": True})
    from_material(True)  # runs through the Solver API first: the first violations reported are user-level ones
    # the descriptions of the refinement loop of Solver.solve(backend="sugar") recorded by correspond
    # (canned answers, programs of every size): each one must denote Solver.constraints + the clauses so far
    for rec in getattr(ctx, "_c03_loops", []):
        if (rec["tag"], "loop") in seen:
            continue
        seen.add((rec["tag"], "loop"))
        for ci, text in enumerate(rec["texts"][:4]):
            flat = rec["posted"][ci] if ci < len(rec["posted"]) else []
            check_text_property(ctx, m, rng, rec["variables"], rec["keys"], rec["cons"] + flat, text, False,
                                "sugar:solve" + (":loop" if ci else ""), rec["tag"],
                                {"call": ci, "posted_by_loop": [exprio.show(c) for c in flat], "flow": rec["flow"]})
    # end to end with a reference solver: small programs, all five backends, both APIs, every way of naming
    # the backend; the plain `sugar` deduction route (several descriptions on one backend object) most often
    n_ref = 900 if ctx.thorough else 260
    if ctx.deep:
        n_ref *= 2
    for k in range(n_ref):
        solver = gen_small_program(rng)
        r = k % 8
        backend = "sugar" if r < 4 else BACKENDS[1 + k % 4]
        api = "find_answer" if r in (3, 7) else "solve"
        flow = {"kind": "ref", "program": exprio.show_state(solver), "backend": backend, "api": api,
                "pick": rng.choice(["first", "last", "rot"]), "form": rng.choice(FORMS), "stale": rng.random() < 0.7}
        if rng.random() < 0.3:
            flow["backend_path"] = rng.choice([None, "", "/opt/sugar/bin/sugar", "sugar_ext.sh"])
        if rng.random() < 0.15:
            flow["solver_timeout"] = rng.choice([None, 5.0, 0])
        ref_flow(ctx, m, rng, flow)
    n_hist = 300 if ctx.thorough else 90
    if ctx.deep:
        n_hist *= 2
    for k in range(n_hist):
        solver = gen_small_program(rng)
        steps = []

        def a_call():
            return {"backend": rng.choice(BACKENDS), "api": rng.choice(["solve", "solve", "find_answer"]),
                    "pick": rng.choice(["first", "last", "rot"]), "form": rng.choice(FORMS)}
        steps.append(dict(a_call(), stale=rng.random() < 0.5))
        probe = solver_of_state(exprio.show_state(solver))
        for _ in range(rng.choice([1, 1, 2])):
            more = gen_more_constraints(rng, probe)
            steps.append({"ensure": more, "as_list": rng.random() < 0.5})
            rest = [i for i, kf in enumerate(probe.is_answer_key) if not kf]
            if rest and rng.random() < 0.25:
                i = rng.choice(rest)
                probe.is_answer_key[i] = True
                steps.append({"add_key": i})
            steps.append(a_call())
        if rng.random() < 0.3:
            steps.append(dict(steps[-1]))  # the same call once more: nothing changed, same report
        ref_history(ctx, m, rng, {"kind": "ref-history", "program": exprio.show_state(solver), "steps": steps})
    from_material(False)  # backend objects used directly (direct_history: rounds on one object)
    extra = 0
    if ctx.deep or not recs:
        extra = 1500 if ctx.thorough else 500
    for _ in range(extra):
        # correspondence could not deliver material (or something broke): drive the real code directly
        solver = gen_program(rng)
        backend = rng.choice(BACKENDS)
        native = backend != "sugar"
        deduction = native and rng.random() < 0.5
        asg = gen_assignment(rng, solver.variables)
        refuted = [name_of(v) for v in solver.variables if rng.random() < 0.3]
        sat = rng.random() < 0.85

        def responder(i, text):
            return java_reply(m, text, asg if sat else None, refuted) or "s UNSATISFIABLE\n"
        out, calls, _ = run_solver_flow(ctx, m, solver, backend, deduction, responder)
        if not calls:
            ctx.violation("noconv:%s" % backend, "a well-typed program could not be converted", {"program": exprio.show_state(solver), "outcome": out})
            continue
        rec = dict(variables=solver.variables, keys=list(solver.is_answer_key), cons=list(solver.constraints),
                   backend=backend, deduction=deduction, text=calls[0][2], asg=asg if sat else None,
                   refuted=refuted, out=out, tag=exprio.show_state(solver))
        check_reply_property(ctx, rec)
        check_text_property(ctx, m, rng, rec["variables"], rec["keys"], rec["cons"], calls[0][2], deduction,
                            "%s:%s" % (backend, "solve" if deduction else "find_answer"), rec["tag"])


def canned_loop(ctx, m, rng, flow):
    """replay of a recorded Solver.solve(backend="sugar") run with canned answers: every description of the
    loop against the constraints posted so far"""
    solver = solver_of_state(flow["program"])
    plan = list(flow.get("plan", []))

    def responder(i, text):
        if i > 8:
            raise RuntimeError("more than 9 solver calls for a 3-answer plan")
        cur = plan[i] if i < len(plan) and i < 2 else None
        return java_reply(m, text, cur) or "s UNSATISFIABLE\n"
    cons = list(solver.constraints)
    out, calls, posted = run_solver_flow(ctx, m, solver, "sugar", True, responder)
    for ci, (ent, args, text) in enumerate(calls[:4]):
        flat = flat_posted(posted[ci] if ci < len(posted) else [])
        check_text_property(ctx, m, rng, solver.variables, list(solver.is_answer_key), cons + flat, text, False,
                            "sugar:solve" + (":loop" if ci else ""), flow["program"], {"call": ci})
    return out, calls


def solver_of_state(text):
    """rebuild a Solver from the exprio state syntax  V [ decls ] K [ flags ] C [ exprs ]"""
    from cspuz import Solver
    t = text.split()
    i = t.index("V") + 2
    s = Solver()
    while t[i] != "]":
        if t[i] == "b":
            s.bool_var()
        else:
            _, lo, hi = t[i].split(":")
            s.int_var(int(lo), int(hi))
        i += 1
    i = t.index("K", i) + 2
    flags = []
    while t[i] != "]":
        flags.append(t[i] == "1")
        i += 1
    s.is_answer_key = flags
    i = t.index("C", i) + 2
    depth, cur = 0, []
    while i < len(t) - 1 or depth:
        tok = t[i]
        if tok == "]" and depth == 0:
            break
        cur.append(tok)
        if tok == "(":
            depth += 1
        elif tok == ")":
            depth -= 1
        if depth == 0:
            s.constraints.append(exprio.parse(" ".join(cur), s.variables))
            cur = []
        i += 1
    return s


def replay(ctx, rp):
    print(rp)
    viol = rp.get("violation", {})
    v = viol.get("detail", {})
    m = ctx.model("C03")
    try:
        flow = v.get("flow") if isinstance(v, dict) else None
        if isinstance(flow, dict) and flow.get("kind") in ("ref", "ref-history", "canned-loop"):
            if flow["kind"] == "ref":
                print("outcome:", ref_flow(ctx, m, ctx.rng, flow))
            elif flow["kind"] == "ref-history":
                ref_history(ctx, m, ctx.rng, flow)
            else:
                out, calls = canned_loop(ctx, m, ctx.rng, flow)
                print("outcome:", out)
                for c in calls:
                    print("description handed to the solver:\n" + c[2] + "\n--")
            for x in ctx.violations:
                print("VIOLATION reproduced:", x["key"], x["what"], x["detail"])
            return 1 if ctx.violations else 0
        if "constraint" in v:
            import cspuz.backend.sugar_like as sl
            e = exprio.parse(v["constraint"])
            text = sl._convert_expr(e)
            asg = v["assignment"]
            sem = m.call("SEMT %s %s" % (hexs(text), pairs_tok(asg)))
            ev = m.call("EVAL %s %s" % (pairs_tok(asg), exprio.show_list([e])))
            print("text:", text, " meaning of text:", sem, " meaning of tree:", ev)
            return 1 if sem.split()[1:] != ev.split()[1:] else 0
        if "program" in v:
            parts = viol.get("key", "").split(":")
            backend = parts[1] if len(parts) > 2 and parts[1] in BACKENDS else "cspuz_core"
            deduction = len(parts) > 2 and parts[2] == "solve"
            solver = solver_of_state(v["program"])
            asg = v.get("assignment") or gen_assignment(ctx.rng, solver.variables)
            refuted = v.get("refuted", [])
            sat = "assignment" not in v or v.get("assignment") is not None

            def responder(i, text):
                return java_reply(m, text, asg if sat else None, refuted) or "s UNSATISFIABLE\n"
            out, calls, _ = run_solver_flow(ctx, m, solver, backend, deduction and backend != "sugar", responder)
            print("outcome:", out)
            if calls:
                print("text handed to the solver:\n" + calls[0][2])
                rec = dict(variables=solver.variables, keys=list(solver.is_answer_key), cons=list(solver.constraints),
                           backend=backend, deduction=deduction, text=calls[0][2],
                           asg=asg if sat else None, refuted=refuted, out=out, tag=v["program"])
                check_reply_property(ctx, rec)
                check_text_property(ctx, m, ctx.rng, rec["variables"], rec["keys"], rec["cons"], calls[0][2],
                                    deduction and backend != "sugar", "replay", v["program"])
            for x in ctx.violations:
                print("VIOLATION reproduced:", x["what"], x["detail"])
            return 1 if ctx.violations or not calls else 0
    finally:
        m.close()
    return 1 if v else 0
