"""C11 Tier 1 tie (P): the program captured from the real solve_<p> must be, node for node, the program of
the Coq model solve_<p>_model - declarations and answer keys exactly, constraints as a multiset (the
theorems speak about `satisfies` = conjunction of all constraints, which does not depend on their order) (plug-in attribute TIER1 = (CoqModule, function),
generator tier1_problems(tier, rng))."""
import random

import exprio
import vlib

ERR = {1: "IndexError", 2: "KeyError", 3: "AssertionError", 4: "TypeError", 5: "ValueError",
       6: "RecursionError", 7: "NotImplementedError", 8: "Other"}


def _norm(st):
    import graphcap
    head, cons = graphcap.norm_state(st)
    return head + " C " + " ".join(cons)


def correspond(ctx):
    import c11lib as L
    import pC11
    plugs = [p for p in pC11._plugs(ctx) if getattr(p, "TIER1", None)]
    if not plugs:
        return
    m = ctx.model("C11")
    for p in plugs:
        rng = random.Random("%s/%s/t1" % (ctx.seed, p.NAME))
        for pb in p.tier1_problems(ctx.tier, rng):
            tok = L.pb_tokens(p.encode(pb))
            rep = m.call("M %s %s" % (p.NAME, tok))
            if rep.startswith("OK "):
                mo = ("ok", _norm(rep[3:]))
            elif rep.startswith("E "):
                mo = ("err", ERR[int(rep.split()[1])])
            else:
                mo = ("runner", rep)
            r, insts = L.run_recorded(p, pb, "capture")
            if r[0] == "err":
                io = ("err", r[1])
            elif len(insts) != 1:
                io = ("harness", "%d solvers" % len(insts))
            else:
                io = ("ok", _norm(exprio.show_state(insts[0])))
            ctx.corr("program:" + p.NAME, tok, mo, io)
